import Whv.Driver.Util
import Whv.Model.Supervisor
/-!
Driver family `supervisor` (C18).

Part (i) — deterministic differential run (`harness/supervisor/sim_verif_test.go`).  One case = one
supervisor; every line carries the operation, what the real code answered, and a full dump afterwards:

* `reset <id> init=<ns> max=<ns> pert=<bool> <dump>`
* `sched <id> dn=<dn> fab=0|1 res=ok|panic <dump>`            — `processSchedule`
* `died <id> dn=<dn> e=nil|ctx|other fab=0|1 res=ok|panic <dump>` — `processDied`
* `gc <id> res=ok|panic resets=<dn,..|-> <dump>`              — `processGC`
* `kill <id> res=ok <dump>`                                    — `processKill`
* `sig <id> iid=<n> s=0|1 res=ok|panic <dump>`                 — `Signal` from a running instance
* `run <id> iid=<n> names=<a,b|-> res=ok|err|panic <dump>`     — `RunGroup` from a running instance
* `ret <id> iid=<n> how=<..> e=nil|ctx|other res=ok <dump>`    — the runnable returns / panics
* `set|cancel|mark <id> dn=<dn> ..`                            — perturbations (direct field writes)
* `end <id>`
* `<dump>` = `tree=<dn/state/cancelled/bo/groups;..> new=<S:dn|D:dn:kind,..|-> live=<iid:dn:cancelled,..|->`

Part (ii) — traces of the real supervisor: see `Whv.Driver.SupFam.Trace` below.
-/
namespace Whv.Driver.SupFam
open Whv Whv.Driver Whv.Sup

def parseDN (s : String) : Option DN :=
  match s.splitOn "." with
  | "root" :: rest => some rest
  | _ => none

def showDN (d : DN) : String := ".".intercalate ("root" :: d)

def sortStr (l : List String) : List String := (l.toArray.qsort (· < ·)).toList

def stateNum : NState → Nat
  | .new => 0 | .healthy => 1 | .dead => 2 | .done => 3 | .canceled => 4

def numState : Nat → Option NState
  | 0 => some .new | 1 => some .healthy | 2 => some .dead | 3 => some .done | 4 => some .canceled | _ => none

def showGroup (g : List String) : String := if g.isEmpty then "~" else ",".intercalate (sortStr g)

def showNode (n : Node) : String :=
  let gs := if n.groups.isEmpty then "-" else "|".intercalate (n.groups.map showGroup)
  s!"{showDN n.dn}/{stateNum n.state}/{if n.cancelled then 1 else 0}/{n.bo}/{gs}"

def showKind : ErrKind → String
  | .nil => "nil" | .ctx => "ctx" | .other => "other"

def parseKind : String → Option ErrKind
  | "nil" => some .nil | "ctx" => some .ctx | "other" => some .other | _ => none

def showReq : Req → String
  | .sched d => s!"S:{showDN d}"
  | .died d e => s!"D:{showDN d}:{showKind e}"

def joinOrDash (sep : String) (l : List String) : String := if l.isEmpty then "-" else sep.intercalate l

def showDump (s : Sys) (new : List Req) : String :=
  let tree := ";".intercalate (sortStr (s.tree.map showNode))
  let nw := joinOrDash "," (sortStr (new.map showReq))
  let lv := joinOrDash "," (s.live.map fun i => s!"{i.iid}:{showDN i.dn}:{if instCancelled s.tree i then 1 else 0}")
  s!"tree={tree} new={nw} live={lv}"

def parseNames (s : String) : List String :=
  if s = "-" then [] else (s.splitOn ",").map fun x => if x = "~" then "" else x

/-- Result of replaying one harness operation on the model: new state, requests it created, result word,
extra `k=v` the line must carry. -/
structure Out where
  sys : Sys
  new : List Req := []
  res : String := "ok"
  extra : List (String × String) := []

def dupLive (s : Sys) : Option DN :=
  let rec go : List Inst → Option DN
    | [] => none
    | i :: rest => if rest.any (fun j => j.dn = i.dn) then some i.dn else go rest
  go s.live

/-- Replay one operation of part (i) on the model. `Except String` = the line is not replayable. -/
def simOp (P : Params) (fixed : Bool) (s : Sys) (op : String) (fs : List String) : Except String Out := do
  let getDN : Except String DN := match kv fs "dn" >>= parseDN with | some d => pure d | none => throw "no dn"
  let getInst : Except String Inst :=
    match kvNat fs "iid" with
    | none => throw "no iid"
    | some iid => match s.live.find? (fun i => i.iid = iid) with
      | some i => pure i
      | none => throw s!"model has no live instance {iid}"
  -- a panic inside Signal / RunGroup unwinds the runnable; when it came from `nodeByDN` inside `fromContext`
  -- the supervisor mutex is never released
  let unwound (i : Inst) (p : Panic) : Out :=
    { sys := { s with live := s.live.erase i, pend := s.pend ++ [.died i.dn .other] }, new := [.died i.dn .other], res := "panic",
      extra := [("lk", if p = .nodeByDN then "1" else "0")] }
  match op with
  | "sched" =>
    let dn ← getDN
    let fab := kvNat fs "fab" == some 1
    if !fab && Req.sched dn ∉ s.pend then throw s!"model has no pending schedule request for {showDN dn}"
    let pend := if fab then s.pend else s.pend.erase (.sched dn)
    match find s.tree dn with
    | none => pure { sys := { s with pend := pend }, res := "panic" }
    | some n => pure { sys := { s with pend := pend, live := s.live ++ [{ iid := s.nextIid, dn := dn, inc := n.inc }], nextIid := s.nextIid + 1 } }
  | "died" =>
    let dn ← getDN
    let e ← match kv fs "e" >>= parseKind with | some e => pure e | none => throw "no e"
    let fab := kvNat fs "fab" == some 1
    if !fab && Req.died dn e ∉ s.pend then throw s!"model has no pending died request for {showDN dn}"
    let pend := if fab then s.pend else s.pend.erase (.died dn e)
    match processDied s.tree dn e with
    | .error _ => pure { sys := { s with pend := pend }, res := "panic" }
    | .ok t => pure { sys := { s with pend := pend, tree := t } }
  | "gc" =>
    let (t, rs) := processGC P fixed s.tree s.nextInc
    let new := rs.map fun r => Req.sched r.1
    pure { sys := { s with tree := t, pend := s.pend ++ new, nextInc := s.nextInc + 1 }, new := new,
           extra := [("resets", joinOrDash "," (sortStr (rs.map fun r => showDN r.1)))] }
  | "kill" => pure { sys := { s with tree := processKill s.tree, killed := true } }
  | "sig" =>
    let i ← getInst
    let sg ← match kvNat fs "s" with | some 0 => pure Signal.healthy | some 1 => pure Signal.done | _ => throw "bad s"
    match signal P s.tree i.dn sg with
    | .ok t => pure { sys := { s with tree := t } }
    | .error p => pure (unwound i p)
  | "run" =>
    let i ← getInst
    let names := parseNames ((kv fs "names").getD "-")
    match runGroup P s.tree i.dn names s.nextInc with
    | .ok (some t) =>
      let new := names.map fun nm => Req.sched (i.dn ++ [nm])
      pure { sys := { s with tree := t, pend := s.pend ++ new, nextInc := s.nextInc + 1 }, new := new }
    | .ok none => pure { sys := s, res := "err" }
    | .error p => pure (unwound i p)
  | "ret" =>
    let i ← getInst
    let e ← match kv fs "e" >>= parseKind with | some e => pure e | none => throw "no e"
    pure { sys := { s with live := s.live.erase i, pend := s.pend ++ [.died i.dn e] }, new := [.died i.dn e] }
  | "set" =>
    let dn ← getDN
    let st ← match kvNat fs "st" >>= numState with | some st => pure st | none => throw "bad st"
    let t := modify s.tree dn fun n => { n with state := st }
    let t := if st = .dead ∨ st = .canceled then cancelSub t dn else t
    pure { sys := { s with tree := t } }
  | "cancel" =>
    let dn ← getDN
    pure { sys := { s with tree := cancelSub s.tree dn } }
  | "mark" =>
    let dn ← getDN
    pure { sys := { s with tree := modify s.tree dn fun n => { n with exited := true } } }
  | _ => throw s!"unknown op {op}"

structure CaseSt where
  id : String := ""
  P : Params := {}
  sys : Sys := init {}
  pure : Bool := true          -- only genuine actions so far (no perturbation, no fabricated request)
  verdict : Option String := none
  parted : Bool := false       -- model and implementation disagreed earlier in this case
  ops : Nat := 0

structure St where
  cur : CaseSt := {}
  cases : Nat := 0
  ops : Nat := 0
  gcResets : Nat := 0
  panics : Nat := 0

def fixedModel : Bool := true

def setVerdict (c : CaseSt) (v : String) : CaseSt :=
  match c.verdict with
  | some w => if w.startsWith "diff" && v.startsWith "spec" then { c with verdict := some v } else c
  | none => { c with verdict := some v }

def simLine (st : St) (op : String) (id : String) (fs : List String) (line : String) : St × List String :=
  if op = "reset" then
    let P : Params := { initial := (kvNat fs "init").getD 0, max := (kvNat fs "max").getD 0 }
    let sys := init P
    let c : CaseSt := { id := id, P := P, sys := sys, pure := (kv fs "pert") == some "false" }
    -- the harness puts the first schedule request straight into its pending list
    let exp := showDump sys []
    let c := if line.endsWith exp then c else { setVerdict c s!"diff {id} initial dump: model [{exp}] line [{line}]" with parted := true }
    ({ st with cur := c, cases := st.cases + 1 }, [])
  else if op = "end" then
    let v := match st.cur.verdict with | some v => v | none => s!"ok {id}"
    (st, [v])
  else if op = "bad" then
    ({ st with cur := setVerdict st.cur s!"diff {id} harness: {(kv fs "why").getD "?"}" }, [])
  else
    let c := st.cur
    let c := { c with ops := c.ops + 1, pure := c.pure && kvNat fs "fab" != some 1 && op != "set" && op != "cancel" && op != "mark" }
    -- Spec evaluated on the implementation's own report (also after model and implementation have parted):
    -- two goroutines of one dn alive at once / the supervisor mutex leaked, in a sequence of genuine actions only
    let implLive := ((kv fs "live").getD "-")
    let implDup : Option String :=
      if implLive = "-" then none else
      let dns := (implLive.splitOn ",").map fun e => ((e.splitOn ":").getD 1 "")
      let rec go : List String → Option String
        | [] => none
        | d :: rest => if rest.contains d then some d else go rest
      go dns
    let c := match implDup, c.pure with
      | some d, true => setVerdict c s!"spec {id} two-instances-live two goroutines of {d} are running after op {c.ops} ({op}) of a sequence of genuine supervisor actions"
      | _, _ => c
    let c := if kv fs "lk" == some "1" && c.pure then
        setVerdict c s!"spec {id} supervisor-lock-leaked after op {c.ops} ({op}) the supervisor mutex stays locked (nodeByDN panicked inside fromContext): nothing is ever restarted again"
      else c
    if c.parted then ({ st with cur := c }, []) else
    match simOp c.P fixedModel c.sys op fs with
    | .error e => ({ st with cur := { setVerdict c s!"diff {id} op {c.ops} ({op}): {e}" with parted := true } }, [])
    | .ok o =>
      let st := { st with ops := st.ops + 1, panics := st.panics + (if o.res = "panic" then 1 else 0),
                          gcResets := st.gcResets + (if op = "gc" then o.new.length else 0) }
      let exp := showDump o.sys o.new
      let c := { c with sys := o.sys }
      let okRes := (kv fs "res") == some o.res
      let extra := if o.extra.any (·.1 = "lk") then o.extra else ("lk", "0") :: o.extra
      let okExtra := extra.all fun (k, v) => kv fs k == some v
      let c := if okRes && okExtra && line.endsWith exp then c
               else { setVerdict c s!"diff {id} op {c.ops} ({op}): model res={o.res} {extra} [{exp}] impl [{line}]" with parted := true }
      ({ st with cur := c }, [])

def step (st : St) (line : String) : St × List String :=
  match fields line with
  | op :: id :: fs => simLine st op id fs line
  | _ => (st, [])

def fin (st : St) : List String :=
  [s!"stat sim_cases {st.cases}", s!"stat sim_ops {st.ops}", s!"stat sim_gc_resets {st.gcResets}", s!"stat sim_panics {st.panics}"]

def run (h : IO.FS.Stream) : IO Unit := loop h ({} : St) step fin

end Whv.Driver.SupFam
