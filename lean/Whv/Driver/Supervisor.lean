import Whv.Driver.Util
import Whv.Model.Supervisor
import Std.Data.HashSet
/-!
Driver family `supervisor` (C18).

Part (i) — deterministic differential run (`harness/supervisor/sim_verif_test.go`).  One case = one
supervisor; every line carries the operation, what the real code answered, and a full dump afterwards:

* `reset <id> init=<ns> max=<ns> pert=<bool> pp=0|1 <dump>`   — `pp=1`: the supervisor value has `propagatePanic` set
* `sched <id> dn=<dn> fab=0|1 res=ok|panic <dump>`            — `processSchedule`
* `died <id> dn=<dn> e=nil|ctx|other fab=0|1 res=ok|panic <dump>` — `processDied`
* `gc <id> res=ok|panic resets=<dn,..|-> <dump>`              — `processGC`
* `kill <id> res=ok <dump>`                                    — `processKill`
* `sig <id> iid=<n> s=0|1 res=ok|panic <dump>`                 — `Signal` from a running instance
* `run <id> iid=<n> names=<a,b|-> res=ok|err|panic <dump>`     — `RunGroup` from a running instance
* `ret <id> iid=<n> how=<..> e=nil|ctx|other res=ok <dump>`    — the runnable returns / panics
* `set|cancel|mark <id> dn=<dn> ..`                            — perturbations (direct field writes)
* `end <id>`
* `<dump>` = `tree=<dn/state/cancelled/bo/groups;..> new=<S:dn|D:dn:kind,..|-> live=<iid:dn:cancelled,..|->`

Part (ii) — traces of the real supervisor: see `Whv.Driver.SupFam.Trace` below.
-/
namespace Whv.Driver.SupFam
open Whv Whv.Driver Whv.Sup

def parseDN (s : String) : Option DN :=
  match s.splitOn "." with
  | "root" :: rest => some rest
  | _ => none

def showDN (d : DN) : String := ".".intercalate ("root" :: d)

def sortStr (l : List String) : List String := (l.toArray.qsort (· < ·)).toList

def stateNum : NState → Nat
  | .new => 0 | .healthy => 1 | .dead => 2 | .done => 3 | .canceled => 4

def numState : Nat → Option NState
  | 0 => some .new | 1 => some .healthy | 2 => some .dead | 3 => some .done | 4 => some .canceled | _ => none

def showGroup (g : List String) : String := if g.isEmpty then "~" else ",".intercalate (sortStr g)

def showNode (n : Node) : String :=
  let gs := if n.groups.isEmpty then "-" else "|".intercalate (n.groups.map showGroup)
  s!"{showDN n.dn}/{stateNum n.state}/{if n.cancelled then 1 else 0}/{n.bo}/{gs}"

def showKind : ErrKind → String
  | .nil => "nil" | .ctx => "ctx" | .other => "other"

def parseKind : String → Option ErrKind
  | "nil" => some .nil | "ctx" => some .ctx | "other" => some .other | _ => none

def showReq : Req → String
  | .sched d => s!"S:{showDN d}"
  | .died d e => s!"D:{showDN d}:{showKind e}"

def joinOrDash (sep : String) (l : List String) : String := if l.isEmpty then "-" else sep.intercalate l

def showDump (s : Sys) (new : List Req) : String :=
  let tree := ";".intercalate (sortStr (s.tree.map showNode))
  let nw := joinOrDash "," (sortStr (new.map showReq))
  let lv := joinOrDash "," (s.live.map fun i => s!"{i.iid}:{showDN i.dn}:{if instCancelled s.tree i then 1 else 0}")
  s!"tree={tree} new={nw} live={lv}"

def parseNames (s : String) : List String :=
  if s = "-" then [] else (s.splitOn ",").map fun x => if x = "~" then "" else x

/-- Result of replaying one harness operation on the model: new state, requests it created, result word,
extra `k=v` the line must carry. -/
structure Out where
  sys : Sys
  new : List Req := []
  res : String := "ok"
  extra : List (String × String) := []

def dupLive (s : Sys) : Option DN :=
  let rec go : List Inst → Option DN
    | [] => none
    | i :: rest => if rest.any (fun j => j.dn = i.dn) then some i.dn else go rest
  go s.live

/-- Replay one operation of part (i) on the model. `Except String` = the line is not replayable.
`pp` = the supervisor's `propagatePanic` field: `reportOf pp` says what the goroutine started by `processSchedule`
does once the runnable is over (a return is reported as it is; a panic is reported as `other` with the option off and
ends the process with it on - the harness never makes a runnable panic in that mode, so that is a `diff`). -/
def simOp (P : Params) (fixed : Bool) (pp : Bool) (s : Sys) (op : String) (fs : List String) : Except String Out := do
  let getDN : Except String DN := match kv fs "dn" >>= parseDN with | some d => pure d | none => throw "no dn"
  let getInst : Except String Inst :=
    match kvNat fs "iid" with
    | none => throw "no iid"
    | some iid => match s.live.find? (fun i => i.iid = iid) with
      | some i => pure i
      | none => throw s!"model has no live instance {iid}"
  -- a panic inside Signal / RunGroup unwinds the runnable; when it came from `nodeByDN` inside `fromContext`
  -- the supervisor mutex is never released
  let ended (i : Inst) (x : Exit) (res : String) (extra : List (String × String)) : Except String Out :=
    match reportOf pp x with
    | .died e => pure { sys := { s with live := s.live.erase i, pend := s.pend ++ [.died i.dn e] }, new := [.died i.dn e], res := res, extra := extra }
    | .crash => throw s!"model: the runnable of {showDN i.dn} panics and propagatePanic is set - nothing recovers it, the process ends"
  let unwound (i : Inst) (p : Panic) : Except String Out :=
    ended i .panicked "panic" [("lk", if p = .nodeByDN then "1" else "0")]
  match op with
  | "sched" =>
    let dn ← getDN
    let fab := kvNat fs "fab" == some 1
    if !fab && Req.sched dn ∉ s.pend then throw s!"model has no pending schedule request for {showDN dn}"
    let pend := if fab then s.pend else s.pend.erase (.sched dn)
    match find s.tree dn with
    | none => pure { sys := { s with pend := pend }, res := "panic" }
    | some n => pure { sys := { s with pend := pend, live := s.live ++ [{ iid := s.nextIid, dn := dn, inc := n.inc }], nextIid := s.nextIid + 1 } }
  | "died" =>
    let dn ← getDN
    let e ← match kv fs "e" >>= parseKind with | some e => pure e | none => throw "no e"
    let fab := kvNat fs "fab" == some 1
    if !fab && Req.died dn e ∉ s.pend then throw s!"model has no pending died request for {showDN dn}"
    let pend := if fab then s.pend else s.pend.erase (.died dn e)
    match processDied s.tree dn e with
    | .error _ => pure { sys := { s with pend := pend }, res := "panic" }
    | .ok t => pure { sys := { s with pend := pend, tree := t } }
  | "gc" =>
    let (t, rs) := processGC P fixed s.tree s.nextInc
    let new := rs.map fun r => Req.sched r.1
    pure { sys := { s with tree := t, pend := s.pend ++ new, nextInc := s.nextInc + 1 }, new := new,
           extra := [("resets", joinOrDash "," (sortStr (rs.map fun r => showDN r.1)))] }
  | "kill" => pure { sys := { s with tree := processKill s.tree, killed := true } }
  | "sig" =>
    let i ← getInst
    let sg ← match kvNat fs "s" with | some 0 => pure Signal.healthy | some 1 => pure Signal.done | _ => throw "bad s"
    match signal P s.tree i.dn sg with
    | .ok t => pure { sys := { s with tree := t } }
    | .error p => unwound i p
  | "run" =>
    let i ← getInst
    let names := parseNames ((kv fs "names").getD "-")
    match runGroup P s.tree i.dn names s.nextInc with
    | .ok (some t) =>
      let new := names.map fun nm => Req.sched (i.dn ++ [nm])
      pure { sys := { s with tree := t, pend := s.pend ++ new, nextInc := s.nextInc + 1 }, new := new }
    | .ok none => pure { sys := s, res := "err" }
    | .error p => unwound i p
  | "ret" =>
    let i ← getInst
    let e ← match kv fs "e" >>= parseKind with | some e => pure e | none => throw "no e"
    -- `how=panic`: the runnable's own code panicked; anything else is a return of the value `e`
    ended i (if (kv fs "how") == some "panic" then Exit.panicked else Exit.returned e) "ok" []
  | "set" =>
    let dn ← getDN
    let st ← match kvNat fs "st" >>= numState with | some st => pure st | none => throw "bad st"
    let t := modify s.tree dn fun n => { n with state := st }
    let t := if st = .dead ∨ st = .canceled then cancelSub t dn else t
    pure { sys := { s with tree := t } }
  | "cancel" =>
    let dn ← getDN
    pure { sys := { s with tree := cancelSub s.tree dn } }
  | "mark" =>
    let dn ← getDN
    pure { sys := { s with tree := modify s.tree dn fun n => { n with exited := true } } }
  | _ => throw s!"unknown op {op}"

def fixedModel : Bool := true

/-! ## Part (ii): traces of the real supervisor

* `tr <id> name=<scenario> init=<ns> max=<ns> lat=<ns> opts=<-|propagate-panic,..>` (`lat` = the longest scripted exit latency of the
  scenario; `opts` = the options `supervisor.New` was called with)
* `ev <id> k=<n> t=<µs> e=<kind> iid=<i> dn=<dn> ...` with kinds
  `enter`, `run names= res=ok|err|panic`, `sig s=0|1 res=ok|panic`, `ctxdone`, `exit how=nil|ctx|other panic=0|1 live=0|1`,
  `settled ok= why=`, `window ..` (cancel-inside-the-back-off-window scenarios), `cancelreq`, `stopped ok=`, `quiesced`, `fin`
* `end <id>`

Two things happen per trace.  (a) The Spec clauses of C18 are evaluated on the event log itself (no model):
`two-instances-live`, `done-restarted`, `restart-before-backoff`, `group-not-cancelled`, `not-restarted`,
`not-stopped`, `start-after-stop`, `service-live-after-stop`.  (b) Acceptance: the set of model states compatible with the log so far is
carried along; between two logged events the processor may have taken any number of hidden steps
(`died`, `gc`, and `kill` once the harness has cancelled the supervisor context).  An event that no state
allows is a `diff`.
-/
namespace Trace

structure Ev where
  k : String
  kind : String
  iid : Nat
  dn : DN
  fs : List String

/-- what the Spec evaluation remembers about the latest instance of a dn -/
structure Rec where
  iid : Nat
  dn : DN
  exited : Bool := false
  how : String := ""
  tExit : Nat := 0
  sigDone : Bool := false
  sawCtx : Bool := false
  ancEntered : Bool := false
  liveExit : Bool := false      -- its own context was not cancelled when it left
  tainted : Bool := false       -- something else may have cancelled its context before its exit was processed
  rejected : String := ""       -- names of the latest RunGroup / Run batch of this instance that the supervisor refused
deriving Repr

structure St where
  id : String := ""
  name : String := ""
  P : Params := {}
  opts : String := "-"                -- the SupervisorOpts the supervisor was built with
  pp : Bool := false                  -- ... `WithPropagatePanic` among them
  lat : Nat := 0                      -- longest scripted exit latency (ns)
  evs : Array Ev := #[]
  cancelReq : Bool := false
  completedRootAtStop : Bool := false   -- when the supervisor context was cancelled the root runnable had signalled Done and returned nil
  liveBelowCompleted : Bool := false    -- ... and some service was running below a node whose runnable had signalled Done and returned nil
  tCancel : Nat := 0
  capped : Bool := false
  recs : List Rec := []               -- every instance, newest first
  groups : List (DN × List String) := []   -- (parent dn, group) of the parent's current incarnation
  oblig : List (Nat × String) := []   -- instance that must still see its context cancelled, because of whom
  settled : Bool := false
  quiesced : Bool := false
  verdict : Option String := none
  events : Nat := 0
  searched : Nat := 0

def setV (st : St) (v : String) : St :=
  match st.verdict with
  | some w => if w.startsWith "diff" && v.startsWith "spec" then { st with verdict := some v } else st
  | none => { st with verdict := some v }

/-- `service-live-after-stop` names the instance that never returned; it replaces the harness-flag based `not-stopped`
of the same trace (same fact, more specific) and, like every Spec verdict, a `diff`. -/
def setVLive (st : St) (v : String) : St :=
  match st.verdict with
  | some w => if w.startsWith "diff" || w.startsWith s!"spec {st.id} not-stopped " then { st with verdict := some v } else st
  | none => { st with verdict := some v }

/-- search budget (visited (event index, model state) pairs) per trace; beyond it the acceptance check is inconclusive -/
def searchBudget : Nat := 400000

def hiddenSucc (P : Params) (cancelReq : Bool) (s : Sys) : List Sys :=
  if s.killed then [] else
  let dieds := (s.pend.filter fun r => match r with | .died _ _ => true | _ => false).eraseDups
  let a := dieds.filterMap fun r => match r with
    | .died d e => step P fixedModel s (.died d e)
    | _ => none
  let b := if (can fixedModel s.tree).isEmpty then [] else (step P fixedModel s .gc).toList
  let c := if cancelReq then (step P fixedModel s .kill).toList else []
  a ++ b ++ c

/-- the observable event applied to one model state (`none` = this state does not allow it).  `pp`: the supervisor
was built with `WithPropagatePanic` - a panic unwinding a runnable ends the process (`reportOf pp .panicked = .crash`),
so no state allows a logged panic there; a return is reported the same way under either setting. -/
def applyEv (P : Params) (pp : Bool) (s : Sys) (kind : String) (iid : Nat) (dn : DN) (fs : List String) : Option Sys :=
  let captured : Bool := reportOf pp .panicked != .crash
  let inst := s.live.find? (fun i => i.iid = iid)
  match kind with
  | "enter" =>
    -- processSchedule ran at some point before (it commutes with everything but the kill, which is why a
    -- request pending at the kill may still be observed starting)
    if Req.sched dn ∉ s.pend then none else
    match find s.tree dn with
    | none => none
    | some n => some { s with pend := s.pend.erase (.sched dn), live := s.live ++ [{ iid := iid, dn := dn, inc := n.inc }], nextIid := iid + 1 }
  | "run" =>
    match inst with
    | none => none
    | some i =>
      let names := parseNames ((kv fs "names").getD "-")
      let res := (kv fs "res").getD ""
      match runGroup P s.tree i.dn names s.nextInc with
      | .ok (some t) => if res = "ok" then some { s with tree := t, pend := s.pend ++ names.map (fun nm => Req.sched (i.dn ++ [nm])), nextInc := s.nextInc + 1 } else none
      | .ok none => if res = "err" then some s else none
      | .error _ => if res = "panic" && captured then some s else none
  | "sig" =>
    match inst with
    | none => none
    | some i =>
      let sg := if kvNat fs "s" == some 1 then Signal.done else Signal.healthy
      let res := (kv fs "res").getD ""
      match signal P s.tree i.dn sg with
      | .ok t => if res = "ok" then some { s with tree := t } else none
      | .error _ => if res = "panic" && captured then some s else none
  | "ctxdone" =>
    match inst with
    | none => none
    | some i => if instCancelled s.tree i then some s else none
  | "exit" =>
    match inst with
    | none => none
    | some i =>
      match (kv fs "how") >>= parseKind with
      | none => none
      | some e =>
        match reportOf pp (if kvNat fs "panic" == some 1 then Exit.panicked else Exit.returned e) with
        | .died e' => some { s with live := s.live.erase i, pend := s.pend ++ [.died i.dn e'] }
        | .crash => none
  | _ => some s

structure Search where
  seen : Std.HashSet (Nat × Sys) := {}
  deepest : Nat := 0
  capped : Bool := false

/-- Depth-first search for ONE interleaving of hidden processor steps (`died`, `gc`, and `kill` once the harness
has cancelled the supervisor context) under which the model produces the logged events in order.  Visited
(event index, state) pairs are memoised, so a rejection means every reachable combination was tried. -/
partial def dfs (P : Params) (pp : Bool) (evs : Array Ev) (crAt : Nat) (k : Nat) (s : Sys) : StateM Search Bool := do
  let st ← get
  if st.capped then return false
  if st.seen.size > searchBudget then
    set { st with capped := true }
    return false
  if st.seen.contains (k, s) then return false
  set { st with seen := st.seen.insert (k, s), deepest := max st.deepest k }
  if h : k < evs.size then
    let e := evs[k]
    match applyEv P pp s e.kind e.iid e.dn e.fs with
    | some s1 => if (← dfs P pp evs crAt (k + 1) s1) then return true
    | none => pure ()
    for hs in hiddenSucc P (decide (crAt < k)) s do
      if (← dfs P pp evs crAt k hs) then return true
    return false
  else
    return true

def isPrefix (p d : DN) : Bool := p.isPrefixOf d
def properPrefix (p d : DN) : Bool := p.isPrefixOf d && p.length < d.length

def latest (st : St) (dn : DN) : Option Rec := st.recs.find? (fun r => r.dn = dn)
def updRec (st : St) (iid : Nat) (f : Rec → Rec) : St := { st with recs := st.recs.map fun r => if r.iid = iid then f r else r }

/-- an exit the supervisor must treat as a failure whatever the state of the contexts:
an error that is not a context error, a panic, or a plain return of a service that has not signalled Done -/
def certainDeath (r : Rec) : Bool := r.exited && (r.how = "other" || (r.how = "nil" && !r.sigDone))

/-- The service left with an error whose innermost cause is `context.Canceled` while its OWN context was live
(e.g. the error of a sub-context it cancelled itself).  Unless something else cancels its context before the
processor gets to its exit, that is a failure, not a cancellation. -/
def ctxLiveDeath (r : Rec) : Bool := r.exited && r.how = "ctx" && r.liveExit

/-- An exit that cannot cancel anybody else's context: a completion (Done, nil), or a genuinely cancelled
service answering with the context error (classified CANCELED: nothing is propagated). -/
def harmlessExit (r : Rec) : Bool := r.exited && ((r.sigDone && r.how = "nil") || (r.sawCtx && r.how = "ctx"))

/-- Spec clauses evaluated on the log alone. -/
def specEv (st : St) (kind : String) (iid : Nat) (dn : DN) (t : Nat) (fs : List String) : St :=
  let id := st.id
  match kind with
  | "enter" =>
    let st := if st.quiesced then setV st s!"spec {id} start-after-stop {showDN dn} was started (instance {iid}) {(t - st.tCancel) / 1000} ms after the supervisor context had been cancelled, when everything had stopped and stayed quiet (scenario {st.name})" else st
    let st := match latest st dn with
      | none => st
      | some p =>
        if !p.exited then
          setV st s!"spec {id} two-instances-live {showDN dn} started (instance {iid}) while instance {p.iid} of the same service had not returned (scenario {st.name})"
        else if p.sigDone && p.how = "nil" && !p.ancEntered then
          setV st s!"spec {id} done-restarted {showDN dn} had signalled Done and returned nil, yet was started again without any ancestor restarting"
        else if (certainDeath p || (ctxLiveDeath p && !p.tainted)) && !p.ancEntered && (t + 1000) * 1000 < p.tExit * 1000 + st.P.initial / 2 then
          setV st s!"spec {id} restart-before-backoff {showDN dn} died at {p.tExit}us and was started again at {t}us, sooner than half the initial back-off interval ({st.P.initial}ns); it had left with how={p.how}{if p.how = "ctx" then " (an error whose innermost cause is context.Canceled) while its own context was live and nothing else could have cancelled it" else ""} (scenario {st.name})"
        else st
    -- a restarting ancestor is the only other legitimate reason for a restart
    let recs := st.recs.map fun r => if properPrefix dn r.dn then { r with ancEntered := true } else r
    { st with recs := { iid := iid, dn := dn } :: recs, groups := st.groups.filter (fun g => g.1 ≠ dn) }
  | "run" =>
    -- a refused batch (`res=err`) starts nothing and forms no group: the caller goes on (or fails) like any other service
    if (kv fs "res") == some "ok" then { st with groups := st.groups ++ [(dn, parseNames ((kv fs "names").getD "-"))] }
    else if (kv fs "res") == some "err" then updRec st iid fun r => { r with rejected := (kv fs "names").getD "-" }
    else st
  | "sig" =>
    if (kv fs "res") == some "ok" && kvNat fs "s" == some 1 then updRec st iid fun r => { r with sigDone := true } else st
  | "ctxdone" =>
    { updRec st iid (fun r => { r with sawCtx := true }) with oblig := st.oblig.filter (·.1 ≠ iid) }
  | "exit" =>
    let st := { updRec st iid (fun r => { r with exited := true, how := (kv fs "how").getD "?", tExit := t,
                                                  liveExit := kvNat fs "live" == some 1 }) with oblig := st.oblig.filter (·.1 ≠ iid) }
    match st.recs.find? (fun r => r.iid = iid) with
    | none => st
    | some me =>
      -- Whose exit is still waiting to be processed (exited, its dn not started again)?  Any of those that is not
      -- harmless may cancel contexts when the processor gets to it; so may this exit for the others.
      let waiting (r : Rec) : Bool := r.exited && r.iid ≠ iid && !r.ancEntered && (latest st r.dn).map (·.iid) == some r.iid
      let taintMe := st.cancelReq || st.recs.any fun r => waiting r && !harmlessExit r
      let recs' := st.recs.map (fun r =>
        if r.iid = iid then { r with tainted := taintMe }
        else if waiting r && !harmlessExit me then { r with tainted := true } else r)
      let st := { st with recs := recs' }
      if !(certainDeath me || ctxLiveDeath me) || st.cancelReq then st else
      -- "it and the members of its group are cancelled": everything running below it, and below its group siblings
      let sibs : List DN := match dn.getLast? with
        | none => []
        | some nm =>
          let par := dn.dropLast
          match st.groups.find? (fun g => g.1 = par && g.2.contains nm) with
          | some g => (g.2.filter (· ≠ nm)).map fun s => par ++ [s]
          | none => []
      let affected := st.recs.filter fun r => !r.exited && !r.sawCtx && r.iid ≠ iid &&
        (properPrefix dn r.dn || sibs.any (fun s => isPrefix s r.dn))
      { st with oblig := st.oblig ++ affected.map fun r => (r.iid, showDN dn) }
  | "settled" =>
    let st := { st with settled := true }
    if (kv fs "ok") != some "1" then
      -- text only: which services are gone (latest instance left, not a completion, no ancestor gone as well), and
      -- whether a RunGroup / Run call of theirs (or of a service below them) had been refused
      let isLatest (r : Rec) : Bool := (latest st r.dn).map (·.iid) == some r.iid
      let gone (r : Rec) : Bool := r.exited && isLatest r && !(r.sigDone && r.how = "nil")
      let top := (st.recs.filter fun r => gone r && !(st.recs.any fun a => properPrefix a.dn r.dn && gone a)).reverse
      let describe (r : Rec) : String :=
        let rej := match st.recs.find? (fun x => x.rejected ≠ "" && isPrefix r.dn x.dn && isLatest x) with
          | some x => s!", after a RunGroup call of {showDN x.dn} had been refused (names={x.rejected})"
          | none => ""
        s!"{showDN r.dn} (instance {r.iid}) left with how={r.how} at {r.tExit}us{rej} and had not been started again {(t - r.tExit) / 1000} ms later while the supervisor context was live"
      let detail := if top.isEmpty then "" else "; " ++ "; ".intercalate (top.map describe)
      setV st s!"spec {id} not-restarted the services did not come back to their running configuration within the deadline: {(kv fs "why").getD "?"} (scenario {st.name}){detail}"
    else match st.oblig with
      | (i, who) :: _ =>
        let d := match st.recs.find? (fun r => r.iid = i) with | some r => showDN r.dn | none => "?"
        setV st s!"spec {id} group-not-cancelled {who} died but the context of {d} (instance {i}), which belongs to it or to its group, was never cancelled (scenario {st.name})"
      | [] => st
  | "cancelreq" =>
    let completed (d : DN) : Bool := match latest st d with
      | some r => r.exited && r.sigDone && r.how = "nil"
      | none => false
    let below := st.recs.any fun r => !r.exited && (st.recs.any fun a => properPrefix a.dn r.dn && completed a.dn)
    { st with cancelReq := true, tCancel := t, completedRootAtStop := completed [], liveBelowCompleted := below,
              recs := st.recs.map fun r => if r.exited then { r with tainted := true } else r }
  | "stopped" =>
    if (kv fs "ok") != some "1" then setV st s!"spec {id} not-stopped services were still running long after the supervisor context was cancelled ({(kv fs "live").getD "?"} left)" else st
  | "quiesced" => { st with quiesced := true }
  | "fin" =>
    -- "cancelling the supervisor's context stops every service", on the log itself: the trace ends long after the
    -- cancellation (longer than the longest exit latency of the scenario plus a full second - a back-off cannot keep
    -- an instance running, only delay a start, which `start-after-stop` covers) and an instance that entered has
    -- still not returned: it never stops.
    if !st.cancelReq then st else
    let live := (st.recs.filter fun r => !r.exited).reverse       -- oldest first
    let waited := t - st.tCancel                                  -- µs
    match live with
    | [] => st
    | r :: _ =>
      if waited * 1000 ≤ st.lat + 1000000000 then st else
      let names := ", ".intercalate (live.map fun x => s!"{showDN x.dn}#{x.iid}")
      let anc := match st.recs.find? (fun a => properPrefix a.dn r.dn && a.exited && a.sigDone && a.how = "nil" && (latest st a.dn).map (·.iid) == some a.iid) with
        | some a => s!"; {showDN a.dn} above it had signalled Done and returned nil"
        | none => ""
      setVLive st s!"spec {id} service-live-after-stop {showDN r.dn} (instance {r.iid}) was still running when the trace ended, {waited / 1000} ms after the supervisor context had been cancelled (longest exit latency in this scenario: {st.lat / 1000000} ms); it {if r.sawCtx then "had seen its context cancelled but did not return" else "never saw its context cancelled"}{anc}; {live.length} instance(s) never returned: {names} (scenario {st.name})"
  | _ => st

def traceLine (st : St) (op : String) (id : String) (fs : List String) : St × List String :=
  if op = "tr" then
    let P : Params := { initial := (kvNat fs "init").getD 0, max := (kvNat fs "max").getD 0 }
    let opts := (kv fs "opts").getD "-"
    -- the scenario name as the verdict texts quote it says which options the supervisor was built with
    let name := (kv fs "name").getD "?" ++ (if opts = "-" then "" else s!", supervisor built with options {opts}")
    ({ id := id, name := name, P := P, lat := (kvNat fs "lat").getD 0, opts := opts,
       pp := (opts.splitOn ",").contains "propagate-panic" }, [])
  else if op = "end" then
    -- acceptance: is there an interleaving of hidden processor steps under which the model yields this log?
    let crAt := (st.evs.findIdx? (fun e => e.kind = "cancelreq")).getD st.evs.size
    let (ok, sr) := (dfs st.P st.pp st.evs crAt 0 (init st.P)).run {}
    let st := { st with capped := sr.capped, searched := sr.seen.size }
    let st := if ok || sr.capped then st else
      match st.evs[sr.deepest]? with
      | some e => setV st s!"diff {id} trace rejected by the model: no interleaving of processor steps explains event {e.k} ({e.kind} iid={e.iid} dn={showDN e.dn} {e.fs.drop 5}) after the events before it ({sr.seen.size} model states tried, scenario {st.name})"
      | none => setV st s!"diff {id} trace rejected by the model (scenario {st.name})"
    (st, [match st.verdict with | some v => v | none => s!"ok {id}"])
  else
    let kind := (kv fs "e").getD "?"
    let iid := (kvNat fs "iid").getD 0
    let dn := ((kv fs "dn") >>= parseDN).getD []
    let t := (kvNat fs "t").getD 0
    let st := { st with events := st.events + 1 }
    let st := specEv st kind iid dn t fs
    ({ st with evs := st.evs.push { k := (kv fs "k").getD "?", kind := kind, iid := iid, dn := dn, fs := fs } }, [])

end Trace

structure CaseSt where
  id : String := ""
  P : Params := {}
  sys : Sys := init {}
  pp : Bool := false           -- the supervisor value has `propagatePanic` set
  pure : Bool := true          -- only genuine actions so far (no perturbation, no fabricated request)
  verdict : Option String := none
  parted : Bool := false       -- model and implementation disagreed earlier in this case
  ops : Nat := 0

structure St where
  cur : CaseSt := {}
  cases : Nat := 0
  ops : Nat := 0
  gcResets : Nat := 0
  panics : Nat := 0
  dist : List (String × Nat) := []
  tr : Trace.St := {}
  traces : Nat := 0
  trEvents : Nat := 0
  trCapped : Nat := 0
  trMaxWorlds : Nat := 0
  trCompletedRoot : Nat := 0
  trBelowCompleted : Nat := 0
  trWithOptions : Nat := 0
  simPP : Nat := 0

def bump (d : List (String × Nat)) (k : String) : List (String × Nat) :=
  if d.any (·.1 = k) then d.map fun (a, n) => if a = k then (a, n + 1) else (a, n) else d ++ [(k, 1)]

def setVerdict (c : CaseSt) (v : String) : CaseSt :=
  match c.verdict with
  | some w => if w.startsWith "diff" && v.startsWith "spec" then { c with verdict := some v } else c
  | none => { c with verdict := some v }

def simLine (st : St) (op : String) (id : String) (fs : List String) (line : String) : St × List String :=
  if op = "reset" then
    let P : Params := { initial := (kvNat fs "init").getD 0, max := (kvNat fs "max").getD 0 }
    let sys := init P
    let c : CaseSt := { id := id, P := P, sys := sys, pure := (kv fs "pert") == some "false", pp := kvNat fs "pp" == some 1 }
    -- the harness puts the first schedule request straight into its pending list
    let exp := showDump sys []
    let c := if line.endsWith exp then c else { setVerdict c s!"diff {id} initial dump: model [{exp}] line [{line}]" with parted := true }
    ({ st with cur := c, cases := st.cases + 1, simPP := st.simPP + (if c.pp then 1 else 0) }, [])
  else if op = "end" then
    let v := match st.cur.verdict with | some v => v | none => s!"ok {id}"
    (st, [v])
  else if op = "bad" then
    ({ st with cur := setVerdict st.cur s!"diff {id} harness: {(kv fs "why").getD "?"}" }, [])
  else
    let c := st.cur
    let c := { c with ops := c.ops + 1, pure := c.pure && kvNat fs "fab" != some 1 && op != "set" && op != "cancel" && op != "mark" }
    -- Spec evaluated on the implementation's own report (also after model and implementation have parted):
    -- two goroutines of one dn alive at once / the supervisor mutex leaked, in a sequence of genuine actions only
    let implLive := ((kv fs "live").getD "-")
    let implDup : Option String :=
      if implLive = "-" then none else
      let dns := (implLive.splitOn ",").map fun e => ((e.splitOn ":").getD 1 "")
      let rec go : List String → Option String
        | [] => none
        | d :: rest => if rest.contains d then some d else go rest
      go dns
    let c := match implDup, c.pure with
      | some d, true => setVerdict c s!"spec {id} two-instances-live two goroutines of {d} are running after op {c.ops} ({op}) of a sequence of genuine supervisor actions"
      | _, _ => c
    let c := if kv fs "lk" == some "1" && c.pure then
        setVerdict c s!"spec {id} supervisor-lock-leaked after op {c.ops} ({op}) the supervisor mutex stays locked (nodeByDN panicked inside fromContext): nothing is ever restarted again"
      else c
    if c.parted then ({ st with cur := c }, []) else
    match simOp c.P fixedModel c.pp c.sys op fs with
    | .error e => ({ st with cur := { setVerdict c s!"diff {id} op {c.ops} ({op}): {e}" with parted := true } }, [])
    | .ok o =>
      -- which branch of the anchored function this operation took (for the evidence file)
      let branch : String :=
        if op = "died" && o.res = "ok" then
          let stt : Option NState := (kv fs "dn" >>= parseDN).bind (fun d => (find o.sys.tree d).map (·.state))
          match stt with
          | some NState.dead => "died_dead" | some NState.canceled => "died_canceled" | some NState.done => "died_done_quiet" | _ => "died_other"
        else if op = "gc" then (if o.new.isEmpty then "gc_nothing" else "gc_restart")
        else s!"{op}_{o.res}"
      let st := { st with dist := bump st.dist branch }
      let st := { st with ops := st.ops + 1, panics := st.panics + (if o.res = "panic" then 1 else 0),
                          gcResets := st.gcResets + (if op = "gc" then o.new.length else 0) }
      let exp := showDump o.sys o.new
      let c := { c with sys := o.sys }
      let okRes := (kv fs "res") == some o.res
      let extra := if o.extra.any (·.1 = "lk") then o.extra else ("lk", "0") :: o.extra
      let okExtra := extra.all fun (k, v) => kv fs k == some v
      let c := if okRes && okExtra && line.endsWith exp then c
               else { setVerdict c s!"diff {id} op {c.ops} ({op}): model res={o.res} {extra} [{exp}] impl [{line}]" with parted := true }
      ({ st with cur := c }, [])

def step (st : St) (line : String) : St × List String :=
  match fields line with
  | op :: id :: fs =>
    if op = "tr" || op = "ev" || (op = "end" && id.startsWith "tr") then
      let (t, outs) := Trace.traceLine st.tr op id fs
      let st := { st with tr := t }
      let st := if op = "end" then { st with traces := st.traces + 1, trEvents := st.trEvents + t.events,
                                             trCapped := st.trCapped + (if t.capped then 1 else 0), trMaxWorlds := max st.trMaxWorlds t.searched,
                                             trCompletedRoot := st.trCompletedRoot + (if t.completedRootAtStop then 1 else 0),
                                             trBelowCompleted := st.trBelowCompleted + (if t.liveBelowCompleted then 1 else 0),
                                             trWithOptions := st.trWithOptions + (if t.opts == "-" then 0 else 1) } else st
      (st, outs)
    else simLine st op id fs line
  | _ => (st, [])

def fin (st : St) : List String :=
  (st.dist.map fun (k, n) => s!"stat branch_{k} {n}") ++
  [s!"stat sim_cases {st.cases}", s!"stat sim_ops {st.ops}", s!"stat sim_gc_resets {st.gcResets}", s!"stat sim_panics {st.panics}",
   s!"stat traces {st.traces}", s!"stat trace_events {st.trEvents}", s!"stat trace_search_capped {st.trCapped}", s!"stat trace_max_search_nodes {st.trMaxWorlds}",
   s!"stat trace_stop_with_completed_root {st.trCompletedRoot}", s!"stat trace_stop_live_below_completed {st.trBelowCompleted}",
   s!"stat trace_with_supervisor_options {st.trWithOptions}", s!"stat sim_cases_propagate_panic {st.simPP}"]

def run (h : IO.FS.Stream) : IO Unit := loop h ({} : St) step fin

end Whv.Driver.SupFam
