import Std.Data.HashMap
import Std.Data.HashSet
import Whv.Driver.Util
import Whv.Driver.Vaa
import Whv.Model.Processor
import Whv.Model.Contract
/-!
Driver family `processor` (C01, C02, C13, C14, observation gate of C03).

Case lines, one per handler call on the real `Processor` (see `harness/processor/proc_verif_test.go`):
`reset <id> our= govchain= govemitter=` · `set <id> index= keys=` · `msg <id> tx= sec= nsec= nonce= seq= cl= ec= tc= em= pl= dig= sig= srec=`
· `inj <id> v=<canon> dig= sig= srec=` · `obs <id> addr= hash= sig= tx= rec=` · `inb <id> bytes= [dig= rec=]` · `clean <id> room=` followed by
`reqs <id> R:..|..`.  Every line carries `now=`, and `res=ok out= st= db=` or `res=panic site=`. `st=? db=?` (live mode, see the
harness): state and store were not observable after this event; only its outputs are compared, the next line carries the state.

For every line the driver (1) replays the model and compares outputs, aggregation summary and store dump (`diff`),
(2) evaluates the property Specs directly on what the implementation did (`spec <id> <clause>`), independent of the model.
-/
namespace Whv.Driver.ProcFam
open Whv Whv.Driver Whv.Proc

def showOut : Out → String
  | .obs o => s!"O:{hexOrDash o.addr}:{hexOrDash o.hash}:{hexOrDash o.sig}:{hexOrDash o.txHash}"
  | .loopback o => s!"L:{hexOrDash o.addr}:{hexOrDash o.hash}:{hexOrDash o.sig}:{hexOrDash o.txHash}"
  | .vaa b => s!"V:{hexOrDash b}"
  | .obsReq c t => s!"R:{c}:{hexOrDash t}"

def sortStrings (l : List String) : List String := (l.toArray.qsort (· < ·)).toList

def joinOr (sep : String) (l : List String) : String := if l.isEmpty then "-" else sep.intercalate l

def b01 (b : Bool) : String := if b then "1" else "0"

def showEntry (d : Bytes) (st : VState) : String :=
  let addrs := sortStrings (st.signatures.map fun p => toHex p.1)
  let gsi := match st.gs with | some g => toString g.index | none => "-"
  s!"{toHex d}:{b01 st.ourVAA.isSome}:{b01 st.submitted}:{b01 st.settled}:{st.retryCount}:{gsi}:{b01 st.ourMsg.isSome}:{b01 st.lastRetry.isSome}:{joinOr "+" addrs}"

def showAgg (agg : List (Bytes × VState)) : String := joinOr "|" (sortStrings (agg.map fun p => showEntry p.1 p.2))

def showId (i : VaaId) : String := s!"{i.emitterChain}/{toHex i.emitter}/{i.targetChain}/{i.sequence}"

def showDb (db : List (VaaId × Bytes)) : String := joinOr "|" (sortStrings (db.map fun p => s!"{showId p.1}={toHex p.2}"))

/-- Parsed entry of the implementation's aggregation summary. -/
structure ISt where
  digest : String
  our : Bool
  submitted : Bool
  settled : Bool
  retry : Nat
  ourMsg : Bool
  deriving Repr

def parseISt (s : String) : List ISt :=
  if s = "-" then [] else
  (s.splitOn "|").filterMap fun e =>
    match e.splitOn ":" with
    | [d, our, sub, settled, retry, _gsi, ourMsg, _lr, _addrs] =>
      some { digest := d, our := our = "1", submitted := sub = "1", settled := settled = "1",
             retry := retry.toNat?.getD 0, ourMsg := ourMsg = "1" }
    | _ => none

def parseDb (s : String) : List (String × String) :=
  if s = "-" then [] else
  (s.splitOn "|").filterMap fun e => match e.splitOn "=" with | [k, v] => some (k, v) | _ => none

structure Track where
  first : Int            -- logical time the digest entered the aggregation map (this lifetime)
  lastRetry : Option Int
  agedTicks5 : Nat := 0  -- cleanup ticks seen since age ≥ 5 min
  agedTicks60 : Nat := 0 -- cleanup ticks seen since age ≥ 1 h
  retries : Nat := 0     -- retries observed in this lifetime
  deriving Repr

/-- Per-case driver state: the model state plus the history the Specs are evaluated over. -/
structure St where
  cfg : Config := { ourAddr := [], govChain := 0, govEmitter := [] }
  m : PState := {}
  dead : Bool := false                      -- the implementation panicked earlier in this case: rest is skipped
  desync : Bool := false                    -- model and implementation already differed in this case: only Specs are evaluated
  -- Spec bookkeeping (built from the event lines and the implementation's own outputs only)
  curSet : Option GSet := none
  learned : List GSet := []                 -- every set delivered by a `set` line
  snap : List (String × GSet) := []         -- digest ↦ set in force when the implementation signed the local observation
  viaMsg : List String := []                -- digests whose local observation came from a chain message (not injection)
  bodies : List (Bytes × String) := []      -- signing body ↦ digest, for locally observed messages
  ids : List (String × String) := []        -- digest ↦ message id, for locally observed messages
  recTbl : List ((String × String) × String) := []  -- (digest, sig) ↦ recovered address
  acc : Std.HashMap String (List String) := {}   -- digest ↦ distinct addresses whose observation passed the gate (this lifetime)
  published : List String := []             -- digests published in the current lifetime
  prevSt : List ISt := []
  prevStS : String := "-"
  prevDb : List (String × String) := []
  track : Std.HashMap String Track := {}
  pendingReqs : Option (List String × Nat) := none   -- model's wanted requests + room, awaiting the `reqs` line
  implRetried : List String := []           -- requests that belong to the observations the implementation re-broadcast in the last tick
  -- counters
  lines : Nat := 0
  nPublish : Nat := 0
  nInboundStored : Nat := 0
  nRejectedObs : Nat := 0
  nRetries : Nat := 0
  nExpired : Nat := 0
  nPanics : Nat := 0

def lookupS {β : Type} (l : List (String × β)) (k : String) : Option β := l.lookup k

def recFun (st : St) (extra : List ((String × String) × String)) (dig : String) : Bytes → Option Addr :=
  fun sig => match ((extra ++ st.recTbl).lookup (dig, toHex sig)) with
    | some a => if a = "none" then none else ofHex a
    | none => none

/-- C01 "Good": ≥ quorum valid signatures of distinct members of `g` over the VAA's own digest, strictly ascending. -/
def good (st : St) (extra : List ((String × String) × String)) (v : Vaa) (dig : String) (g : GSet) : Bool :=
  VaaFam.validB (recFun st extra dig) v.sigs g.keys && decide (quorum g.keys.length ≤ v.sigs.length)

/-- C07 "accepted on chain": the hand model of both contracts' signature sections (`Whv.Model.Contract`) under the guardian
set `g` — the threshold is `quorum`, which `Whv.Props.C07` proves equal to the formulas translated from both contracts. -/
def chainAccepts (st : St) (extra : List ((String × String) × String)) (v : Vaa) (dig : String) (g : GSet) : Bool :=
  Contract.ralAccepts quorum (recFun st extra dig) v.sigs g.keys && Contract.solAccepts quorum (recFun st extra dig) v.sigs g.keys

/-- Parse published / stored bytes for the Specs. `Marshal` can emit an empty payload which `Unmarshal` rejects;
for judging signatures such bytes are read by appending one byte and dropping it again. -/
def unmarshalLenient (b : Bytes) : Option Vaa :=
  match unmarshal b with
  | some v => some v
  | none => (unmarshal (b ++ [0])).bind fun v =>
      if v.body.payload = [0] then some { v with body := { v.body with payload := [] } } else none

def outsOf (s : String) : List String := if s = "-" then [] else s.splitOn "|"

def parseKeys (s : String) : Option (List Addr) := if s = "-" then some [] else (s.splitOn ",").mapM ofHex

/-- Compare model and implementation after a step. -/
def compare (id op : String) (mOuts : List Out) (ms : PState) (iOut iSt iDb : String) : List String :=
  let mo := joinOr "|" (sortStrings (mOuts.map showOut))
  let ma := showAgg ms.agg
  let md := showDb ms.db
  if mo ≠ iOut then [s!"diff {id} {op}: outputs model={mo.take 400} impl={iOut.take 400}"]
  else if ma ≠ iSt then [s!"diff {id} {op}: aggregation model={ma.take 600} impl={iSt.take 600}"]
  else if md ≠ iDb then [s!"diff {id} {op}: store model={md.take 300} impl={iDb.take 300}"]
  else [s!"ok {id}"]

/-- Specs that apply to every successful step: what was published / stored (C01, C02). -/
def specPublish (st : St) (id op : String) (extra : List ((String × String) × String)) (inbDig : Option String)
    (iOut : String) (iDb : List (String × String)) : List String × St := Id.run do
  let mut errs : List String := []
  let mut st := st
  -- broadcast VAAs
  for o in outsOf iOut do
    if o.startsWith "V:" then
      match parseHexD ((o.drop 2).toString) >>= unmarshalLenient with
      | none => errs := errs ++ [s!"spec {id} published-vaa-undecodable {op} broadcast bytes that do not decode"]
      | some v =>
        match st.bodies.lookup (serializeBody v.body) with
        | none => errs := errs ++ [s!"spec {id} published-without-local-observation {op} broadcast a VAA whose body the node never observed"]
        | some dig =>
          match lookupS st.snap dig with
          | none => errs := errs ++ [s!"spec {id} published-without-local-observation {op} digest {dig}"]
          | some g =>
            -- C07: what the node publishes as complete from its own chain observation names the snapshot set, and the
            -- contracts verify it against that set
            if st.viaMsg.contains dig && v.gsIndex = g.index && !chainAccepts st extra v dig g then
              errs := errs ++ [s!"spec {id} complete-vaa-rejected-on-chain {op} digest {dig}: published with {v.sigs.length} signatures, the contracts require {quorum g.keys.length} of set {g.index} ({g.keys.length} keys)"]
            if !good st extra v dig g then
              errs := errs ++ [s!"spec {id} published-vaa-not-quorum-verifiable {op} digest {dig}: {v.sigs.length} signatures, set of {g.keys.length}"]
            else if st.viaMsg.contains dig && v.gsIndex ≠ g.index then
              errs := errs ++ [s!"spec {id} published-names-other-set {op} VAA names set {v.gsIndex}, observed under {g.index}"]
            else if st.published.contains dig then
              errs := errs ++ [s!"spec {id} published-twice {op} digest {dig} published again within one aggregation lifetime"]
            st := { st with published := dig :: st.published, nPublish := st.nPublish + 1 }
  -- store: every new or changed entry must be a Good VAA; a peer copy never replaces an entry
  for (k, b) in iDb do
    let old := st.prevDb.lookup k
    if old ≠ some b then
      if op = "inb" && old.isSome then
        errs := errs ++ [s!"spec {id} stored-vaa-replaced-by-peer {op} entry {k} was overwritten by an inbound VAA"]
      match ofHex b >>= unmarshalLenient with
      | none => errs := errs ++ [s!"spec {id} stored-vaa-undecodable {op} entry {k}"]
      | some v =>
        if op = "inb" then
          match st.curSet, inbDig with
          | some g, some dig =>
            -- C07: an inbound VAA naming the current set is verified on chain against the very set the node used
            if v.gsIndex = g.index && !chainAccepts st extra v dig g then
              errs := errs ++ [s!"spec {id} complete-vaa-rejected-on-chain {op} inbound VAA naming the current set {g.index} stored with {v.sigs.length} signatures, the contracts require {quorum g.keys.length} ({g.keys.length} keys)"]
            if !good st extra v dig g then
              errs := errs ++ [s!"spec {id} stored-vaa-not-quorum-verifiable {op} inbound VAA stored without a verifiable quorum of the current set ({v.sigs.length} signatures, set of {g.keys.length})"]
            st := { st with nInboundStored := st.nInboundStored + 1 }
          | _, _ => errs := errs ++ [s!"spec {id} stored-vaa-not-quorum-verifiable {op} inbound VAA stored while no guardian set is known"]
        else
          match st.bodies.lookup (serializeBody v.body) with
          | none => errs := errs ++ [s!"spec {id} stored-without-local-observation {op} entry {k}"]
          | some dig =>
            match lookupS st.snap dig with
            | none => errs := errs ++ [s!"spec {id} stored-without-local-observation {op} entry {k}"]
            | some g =>
              if !good st extra v dig g then
                errs := errs ++ [s!"spec {id} stored-vaa-not-quorum-verifiable {op} entry {k}: {v.sigs.length} signatures, set of {g.keys.length}"]
  for (k, _) in st.prevDb do
    if (iDb.lookup k).isNone then
      errs := errs ++ [s!"spec {id} stored-vaa-vanished {op} entry {k} disappeared from the store"]
  return (errs, st)

/-- Lifetime bookkeeping from the implementation's aggregation summary. -/
def updateLifetimes (st : St) (now : Int) (cur : List ISt) : St := Id.run do
  let mut st := st
  let curSet : Std.HashSet String := cur.foldl (fun s e => s.insert e.digest) {}
  -- entries that disappeared: their lifetime ended
  let gone := (st.prevSt.map (·.digest)).filter fun d => !curSet.contains d
  if !gone.isEmpty then
    let goneSet : Std.HashSet String := gone.foldl (fun s d => s.insert d) {}
    st := { st with acc := gone.foldl (fun m d => m.erase d) st.acc,
                    published := st.published.filter (fun d => !goneSet.contains d),
                    snap := st.snap.filter (fun p => !goneSet.contains p.1),
                    track := gone.foldl (fun m d => m.erase d) st.track,
                    nExpired := st.nExpired + gone.length }
  let mut tr := st.track
  for e in cur do
    if !tr.contains e.digest then
      tr := tr.insert e.digest { first := now, lastRetry := none }
  return { st with track := tr }

def stepLine (st : St) (line : String) : St × List String :=
  let fs := fields line
  match fs with
  | [] => (st, [])
  | [_] => (st, ["diff ? short line"])
  | "reset" :: _id :: rest =>
    match kvHex rest "our", kvNat rest "govchain", kvHex rest "govemitter" with
    | some our, some gc, some ge =>
      ({ lines := st.lines, nPublish := st.nPublish, nInboundStored := st.nInboundStored, nRejectedObs := st.nRejectedObs,
         nRetries := st.nRetries, nExpired := st.nExpired, nPanics := st.nPanics,
         cfg := { ourAddr := our, govChain := gc, govEmitter := ge } }, [])
    | _, _, _ => (st, ["diff ? unparsable reset line"])
  | "stall" :: id :: rest =>
    -- Spec (C17, last clause): "posting to a full outbound request queue fails immediately instead of stalling the caller" — the
    -- caller being the cleanup pass inside `Run`.  `ms` is the SHORTEST of the wall-clock durations of the ticks handled with a full
    -- request queue and `due` retransmissions each (two independent ticks, so that one scheduling hiccup cannot produce a verdict);
    -- the pinned code needs microseconds, the bound is 1.5 s.
    match kvNat rest "ms", kvNat rest "due" with
    | some ms, some due =>
      if ms > 1500 then
        (st, [s!"spec {id} cleanup-stalled-on-full-request-queue with the outbound request queue full and {due} retransmission(s) due, every cleanup tick took at least {ms} ms (ticks: {(kv rest "all").getD "?"} ms); posting to a full queue must fail immediately, and while the tick runs no observation, message or guardian-set update is handled"])
      else (st, [s!"ok {id}"])
    | _, _ => (st, [s!"diff {id} unparsable stall line"])
  | "rerun" :: id :: rest =>
    -- Run returned and was entered again on the same Processor (supervisor restart): the model takes no step, and nothing the node
    -- has observed or collected may be gone — observations already delivered count towards the quorum whenever the rest arrives
    if st.dead then (st, []) else
    match kv rest "st" with
    | none => (st, [s!"ok {id}"])
    | some iStS =>
      let iSt := parseISt iStS
      let lost := st.prevSt.filter fun e => !(iSt.any (·.digest == e.digest))
      match lost with
      | [] => (st, [s!"ok {id}"])
      | e :: _ =>
        ({ st with desync := true },
         [s!"spec {id} rerun-lost-aggregation-state Run was entered again on the same Processor and {lost.length} aggregation entr{if lost.length = 1 then "y" else "ies"} vanished (first: {e.digest}, own observation: {e.our}, signed and pending: {e.ourMsg && !e.submitted}): signatures delivered before the restart no longer count towards the quorum"])
  | "reqs" :: id :: rs :: _ =>
    if st.dead || st.desync then (st, []) else
    match st.pendingReqs with
    | none => (st, [s!"diff {id} reqs line without a cleanup"])
    | some (wanted, room) =>
      let got := outsOf rs
      let st := { st with pendingReqs := none }
      -- Go iterates the map in random order: which of the wanted requests got the free slots is not determined
      let subset := got.all fun g => wanted.contains g
      let implWanted := st.implRetried
      if !subset then (st, [s!"spec {id} unexpected-reobservation-request cleanup posted {rs}, entries due for retry were {joinOr "|" wanted}"])
      else if (got.filter fun g => implWanted.contains g).length < min room implWanted.length then
        (st, [s!"spec {id} no-reobservation-request-when-due the tick re-broadcast {implWanted.length} own observation(s) with {room} free slot(s) in the request queue, but posted only {rs}: re-observation requests missing for {joinOr "|" (implWanted.filter fun w => !got.contains w)}"])
      else if got.length ≠ min room wanted.length then
        (st, [s!"diff {id} cleanup posted {got.length} re-observation requests, model {min room wanted.length} (room {room}, wanted {wanted.length})"])
      else (st, [s!"ok {id}"])
  | op :: id :: rest =>
    if st.dead then (st, []) else
    let st := { st with lines := st.lines + 1 }
    let now : Int := ((kv rest "now").bind String.toInt?).getD 0
    let res := (kv rest "res").getD "?"
    let iOut := (kv rest "out").getD "-"
    let iStS := (kv rest "st").getD "-"
    let iDbS0 := (kv rest "db").getD "-"
    -- `X:<id>=<what>` entries: the node's own lookup (GetSignedVAABytes) does not serve what the store holds (raw read)
    let notServed : List String := if iDbS0 = "-" || iDbS0 = "?" then [] else (iDbS0.splitOn "|").filter (·.startsWith "X:")
    let iDbS := if notServed.isEmpty then iDbS0 else joinOr "|" ((iDbS0.splitOn "|").filter (!·.startsWith "X:"))
    -- build the event and the oracle of this line
    let dig := (kv rest "dig").getD ""
    let digB := (kvHex rest "dig").getD []
    let O : Oracle := {
      recover := fun h s =>
        match op with
        | "obs" => if some h = kvHex rest "hash" ∧ some s = kvHex rest "sig" then
                     (match kv rest "rec" with | some "none" => none | some a => ofHex a | none => none) else none
        | "inb" => if h = digB then
                     (match (kv rest "rec" >>= VaaFam.parseRec) with
                      | some tbl => (tbl.lookup s).join
                      | none => none) else none
        | _ => none
      digestOf := fun _ => digB
      sign := fun _ => kvHex rest "sig" }
    let ev? : Option Event :=
      match op with
      | "set" => do
          let i ← kvNat rest "index"; let ks ← kv rest "keys" >>= parseKeys
          pure (.setUpdate { index := i, keys := ks })
      | "msg" => do
          let tx ← kvHex rest "tx"; let sec ← (kv rest "sec").bind String.toInt?; let nsec ← kvNat rest "nsec"
          let nonce ← kvNat rest "nonce"; let seq ← kvNat rest "seq"; let cl ← kvNat rest "cl"; let ec ← kvNat rest "ec"
          let tc ← kvNat rest "tc"; let em ← kvHex rest "em"; let pl ← kvHex rest "pl"
          pure (.message { txHash := tx, tsSec := sec, tsNsec := nsec, nonce := nonce, sequence := seq, consistency := cl,
                           emitterChain := ec, targetChain := tc, emitter := em, payload := pl } now)
      | "inj" => do let v ← kv rest "v" >>= VaaFam.parseCanon; pure (.injection v now)
      | "obs" => do
          let a ← kvHex rest "addr"; let h ← kvHex rest "hash"; let s ← kvHex rest "sig"; let tx ← kvHex rest "tx"
          pure (.observation { addr := a, hash := h, sig := s, txHash := tx } now)
      | "inb" => do let b ← kvHex rest "bytes"; pure (.inbound b)
      | "clean" => pure (.cleanup now 1000000)
      | _ => none
    match ev? with
    | none => (st, [s!"diff {id} unparsable {op} line"])
    | some ev =>
      let mres := Proc.step O st.cfg st.m ev
      if res = "panic" then
        let site := (kv rest "site").getD "?"
        let clause := if site = "handler_blocked" ∧ op = "clean" then "cleanup-blocked-on-full-request-queue"
                      else if (site.splitOn "nil_pointer").length > 1 then "panic-nil-dereference"
                      else if (site.splitOn "unmarshal_VAA_from_db").length > 1 then "panic-stored-vaa-undecodable"
                      else "panic-" ++ (site.take 40).toString
        ({ st with dead := true, nPanics := st.nPanics + 1 },
         [s!"spec {id} {clause} {op} handler panicked: {site}"])
      else
        -- ---------- Spec evaluation on the implementation's own results ----------
        -- live mode: for an event whose own observation Run handles straight afterwards, state and store at that instant are not
        -- observable (`st=? db=?`); the Specs then see them unchanged and the comparison is left to the line that follows
        let unobserved := iStS == "?"
        let iStS := if unobserved then (if st.prevStS = "?" then "-" else st.prevStS) else iStS
        let iSt := if unobserved then st.prevSt else parseISt iStS
        let iDb := if unobserved then st.prevDb else parseDb iDbS
        let st0 := st
        -- history bookkeeping that must precede the publish checks
        let st := match ev with
          | .setUpdate g => { st with curSet := some g, learned := g :: st.learned }
          | _ => st
        let localSigned := (outsOf iOut).any (·.startsWith "O:") && (op = "msg" || op = "inj")
        let st := if localSigned then
            let body? : Option Body := match ev with
              | .message m _ => some (vaaOfMsg 0 m).body
              | .injection v _ => some v.body
              | _ => none
            match body?, st.curSet with
            | some b, some g =>
              { st with snap := (dig, g) :: st.snap.filter (·.1 ≠ dig),
                        viaMsg := if op = "msg" then dig :: st.viaMsg else st.viaMsg.filter (· ≠ dig),
                        bodies := (serializeBody b, dig) :: st.bodies,
                        ids := (dig, showId b.id) :: st.ids,
                        recTbl := ((dig, (kv rest "sig").getD ""), (kv rest "srec").getD "none") :: st.recTbl }
            | _, _ => st
          else st
        -- C04 / C02: what the node signs and broadcasts for a local observation is the digest of exactly the observed message
        -- (`dig=` is computed by the harness from the message fields alone), under its own address, with the message's tx hash
        let digErr : List String :=
          if op = "msg" || op = "inj" then
            (outsOf iOut).filterMap fun o =>
              if o.startsWith "O:" || o.startsWith "L:" then
                match o.splitOn ":" with
                | [_, a, h, _, _] =>
                  let orec : List (String × String) := ((kv rest "orec").getD "-").splitOn ";" |>.filterMap fun e =>
                    match e.splitOn "=" with | [sg, a] => some (sg, a) | _ => none
                  if h ≠ dig then some s!"spec {id} signed-digest-differs-from-message {op}: the node signed {h.take 16}… but the digest of the observed message is {dig.take 16}…"
                  else if o.startsWith "O:" && (match orec.lookup ((o.splitOn ":").getD 3 "") with | some r => r ≠ toHex st.cfg.ourAddr | none => false) then
                    some s!"spec {id} signed-digest-differs-from-message {op}: the broadcast observation names digest {dig.take 16}… but its signature does not recover to the node's key over that digest (it was made over something else)"
                  else if a ≠ toHex st.cfg.ourAddr then some s!"spec {id} signed-under-foreign-address {op}: observation broadcast under {a}"
                  else none
                | _ => none
              else none
          else []
        -- C02 "its own included": a local observation that was signed and broadcast is also fed back into the node's own aggregation
        let loopErr : List String :=
          if (op = "msg" || op = "inj") && (outsOf iOut).any (·.startsWith "O:") && !(outsOf iOut).any (·.startsWith "L:") then
            [s!"spec {id} own-observation-not-looped-back {op}: the node broadcast its signed observation but did not feed it back into its own aggregation"]
          else []
        -- C02: a chain message observed while a guardian set is known, not from the governance emitter, and not already settled (a
        -- quorum VAA for its id stored with a timestamp more than the settlement time older than the message's) is signed and broadcast
        let signErr : List String := match ev with
          | .message m _ =>
            let body := (vaaOfMsg 0 m).body
            let shouldSign : Bool := st0.curSet.isSome && !(m.emitter = st.cfg.govEmitter ∧ m.emitterChain = st.cfg.govChain) &&
              (match st0.prevDb.lookup (showId body.id) with
               | none => true
               | some hex =>
                 match (ofHex hex >>= unmarshal) with
                 | none => false   -- a stored VAA the decoder rejects (empty payload): the node logs and drops the observation
                 | some ex => decide (¬ ((m.tsSec * 1000000000 + m.tsNsec) - (ex.body.ts : Int) * 1000000000 > settlementTime)))
            if shouldSign && !(outsOf iOut).any (·.startsWith "O:") then
              [s!"spec {id} local-observation-not-signed {op}: a chain message (id {showId body.id}) was observed under a known guardian set, it is not settled, yet the node did not sign and broadcast its observation"]
            else []
          | _ => []
        let govErr : List String := digErr ++ loopErr ++ signErr ++ match ev with
          | .message m _ =>
            if m.emitter = st.cfg.govEmitter ∧ m.emitterChain = st.cfg.govChain ∧ iOut ≠ "-" then
              [s!"spec {id} governance-emitter-signed a chain message naming the governance emitter produced {iOut.take 80}"]
            else if st0.curSet.isNone ∧ iOut ≠ "-" then
              [s!"spec {id} signed-without-guardian-set a message was signed before any guardian set was known"]
            else []
          | _ => []
        -- observation gate (C03 / C02 accepted set)
        let (st, gateErr, obsValid) : St × List String × Bool := match ev with
          | .observation o _ =>
            let h := toHex o.hash
            let recA : Option Addr := O.recover o.hash o.sig
            let gate : Option GSet := match lookupS st.snap h with | some g => some g | none => st.curSet
            let valid : Bool := match recA, gate with
              | some a, some g => a == bytesToAddress o.addr && g.keys.contains a
              | _, _ => false
            if valid then
              let a := toHex (recA.getD [])
              let old := (st.acc.get? h).getD []
              ({ st with acc := st.acc.insert h (if old.contains a then old else a :: old),
                         recTbl := ((h, toHex o.sig), a) :: st.recTbl }, [], true)
            else
              -- C03: an observation that fails the gate must leave aggregation state and store untouched
              let st := { st with nRejectedObs := st.nRejectedObs + 1 }
              if (st0.prevStS ≠ "?" ∧ iStS ≠ st0.prevStS) ∨ iOut ≠ "-" then
                (st, [s!"spec {id} invalid-observation-changed-state observation failing the signature/address/membership gate changed the node: out={iOut.take 60}"], false)
              else (st, [], false)
          | _ => (st, [], false)
        let extra : List ((String × String) × String) := match op with
          | "inb" => match kv rest "rec" >>= VaaFam.parseRec with
                     | some tbl => tbl.map fun p => ((dig, toHex p.1), match p.2 with | some a => toHex a | none => "none")
                     | none => []
          | _ => []
        let (pubErrs, st) := specPublish st id op extra (if op = "inb" then some dig else none) iOut iDb
        -- C02 "publishes the signed VAA (stores and broadcasts it)": what is broadcast as complete is in the store under its id
        let storedErr : List String :=
          if unobserved then [] else
          ((outsOf iOut).filterMap fun o =>
            if o.startsWith "V:" then
              match parseHexD ((o.drop 2).toString) >>= unmarshalLenient with
              | some v => if (iDb.lookup (showId v.body.id)).isNone then
                  some s!"spec {id} published-vaa-not-stored {op}: a VAA for message {showId v.body.id} was broadcast as complete but the store holds nothing under that id"
                else none
              | none => none
            else none).take 1
        -- completeness: quorum of accepted, distinct members of the snapshot set ⇒ published by now (C02)
        let complErr : List String := match ev with
          | .observation o _ =>
            let h := toHex o.hash
            match lookupS st.snap h with
            | some g =>
              let have_ := ((st.acc.get? h).getD []).filter fun a => g.keys.any (toHex · == a)
              if obsValid ∧ have_.length ≥ quorum g.keys.length ∧ ¬ st.published.contains h ∧ (iSt.any fun e => e.digest == h && e.our) then
                [s!"spec {id} not-published-at-quorum {have_.length} distinct members of a {g.keys.length}-guardian set have signed {h} and the node observed it, yet nothing was published"]
              else []
            | none => []
          | _ => []
        -- cleanup schedule (C14)
        let (st, cleanErrs) : St × List String := match ev with
          | .cleanup _ _ => Id.run do
            let mut errs : List String := []
            let mut st := st
            let mut tr := st.track
            let afterMap : Std.HashMap String ISt := iSt.foldl (fun m a => m.insert a.digest a) {}
            for e in st.prevSt do
              let after := afterMap.get? e.digest
              let t : Track := (tr.get? e.digest).getD { first := now, lastRetry := none }
              let age := now - t.first
              let stored := match lookupS st.ids e.digest with | some k => (iDb.lookup k).isSome | none => false
              let due := decide (age ≥ fiveMinutes) && retryDue now t.lastRetry
              let retried := (outsOf iOut).any fun o => o.startsWith "O:" && ((o.splitOn ":").getD 2 "") == e.digest
              -- "still lacks quorum" is a fact about the history, not about the entry's own flag: the node has not published a quorum
              -- VAA for this digest (and none is stored) — an entry merely FLAGGED submitted is still owed its retries
              let pending := !e.submitted || !(st.published.contains e.digest)
              if e.ourMsg && pending && e.retry < maxRetries && !stored && after.isNone then
                errs := errs ++ [s!"spec {id} pending-entry-discarded-early entry {e.digest} (signed, no quorum, not stored, {e.retry} retries) was dropped at age {age / 1000000000}s"]
              if e.ourMsg && pending && !stored && e.settled && e.retry < maxRetries then
                if due && !retried then
                  errs := errs ++ [s!"spec {id} no-retry-when-due entry {e.digest} is {age / 1000000000}s old, last retry due, but the observation was not re-broadcast"]
                if !due && retried then
                  errs := errs ++ [s!"spec {id} retry-too-early entry {e.digest} re-broadcast at age {age / 1000000000}s before the retry period elapsed"]
              let mut t := t
              if retried then
                t := { t with lastRetry := some now, retries := t.retries + 1 }
                st := { st with nRetries := st.nRetries + 1 }
                if t.retries > maxRetries then
                  errs := errs ++ [s!"spec {id} retry-budget-exceeded entry {e.digest} has been retried {t.retries} times within one lifetime (budget {maxRetries}): it never expires"]
              if age ≥ fiveMinutes then t := { t with agedTicks5 := t.agedTicks5 + 1 }
              if age ≥ oneHour then t := { t with agedTicks60 := t.agedTicks60 + 1 }
              if !e.our && after.isSome && t.agedTicks5 ≥ 2 then
                errs := errs ++ [s!"spec {id} unobserved-entry-not-expired entry {e.digest} never observed locally is still kept {age / 1000000000}s after it appeared"]
              if e.submitted && after.isSome && t.agedTicks60 ≥ 2 then
                errs := errs ++ [s!"spec {id} completed-entry-not-expired submitted entry {e.digest} still kept after {age / 1000000000}s"]
              tr := tr.insert e.digest t
            st := { st with track := tr }
            return (st, errs)
          | _ => (st, [])
        -- C14: within one lifetime of an entry the retries spent only go up (the 14 400-retry budget bounds the lifetime only then)
        let budgetErr : List String :=
          if unobserved then [] else
          -- (only entries that have spent retries can show a refill; found by linear search among the current entries)
          ((st.prevSt.filter (·.retry > 0)).filterMap fun e =>
            match iSt.find? (·.digest == e.digest) with
            | some a => if a.retry < e.retry then
                some s!"spec {id} retry-budget-refilled {op}: entry {e.digest} had spent {e.retry} of its retries, now {a.retry}: with a budget that is refilled the entry never expires"
              else none
            | none => none).take 1
        let st := updateLifetimes st now iSt
        let st := { st with prevSt := iSt, prevStS := if unobserved then "?" else iStS, prevDb := iDb }
        let serveErr : List String := match notServed with
          | [] => []
          | x :: _ => [s!"spec {id} stored-vaa-not-served {op}: the store holds a signed VAA that the node's own lookup does not return as stored ({x.take 120}; {notServed.length} such entries)"]
        let specErrs := govErr ++ gateErr ++ pubErrs ++ storedErr ++ complErr ++ cleanErrs ++ budgetErr ++ serveErr
        -- ---------- model vs implementation ----------
        if st.desync then (st, if specErrs.isEmpty then [] else specErrs) else
        match mres with
        | .panic site =>
          ({ st with dead := true }, if specErrs.isEmpty then [s!"diff {id} {op}: model panics ({site}), implementation does not"] else specErrs)
        | .ok ms mouts =>
          let (mNonReq, mReq) := mouts.partition fun o => match o with | .obsReq _ _ => false | _ => true
          let st := { st with m := ms }
          let st := if op = "clean" then { st with pendingReqs := some (mReq.map showOut, (kvNat rest "room").getD 0) } else st
          -- C14 / C17: every own observation re-broadcast by this tick goes with a re-observation request for its transaction
          let st := if op = "clean" then
              { st with implRetried := (outsOf iOut).filterMap fun o =>
                  match o.splitOn ":" with
                  | ["O", _, h, _, tx] =>
                    match st.bodies.find? (·.2 == h) with
                    | some (body, _) => some s!"R:{unbe ((body.drop 8).take 2)}:{tx}"
                    | none => none
                  | _ => none }
            else st
          if !specErrs.isEmpty then (st, specErrs)
          else
            let v := if unobserved then
                let mo := joinOr "|" (sortStrings (mNonReq.map showOut))
                if mo ≠ iOut then [s!"diff {id} {op}: outputs model={mo.take 400} impl={iOut.take 400}"] else [s!"ok {id}"]
              else compare id op mNonReq ms iOut iStS iDbS
            ({ st with desync := v.any (·.startsWith "diff") }, v)

/-- little-endian 4-byte hex of `i` (the prefix that makes the digests of a flood distinct) -/
def le32hex (i : Nat) : String :=
  toHex [(i % 256).toUInt8, ((i / 256) % 256).toUInt8, ((i / 65536) % 256).toUInt8, ((i / 16777216) % 256).toUInt8]

/-- SCALE cases: `n` valid observations by one guardian for `n` distinct digests nobody observed locally, handled one after the
other, are written as ONE `flood` line (digest i = le32(i) ++ `sfx`, the signatures in `sigs`, the state after the last one).
The driver expands the line into the `n` observation lines it stands for — state not observable in between (`st=? db=?`, as in
live mode) — runs each through the same model step and Spec code as any other line, and compares model and implementation on
the state the line carries. -/
def step (st : St) (line : String) : St × List String :=
  match fields line with
  | "flood" :: id :: rest =>
    if st.dead then (st, []) else
    if (kv rest "res").getD "?" = "panic" then
      ({ st with dead := true, nPanics := st.nPanics + 1 }, [s!"spec {id} panic-{(((kv rest "site").getD "?").take 40).toString} flood handler panicked"])
    else
    match kvNat rest "n", kv rest "addr", kv rest "sfx", kv rest "sigs", kv rest "now" with
    | some n, some addr, some sfx, some sigs, some now =>
      let sg := sigs.splitOn ","
      if sg.length ≠ n then (st, [s!"diff {id} flood line carries {sg.length} signatures for {n} observations"]) else
      let (st, errs, _) := sg.foldl (fun (acc : St × List String × Nat) sig =>
        let (st, errs, i) := acc
        let l := s!"obs {id} now={now} addr={addr} hash={le32hex i}{sfx} sig={sig} tx=010203 rec={addr} res=ok out=- st=? db=?"
        let (st', v) := stepLine st l
        (st', errs ++ v.filter (fun x => !x.startsWith "ok"), i + 1)) (st, [], 0)
      let iStS := (kv rest "st").getD "-"
      let iDbS := (kv rest "db").getD "-"
      let st := { st with prevSt := parseISt iStS, prevStS := iStS }
      if st.dead || st.desync || !errs.isEmpty then (st, if errs.isEmpty then [] else errs.take 5)
      else
        let v := compare id "flood" [] st.m "-" iStS iDbS
        ({ st with desync := v.any (·.startsWith "diff") }, v)
    | _, _, _, _, _ => (st, [s!"diff {id} unparsable flood line"])
  | _ => stepLine st line

def fin (st : St) : List String :=
  [s!"stat lines {st.lines}", s!"stat published {st.nPublish}", s!"stat inbound_stored {st.nInboundStored}",
   s!"stat rejected_observations {st.nRejectedObs}", s!"stat retries {st.nRetries}", s!"stat lifetimes_ended {st.nExpired}",
   s!"stat panics {st.nPanics}"]

def run (h : IO.FS.Stream) : IO Unit := loop h ({} : St) step fin

end Whv.Driver.ProcFam
