import Whv.Driver.Util
import Whv.Model.AlphUtil
/-!
Driver family `alphutil` (C11).  Case lines written by `harness/alephium/c11_verif_test.go`:

* `cv <id> fn=bool|address|bytevec|byte32|u256|i256|u64|u16|u8 f=<field> res=ok:<v>|err:<kind>|errnonnil|panic`
* `msg <id> tx=<strhex> f=<fields> ts=<int64> res=ok|err:<kind>|errnonnil|panic [m=<msg> pub=<pub> flags=<a><t> vid=<ec>,<em>,<tc>,<seq> | post=panic]`
* `pub <id> w=<msg> ts=<int64> pub=<pub>|panic flags=.. vid=..`
* `att <id> in=<hex> [tok=<hex> chain=<n> dec=<n> sym=<hex> name=<hex>] res=ok:<tok>,<dec>,<sym>,<name>|err:<kind>|panic`
* `hex <id> fn=tohex in=<hex> out=<strhex> back=ok:<hex>|err eq=0|1` / `fn=tob32 in=<strhex> res=ok:<hex> back=<strhex>|err:<kind>` / `fn=fixed in=<strhex> len=<n> res=..`
* `cid <id> fn=toaddr in=<strhex> res=ok:<strhex> back=ok:<hex>|err|panic | err:<kind>` / `fn=toid in=<strhex> res=ok:<hex> back=ok:<strhex>|err | err:<kind> | panic`
* `b58 <id> fn=enc in=<hex> out=<strhex>` / `fn=dec in=<strhex> res=ok:<hex>|panic`
* `be <id> w=2|8 v=<n> out=<hex>` (Uint16ToBytes / Uint64ToBytes), `max8 <id> a=<n> b=<n> out=<n>` (maxUint8)

field = `<bytevec>/<u256>/<i256>/<address>/<bool>`, part = `-` | `<hex type>.<hex value>` (bool value `0|1`); fields comma separated, `none` = empty.
msg = `sender,target,nonce,payload,seq,cl,txidhex`; pub = `txhash,sec,nsec,nonce,seq,cl,ec,tc,emitter,payload`.
-/
namespace Whv.Driver.AlphUtilFam
open Whv Whv.Driver Whv.AlphUtil

def hexE (s : String) : Option Bytes := if s = "-" then some [] else ofHex s

def parseTagged (s : String) : Option (Option Tagged) :=
  if s = "-" then some none else
  match s.splitOn "." with
  | [t, v] => do let t ← ofHex t; let v ← ofHex v; pure (some ⟨t, v⟩)
  | _ => none

def parseTaggedBool (s : String) : Option (Option TaggedBool) :=
  if s = "-" then some none else
  match s.splitOn "." with
  | [t, v] => do let t ← ofHex t; pure (some ⟨t, v = "1"⟩)
  | _ => none

def parseField (s : String) : Option Val :=
  match s.splitOn "/" with
  | [a, b, c, d, e] => do
    let a ← parseTagged a; let b ← parseTagged b; let c ← parseTagged c; let d ← parseTagged d; let e ← parseTaggedBool e
    pure { byteVec := a, u256 := b, i256 := c, address := d, bool := e }
  | _ => none

def parseFields (s : String) : Option (List Val) :=
  if s = "none" then some [] else (s.splitOn ",").mapM parseField

def variantName : Variant → String
  | .byteVec => "bytevec" | .u256 => "u256" | .i256 => "i256" | .bool => "bool" | .address => "address"

def errName : Err → String
  | .nilVariant v => "nil-" ++ variantName v
  | .badType v => "type-" ++ variantName v
  | .badNumeral v => "num-" ++ variantName v
  | .hexByte => "hex-byte" | .hexLen => "hex-len" | .byte32 => "byte32"
  | .uint8 => "uint8" | .uint16 => "uint16" | .uint64 => "uint64"
  | .fieldCount => "count" | .nonceSize => "nonce" | .hexFixedLen => "hexfixed" | .address => "address"
  | .attestLen => "attest-len" | .attestChain => "attest-chain"

def showR {α : Type} (f : α → String) : R α → String
  | .ok v => "ok:" ++ f v
  | .error e => "err:" ++ errName e

def strHex (s : GoStr) : String := hexOrDash s

def showMsg (m : Msg) : String :=
  s!"{hexOrDash m.sender},{m.target},{m.nonce},{hexOrDash m.payload},{m.sequence},{m.cl},{strHex m.txId}"

def parseMsg (s : String) : Option Msg :=
  match s.splitOn "," with
  | [sd, tg, nc, pl, sq, cl, tx] => do
    let sd ← hexE sd; let tg ← tg.toNat?; let nc ← nc.toNat?; let pl ← hexE pl; let sq ← sq.toNat?; let cl ← cl.toNat?; let tx ← hexE tx
    pure { txId := tx, sender := sd, target := tg, nonce := nc, payload := pl, sequence := sq, cl := cl }
  | _ => none

def showPub (p : Pub) : String :=
  s!"{hexOrDash p.txHash},{p.sec},{p.nsec},{p.nonce},{p.sequence},{p.cl},{p.emitterChain},{p.targetChain},{hexOrDash p.emitter},{hexOrDash p.payload}"

def parsePub (s : String) : Option Pub :=
  match s.splitOn "," with
  | [th, sec, ns, nc, sq, cl, ec, tc, em, pl] => do
    let th ← hexE th; let sec ← sec.toInt?; let ns ← ns.toInt?; let nc ← nc.toNat?; let sq ← sq.toNat?; let cl ← cl.toNat?
    let ec ← ec.toNat?; let tc ← tc.toNat?; let em ← hexE em; let pl ← hexE pl
    pure { txHash := th, sec := sec, nsec := ns, nonce := nc, sequence := sq, cl := cl, emitterChain := ec, targetChain := tc, emitter := em, payload := pl }
  | _ => none

def b2s (b : Bool) : String := if b then "1" else "0"

/-- A Go string for humans: quoted when printable ASCII, hex otherwise. -/
def showStr (s : GoStr) : String :=
  if s.all (fun c => decide (32 ≤ c.toNat) && decide (c.toNat ≤ 126)) then "\"" ++ String.ofList (s.map fun c => Char.ofNat c.toNat) ++ "\""
  else "0x" ++ toHex s

def showFieldValue (f : Val) : String :=
  match f.byteVec, f.u256 with
  | some t, _ => s!"{showStr t.typ}:{showStr (t.value.take 80)}"
  | none, some t => s!"{showStr t.typ}:{showStr (t.value.take 80)}"
  | none, none => "<other variant>"

def showVid (w : Msg) : String :=
  let (ec, em, tc, sq) := w.getID
  s!"{ec},{hexOrDash em},{tc},{sq}"

/-- A 64-character all-hex transaction id denotes its 32 bytes; the published hash must be exactly those. -/
def specTxHash (tx : GoStr) (p : Pub) : Option String :=
  if tx.length = 64 then
    match decodeHex tx with
    | (b, none) => if p.txHash = b then none else some "txhash-altered"
    | _ => none
  else none

/-- Independent reading of "s is what remains of the 32-byte field `fld` after removing NUL padding at both ends". -/
def isTrimOf (s fld : Bytes) : Bool :=
  (match s with | [] => true | c :: _ => c != 0) &&
  (match s.getLast? with | none => true | some c => c != 0) &&
  (List.range (fld.length + 1)).any fun a =>
    fld == List.replicate a 0 ++ s ++ List.replicate (fld.length - a - s.length) 0

structure St where
  n : Nat := 0
  accepted : Nat := 0
  rejected : Nat := 0
  fitSeen : Nat := 0
  unfitSeen : Nat := 0
  attOk : Nat := 0
  rt : Nat := 0

/-- narrowing converters: width in bits -/
def widthOf (fn : String) : Option Nat :=
  if fn = "u8" then some 8 else if fn = "u16" then some 16 else if fn = "u64" then some 64 else none

def stepCv (st : St) (id : String) (rest : List String) : St × List String :=
  match kv rest "fn", kv rest "f" >>= parseField, kv rest "res" with
  | some fn, some f, some res =>
    let st := { st with n := st.n + 1 }
    if res = "panic" then (st, [s!"spec {id} converter-panic {fn} panicked"])
    else if res = "errnonnil" then (st, [s!"spec {id} partial-result {fn} returned an error together with a value"])
    else
    let model : String :=
      if fn = "bool" then showR b2s (toBool f)
      else if fn = "address" then showR strHex (toAddress f)
      else if fn = "bytevec" then showR hexOrDash (toByteVec f)
      else if fn = "byte32" then showR hexOrDash (toByte32 f)
      else if fn = "u256" then showR toString (toU256 f)
      else if fn = "i256" then showR toString (toI256 f)
      else if fn = "u64" then showR toString (toUint64 f)
      else if fn = "u16" then showR toString (toUint16 f)
      else if fn = "u8" then showR toString (toUint8 f)
      else "unknown-fn"
    -- Spec on the implementation's own answer
    let specV : Option String :=
      match widthOf fn with
      | some k =>
        match denotesNat f with
        | some v =>
          if v < 2 ^ k then
            (if res = s!"ok:{v}" then none
             else if res.startsWith "ok:" then some s!"{fn}-value-altered numeral denotes {v}, converter returned {res}"
             else some s!"{fn}-fit-rejected value {v} fits {k} bits but the converter answered {res}")
          else if res.startsWith "ok:" then some s!"{fn}-unfit-accepted value {v} does not fit {k} bits but the converter returned {res} (wrapped)"
          else none
        | none =>
          if res.startsWith "ok:" then
            match denotesNatLenient f with
            | some v => if v < 2 ^ k ∧ res = s!"ok:{v}" then none else some s!"{fn}-unfit-accepted field does not denote a {k}-bit value but the converter returned {res}"
            | none => some s!"{fn}-unfit-accepted field is not an unsigned numeral but the converter returned {res}"
          else none
      | none =>
        if fn = "bytevec" ∨ fn = "byte32" then
          let fits (b : Bytes) : Bool := fn = "bytevec" || b.length == 32
          match denotesBytes f with
          | some b =>
            if fits b then
              (if res = "ok:" ++ hexOrDash b then none
               else if res.startsWith "ok:" then some s!"{fn}-value-altered converter returned {res}"
               else some s!"{fn}-fit-rejected well-formed hex of {b.length} bytes rejected: {res}")
            else if res.startsWith "ok:" then some s!"byte32-unfit-accepted {b.length} bytes accepted as Byte32: {res}" else none
          | none =>
            if res.startsWith "ok:" then
              match denotesBytesLenient f with
              | some b => if fits b ∧ res = "ok:" ++ hexOrDash b then none else some s!"{fn}-unfit-accepted field does not denote these bytes but the converter returned {res}"
              | none => some s!"{fn}-unfit-accepted field is not a hex ByteVec but the converter returned {res}"
            else none
        else none
    match specV with
    | some t => (st, [s!"spec {id} {t}; field {showFieldValue f}"])
    | none =>
      if model = res then (st, [s!"ok {id}"]) else (st, [s!"diff {id} {fn} model={model} impl={res}"])
  | _, _, _ => (st, [s!"diff {id} unparsable cv line"])

def checkPost (id : String) (rest : List String) (w : Msg) (ts : Int) : Option String :=
  match kv rest "pub" with
  | some "panic" => some s!"spec {id} converter-panic toMessagePublication panicked"
  | some ps =>
    match parsePub ps with
    | none => some s!"diff {id} unparsable pub"
    | some p =>
      match specPub w ts p with
      | some c => some s!"spec {id} {c} header timestamp {ts} ms, message {showMsg w}, published {showPub p}"
      | none =>
        match specTxHash w.txId p with
        | some c => some s!"diff {id} {c} tx id {strHex w.txId} published as {hexOrDash p.txHash} (not part of the statement: tie only)"
        | none =>
          let mp := toMessagePublication w ts
          if mp ≠ p then some s!"diff {id} toMessagePublication model={showPub mp} impl={showPub p}"
          else if kv rest "flags" ≠ some (b2s w.isAttestTokenVAA ++ b2s w.isTransferTokenVAA) then
            some s!"diff {id} IsAttestTokenVAA/IsTransferTokenVAA model={b2s w.isAttestTokenVAA}{b2s w.isTransferTokenVAA} impl={(kv rest "flags").getD "?"}"
          else if kv rest "vid" ≠ some (showVid w) then some s!"diff {id} GetID model={showVid w} impl={(kv rest "vid").getD "?"}"
          else none
  | none => some s!"diff {id} pub missing"

def stepMsg (st : St) (id : String) (rest : List String) : St × List String :=
  match kv rest "tx" >>= hexE, kv rest "f" >>= parseFields, (kv rest "ts").bind String.toInt?, kv rest "res" with
  | some tx, some fs, some ts, some res =>
    let st := { st with n := st.n + 1 }
    if res = "panic" then (st, [s!"spec {id} converter-panic ToWormholeMessage panicked on {fs.length} fields"])
    else if res = "errnonnil" then (st, [s!"spec {id} partial-result ToWormholeMessage returned an error together with a message"])
    else if kv rest "post" = some "panic" then (st, [s!"spec {id} converter-panic toMessagePublication / GetID panicked"])
    else
    let observed : Option (Option Msg) :=
      if res = "ok" then (kv rest "m" >>= parseMsg).map some else some none
    match observed with
    | none => (st, [s!"diff {id} unparsable m="])
    | some obs =>
      let fit := (fitEvent fs tx).isSome
      let st := if fit then { st with fitSeen := st.fitSeen + 1 } else { st with unfitSeen := st.unfitSeen + 1 }
      match specMsg fs tx obs with
      | some c =>
        let what := match obs with
          | some o => s!"accepted as {showMsg o}"
          | none => s!"rejected ({res})"
        (st, [s!"spec {id} {c} event {what}; fits={fit}; fields {", ".intercalate (fs.map showFieldValue)}"])
      | none =>
        let model := toWormholeMessage fs tx
        match obs, model with
        | none, .error e =>
          if res = "err:" ++ errName e then ({ st with rejected := st.rejected + 1 }, [s!"ok {id}"])
          else (st, [s!"diff {id} error kind model=err:{errName e} impl={res}"])
        | none, .ok m => (st, [s!"diff {id} model accepts ({showMsg m}) impl {res}"])
        | some o, .error e => (st, [s!"diff {id} model rejects (err:{errName e}) impl accepts {showMsg o}"])
        | some o, .ok m =>
          if o ≠ m then (st, [s!"diff {id} model={showMsg m} impl={showMsg o}"])
          else match checkPost id rest o ts with
            | some l => (st, [l])
            | none => ({ st with accepted := st.accepted + 1 }, [s!"ok {id}"])
  | _, _, _, _ => (st, [s!"diff {id} unparsable msg line"])

def stepPub (st : St) (id : String) (rest : List String) : St × List String :=
  match kv rest "w" >>= parseMsg, (kv rest "ts").bind String.toInt? with
  | some w, some ts =>
    let st := { st with n := st.n + 1 }
    match checkPost id rest w ts with
    | some l => (st, [l])
    | none => (st, [s!"ok {id}"])
  | _, _ => (st, [s!"diff {id} unparsable pub line"])

def showTok (t : TokenInfo) : String := s!"{hexOrDash t.tokenId},{t.decimals},{strHex t.symbol},{strHex t.name}"

def parseTok (s : String) : Option TokenInfo :=
  match s.splitOn "," with
  | [a, b, c, d] => do let a ← hexE a; let b ← b.toNat?; let c ← hexE c; let d ← hexE d; pure ⟨a, b, c, d⟩
  | _ => none

def stepAtt (st : St) (id : String) (rest : List String) : St × List String :=
  match kv rest "in" >>= hexE, kv rest "res" with
  | some inp, some res =>
    let st := { st with n := st.n + 1 }
    if res = "panic" then (st, [s!"spec {id} converter-panic parseAttestToken panicked on {inp.length} bytes"])
    else if res = "errnonnil" then (st, [s!"spec {id} partial-result parseAttestToken returned an error together with a value"])
    else
    let obs : Option TokenInfo := if res.startsWith "ok:" then parseTok (res.drop 3).toString else none
    if res.startsWith "ok:" ∧ obs.isNone then (st, [s!"diff {id} unparsable token info"]) else
    -- the components the contract encoded: given by the harness, or read off a payload the contract could have produced
    let comps : Option (Bytes × Nat × Nat × Bytes × Bytes) :=
      match kv rest "tok" >>= hexE, kvNat rest "chain", kvNat rest "dec", kv rest "sym" >>= hexE, kv rest "name" >>= hexE with
      | some t, some c, some d, some s, some n => some (t, c, d, s, n)
      | _, _, _, _, _ =>
        if inp.length = 100 then some (slice inp 1 33, unbe (slice inp 33 35), unbe (slice inp 35 36), slice inp 36 68, slice inp 68 100) else none
    let encOk : Bool := match comps with
      | some (t, c, d, s, n) => ralphAttestPayload t c d s n == some inp
      | none => false
    if (kv rest "tok").isSome ∧ ¬ encOk then (st, [s!"diff {id} harness payload is not what the contract layout (ralphAttestPayload) produces"]) else
    let specV : Option String :=
      match comps, encOk with
      | some (t, c, d, s, n), true =>
        if c = 255 then
          match obs with
          | none => some s!"attest-rejected payload encoded by the contract for an Alephium token is rejected: {res}"
          | some o =>
            if o.tokenId ≠ t ∨ o.decimals ≠ d ∨ ¬ isTrimOf o.symbol s ∨ ¬ isTrimOf o.name n then
              some s!"attest-roundtrip-altered contract encoded ({hexOrDash t},{d},{hexOrDash s},{hexOrDash n}) decoded {showTok o}"
            else none
        else none   -- a foreign token chain is outside the statement: compared with the model only
      | _, _ => none
    match specV with
    | some t => (st, [s!"spec {id} {t}"])
    | none =>
      let model := showR showTok (parseAttestToken inp)
      if model = res then ({ st with attOk := st.attOk + (if obs.isSome then 1 else 0) }, [s!"ok {id}"])
      else (st, [s!"diff {id} parseAttestToken model={model} impl={res}"])
  | _, _ => (st, [s!"diff {id} unparsable att line"])

def allHex (s : GoStr) : Bool := s.all fun c => (AlphUtil.hexVal c).isSome

def stepHex (st : St) (id : String) (rest : List String) : St × List String :=
  let st := { st with n := st.n + 1 }
  match kv rest "fn" with
  | some "tohex" =>
    match kv rest "in" >>= hexE, kv rest "out" >>= hexE, kv rest "back", kv rest "eq" with
    | some b, some out, some back, some eq =>
      if back ≠ "ok:" ++ hexOrDash b ∨ eq ≠ "1" then (st, [s!"spec {id} hex-roundtrip HexToByte32(ToHex(b)) = {back}, expected {hexOrDash b}"])
      else if out ≠ toHex32 b then (st, [s!"diff {id} ToHex model={strHex (toHex32 b)} impl={strHex out}"])
      else ({ st with rt := st.rt + 1 }, [s!"ok {id}"])
    | _, _, _, _ => (st, [s!"diff {id} unparsable hex tohex line"])
  | some fn =>
    match kv rest "in" >>= hexE, kv rest "res" with
    | some s, some res =>
      let len := if fn = "tob32" then 32 else (kvNat rest "len").getD 0
      if res = "panic" then (st, [s!"spec {id} converter-panic hex conversion panicked"]) else
      let fit := s.length = 2 * len ∧ allHex s
      let strict := fit ∧ isLowerHex s   -- the image of ToHex: must be accepted
      let specV : Option String :=
        if fit then
          match decodeHex s with
          | (b, none) =>
            if res ≠ "ok:" ++ hexOrDash b then
              (if res.startsWith "ok:" then some s!"hex-value-altered {strHex s} decoded as {res}"
               else if strict then some s!"hex-fit-rejected {len}-byte hex string rejected: {res}" else none)
            else if fn = "tob32" ∧ (kv rest "back" >>= hexE) ≠ some (lowerHex s) then some s!"hex-roundtrip ToHex(HexToByte32(s)) differs from s"
            else none
          | _ => none
        else if res.startsWith "ok:" then some s!"hex-unfit-accepted {strHex s} is not {len} bytes of hex but was accepted: {res}"
        else none
      match specV with
      | some t => (st, [s!"spec {id} {t}"])
      | none =>
        let model := showR hexOrDash (hexToFixedSizeBytes s len)
        if model = res then (st, [s!"ok {id}"]) else (st, [s!"diff {id} hex {fn} model={model} impl={res}"])
    | _, _ => (st, [s!"diff {id} unparsable hex line"])
  | none => (st, [s!"diff {id} unparsable hex line"])

def showCid : CidRes → String
  | .ok b => "ok:" ++ hexOrDash b
  | .err => "err:address"
  | .panic => "panic"

def stepCid (st : St) (id : String) (rest : List String) : St × List String :=
  let st := { st with n := st.n + 1 }
  match kv rest "fn", kv rest "in" >>= hexE, kv rest "res" with
  | some "toaddr", some s, some res =>
    if res = "panic" then (st, [s!"spec {id} converter-panic ToContractAddress panicked"]) else
    let fit := s.length = 64 ∧ allHex s
    let back := (kv rest "back").getD "-"
    let specV : Option String :=
      if fit then
        if ¬ res.startsWith "ok:" then (if isLowerHex s then some s!"contract-id-fit-rejected 32-byte hex id rejected: {res}" else none)
        else if back ≠ "ok:" ++ hexOrDash (decodeHex s).1 then some s!"contract-id-roundtrip ToContractId(ToContractAddress(id)) = {back}"
        else none
      else if res.startsWith "ok:" then some s!"contract-id-unfit-accepted {strHex s} is not a 32-byte hex id but was accepted" else none
    match specV with
    | some t => (st, [s!"spec {id} {t}"])
    | none =>
      let m := toContractAddress s
      let model := showR strHex m
      let modelBack := match m with
        | .ok a => showCid (toContractId a)
        | .error _ => "-"
      let modelBack := if modelBack = "err:address" then "err" else modelBack
      if model ≠ res then (st, [s!"diff {id} ToContractAddress model={model} impl={res}"])
      else if modelBack ≠ back then (st, [s!"diff {id} ToContractId(ToContractAddress) model={modelBack} impl={back}"])
      else ({ st with rt := st.rt + (if fit then 1 else 0) }, [s!"ok {id}"])
  | some "toid", some a, some res =>
    let m := toContractId a
    -- the address is the canonical base58 of 0x03 ‖ id  ⇒  it must map to id and back to itself
    let canon : Option Bytes := match b58Decode a with
      | .ok (p :: idb) => if p.toNat = 3 ∧ idb.length = 32 ∧ b58Encode (p :: idb) = a then some idb else none
      | _ => none
    let back := (kv rest "back").getD "-"
    let specV : Option String :=
      match canon with
      | some idb =>
        if res ≠ "ok:" ++ hexOrDash idb then some s!"contract-addr-roundtrip contract address of id {hexOrDash idb} converted to {res}"
        else if back ≠ "ok:" ++ strHex a then some s!"contract-addr-roundtrip ToContractAddress(ToContractId(a)) = {back}"
        else none
      | none => none
    match specV with
    | some t => (st, [s!"spec {id} {t}"])
    | none =>
      let model := showCid m
      let modelBack := match m with
        | .ok idb => (match toContractAddress (toHex32 idb) with | .ok x => "ok:" ++ strHex x | .error _ => "err")
        | _ => "-"
      if model ≠ res then (st, [s!"diff {id} ToContractId model={model} impl={res}"])
      else if modelBack ≠ back then (st, [s!"diff {id} ToContractAddress(ToContractId) model={modelBack} impl={back}"])
      else ({ st with rt := st.rt + (if canon.isSome then 1 else 0) }, [s!"ok {id}"])
  | _, _, _ => (st, [s!"diff {id} unparsable cid line"])

def showB58 : B58Res → String
  | .ok b => "ok:" ++ hexOrDash b
  | .panic => "panic"

def stepB58 (st : St) (id : String) (rest : List String) : St × List String :=
  let st := { st with n := st.n + 1 }
  match kv rest "fn" with
  | some "enc" =>
    match kv rest "in" >>= hexE, kv rest "out" >>= hexE with
    | some b, some out =>
      if b58Encode b ≠ out then (st, [s!"diff {id} base58.Encode model={strHex (b58Encode b)} impl={strHex out}"])
      else if b58Decode out ≠ .ok b then (st, [s!"diff {id} base58 assumption dec (enc b) = b fails in the model for {hexOrDash b}"])
      else (st, [s!"ok {id}"])
    | _, _ => (st, [s!"diff {id} unparsable b58 line"])
  | some "dec" =>
    match kv rest "in" >>= hexE, kv rest "res" with
    | some s, some res =>
      if showB58 (b58Decode s) ≠ res then (st, [s!"diff {id} base58.Decode model={showB58 (b58Decode s)} impl={res}"]) else (st, [s!"ok {id}"])
    | _, _ => (st, [s!"diff {id} unparsable b58 line"])
  | _ => (st, [s!"diff {id} unparsable b58 line"])

def stepHelper (st : St) (op id : String) (rest : List String) : St × List String :=
  let st := { st with n := st.n + 1 }
  if op = "be" then
    match kvNat rest "w", kvNat rest "v", kvHex rest "out" with
    | some w, some v, some out =>
      if be w v = out then (st, [s!"ok {id}"]) else (st, [s!"diff {id} Uint{w * 8}ToBytes({v}) model={toHex (be w v)} impl={toHex out}"])
    | _, _, _ => (st, [s!"diff {id} unparsable be line"])
  else
    match kvNat rest "a", kvNat rest "b", kvNat rest "out" with
    | some a, some b, some out =>
      if max a b = out then (st, [s!"ok {id}"]) else (st, [s!"diff {id} maxUint8({a},{b}) model={max a b} impl={out}"])
    | _, _, _ => (st, [s!"diff {id} unparsable max8 line"])

def step (st : St) (line : String) : St × List String :=
  match fields line with
  | "be" :: id :: rest => stepHelper st "be" id rest
  | "max8" :: id :: rest => stepHelper st "max8" id rest
  | "cv" :: id :: rest => stepCv st id rest
  | "msg" :: id :: rest => stepMsg st id rest
  | "pub" :: id :: rest => stepPub st id rest
  | "att" :: id :: rest => stepAtt st id rest
  | "hex" :: id :: rest => stepHex st id rest
  | "cid" :: id :: rest => stepCid st id rest
  | "b58" :: id :: rest => stepB58 st id rest
  | [] => (st, [])
  | _ => (st, [s!"diff ? unknown line: {line.take 80}"])

def fin (st : St) : List String :=
  [s!"stat cases {st.n}", s!"stat events_fit {st.fitSeen}", s!"stat events_unfit {st.unfitSeen}", s!"stat msg_accepted {st.accepted}",
   s!"stat msg_rejected {st.rejected}", s!"stat attest_decoded {st.attOk}", s!"stat roundtrips {st.rt}"]

def run (h : IO.FS.Stream) : IO Unit := loop h ({} : St) step fin

end Whv.Driver.AlphUtilFam
