import Whv.Driver.Util
import Whv.Model.Gossip
/-!
Driver family `gossip` (C03).  One session (= one case id) is a `reset` line followed by calls of the REAL
`processSignedHeartbeat` / `processSignedObservationRequest` / `SetHeartbeat` / `Cleanup` on one `GuardianSetState`.

* `reset   <cid> upd=<0|1>`
* `hb      <cid> dv=<0|1> gs=<addr,..|-> from=<peerhex> body= sig= addr= rhb=<addr|none> rreq= rraw= dec=<canon@ts|err>
                 res=<ok|e:kind|panic> ret=<canon@ts|-> upd=<canon@ts,..|-> met=<0|1> tbl=<table>`
* `req     <cid> gs= body= sig= addr= rhb= rreq= rraw= dec=<chain:tx|err> res= ret=<chain:tx|-> tbl=`
* `sethb   <cid> addr= from= hb=<canon@ts> res=<ok|e:toomany|panic> upd= tbl=`
* `cleanup <cid> now=<ns> tbl=`          `end <cid>`
* optional fields: `named=<hex of the body's guardian_addr string|->` on `hb` lines (verdict text only) and `rep=<n>` on `hb` / `req`
  lines: the harness made the SAME call n times in a row, every one was rejected with the same error and left table, update
  channel and metrics alone, so one line stands for n (a lossless abbreviation: model and Spec are functions of the line).

Ghost state per session (built from the lines alone): `recv` — for every heartbeat received, the address its signature
recovers to under the heartbeat domain, the sending peer and the decoded body (plus the node's own `sethb` entries); `memo` —
calls that were accepted since the last state change, with the number of dropped messages received since.

Oracles: the model's digest function is instantiated with the identity (the model only ever passes it the pre-image it
built) and `recover pre sig` answers from the three recoveries the harness computed for the protocol's pre-images
(`"heartbeat|" ++ body`, `"signed_observation_request|" ++ body`, `body`); a model that builds any other pre-image
gets `none`.  The Spec is evaluated on the implementation's own results (`dv=0` lines only) and uses the protocol
constants written here, not the extracted ones.
-/
namespace Whv.Driver.GossipFam
open Whv Whv.Driver Whv.Gossip

def hbConst : Bytes := "heartbeat|".toUTF8.toList
def reqConst : Bytes := "signed_observation_request|".toUTF8.toList
def floorConst : Nat := 34

def cfg : Cfg := Cfg.gen

def bytesLt : Bytes → Bytes → Bool
  | [], [] => false
  | [], _ :: _ => true
  | _ :: _, [] => false
  | a :: as, b :: bs => if a < b then true else if b < a then false else bytesLt as bs

def insertBy {α : Type} (key : α → Bytes) (x : α) : List α → List α
  | [] => [x]
  | y :: l => if bytesLt (key x) (key y) then x :: y :: l else y :: insertBy key x l

def sortBy {α : Type} (key : α → Bytes) (l : List α) : List α := l.foldl (fun acc x => insertBy key x acc) []

def normTable (t : Table) : Table := sortBy (·.1) (t.map fun (a, v) => (a, sortBy (·.1) v))

def parseOptAddr (s : String) : Option (Option Addr) := if s = "none" then some none else (ofHex s).map some

def parseAddrs (s : String) : Option (List Addr) := if s = "-" then some [] else (s.splitOn ",").mapM ofHex

def parseHb (s : String) : Option Hb :=
  match s.splitOn "@" with
  | [h, t] => do let h ← parseHexD h; let t ← t.toInt?; pure ⟨h, t⟩
  | _ => none

def parseHbList (s : String) : Option (List Hb) := if s = "-" then some [] else (s.splitOn ",").mapM parseHb

def parseReq (s : String) : Option ObsReq :=
  match s.splitOn ":" with
  | [c, t] => do let c ← c.toNat?; let t ← parseHexD t; pure ⟨c, t⟩
  | _ => none

def parseInner (inner : String) : Option (List (Peer × Hb)) :=
  if inner = "-" then some [] else
  (inner.splitOn ",").mapM fun pe =>
    match pe.splitOn "=" with
    | [p, h] => do let p ← parseHexD p; let h ← parseHb h; pure (p, h)
    | _ => none

def parseTable (s : String) : Option Table :=
  if s = "-" then some [] else
  (s.splitOn ";").mapM fun e =>
    match e.splitOn ":" with
    | [a, inner] => do
      let a ← ofHex a
      let v ← parseInner inner
      pure (a, v)
    | _ => none

def showHb (h : Hb) : String := s!"{hexOrDash h.canon}@{h.ts}"

def showTable (t : Table) : String :=
  if t.isEmpty then "-" else
  ";".intercalate (t.map fun (a, v) => s!"{toHex a}:" ++ (if v.isEmpty then "-" else ",".intercalate (v.map fun (p, h) => s!"{hexOrDash p}={showHb h}")))

def errName : Err → String
  | .notInSet => "e:notinset" | .tooShort => "e:short" | .recoverFailed => "e:recover"
  | .invalidSigner => "e:signer" | .unmarshal => "e:unmarshal" | .tooMany => "e:toomany"

structure Sess where
  cid : String := ""
  active : Bool := false
  upd : Bool := false
  model : Table := []
  impl : Table := []          -- the implementation's table after the previous line (normalised)
  spec : Option String := none
  diff : Option String := none
  ended : Bool := false
  /-- (recovered signer, peer, decoded heartbeat) of every heartbeat received so far, and the node's own entries -/
  recv : List (Addr × Peer × Hb) := []
  /-- per message type, the last accepted call since the last own heartbeat / Cleanup: (hash, key, result, an immediate repeat gave the
  same result, value of `drops` when last seen) -/
  memo : List (UInt64 × String × String × Bool × Nat) := []
  /-- dropped (rejected) gossip messages received so far in this session -/
  drops : Nat := 0

structure St where
  s : Sess := {}
  sessions : Nat := 0
  hbAccept : Nat := 0
  hbReject : Nat := 0
  reqAccept : Nat := 0
  reqReject : Nat := 0
  kinds : List (String × Nat) := []
  dvLines : Nat := 0
  cleanups : Nat := 0
  cleaned : Nat := 0
  sethbs : Nat := 0
  maxPerGuardian : Nat := 0
  maxDrops : Nat := 0

def Sess.addSpec (s : Sess) (clause text : String) : Sess :=
  if s.spec.isSome then s else { s with spec := some s!"{clause} {text}" }

def Sess.addDiff (s : Sess) (text : String) : Sess :=
  if s.diff.isSome then s else { s with diff := some text }

def Sess.verdict (s : Sess) : List String :=
  if !s.active then [] else
  match s.spec, s.diff with
  | some t, _ => [s!"spec {s.cid} {t}"]
  | none, some t => [s!"diff {s.cid} {t}"]
  | none, none => if s.ended then [s!"ok {s.cid}"] else [s!"diff {s.cid} session has no end line"]

def bump (l : List (String × Nat)) (k : String) : List (String × Nat) :=
  match l.lookup k with
  | some n => (k, n + 1) :: l.filter (fun e => e.1 != k)
  | none => (k, 1) :: l

def tableSize (t : Table) : Nat := t.foldl (fun n e => n + e.2.length) 0

def maxInner (t : Table) : Nat := t.foldl (fun n e => max n e.2.length) 0

/-- Spec clause shared by every line: the per-guardian cap. -/
def capSpec (s : Sess) (t : Table) : Sess :=
  match t.find? (fun e => e.2.length > cfg.cap) with
  | some (a, v) => s.addSpec "cap-exceeded" s!"guardian {toHex a} holds {v.length} node entries (cap {cfg.cap})"
  | none => s

/-- Spec clause, judged per address after every line: a table entry under address `a` (peer `p`, content `h`) exists only if a
heartbeat with that content whose signature recovers to `a` was received from `p` (or the node filed it itself).  Only
entries that are new or changed with respect to the previous line are looked up. -/
def entrySpec (s : Sess) (t : Table) (ctx : String) : Sess :=
  let fresh := t.flatMap fun (a, v) => (v.filter fun (p, h) => ((s.impl.lookup a).bind (·.lookup p)) != some h).map fun (p, h) => (a, p, h)
  match fresh.find? (fun e => !(s.recv.contains e)) with
  | some (a, p, _) =>
    let signers := (s.recv.map (·.1)).eraseDups
    let hasAddr := signers.contains a
    s.addSpec "entry-under-address-that-did-not-sign" (s!"the table holds an entry under {toHex a} (peer {hexOrDash p}) " ++
      (if hasAddr then "with a content no heartbeat signed by that address and received from that peer had"
       else s!"although nothing whose signature recovers to that address was received (signatures received so far recover to: {signers.map toHex})") ++ s!"; {ctx}")
  | none => s

/-- Spec clause "dropped without side effects", on repeated calls: a call that was accepted, and accepted again when repeated
at once, must give the same result when it is repeated after nothing but DROPPED messages (and accepted messages of the
other type) were received.  `key` = every
input of the call (for heartbeats including the table before it), `result` = everything it returned / left behind. -/
def memoSpec (s : Sess) (what key result : String) (accepted : Bool) (rep : Nat) : Sess :=
  let hk := hash key
  let found := s.memo.find? (fun e => e.1 == hk && e.2.1 == key)
  let s :=
    match found with
    | some (_, _, r0, repeatable, at_) =>
      if s.drops > at_ ∧ repeatable ∧ r0 ≠ result then
        s.addSpec "dropped-gossip-changed-later-result" s!"{what}: this call was accepted ({r0.take 60}…), accepted again when repeated at once, and since then the node has received {s.drops - at_} message(s) it dropped and accepted no other message of this type; the identical call now gives {result.take 80}"
      else s
    | none => s
  if accepted then
    let repeatable := match found with
      | some (_, _, r0, rp, at_) => (rp || s.drops == at_) && r0 == result
      | none => false
    -- an accepted message replaces what is remembered about messages of ITS type (keys start with "hb|" / "req|")
    { s with memo := (hk, key, result, repeatable, s.drops) :: s.memo.filter (fun e => e.2.1.take 3 != key.take 3) }
  else { s with drops := s.drops + rep }

/-- The oracle the model is run with (see the file comment). -/
def mkOracles (body sig : Bytes) (rhb rreq rraw : Option Addr) (decHb : Option Hb) (decReq : Option ObsReq) : Oracles :=
  { H := id
    recover := fun pre sg =>
      if sg ≠ sig then none
      else if pre = hbConst ++ body then rhb
      else if pre = reqConst ++ body then rreq
      else if pre = body then rraw
      else none
    decodeHb := fun b => if b = body then decHb else none
    decodeReq := fun b => if b = body then decReq else none }

/-- what is wrong with an accepted message, from the oracle answers alone (`own`/`other` = this type's / the other type's recovery) -/
def acceptSpec (s : Sess) (what : String) (gs : List Addr) (prefixLen : Nat) (body addr : Bytes)
    (own other raw : Option Addr) (decoded : Bool) : Sess :=
  let a := bytesToAddress addr
  if !(gs.contains a) then s.addSpec "accepted-non-member" s!"{what} accepted although the envelope address {toHex a} is not in the guardian set ({gs.length} keys)"
  else if prefixLen + body.length < floorConst then s.addSpec "accepted-below-floor" s!"{what} accepted with a signed pre-image of {prefixLen + body.length} bytes (< {floorConst}); body {hexOrDash body}"
  else if own ≠ some a then
    if other = some a ∨ raw = some a then s.addSpec "accepted-cross-domain-signature" s!"{what} accepted for {toHex a} although its signature recovers to that address only under ANOTHER domain (other prefix: {other == some a}, no prefix: {raw == some a})"
    else s.addSpec "accepted-bad-signature" s!"{what} accepted for {toHex a} although the signature over its own prefixed pre-image recovers to {own.map toHex}"
  else if !decoded then s.addSpec "accepted-undecodable" s!"{what} accepted although its body does not decode"
  else s

def stepSess (st : St) (op : String) (rest : List String) : St :=
  let s := st.s
  match op with
  | "hb" =>
    match kvNat rest "dv", kv rest "gs" >>= parseAddrs, kvHex rest "from", kvHex rest "body", kvHex rest "sig", kvHex rest "addr" with
    | some dv, some gs, some src, some body, some sig, some addr =>
      match kv rest "rhb" >>= parseOptAddr, kv rest "rreq" >>= parseOptAddr, kv rest "rraw" >>= parseOptAddr,
            kv rest "dec", kv rest "res", kv rest "ret", kv rest "upd" >>= parseHbList, kvNat rest "met", kv rest "tbl" >>= parseTable with
      | some rhb, some rreq, some rraw, some decS, some res, some retS, some upd, some met, some tblRaw =>
        let dec := if decS = "err" then none else parseHb decS
        let ret := if retS = "-" then none else parseHb retS
        let tbl := normTable tblRaw
        let disable := dv = 1
        let a := bytesToAddress addr
        let rep := (kvNat rest "rep").getD 1
        let named := (kv rest "named").getD "?"
        -- ---------- Spec on the implementation's own result
        let s := match rhb, dec with
          | some r, some h => if s.recv.contains (r, src, h) then s else { s with recv := (r, src, h) :: s.recv }
          | _, _ => s
        let s := entrySpec s tbl s!"this line: heartbeat from peer {hexOrDash src}, envelope address {toHex a}, signature recovers to {rhb.map toHex}, guardian_addr string inside the body (hex) {named}, result {res}"
        let s := if rep > 1 ∧ (res = "ok" ∨ tbl ≠ s.impl ∨ !upd.isEmpty ∨ met = 1) then s.addDiff s!"rep={rep} on a heartbeat line that is not a plain rejection" else s
        let s := memoSpec s s!"heartbeat of {toHex a} from peer {hexOrDash src}"
          s!"hb|{dv}|{(kv rest "gs").getD ""}|{(kv rest "from").getD ""}|{(kv rest "body").getD ""}|{(kv rest "sig").getD ""}|{(kv rest "addr").getD ""}|{showTable s.impl}"
          s!"{res} {retS} {showTable tbl}" (res = "ok") rep
        let s :=
          if res = "panic" then s.addSpec "verifier-panic" s!"processSignedHeartbeat panicked (body {body.length} bytes, sig {sig.length} bytes, addr {addr.length} bytes)"
          else if disable then s
          else if res = "ok" then
            let s := acceptSpec s "heartbeat" gs hbConst.length body addr rhb rreq rraw dec.isSome
            match dec with
            | some h =>
              let want := normTable ((assocSet s.impl a (assocSet ((s.impl.lookup a).getD []) src h)))
              if tbl ≠ want then
                s.addSpec "stored-wrongly" s!"accepted heartbeat of {toHex a} from peer {hexOrDash src}: table is {showTable tbl}, expected the previous table with exactly that entry set: {showTable want}"
              else if s.upd && upd ≠ [h] then s.addDiff s!"update channel got {upd.map showHb}, expected the stored heartbeat"
              else s
            | none => s
          else
            if tbl ≠ s.impl then s.addSpec "rejected-but-state-changed" s!"heartbeat rejected ({res}) but the table changed: {showTable s.impl} -> {showTable tbl}"
            else if !upd.isEmpty then s.addSpec "rejected-but-published" s!"heartbeat rejected ({res}) but {upd.length} heartbeat(s) went to the update channel"
            else if met = 1 then s.addSpec "rejected-but-metrics-changed" s!"heartbeat rejected ({res}) but the per-node metrics changed"
            else s
        let s := capSpec s tbl
        -- ---------- model
        let o := mkOracles body sig rhb rreq rraw dec none
        let (mt, mr) := processHeartbeat o cfg disable gs s.model src ⟨body, sig, addr⟩
        let mres := match mr with | .ok _ => "ok" | .error e => errName e
        let s :=
          if res = "panic" then s
          else if mres ≠ res then s.addDiff s!"heartbeat result model={mres} impl={res} (dv={dv}, addr {toHex a}, rhb {rhb.map toHex}, body {body.length} bytes)"
          else if (match mr with | .ok h => some h | .error _ => none) ≠ ret then s.addDiff s!"heartbeat return value differs: impl {retS}"
          else if normTable mt ≠ tbl then s.addDiff s!"heartbeat table model={showTable (normTable mt)} impl={showTable tbl}"
          else if (if s.upd then (match mr with | .ok h => [h] | .error _ => []) else []) ≠ upd then s.addDiff s!"update channel model/impl differ: impl {upd.map showHb}"
          else s
        let s := { s with model := mt, impl := tbl }
        let st := if disable then { st with dvLines := st.dvLines + 1 }
                  else if res = "ok" then { st with hbAccept := st.hbAccept + 1 } else { st with hbReject := st.hbReject + rep }
        { st with s := s, kinds := bump st.kinds s!"hb_{res}", maxPerGuardian := max st.maxPerGuardian (maxInner tbl) }
      | _, _, _, _, _, _, _, _, _ => { st with s := s.addDiff "unparsable hb line (results)" }
    | _, _, _, _, _, _ => { st with s := s.addDiff "unparsable hb line" }
  | "req" =>
    match kv rest "gs" >>= parseAddrs, kvHex rest "body", kvHex rest "sig", kvHex rest "addr",
          kv rest "rhb" >>= parseOptAddr, kv rest "rreq" >>= parseOptAddr, kv rest "rraw" >>= parseOptAddr with
    | some gs, some body, some sig, some addr, some rhb, some rreq, some rraw =>
      match kv rest "dec", kv rest "res", kv rest "ret", kv rest "tbl" >>= parseTable with
      | some decS, some res, some retS, some tblRaw =>
        let dec := if decS = "err" then none else parseReq decS
        let ret := if retS = "-" then none else parseReq retS
        let tbl := normTable tblRaw
        let rep := (kvNat rest "rep").getD 1
        let s := entrySpec s tbl s!"this line: an observation request ({res})"
        let s := if rep > 1 ∧ (res = "ok" ∨ tbl ≠ s.impl) then s.addDiff s!"rep={rep} on a request line that is not a plain rejection" else s
        let s := memoSpec s s!"observation request of {toHex (bytesToAddress addr)}"
          s!"req|{(kv rest "gs").getD ""}|{(kv rest "body").getD ""}|{(kv rest "sig").getD ""}|{(kv rest "addr").getD ""}|{showTable s.impl}"
          s!"{res} {retS} {showTable tbl}" (res = "ok") rep
        let s :=
          if res = "panic" then s.addSpec "verifier-panic" s!"processSignedObservationRequest panicked (body {body.length} bytes, sig {sig.length} bytes, addr {addr.length} bytes)"
          else if res = "ok" then
            let s := acceptSpec s "observation request" gs reqConst.length body addr rreq rhb rraw dec.isSome
            if dec.isSome ∧ ret ≠ dec then s.addSpec "forwarded-altered" s!"the request handed on is {retS}, the signed body decodes to {decS}" else s
          else s
        let s := if tbl ≠ s.impl then s.addSpec "rejected-but-state-changed" s!"an observation request ({res}) changed the heartbeat table: {showTable s.impl} -> {showTable tbl}" else s
        let o := mkOracles body sig rhb rreq rraw none dec
        let mr := processObsReq o cfg gs ⟨body, sig, addr⟩
        let mres := match mr with | .ok _ => "ok" | .error e => errName e
        let s :=
          if res = "panic" then s
          else if mres ≠ res then s.addDiff s!"observation request result model={mres} impl={res} (addr {toHex (bytesToAddress addr)}, rreq {rreq.map toHex}, body {body.length} bytes)"
          else if (match mr with | .ok r => some r | .error _ => none) ≠ ret then s.addDiff s!"observation request return value differs: impl {retS}"
          else s
        let s := { s with impl := tbl }
        let st := if res = "ok" then { st with reqAccept := st.reqAccept + 1 } else { st with reqReject := st.reqReject + rep }
        { st with s := s, kinds := bump st.kinds s!"req_{res}" }
      | _, _, _, _ => { st with s := s.addDiff "unparsable req line (results)" }
    | _, _, _, _, _, _, _ => { st with s := s.addDiff "unparsable req line" }
  | "sethb" =>
    match kvHex rest "addr", kvHex rest "from", kv rest "hb" >>= parseHb, kv rest "res", kv rest "upd" >>= parseHbList, kv rest "tbl" >>= parseTable with
    | some a, some src, some h, some res, some upd, some tblRaw =>
      let tbl := normTable tblRaw
      let s := { s with recv := (a, src, h) :: s.recv, memo := [] }
      let s := entrySpec s tbl s!"this line: the node's own SetHeartbeat for {toHex a}"
      let s := if res = "panic" then s.addSpec "verifier-panic" "SetHeartbeat panicked" else s
      let s := capSpec s tbl
      let mo := setHeartbeat cfg.cap s.model a src h
      let mres := if mo.isSome then "ok" else "e:toomany"
      let mt := mo.getD s.model
      let s :=
        if res = "panic" then s
        else if mres ≠ res then s.addDiff s!"SetHeartbeat result model={mres} impl={res} ({((s.model.lookup a).getD []).length} entries for {toHex a})"
        else if normTable mt ≠ tbl then s.addDiff s!"SetHeartbeat table model={showTable (normTable mt)} impl={showTable tbl}"
        else if (if s.upd ∧ mo.isSome then [h] else []) ≠ upd then s.addDiff "SetHeartbeat update channel differs"
        else s
      { st with s := { s with model := mt, impl := tbl }, sethbs := st.sethbs + 1, maxPerGuardian := max st.maxPerGuardian (maxInner tbl) }
    | _, _, _, _, _, _ => { st with s := s.addDiff "unparsable sethb line" }
  | "cleanup" =>
    match (kv rest "now").bind String.toInt?, kv rest "tbl" >>= parseTable with
    | some now, some tblRaw =>
      let tbl := normTable tblRaw
      let s := { s with memo := [] }
      let s := entrySpec s tbl "this line: Cleanup"
      let s := capSpec s tbl
      let mt := cleanup cfg.maxAge now s.model
      let s := if normTable mt ≠ tbl then s.addDiff s!"Cleanup(now={now}) table model={showTable (normTable mt)} impl={showTable tbl}" else s
      { st with s := { s with model := mt, impl := tbl }, cleanups := st.cleanups + 1, cleaned := st.cleaned + (tableSize s.model - tableSize mt) }
    | _, _ => { st with s := s.addDiff "unparsable cleanup line" }
  | "conc" =>
    -- several SetHeartbeat calls for one guardian in flight at once: whichever order they take effect in, the cap holds and
    -- exactly min(writers, cap - before) of them succeed
    match kvHex rest "addr", kvNat rest "before", kvNat rest "writers", kvNat rest "oks", kv rest "tbl" >>= parseTable with
    | some a, some before, some writers, some oks, some tblRaw =>
      let tbl := normTable tblRaw
      -- the entries of this scenario were written by the harness' own SetHeartbeat calls (no line each)
      let s := { s with memo := [], recv := (tbl.flatMap fun (a, v) => v.map fun (p, h) => (a, p, h)) ++ s.recv }
      let s := capSpec s tbl
      let have_ := ((tbl.lookup a).getD []).length
      let want := min writers (cfg.cap - before)
      let s :=
        if oks ≠ want ∨ have_ ≠ before + want then
          s.addDiff s!"concurrent SetHeartbeat: {writers} writers on {before} entries: {oks} succeeded, {have_} entries afterwards (model: {want} succeed, {before + want} entries)"
        else s
      { st with s := { s with model := tbl, impl := tbl }, sethbs := st.sethbs + writers, maxPerGuardian := max st.maxPerGuardian (maxInner tbl) }
    | _, _, _, _, _ => { st with s := s.addDiff "unparsable conc line" }
  | "end" => { st with s := { s with ended := true }, maxDrops := max st.maxDrops s.drops }
  | _ => { st with s := s.addDiff s!"unknown op {op}" }

def step (st : St) (line : String) : St × List String :=
  match fields line with
  | "reset" :: cid :: rest =>
    let outs := st.s.verdict
    ({ st with s := { cid := cid, active := true, upd := kv rest "upd" == some "1" }, sessions := st.sessions + 1 }, outs)
  | op :: cid :: rest =>
    if st.s.active && st.s.cid = cid then (stepSess st op rest, [])
    else (st, [s!"diff {cid} line outside a session: {line.take 80}"])
  | _ => (st, [])

def fin (st : St) : List String :=
  st.s.verdict ++
  [s!"stat sessions {st.sessions}", s!"stat hb_accepted {st.hbAccept}", s!"stat hb_rejected {st.hbReject}",
   s!"stat req_accepted {st.reqAccept}", s!"stat req_rejected {st.reqReject}", s!"stat disable_verify_lines {st.dvLines}",
   s!"stat cleanups {st.cleanups}", s!"stat cleaned_entries {st.cleaned}", s!"stat own_heartbeats {st.sethbs}",
   s!"stat max_entries_per_guardian {st.maxPerGuardian}", s!"stat max_dropped_in_a_session {st.maxDrops}"] ++
  (st.kinds.map fun (k, n) => s!"stat {k} {n}")

def run (h : IO.FS.Stream) : IO Unit := loop h ({} : St) step fin

end Whv.Driver.GossipFam
