import Whv.Driver.Util
import Whv.Driver.Vaa
import Whv.Model.Db
/-!
Driver family `db` (C12).  Stateful case lines; every line of a case carries the same case id.

* `reset <cid>` — fresh store.
* `srv <cid> govec=<n> govaddr=<hex>` — governance emitter the `PublicrpcServer` was built with.
* `put <cid> v=<canon> res=ok|panic|err key=<string> val=<hex>` — `StoreSignedVAA(v)`; `key` = `VaaIDFromVAA(v).Bytes()`, `val` = `v.Marshal()`.
* `raw <cid> key=<hex> val=<hex>` — entry written straight into badger (never produced by `StoreSignedVAA`): from here on the case is
  outside the statement's domain and only model = implementation is checked.
* `get <cid> id=<ec>,<addrhex>,<tc>,<seq> res=ok|notfound|err|panic [val=<hex>]` — `GetSignedVAABytes`.
* `gap <cid> s=<ec>,<addrhex>,<tc> res=ok|err|panic [missing=<n,..|-> first=<n> last=<n>]` — `FindEmitterSequenceGap`.
* `gov <cid> ec=<n> addr=<hex> seqs=<n,..|-> res=ok|err|errnonnil|panic [out=<tc:seq:hex;..|->]` — `GetGovernanceVAABatch`.
* `pfx <id> id=<..> key=<string> ep=<string> gp=<string>` — `Bytes`, `EmitterPrefixBytes`, `GovernanceEmitterPrefixBytes`.
* `rget <cid> hasid=0|1 ec=<int> addr=<hex of the request string> tc=<int> seq=<n> res=ok|<tag> [val=<hex>]` — `PublicrpcServer.GetSignedVAA`.
* `rbatch <cid> ec=<int> addr=<hex of string> tc=<int> seqs=<..> res=ok|<tag> [out=<seq:hex;..|->]` — `GetNonGovernanceVAABatch`.
* `rgov <cid> seqs=<..> res=ok|<tag> [out=<tc:seq:hex;..|->]` — `PublicrpcServer.GetGovernanceVAABatch`.
* `fmm <cid> ec=<n> addr=<hex of string> tc=<n> res=ok|<tag> [out=<msgid,..|-> first=<n> last=<n>]` — `FindMissingMessages`.
* `bfill <cid> ec= addr= tc= script=<seq:s:<hex|->|seq:a|seq:f,..|-> res=ok|<tag> [out= first= last=] fwd=<hex|->;..|none stray=<n>` —
  `FindMissingMessages` with `RpcBackfill`: `script` = what the fake nodes answer per sequence (served bytes / absent / failed; anything
  not listed is absent), `fwd` = what arrived on the processor's inbound channel, `stray` = requests for anything but a scripted path.

* `reopen <cid>` — the harness closed the store cleanly and opened the directory again (a restart between two calls): no effect.
* a `get` / `gap` / `gov` / `rget` / `rbatch` / `rgov` line may end in `down=1`: the harness kept the store handle UNAVAILABLE for the
  duration of that call (closed - as `runNode`'s deferred `db.Close()` does while the gRPC server still accepts calls - and reopened
  afterwards), so every read fails with an error that is not "not found".  There an error is accepted (it makes no statement; model:
  `rpcGetSignedVAAAt` / `rpcNonGovBatchAt` / `rpcGovBatchAt` with nothing readable, theorem `C12.rpc_batch_at_ok_exact`), while an
  answer that IS given is judged exactly like any other: bytes must be the stored ones, "not found" only for what was never stored,
  an OK batch / gap report must be the stream's (`rpc-batch-not-stream-exact`, `rpc-batch-lost`, `rpc-get-lost`, …).
* a stored (acknowledged) identifier whose lookup ends with an ERROR on a readable store is `rpc-get-error` and also `rpc-get-lost`
  (`get-lost` for the local lookup); a well-formed batch that ends with an error while it names stored sequences is `rpc-batch-error`
  and also `rpc-batch-lost` - "that VAA is returned by every later lookup" does not care which status hides it (C16 owns the `-lost` keys).

tags: `noid badhex badlen batchsize notfound internal` (gRPC code + message, see `Whv.Db.RpcErr`), anything else is reported as is.

Clauses on error paths in the middle of a scan / a batch (each judged on the implementation's own reply):
* `gap-not-stream-exact` / `fmm-not-stream-exact` also for a stream holding a stored VAA `vaa.Unmarshal` rejects (empty payload, version
  other than 1): an error there makes no statement and is accepted, a report given WITHOUT an error has to be `specGap` of the stream;
* `backfill-report-wrong` whatever the nodes answered: a successful call lists exactly the stream's missing sequences no node served
  (`f` = any status other than 200 / 404 for that sequence: 5xx, 429, 4xx);
* `rpc-batch-wrong-bytes` / `rpc-batch-phantom` / `rpc-batch-lost` next to `rpc-batch-not-stream-exact`: the batch answer entry by entry
  (bytes of another identifier under this label / bytes for a never-stored identifier / a stored requested identifier without entry);
  these three are also reported by C16 (`checks/c12.py:RPC_C16`).

The Spec is evaluated from the implementation's own lines only: the history is the list of `(id, val)` of the `put` lines that
returned ok, and an answer is judged against `lastStored` / `specGap ∘ streamSeqs` / `specGov` of that history.
-/
namespace Whv.Driver.DbFam
open Whv Whv.Driver Whv.Db

def parseNats (s : String) : Option (List Nat) :=
  if s = "-" then some [] else (s.splitOn ",").mapM String.toNat?

def showNats (l : List Nat) : String := if l.isEmpty then "-" else ",".intercalate (l.map toString)

def parseId (s : String) : Option VaaId :=
  match s.splitOn "," with
  | [ec, a, tc, sq] => do pure ⟨← ec.toNat?, ← parseHexD a, ← tc.toNat?, ← sq.toNat?⟩
  | _ => none

def parseStream (s : String) : Option Stream :=
  match s.splitOn "," with
  | [ec, a, tc] => do pure ⟨← ec.toNat?, ← parseHexD a, ← tc.toNat?⟩
  | _ => none

def parseGovOut (s : String) : Option (List GovEntry) :=
  if s = "-" then some [] else
  (s.splitOn ";").mapM fun e =>
    match e.splitOn ":" with
    | [tc, sq, h] => do pure ⟨← tc.toNat?, ← sq.toNat?, ← parseHexD h⟩
    | _ => none

def parseSeqOut (s : String) : Option (List (Nat × Bytes)) :=
  if s = "-" then some [] else
  (s.splitOn ";").mapM fun e =>
    match e.splitOn ":" with
    | [sq, h] => do pure (← sq.toNat?, ← parseHexD h)
    | _ => none

def showGov (l : List GovEntry) : String :=
  if l.isEmpty then "-" else ";".intercalate (l.map fun g => s!"{g.targetChain}:{g.sequence}:{hexOrDash g.bytes}")

def showSeqOut (l : List (Nat × Bytes)) : String :=
  if l.isEmpty then "-" else ";".intercalate (l.map fun g => s!"{g.1}:{hexOrDash g.2}")

def sortStrs (l : List String) : List String := l.mergeSort (fun a b => decide (a ≤ b))

def govCanon (l : List GovEntry) : List String := sortStrs (l.map fun g => s!"{g.targetChain}:{g.sequence}:{hexOrDash g.bytes}")
def seqCanon (l : List (Nat × Bytes)) : List String := sortStrs (l.map fun g => s!"{g.1}:{hexOrDash g.2}")

def bytesToChars (b : Bytes) : List Char := b.map fun x => Char.ofNat x.toNat

def showGap : GapRes → String
  | .ok m f l => s!"ok missing={showNats m} first={f} last={l}"
  | .err => "err"

def errTag : RpcErr → String
  | .noId => "noid" | .badHex => "badhex" | .badLen => "badlen" | .batchSize => "batchsize"
  | .notFound => "notfound" | .internal => "internal"

def shortId (i : VaaId) : String := s!"{i.emitterChain}/{toHex (i.emitter.take 4)}../{i.targetChain}/{i.sequence}"
def shortStream (s : Stream) : String := s!"{s.ec}/{toHex (s.addr.take 4)}../{s.tc}"

structure St where
  afterBfill : Bool := false                -- the previous line was a `bfill`: the plain report that follows must be what it was before
  store : Store := []
  hist : List Put := []          -- implementation's successful stores, chronological
  outOfDomain : Bool := false    -- a `raw` line was seen in this case
  govEc : Nat := 0
  govAddr : Bytes := []
  n : Nat := 0
  nPut : Nat := 0
  nOverwrite : Nat := 0
  nGetHit : Nat := 0
  nGetMiss : Nat := 0
  nGap : Nat := 0
  nGapShadow : Nat := 0          -- gap queries whose store holds a look-alike stream (same emitter, target rendering extends the queried one)
  nGov : Nat := 0
  nRpc : Nat := 0
  nErrBranch : Nat := 0
  nDown : Nat := 0                -- calls made while the harness kept the store handle unavailable, answered with an error
  nDownAnswered : Nat := 0        -- ... answered (bytes / not found / a report) and judged

/-- every stored value of stream `s` decodes (the domain in which `FindEmitterSequenceGap` is specified) -/
def streamDecodable (h : List Put) (s : Stream) : Bool :=
  (h.filter fun p => inStream s p.1).all fun p => (unmarshal p.2).isSome

/-- sequences of stream `s` whose value stored last does not decode -/
def undecodableSeqs (h : List Put) (s : Stream) : List Nat :=
  ((h.filter fun p => inStream s p.1 && (unmarshal p.2).isNone && lastStored h p.1 == some p.2).map (·.1.sequence)).eraseDups

def lookAlike (h : List Put) (s : Stream) : Bool :=
  h.any fun p => p.1.emitterChain == s.ec && p.1.emitter == s.addr && p.1.targetChain != s.tc &&
    (decChars s.tc).isPrefixOf (decChars p.1.targetChain)

/-- Spec verdicts for a lookup answer (`res`, `val`) of identifier `id`; `pre` = "" or "rpc-".  `down`: the harness made the
store handle unavailable for the duration of the call - an error is then no verdict (it makes no statement), but an answer that IS
given (bytes, "not found") is judged like any other.  A stored identifier whose lookup ends with an error on a readable store is
both `get-error` and - the acknowledged VAA is not returned - `get-lost`. -/
def judgeGet (pre : String) (cid : String) (h : List Put) (id : VaaId) (res : String) (val : Option Bytes) (down : Bool := false) : List String :=
  let want := lastStored h id
  let dn := if down then " (the store handle was unavailable during the call: an error would have been acceptable, a wrong statement is not)" else ""
  match res, val, want with
  | "ok", some b, none => [s!"spec {cid} {pre}get-phantom lookup of never-stored {shortId id} returned {b.length} bytes{dn}"]
  | "ok", some b, some w =>
    if b = w then [] else [s!"spec {cid} {pre}get-wrong-bytes lookup of {shortId id} returned {b.length} bytes that differ from the {w.length} bytes stored last under it{dn}"]
  | "notfound", _, some w => [s!"spec {cid} {pre}get-lost {shortId id} was stored ({w.length} bytes) but lookup says not found{dn}"]
  | "notfound", _, none => []
  | r, _, w =>
    if down && (r = "err" || r = "internal") then [] else
    s!"spec {cid} {pre}get-error lookup of {shortId id} ended with {r}" ::
      (match w with
       | some w => [s!"spec {cid} {pre}get-lost {shortId id} was stored ({w.length} bytes, acknowledged) but the lookup does not return it: it ended with {r}"]
       | none => [])

def stepLine (st : St) (line : String) : St × List String :=
  let fs := fields line
  match fs with
  | ["reset", _] => ({ st with store := [], hist := [], outOfDomain := false, govEc := 0, govAddr := [] }, [])
  | ["reopen", _] => (st, [])       -- the harness closed and reopened the store directory (a restart): nothing may change
  | "srv" :: _ :: rest =>
    match kvNat rest "govec", kvHex rest "govaddr" with
    | some e, some a => ({ st with govEc := e, govAddr := a }, [])
    | _, _ => (st, ["diff ? unparsable srv line"])
  | "put" :: cid :: rest =>
    match kv rest "v" >>= VaaFam.parseCanon, kv rest "res", kv rest "key", kvHex rest "val" with
    | some v, some res, some k, some val =>
      let st := { st with n := st.n + 1 }
      let mk := String.ofList (key v.body.id)
      if mk ≠ k then (st, [s!"diff {cid} key model={mk} impl={k}"])
      else if marshal v ≠ val then (st, [s!"diff {cid} marshal differs for {shortId v.body.id}"])
      else match storeSignedVAA st.store v, res with
        | .panic, "panic" => ({ st with nErrBranch := st.nErrBranch + 1 }, [s!"ok {cid}"])
        | .ok s', "ok" =>
          let ow := (lastStored st.hist v.body.id).isSome
          ({ st with store := s', hist := st.hist ++ [(v.body.id, val)], nPut := st.nPut + 1,
                     nOverwrite := st.nOverwrite + (if ow then 1 else 0) }, [s!"ok {cid}"])
        | .panic, r => (st, [s!"diff {cid} store: model panics, impl {r}"])
        | .ok _, r => (st, [s!"diff {cid} store: model ok, impl {r}"])
    | _, _, _, _ => (st, [s!"diff {cid} unparsable put line"])
  | "raw" :: cid :: rest =>
    match kvHex rest "key", kvHex rest "val" with
    | some k, some v => ({ st with store := st.store.put (bytesToChars k) v, outOfDomain := true }, [])
    | _, _ => (st, [s!"diff {cid} unparsable raw line"])
  | "get" :: cid :: rest =>
    match kv rest "id" >>= parseId, kv rest "res" with
    | some id, some res =>
      let st := { st with n := st.n + 1 }
      let val := kvHex rest "val"
      let down := kvNat rest "down" == some 1
      let sp := if st.outOfDomain then [] else judgeGet "" cid st.hist id res val down
      if !sp.isEmpty then (st, sp)
      else if down && res = "err" then ({ st with nDown := st.nDown + 1 }, [s!"ok {cid}"])
      else
        match getSignedVAABytes st.store id, res, val with
        | none, "notfound", _ => ({ st with nGetMiss := st.nGetMiss + 1 }, [s!"ok {cid}"])
        | some b, "ok", some b' =>
          if b = b' then ({ st with nGetHit := st.nGetHit + 1 }, [s!"ok {cid}"]) else (st, [s!"diff {cid} get {shortId id}: bytes differ"])
        | m, r, _ => (st, [s!"diff {cid} get {shortId id}: model {if m.isSome then "found" else "notfound"} impl {r}"])
    | _, _ => (st, [s!"diff {cid} unparsable get line"])
  | "gap" :: cid :: rest =>
    match kv rest "s" >>= parseStream, kv rest "res" with
    | some s, some res =>
      let st := { st with n := st.n + 1 }
      let impl : Option GapRes :=
        if res = "err" then some .err
        else if res = "ok" then
          match kv rest "missing" >>= parseNats, kvNat rest "first", kvNat rest "last" with
          | some m, some f, some l => some (.ok m f l)
          | _, _, _ => none
        else none
      match impl with
      | none => (st, [s!"spec {cid} gap-error gap query for {shortStream s} ended with {res}"])
      | some r =>
        let down := kvNat rest "down" == some 1
        if down && r = .err then ({ st with nDown := st.nDown + 1 }, [s!"ok {cid}"]) else
        let dec := streamDecodable st.hist s
        let inDom := !st.outOfDomain && dec
        let want := specGap (streamSeqs st.hist s)
        if inDom && r = .err then (st, [s!"spec {cid} gap-error gap query for {shortStream s} returned an error although every VAA of that stream decodes"])
        else if inDom && r ≠ want then
          (st, [s!"spec {cid} gap-not-stream-exact stream {shortStream s} holds sequences {showNats (streamSeqs st.hist s)}: expected {showGap want} got {showGap r}"])
        else if !st.outOfDomain && !dec && r ≠ .err && r ≠ want then
          -- a stored VAA of the stream is rejected by vaa.Unmarshal (empty payload, version other than 1): failing the query is
          -- acceptable (no statement is made), a successful report still has to be the stream's
          (st, [s!"spec {cid} gap-not-stream-exact stream {shortStream s} holds sequences {showNats (streamSeqs st.hist s)} (stored under {showNats (undecodableSeqs st.hist s)}: a VAA that vaa.Unmarshal rejects, returned byte-exact by the lookup): the query answered without an error, so its report must be the stream's: expected {showGap want} got {showGap r}"])
        else
          let m := findGap st.store s.ec s.addr s.tc
          if m = r then
            ({ st with nGap := st.nGap + 1, nGapShadow := st.nGapShadow + (if lookAlike st.hist s then 1 else 0),
                       nErrBranch := st.nErrBranch + (if r = .err then 1 else 0) }, [s!"ok {cid}"])
          else (st, [s!"diff {cid} gap {shortStream s}: model {showGap m} impl {showGap r}"])
    | _, _ => (st, [s!"diff {cid} unparsable gap line"])
  | "gov" :: cid :: rest =>
    match kvNat rest "ec", kvHex rest "addr", kv rest "seqs" >>= parseNats, kv rest "res" with
    | some ec, some addr, some seqs, some res =>
      let st := { st with n := st.n + 1 }
      let m := govBatch st.store ec addr seqs
      if res = "ok" then
        match kv rest "out" >>= parseGovOut with
        | none => (st, [s!"diff {cid} unparsable gov out"])
        | some out =>
          let want := specGov st.hist ec addr seqs
          if !st.outOfDomain && govCanon out ≠ govCanon want then
            (st, [s!"spec {cid} gov-not-stream-exact governance batch {ec}/{toHex (addr.take 4)}.. seqs={showNats seqs}: expected {want.length} entries {(want.map fun g => s!"{g.targetChain}:{g.sequence}")} got {out.length} entries {(out.map fun g => s!"{g.targetChain}:{g.sequence}")}"])
          else match m with
            | some l => if l = out then ({ st with nGov := st.nGov + 1 }, [s!"ok {cid}"]) else (st, [s!"diff {cid} gov: model {showGov l} impl {showGov out}"])
            | none => (st, [s!"diff {cid} gov: model returns an error, impl ok"])
      else if res = "err" && kvNat rest "down" == some 1 then ({ st with nDown := st.nDown + 1 }, [s!"ok {cid}"])
      else if res = "err" then
        if !st.outOfDomain then (st, [s!"spec {cid} gov-error governance batch returned an error on a store written only by StoreSignedVAA"])
        else match m with
          | none => ({ st with nErrBranch := st.nErrBranch + 1 }, [s!"ok {cid}"])
          | some l => (st, [s!"diff {cid} gov: model ok ({l.length} entries), impl error"])
      else (st, [s!"spec {cid} gov-error governance batch ended with {res}"])
    | _, _, _, _ => (st, [s!"diff {cid} unparsable gov line"])
  | "pfx" :: cid :: rest =>
    match kv rest "id" >>= parseId, kv rest "key", kv rest "ep", kv rest "gp" with
    | some id, some k, some ep, some gp =>
      let st := { st with n := st.n + 1 }
      let mk := String.ofList (key id)
      let mep := String.ofList (emitterPrefix id.emitterChain id.emitter id.targetChain)
      let mgp := String.ofList (govPrefix id.emitterChain id.emitter)
      if mk ≠ k then (st, [s!"diff {cid} Bytes model={mk} impl={k}"])
      else if mep ≠ ep then (st, [s!"diff {cid} EmitterPrefixBytes model={mep} impl={ep}"])
      else if mgp ≠ gp then (st, [s!"diff {cid} GovernanceEmitterPrefixBytes model={mgp} impl={gp}"])
      else (st, [s!"ok {cid}"])
    | _, _, _, _ => (st, [s!"diff {cid} unparsable pfx line"])
  | "rget" :: cid :: rest =>
    match kvNat rest "hasid", kv rest "ec" >>= String.toInt?, kvHex rest "addr", kv rest "tc" >>= String.toInt?, kvNat rest "seq", kv rest "res" with
    | some hasid, some ec, some addr, some tc, some seq, some res =>
      let st := { st with n := st.n + 1, nRpc := st.nRpc + 1 }
      let addrC := bytesToChars addr
      let val := kvHex rest "val"
      let down := kvNat rest "down" == some 1
      let inDom := !st.outOfDomain && hasid = 1 && 0 ≤ ec && ec < 65536 && 0 ≤ tc && tc < 65536 &&
        (match decodeEmitterAddress addrC with | .ok _ => true | .error _ => false)
      let sp : List String := if inDom then
          match decodeEmitterAddress addrC with
          | .ok a => judgeGet "rpc-" cid st.hist ⟨ec.toNat, a, tc.toNat, seq⟩ res val down
          | .error _ => []
        else []
      if !sp.isEmpty then (st, sp)
      else
        -- the tie: with the handle unavailable the pinned handler answers what `rpcGetSignedVAAAt (fun _ => false)` says (the
        -- request checks first, then Internal); an answer that was judged above (right bytes, a correct not-found) is accepted too
        let mUp := rpcGetSignedVAA st.store (hasid = 1) ec addrC tc seq
        let mDown := rpcGetSignedVAAAt (fun _ => false) st.store (hasid = 1) ec addrC tc seq
        let agrees (m : Except RpcErr Bytes) : Bool :=
          match m, res, val with
          | .ok b, "ok", some b' => b == b'
          | .error e, r, _ => errTag e == r
          | _, _, _ => false
        if down then
          if agrees mDown then ({ st with nDown := st.nDown + 1 }, [s!"ok {cid}"])
          else if agrees mUp then ({ st with nDownAnswered := st.nDownAnswered + 1 }, [s!"ok {cid}"])
          else (st, [s!"diff {cid} rget with the store handle unavailable: model {match mDown with | .ok _ => "ok" | .error e => errTag e} impl {res}"])
        else
        match mUp, res, val with
        | .ok b, "ok", some b' => if b = b' then (st, [s!"ok {cid}"]) else (st, [s!"diff {cid} rget bytes differ"])
        | .error e, r, _ => if errTag e = r then ({ st with nErrBranch := st.nErrBranch + (if e = .notFound then 0 else 1) }, [s!"ok {cid}"]) else (st, [s!"diff {cid} rget: model {errTag e} impl {r}"])
        | .ok _, r, _ => (st, [s!"diff {cid} rget: model ok impl {r}"])
    | _, _, _, _, _, _ => (st, [s!"diff {cid} unparsable rget line"])
  | "rbatch" :: cid :: rest =>
    match kv rest "ec" >>= String.toInt?, kvHex rest "addr", kv rest "tc" >>= String.toInt?, kv rest "seqs" >>= parseNats, kv rest "res" with
    | some ec, some addr, some tc, some seqs, some res =>
      let st := { st with n := st.n + 1, nRpc := st.nRpc + 1 }
      let addrC := bytesToChars addr
      let m := rpcNonGovBatch st.store ec addrC tc seqs
      if res = "ok" then
        match kv rest "out" >>= parseSeqOut with
        | none => (st, [s!"diff {cid} unparsable rbatch out"])
        | some out =>
          let sp : Option String :=
            if !st.outOfDomain && 0 ≤ ec && ec < 65536 && 0 ≤ tc && tc < 65536 then
              match decodeEmitterAddress addrC with
              | .ok a =>
                let want := seqs.filterMap fun s => (lastStored st.hist ⟨ec.toNat, a, tc.toNat, s⟩).map fun b => (s, b)
                if seqCanon want ≠ seqCanon out then
                  some s!"spec {cid} rpc-batch-not-stream-exact batch {ec}/{toHex (a.take 4)}../{tc} seqs={showNats seqs}: expected sequences {showNats (want.map (·.1))} got {showNats (out.map (·.1))} (or bytes differ)"
                else none
              | .error _ => none
            else none
          -- the same answer entry by entry (each entry is a lookup of the identifier it names)
          let fine : List String :=
            if sp.isNone then [] else
            match decodeEmitterAddress addrC with
            | .error _ => []
            | .ok a =>
              let idOf (q : Nat) : VaaId := ⟨ec.toNat, a, tc.toNat, q⟩
              let wrong := out.filter fun e => match lastStored st.hist (idOf e.1) with | some w => w != e.2 | none => false
              let phantom := out.filter fun e => (lastStored st.hist (idOf e.1)).isNone
              let lost := (seqs.filter fun q => (lastStored st.hist (idOf q)).isSome && !(out.any fun e => e.1 == q)).eraseDups
              let whose (b : Bytes) : String :=
                match st.hist.find? (fun p => p.2 == b) with
                | some p => s!"the VAA stored under {shortId p.1}"
                | none => "bytes that were never stored"
              (match wrong with
               | e :: _ => [s!"spec {cid} rpc-batch-wrong-bytes batch {ec}/{toHex (a.take 4)}../{tc} seqs={showNats seqs}: the entry labelled sequence {e.1} carries {e.2.length} bytes that differ from the VAA stored under {shortId (idOf e.1)} - they are {whose e.2} ({wrong.length} such entries of {out.length})"]
               | [] => []) ++
              (match phantom with
               | e :: _ => [s!"spec {cid} rpc-batch-phantom batch {ec}/{toHex (a.take 4)}../{tc} seqs={showNats seqs}: sequence {e.1} was never stored in that stream, the entry labelled {e.1} carries {e.2.length} bytes - {whose e.2} ({phantom.length} such entries of {out.length})"]
               | [] => []) ++
              (match lost with
               | q :: _ => [s!"spec {cid} rpc-batch-lost batch {ec}/{toHex (a.take 4)}../{tc} seqs={showNats seqs}: {shortId (idOf q)} was stored, the batch has no entry for it (stored and requested but not returned: {showNats lost})"]
               | [] => [])
          match sp with
          | some s =>
            let s := if kvNat rest "down" == some 1 then s ++ " - the store handle was unavailable during the call: failing it would have been acceptable, an OK answer has to be the stream's" else s
            (st, s :: fine)
          | none =>
            let st := if kvNat rest "down" == some 1 then { st with nDownAnswered := st.nDownAnswered + 1 } else st
            match m with
            | .ok l => if l = out then (st, [s!"ok {cid}"]) else (st, [s!"diff {cid} rbatch: model {showSeqOut l} impl {showSeqOut out}"])
            | .error e => (st, [s!"diff {cid} rbatch: model {errTag e} impl ok"])
      else
        let down := kvNat rest "down" == some 1
        let inDom := !st.outOfDomain && 0 ≤ ec && ec < 65536 && 0 ≤ tc && tc < 65536 && seqs.length ≤ 20 &&
          (match decodeEmitterAddress addrC with | .ok _ => true | .error _ => false)
        if down then
          -- the handle was unavailable during the call: failing makes no statement about the stream (acceptable); the pinned
          -- handler's answer is `rpcNonGovBatchAt (fun _ => false)`
          match rpcNonGovBatchAt (fun _ => false) st.store ec addrC tc seqs with
          | .error e => if errTag e = res then ({ st with nDown := st.nDown + 1 }, [s!"ok {cid}"]) else (st, [s!"diff {cid} rbatch with the store handle unavailable: model {errTag e} impl {res}"])
          | .ok _ => (st, [s!"diff {cid} rbatch with the store handle unavailable: model ok impl {res}"])
        else
        if inDom then
          -- an acknowledged VAA that was asked for and is not returned, also when the reason given is an error
          let lost : List Nat := match decodeEmitterAddress addrC with
            | .ok a => (seqs.filter fun q => (lastStored st.hist ⟨ec.toNat, a, tc.toNat, q⟩).isSome).eraseDups
            | .error _ => []
          (st, s!"spec {cid} rpc-batch-error batch for a well-formed request ended with {res}" ::
            (if lost.isEmpty then [] else
              [s!"spec {cid} rpc-batch-lost batch {ec}/../{tc} seqs={showNats seqs} ended with {res}: sequences {showNats lost} of that stream were stored (acknowledged) and requested, none of them is returned"]))
        else match m with
        | .error e => if errTag e = res then ({ st with nErrBranch := st.nErrBranch + 1 }, [s!"ok {cid}"]) else (st, [s!"diff {cid} rbatch: model {errTag e} impl {res}"])
        | .ok _ => (st, [s!"diff {cid} rbatch: model ok impl {res}"])
    | _, _, _, _, _ => (st, [s!"diff {cid} unparsable rbatch line"])
  | "rgov" :: cid :: rest =>
    match kv rest "seqs" >>= parseNats, kv rest "res" with
    | some seqs, some res =>
      let st := { st with n := st.n + 1, nRpc := st.nRpc + 1 }
      let m := rpcGovBatch st.store st.govEc st.govAddr seqs
      if res = "ok" then
        match kv rest "out" >>= parseGovOut with
        | none => (st, [s!"diff {cid} unparsable rgov out"])
        | some out =>
          let want := specGov st.hist st.govEc st.govAddr seqs
          if !st.outOfDomain && seqs.length ≤ 20 && govCanon out ≠ govCanon want then
            (st, [s!"spec {cid} rpc-gov-not-stream-exact governance batch seqs={showNats seqs}: expected {(want.map fun g => s!"{g.targetChain}:{g.sequence}")} got {(out.map fun g => s!"{g.targetChain}:{g.sequence}")}"])
          else match m with
            | .ok l => if l = out then (st, [s!"ok {cid}"]) else (st, [s!"diff {cid} rgov: model {showGov l} impl {showGov out}"])
            | .error e => (st, [s!"diff {cid} rgov: model {errTag e} impl ok"])
      else if kvNat rest "down" == some 1 then
        match rpcGovBatchAt false st.store st.govEc st.govAddr seqs with
        | .error e => if errTag e = res then ({ st with nDown := st.nDown + 1 }, [s!"ok {cid}"]) else (st, [s!"diff {cid} rgov with the store handle unavailable: model {errTag e} impl {res}"])
        | .ok _ => (st, [s!"diff {cid} rgov with the store handle unavailable: model ok impl {res}"])
      else if !st.outOfDomain && seqs.length ≤ 20 then
        (st, [s!"spec {cid} rpc-gov-error governance batch of {seqs.length} sequences on a store written only by StoreSignedVAA ended with {res}"])
      else
        match m with
        | .error e =>
          if errTag e ≠ res then (st, [s!"diff {cid} rgov: model {errTag e} impl {res}"])
          else ({ st with nErrBranch := st.nErrBranch + 1 }, [s!"ok {cid}"])
        | .ok _ => (st, [s!"diff {cid} rgov: model ok impl {res}"])
    | _, _ => (st, [s!"diff {cid} unparsable rgov line"])
  | "fmm" :: cid :: rest =>
    match kvNat rest "ec", kvHex rest "addr", kvNat rest "tc", kv rest "res" with
    | some ec, some addr, some tc, some res =>
      let st := { st with n := st.n + 1, nRpc := st.nRpc + 1 }
      let addrC := bytesToChars addr
      let m := findMissingMessages st.store ec addrC tc
      if res = "ok" then
        match kv rest "out", kvNat rest "first", kvNat rest "last" with
        | some o, some f, some l =>
          let out : List String := if o = "-" then [] else o.splitOn ","
          let sp : Option String :=
            match decodeEmitterAddress addrC with
            | .ok a =>
              let s : Stream := ⟨ec, a, tc⟩
              if !st.outOfDomain && ec < 65536 && tc < 65536 then
                match specGap (streamSeqs st.hist s) with
                | .ok wm wf wl =>
                  let wantIds := wm.map fun v => s!"{ec}/{toHex a}/{tc}/{v}"
                  if (wantIds ≠ out || wf ≠ f || wl ≠ l) && !streamDecodable st.hist s then
                    some s!"spec {cid} fmm-not-stream-exact stream {shortStream s} holds {showNats (streamSeqs st.hist s)} (stored under {showNats (undecodableSeqs st.hist s)}: a VAA that vaa.Unmarshal rejects): the call answered without an error, so its report must be the stream's: expected missing={showNats wm} first={wf} last={wl}, got {out.length} ids first={f} last={l}: {o.take 300}"
                  else if (wantIds ≠ out || wf ≠ f || wl ≠ l) && st.afterBfill then
                    some s!"spec {cid} backfill-wrote-store after a backfill call the stream {shortStream s} reports missing={o.take 200} first={f} last={l}, but the history of successful stores gives missing={showNats wm} first={wf} last={wl}: the admin service must only forward, never write the store"
                  else if wantIds ≠ out || wf ≠ f || wl ≠ l then
                    some s!"spec {cid} fmm-not-stream-exact stream {shortStream s} holds {showNats (streamSeqs st.hist s)}: expected missing={showNats wm} first={wf} last={wl}, got {out.length} ids first={f} last={l}: {o.take 300}"
                  else none
                | .err => none
              else none
            | .error _ => none
          match sp with
          | some s => (st, [s])
          | none =>
            match m with
            | .ok r =>
              if r.missing.map String.ofList = out && r.first = f && r.last = l then (st, [s!"ok {cid}"])
              else (st, [s!"diff {cid} fmm: model missing={r.missing.map String.ofList} first={r.first} last={r.last} impl {o.take 300} first={f} last={l}"])
            | .error e => (st, [s!"diff {cid} fmm: model {errTag e} impl ok"])
        | _, _, _ => (st, [s!"diff {cid} unparsable fmm result"])
      else
        let dom := match decodeEmitterAddress addrC with
          | .ok a => !st.outOfDomain && ec < 65536 && tc < 65536 && streamDecodable st.hist ⟨ec, a, tc⟩
          | .error _ => false
        if dom then (st, [s!"spec {cid} fmm-error FindMissingMessages ended with {res} although every VAA of the stream decodes"])
        else match m with
        | .error e =>
          if errTag e ≠ res then (st, [s!"diff {cid} fmm: model {errTag e} impl {res}"])
          else ({ st with nErrBranch := st.nErrBranch + 1 }, [s!"ok {cid}"])
        | .ok _ => (st, [s!"diff {cid} fmm: model ok impl {res}"])
    | _, _, _, _ => (st, [s!"diff {cid} unparsable fmm line"])
  | "bfill" :: cid :: rest =>
    match kvNat rest "ec", kvHex rest "addr", kvNat rest "tc", kv rest "res", kv rest "script", kv rest "fwd", kvNat rest "stray" with
    | some ec, some addr, some tc, some res, some script, some fwdS, some stray =>
      let st := { st with n := st.n + 1, nRpc := st.nRpc + 1 }
      let entries : List (Nat × NodeAnswer) := (if script = "-" then [] else script.splitOn ",").filterMap fun e =>
        match e.splitOn ":" with
        | [sq, "s", h] => do pure (← sq.toNat?, NodeAnswer.served (← parseHexD h))
        | [sq, "a"] => do pure (← sq.toNat?, NodeAnswer.absent)
        | [sq, "f"] => do pure (← sq.toNat?, NodeAnswer.failed)
        | _ => none
      let answer : Nat → NodeAnswer := fun i => (entries.lookup i).getD .absent
      let fwd : Option (List Bytes) := if fwdS = "none" then some [] else (fwdS.splitOn ";").mapM parseHexD
      match fwd with
      | none => (st, [s!"diff {cid} unparsable bfill fwd"])
      | some fwd =>
        let servedAll : List Bytes := entries.filterMap fun e => match e.2 with | .served b => some b | _ => none
        if stray > 0 then
          (st, [s!"spec {cid} backfill-stray-request {stray} request(s) to the backfill nodes for something that is not a missing message of the stream asked about"])
        else if fwd.any (fun b => !servedAll.contains b) then
          (st, [s!"spec {cid} backfill-forwarded-not-served the admin service forwarded bytes that no backfill node served"])
        else
          let addrC := bytesToChars addr
          let m := findMissingBackfill st.store ec addrC tc answer
          -- The report of a SUCCESSFUL call, judged on the call's own reply (before any comparison with the model): every
          -- sequence that is missing in the stream and that no node served must be listed, and nothing else - whatever the
          -- nodes answered for it (404, garbage, 5xx / 429 / 403 ...).  The ids asked for are the stream's missing sequences
          -- (from the history of successful stores; the scripted ones where the request names no stream).
          let unserved (i : Nat) : Bool := match answer i with | .served _ => false | _ => true
          let asked : List Nat :=
            match decodeEmitterAddress addrC with
            | .ok a =>
              if !st.outOfDomain && ec < 65536 && tc < 65536 then
                match specGap (streamSeqs st.hist ⟨ec, a, tc⟩) with
                | .ok wm _ _ => wm
                | .err => entries.map (·.1)
              else entries.map (·.1)
            | .error _ => entries.map (·.1)
          let spRep : Option String :=
            match (if res = "ok" then kv rest "out" else none) with
            | none => none
            | some o =>
              let out : List String := if o = "-" then [] else o.splitOn ","
              let outSeqs := out.map fun (x : String) => (x.splitOn "/").getLast?.bind String.toNat?
              let wantUnf := asked.filter unserved
              let failedSeqs := (entries.filter fun e => e.2 == NodeAnswer.failed).map (·.1)
              if outSeqs = wantUnf.map some then none
              else if failedSeqs.isEmpty then
                some s!"spec {cid} backfill-report-wrong the nodes served nothing for sequences {showNats wantUnf} of the stream, the call reported {o.take 200} as still missing"
              else
                some s!"spec {cid} backfill-report-wrong sequences {showNats asked} are missing in the stream; the backfill nodes served nothing for {showNats wantUnf} (for {showNats failedSeqs} they answered with a status other than 200/404), yet the call succeeded and reported only {o.take 200} as still missing: {showNats (wantUnf.filter fun i => !outSeqs.contains (some i))} missing, not backfilled, not reported"
          if let some sp := spRep then (st, [sp])
          else if m.forwarded ≠ fwd then
            (st, [s!"diff {cid} bfill: model forwards {m.forwarded.length} VAAs, impl {fwd.length}: {fwdS.take 200}"])
          else if res = "ok" then
            match kv rest "out", kvNat rest "first", kvNat rest "last", m.result with
            | some o, some f, some l, .ok r =>
              let out : List String := if o = "-" then [] else o.splitOn ","
              if r.missing.map String.ofList = out && r.first = f && r.last = l then (st, [s!"ok {cid}"])
              else (st, [s!"diff {cid} bfill: model unfilled={r.missing.map String.ofList} first={r.first} last={r.last} impl {o.take 300} first={f} last={l}"])
            | _, _, _, .error e => (st, [s!"diff {cid} bfill: model {errTag e} impl ok"])
            | _, _, _, _ => (st, [s!"diff {cid} unparsable bfill result"])
          else
            match m.result with
            | .error e =>
              if errTag e ≠ res then (st, [s!"diff {cid} bfill: model {errTag e} impl {res}"])
              else ({ st with nErrBranch := st.nErrBranch + 1 }, [s!"ok {cid}"])
            | .ok _ => (st, [s!"diff {cid} bfill: model ok impl {res}"])
    | _, _, _, _, _, _, _ => (st, [s!"diff {cid} unparsable bfill line"])
  | [] => (st, [])
  | _ => (st, [s!"diff ? unknown line: {line.take 80}"])

/-- One line; remembers whether it was a `bfill` (the `fmm` line the harness issues right after it must find the store as it was). -/
def step (st : St) (line : String) : St × List String :=
  let (st', outs) := stepLine st line
  ({ st' with afterBfill := (fields line).head? == some "bfill" }, outs)

def fin (st : St) : List String :=
  [s!"stat cases {st.n}", s!"stat puts {st.nPut}", s!"stat overwrites {st.nOverwrite}", s!"stat get_hits {st.nGetHit}",
   s!"stat get_misses {st.nGetMiss}", s!"stat gap_queries {st.nGap}", s!"stat gap_queries_with_lookalike_stream {st.nGapShadow}",
   s!"stat gov_batches {st.nGov}", s!"stat rpc_calls {st.nRpc}", s!"stat error_branches {st.nErrBranch}",
   s!"stat calls_with_store_unavailable_failed {st.nDown}", s!"stat calls_with_store_unavailable_answered {st.nDownAnswered}"]

def run (h : IO.FS.Stream) : IO Unit := loop h ({} : St) step fin

end Whv.Driver.DbFam
