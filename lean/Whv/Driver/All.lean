import Whv.Driver.Vaa
/-! Driver dispatch: `whvdriver <family>` reads case lines on stdin, prints verdict lines. -/
namespace Whv.Driver

def families : List (String × (IO.FS.Stream → IO Unit)) :=
  [("vaa", Whv.Driver.VaaFam.run)]

def main (args : List String) : IO UInt32 := do
  match args with
  | [fam] =>
    match families.lookup fam with
    | some f => f (← IO.getStdin); return 0
    | none => IO.eprintln s!"unknown family {fam}"; return 2
  | _ => IO.eprintln "usage: whvdriver <family>"; return 2

end Whv.Driver
