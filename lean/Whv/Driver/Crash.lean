import Whv.Driver.Util
import Whv.Model.Crash
import Std.Data.HashMap
/-!
Driver family `crash` (C16).  Lines of one store directory share the case id.

* `begin <cid>` — a fresh store directory.
* `att <cid> i=<n> key=<n> ack=0|1 val=<hex>` — a `StoreSignedVAA` call of the killed child, in stream order: acknowledged (its
  "ack" line was received) or possibly in flight when the SIGKILL hit (`ack=0`).
* `cyc <cid> cycle=<n> …` — bookkeeping of one kill (counted, not judged).
* `open <cid> cycle=<n> who=store|verify res=ok|err [how=kill|clean] [msg=…]` — did `db.Open` on the directory succeed after the kill.
* `rec <cid> cycle=<n> key=<n> res=ok|notfound|err [val=<hex> | same=<i>]` — `GetSignedVAABytes` after the reopen, for every identifier
  of the universe. For answers above 2 KB the harness may write `same=<i>`: "byte-identical to the value of attempt `i`" (it compared
  them); the driver substitutes the bytes of that `att` line, so the judgement is still made on bytes.

Every `rec` is judged with `Whv.Crash.acceptKey` against the attempts seen so far (proved in `Whv.C16`: accepts every behaviour of the
contract model, and acceptance means acked ⇒ found with bytes not older than the newest acknowledged store, found ⇒ bytes stored under that id).
-/
namespace Whv.Driver.CrashFam
open Whv Whv.Driver Whv.Crash

structure St where
  atts : Std.HashMap Nat (List Entry) := {}   -- per key, newest first (`Whv.C16.acceptKey_filter`: judging on the per-key list is the same)
  big : Std.HashMap Nat Bytes := {}           -- attempt index -> value, for values that may be back-referenced
  n : Nat := 0
  cycles : Nat := 0
  midStream : Nat := 0
  recs : Nat := 0
  recsAckedKey : Nat := 0
  inflightSurvived : Nat := 0
  inflightLost : Nat := 0
  reopenKill : Nat := 0
  reopenClean : Nat := 0
  ackedTotal : Nat := 0

def newestFor (atts : List Entry) (k : Nat) : Option Entry := atts.find? (·.key = k)

def step (st : St) (line : String) : St × List String :=
  let fs := fields line
  match fs with
  | ["begin", _] => ({ st with atts := {}, big := {} }, [])
  | "att" :: cid :: rest =>
    match kvNat rest "key", kvNat rest "ack", kvHex rest "val", kvNat rest "i" with
    | some k, some a, some v, some i =>
      let big := if v.length > 2048 then st.big.insert i v else st.big
      ({ st with atts := st.atts.insert k (⟨k, v, a = 1⟩ :: st.atts.getD k []), big := big, ackedTotal := st.ackedTotal + a }, [])
    | _, _, _, _ => (st, [s!"diff {cid} unparsable att line"])
  | "cyc" :: _ :: rest =>
    let mid := (kv rest "idle") = some "false"
    ({ st with cycles := st.cycles + 1, midStream := st.midStream + (if mid then 1 else 0) }, [])
  | "open" :: cid :: rest =>
    let st := { st with n := st.n + 1 }
    match kv rest "res" with
    | some "ok" =>
      let k := kv rest "how" = some "kill"
      ({ st with reopenKill := st.reopenKill + (if k then 1 else 0), reopenClean := st.reopenClean + (if k then 0 else 1) }, [s!"ok {cid}"])
    | _ => (st, [s!"spec {cid} store-did-not-reopen cycle {(kv rest "cycle").getD "?"} ({(kv rest "who").getD "?"}): {(kv rest "msg").getD "?"}"])
  | "rec" :: cid :: rest =>
    match kvNat rest "key", kv rest "res" with
    | some k, some res =>
      let st := { st with n := st.n + 1, recs := st.recs + 1 }
      let cyc := (kv rest "cycle").getD "?"
      if res = "ok" || res = "notfound" then
        let r : Option Bytes :=
          if res = "ok" then
            match kvNat rest "same" with
            | some i => st.big.get? i
            | none => kvHex rest "val"
          else none
        let atts := st.atts.getD k []
        if res = "ok" && r.isNone then (st, [s!"diff {cid} unparsable rec value"])
        else if acceptKey atts k r then
          let hasAck := atts.any fun a => a.key = k && a.acked
          let st := { st with recsAckedKey := st.recsAckedKey + (if hasAck then 1 else 0) }
          -- how did the in-flight store (newest attempt of this key, un-acknowledged) fare?
          let st := match newestFor atts k with
            | some e => if e.acked then st else if r = some e.val then { st with inflightSurvived := st.inflightSurvived + 1 } else { st with inflightLost := st.inflightLost + 1 }
            | none => st
          (st, [s!"ok {cid}"])
        else
          let nAtt := (atts.filter (·.key = k)).length
          let nAck := (atts.filter fun a => a.key = k && a.acked).length
          (st, [s!"spec {cid} {rejectReason atts k r} cycle {cyc} key {k}: {nAtt} stores attempted, {nAck} acknowledged, lookup after reopen {if res = "ok" then s!"returned {(r.getD []).length} bytes" else "says not found"}"])
      else (st, [s!"spec {cid} lookup-error cycle {cyc} key {k}: lookup after reopen ended with {res}"])
    | _, _ => (st, [s!"diff {cid} unparsable rec line"])
  | [] => (st, [])
  | _ => (st, [s!"diff ? unknown line: {line.take 80}"])

def fin (st : St) : List String :=
  [s!"stat cases {st.n}", s!"stat kill_cycles {st.cycles}", s!"stat kills_mid_stream {st.midStream}", s!"stat lookups_judged {st.recs}",
   s!"stat lookups_of_acked_keys {st.recsAckedKey}", s!"stat acked_stores {st.ackedTotal}",
   s!"stat unacked_newest_survived {st.inflightSurvived}", s!"stat unacked_newest_lost {st.inflightLost}",
   s!"stat readback_child_then_killed {st.reopenKill}", s!"stat readback_child_then_closed_cleanly {st.reopenClean}"]

def run (h : IO.FS.Stream) : IO Unit := loop h ({} : St) step fin

end Whv.Driver.CrashFam
