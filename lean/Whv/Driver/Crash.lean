import Whv.Driver.Util
import Whv.Model.Crash
/-!
Driver family `crash` (C16).  Lines of one store directory share the case id.

* `begin <cid>` — a fresh store directory.
* `att <cid> i=<n> key=<n> ack=0|1 val=<hex>` — a `StoreSignedVAA` call of the killed child, in stream order: acknowledged (its
  "ack" line was received) or possibly in flight when the SIGKILL hit (`ack=0`).
* `cyc <cid> cycle=<n> …` — bookkeeping of one kill (counted, not judged).
* `open <cid> cycle=<n> who=store|verify res=ok|err [how=kill|clean] [msg=…]` — did `db.Open` on the directory succeed after the kill.
* `rec <cid> cycle=<n> key=<n> res=ok|notfound|err [val=<hex>]` — `GetSignedVAABytes` after the reopen, for every identifier ever attempted.

Every `rec` is judged with `Whv.Crash.acceptKey` against the attempts seen so far (proved in `Whv.C16`: accepts every behaviour of the
contract model, and acceptance means acked ⇒ found with bytes not older than the newest acknowledged store, found ⇒ bytes stored under that id).
-/
namespace Whv.Driver.CrashFam
open Whv Whv.Driver Whv.Crash

structure St where
  atts : List Entry := []     -- newest first
  n : Nat := 0
  cycles : Nat := 0
  midStream : Nat := 0
  recs : Nat := 0
  recsAckedKey : Nat := 0
  inflightSurvived : Nat := 0
  inflightLost : Nat := 0
  reopenKill : Nat := 0
  reopenClean : Nat := 0
  ackedTotal : Nat := 0

def newestFor (atts : List Entry) (k : Nat) : Option Entry := atts.find? (·.key = k)

def step (st : St) (line : String) : St × List String :=
  let fs := fields line
  match fs with
  | ["begin", _] => ({ st with atts := [] }, [])
  | "att" :: cid :: rest =>
    match kvNat rest "key", kvNat rest "ack", kvHex rest "val" with
    | some k, some a, some v => ({ st with atts := ⟨k, v, a = 1⟩ :: st.atts, ackedTotal := st.ackedTotal + a }, [])
    | _, _, _ => (st, [s!"diff {cid} unparsable att line"])
  | "cyc" :: _ :: rest =>
    let mid := (kv rest "idle") = some "false"
    ({ st with cycles := st.cycles + 1, midStream := st.midStream + (if mid then 1 else 0) }, [])
  | "open" :: cid :: rest =>
    let st := { st with n := st.n + 1 }
    match kv rest "res" with
    | some "ok" =>
      let k := kv rest "how" = some "kill"
      ({ st with reopenKill := st.reopenKill + (if k then 1 else 0), reopenClean := st.reopenClean + (if k then 0 else 1) }, [s!"ok {cid}"])
    | _ => (st, [s!"spec {cid} store-did-not-reopen cycle {(kv rest "cycle").getD "?"} ({(kv rest "who").getD "?"}): {(kv rest "msg").getD "?"}"])
  | "rec" :: cid :: rest =>
    match kvNat rest "key", kv rest "res" with
    | some k, some res =>
      let st := { st with n := st.n + 1, recs := st.recs + 1 }
      let cyc := (kv rest "cycle").getD "?"
      if res = "ok" || res = "notfound" then
        let r : Option Bytes := if res = "ok" then kvHex rest "val" else none
        if res = "ok" && r.isNone then (st, [s!"diff {cid} unparsable rec value"])
        else if acceptKey st.atts k r then
          let hasAck := st.atts.any fun a => a.key = k && a.acked
          let st := { st with recsAckedKey := st.recsAckedKey + (if hasAck then 1 else 0) }
          -- how did the in-flight store (newest attempt of this key, un-acknowledged) fare?
          let st := match newestFor st.atts k with
            | some e => if e.acked then st else if r = some e.val then { st with inflightSurvived := st.inflightSurvived + 1 } else { st with inflightLost := st.inflightLost + 1 }
            | none => st
          (st, [s!"ok {cid}"])
        else
          let nAtt := (st.atts.filter (·.key = k)).length
          let nAck := (st.atts.filter fun a => a.key = k && a.acked).length
          (st, [s!"spec {cid} {rejectReason st.atts k r} cycle {cyc} key {k}: {nAtt} stores attempted, {nAck} acknowledged, lookup after reopen {if res = "ok" then s!"returned {(r.getD []).length} bytes" else "says not found"}"])
      else (st, [s!"spec {cid} lookup-error cycle {cyc} key {k}: lookup after reopen ended with {res}"])
    | _, _ => (st, [s!"diff {cid} unparsable rec line"])
  | [] => (st, [])
  | _ => (st, [s!"diff ? unknown line: {line.take 80}"])

def fin (st : St) : List String :=
  [s!"stat cases {st.n}", s!"stat kill_cycles {st.cycles}", s!"stat kills_mid_stream {st.midStream}", s!"stat lookups_judged {st.recs}",
   s!"stat lookups_of_acked_keys {st.recsAckedKey}", s!"stat acked_stores {st.ackedTotal}",
   s!"stat unacked_newest_survived {st.inflightSurvived}", s!"stat unacked_newest_lost {st.inflightLost}",
   s!"stat readback_child_then_killed {st.reopenKill}", s!"stat readback_child_then_closed_cleanly {st.reopenClean}"]

def run (h : IO.FS.Stream) : IO Unit := loop h ({} : St) step fin

end Whv.Driver.CrashFam
