import Whv.Model.Bytes
/-! Line-protocol helpers for the compiled driver (core-only). -/
namespace Whv.Driver
open Whv

/-- Fields of a line are separated by single spaces; the first two are `<op> <case-id>`. -/
def fields (line : String) : List String :=
  (line.splitOn " ").filter (· ≠ "")

def stripNl (s : String) : String :=
  let s := if s.endsWith "\n" then (s.dropEnd 1).toString else s
  if s.endsWith "\r" then (s.dropEnd 1).toString else s

/-- `k=v` lookup among fields. -/
def kv (fs : List String) (k : String) : Option String :=
  fs.findSome? fun f => if f.startsWith (k ++ "=") then some ((f.drop (k.length + 1)).toString) else none

def kvNat (fs : List String) (k : String) : Option Nat := (kv fs k).bind String.toNat?

def kvHex (fs : List String) (k : String) : Option Bytes := (kv fs k).bind fun s => if s = "-" then some [] else ofHex s

/-- hex with "-" for the empty string -/
def hexOrDash (bs : Bytes) : String := if bs.isEmpty then "-" else toHex bs

def parseHexD (s : String) : Option Bytes := if s = "-" then some [] else ofHex s

/-- Run `step` over every stdin line with a state; print what it returns. -/
partial def loop {σ : Type} (h : IO.FS.Stream) (st : σ) (step : σ → String → σ × List String) (fin : σ → List String) : IO Unit := do
  let line ← h.getLine
  if line.isEmpty then
    for l in fin st do IO.println l
    return ()
  let (st', outs) := step st (stripNl line)
  for l in outs do IO.println l
  loop h st' step fin

end Whv.Driver
