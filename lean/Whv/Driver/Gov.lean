import Whv.Driver.Util
import Whv.Model.Gov
/-!
Driver family `gov` (C15).  One case per line (fields separated by one space):

`inj <id> cc=<n> ce=<hex> gsi=<n> ts=<n> msgs=<m;m;..|-> res=ok|err|errnonnil|panic code=<n> msg=<hex|-> sent=<canon|canon..|->
 dig=<hex,..|-> kk=<hex,..|-> ps=<label:hex,label:hex,..> [alt=<label> altres= altcode= altmsg= altsent= altdig=]`

* `cc`, `ce`: the service's `governanceChainId` / `governanceEmitterAddress`; `gsi`, `ts`: `CurrentSetIndex`, `Timestamp`;
* a message is `seq:nonce:tc:kind:args` with kind/args one of `none:-`, `fee:<s>`, `tf:<s>,<s>`, `gs:<pub>/<name>,..|-`, `cu:<s>`,
  `rc:<s>,<n>,<s>`, `bu:<s>,<s>`, `ds:<n>,<n.n.n|->`, `cl:<n>`, `ra:<s>`; every Go string `<s>` is the hex of its bytes (`-` = empty);
* `res`/`code`/`msg`: what the real `InjectGovernanceVAA` returned (gRPC status code and message), `sent`: every VAA it handed to
  `injectC` - read until QUIESCENCE (an accepted request owes one VAA per digest; every goroutine the handler left behind has ended),
  not just what is there when the handler returns; `nil`: nil pointers found there; canon = `ver,gs,sigs,ts,nonce,ec,tc,emhex,seq,cl,plhex`; `dig`: the digests it returned; `kk`: Keccak(Keccak(body)) recomputed
  by the harness from the pushed VAAs; `ps`: fingerprints of the complete result (status, message, every field of every VAA, digests) of the
  same request on the reference instance and on instances with different ambient node state (guardian-set state nil / empty / index 0 /
  equal / higher, different stores, channel fill levels and histories; some built by the production constructor and called over the admin
  unix socket); `alt*`: the complete result of the first instance that differs from the reference.

`facts - <k>=<n|a:b> ...` (at most one, before the cases; written by `checks/c15.py`): the facts of the Ralph governance parsers as
extracted from the CURRENT contract sources (`Whv.Gov.Facts`).  The contract side of the Spec (`specOkF`) is evaluated with THESE
facts on every payload the real node emitted — not with the `Whv.Gen.C15` the executable happened to be compiled against (without
such a line — nothing could be extracted — with `Facts.node`, the literal layout the node's serializers implement).  When a request's payload is exactly the one the model's `convert` emits (proved to satisfy the Spec
under `Facts.gen`: `c15_search_sound`) and the Spec fails, the contract is what moved: clauses `contract-rejects-node-payload`
(an assertion / slice / conversion of the extracted parser aborts) or `contract-reads-other-value` (it accepts the payload but reads a
field as something else than requested), with the request, the node's payload and the first failing parser step.

`guardian-count-lossy`: an accepted guardian-set upgrade whose payload carries, at the parser's count slice, another number than
the number of guardians requested ("every requested value represented without truncation or wrap-around"; the count is one byte, 256
guardians read as 0).  Judged on the payload the implementation emitted with the extracted slice - it does not depend on the limit
(`common.MaxGuardianCount`) the admin server or the model applies.
-/
namespace Whv.Driver.GovFam
open Whv Whv.Driver Whv.Gov

def parseStr (s : String) : Option Str := parseHexD s

def parseGuardians (s : String) : Option (List Guardian) :=
  if s = "-" then some [] else
  (s.splitOn ",").mapM fun e =>
    match e.splitOn "/" with
    | [p, n] => do let p ← parseStr p; let n ← parseStr n; pure ⟨p, n⟩
    | _ => none

def parseSeqs (s : String) : Option (List Nat) :=
  if s = "-" then some [] else (s.splitOn ".").mapM String.toNat?

def parsePayload (kind args : String) : Option Payload :=
  match kind, args.splitOn "," with
  | "none", _ => some .none
  | "fee", [a] => do pure (.updateMessageFee (← parseStr a))
  | "tf", [a, r] => do pure (.transferFee (← parseStr a) (← parseStr r))
  | "gs", _ => do pure (.guardianSet (← parseGuardians args))
  | "cu", [a] => do pure (.contractUpgrade (← parseStr a))
  | "rc", [m, c, e] => do pure (.registerChain (← parseStr m) (← c.toNat?) (← parseStr e))
  | "bu", [m, p] => do pure (.bridgeUpgrade (← parseStr m) (← parseStr p))
  | "ds", [c, s] => do pure (.destroy (← c.toNat?) (← parseSeqs s))
  | "cl", [l] => do pure (.minConsistency (← l.toNat?))
  | "ra", [a] => do pure (.refundAddress (← parseStr a))
  | _, _ => none

def parseMsg (s : String) : Option Msg :=
  match s.splitOn ":" with
  | [seq, nonce, tc, kind, args] => do
    pure { sequence := ← seq.toNat?, nonce := ← nonce.toNat?, targetChain := ← tc.toNat?, payload := ← parsePayload kind args }
  | _ => none

def parseMsgs (s : String) : Option (List Msg) :=
  if s = "-" then some [] else (s.splitOn ";").mapM parseMsg

def parseCanon (s : String) : Option Vaa :=
  match s.splitOn "," with
  | [ver, gs, sigs, ts, nonce, ec, tc, em, seq, cl, pl] => do
    let ver ← ver.toNat?; let gs ← gs.toNat?; let ts ← ts.toNat?
    let nonce ← nonce.toNat?; let ec ← ec.toNat?; let tc ← tc.toNat?; let em ← parseHexD em
    let seq ← seq.toNat?; let cl ← cl.toNat?; let pl ← parseHexD pl
    -- governance VAAs are unsigned; anything else is kept visible as a non-empty marker
    let sigs : List Sig := if sigs = "-" then [] else [⟨0, []⟩]
    pure { version := ver, gsIndex := gs, sigs := sigs,
           body := { ts := ts, nonce := nonce, emitterChain := ec, targetChain := tc, emitter := em,
                     sequence := seq, consistency := cl, payload := pl } }
  | _ => none

def parseSent (s : String) : Option (List Vaa) :=
  if s = "-" then some [] else (s.splitOn "|").mapM parseCanon

def showVaa (v : Vaa) : String :=
  let b := v.body
  let pl := if b.payload.length > 120 then toHex (b.payload.take 120) ++ s!"..({b.payload.length}B)" else hexOrDash b.payload
  s!"{v.version},{v.gsIndex},{if v.sigs.isEmpty then "-" else "sigs"},{b.ts},{b.nonce},{b.emitterChain},{b.targetChain},{hexOrDash b.emitter},{b.sequence},{b.consistency},{pl}"

def showStr (s : Str) : String := String.ofList (s.map fun b => if 32 ≤ b.toNat ∧ b.toNat < 127 then Char.ofNat b.toNat else '?')

def kindName : Payload → String
  | .none => "unset-payload"
  | .updateMessageFee _ => "message-fee"
  | .transferFee _ _ => "transfer-fee"
  | .guardianSet _ => "guardian-set"
  | .contractUpgrade _ => "contract-upgrade"
  | .registerChain _ _ _ => "register-chain"
  | .bridgeUpgrade _ _ => "bridge-upgrade"
  | .destroy _ _ => "destroy-sequences"
  | .minConsistency _ => "consistency-level"
  | .refundAddress _ => "refund-address"

/-- A short rendering of what was requested, for verdict texts. -/
def showPayload : Payload → String
  | .none => "oneof unset"
  | .updateMessageFee f => s!"fee={showStr (f.take 70)}"
  | .transferFee a r => s!"amount={showStr (a.take 70)} recipient={showStr (r.take 70)}"
  | .guardianSet gs => s!"{gs.length} guardians"
  | .contractUpgrade p => s!"payload of {p.length} hex characters"
  | .registerChain m c e => s!"module={showStr (m.take 40)} ({m.length} bytes) chain_id={c} emitter={showStr (e.take 70)}"
  | .bridgeUpgrade m p => s!"module={showStr (m.take 40)} ({m.length} bytes) payload of {p.length} hex characters"
  | .destroy c s => s!"emitter_chain={c} {s.length} sequences"
  | .minConsistency l => s!"new_consistency_level={l}"
  | .refundAddress a => s!"refund address of {a.length} hex characters"

def envClause (cfg : Cfg) (_req : Req) (m : Msg) (v : Vaa) : String :=
  if v.body.targetChain != m.targetChain then s!"envelope-target-chain requested target_chain_id={m.targetChain}, VAA carries {v.body.targetChain}"
  else if v.body.emitterChain != cfg.chain || v.body.emitter != cfg.emitter then
    s!"envelope-emitter VAA emitter {v.body.emitterChain}/{hexOrDash v.body.emitter} is not the configured governance emitter {cfg.chain}/{hexOrDash cfg.emitter}"
  else s!"envelope-field version/set index/signatures/timestamp/nonce/sequence differ from the request: {showVaa v}"

/-! ### the facts line -/

def kvPair (fs : List String) (k : String) : Option (Nat × Nat) :=
  (kv fs k).bind fun s => match s.splitOn ":" with
    | [a, b] => do pure (← a.toNat?, ← b.toNat?)
    | _ => none

def parseFacts (fs : List String) : Option Facts := do
  let n := kvNat fs
  let pr := kvPair fs
  pure {
    coreModule := ← n "coreModule", tokenBridgeModule := ← n "tokenBridgeModule",
    moduleSlice := ← pr "moduleSlice", moduleConv := ← n "moduleConv", actionSlice := ← pr "actionSlice",
    actContractUpgrade := ← n "actContractUpgrade", actNewGuardianSet := ← n "actNewGuardianSet",
    actNewMessageFee := ← n "actNewMessageFee", actTransferFee := ← n "actTransferFee",
    actRegisterChain := ← n "actRegisterChain", actBridgeContractUpgrade := ← n "actBridgeContractUpgrade",
    actDestroy := ← n "actDestroy", actMinConsistency := ← n "actMinConsistency", actRefundAddress := ← n "actRefundAddress",
    gsIndex := ← pr "gsIndex", gsIndexConv := ← n "gsIndexConv", gsCount := ← pr "gsCount", gsCountConv := ← n "gsCountConv",
    gsSizeBase := ← n "gsSizeBase", gsSizeStride := ← n "gsSizeStride", gsStoreFrom := ← n "gsStoreFrom",
    gsKeyBase := ← n "gsKeyBase", gsKeyStride := ← n "gsKeyStride", gsKeyWidth := ← n "gsKeyWidth",
    feeValue := ← pr "feeValue", feeConv := ← n "feeConv", feeSize := ← n "feeSize",
    tfAmount := ← pr "tfAmount", tfAmountConv := ← n "tfAmountConv", tfRecipient := ← pr "tfRecipient", tfSize := ← n "tfSize",
    cuCodeLen := ← pr "cuCodeLen", cuCodeLenConv := ← n "cuCodeLenConv", cuStart := ← n "cuStart",
    rcChain := ← pr "rcChain", rcChainConv := ← n "rcChainConv", rcBridge := ← pr "rcBridge", rcSize := ← n "rcSize",
    dsChain := ← pr "dsChain", dsCount := ← pr "dsCount", dsCountConv := ← n "dsCountConv",
    dsSizeBase := ← n "dsSizeBase", dsSizeStride := ← n "dsSizeStride", dsPathsFrom := ← n "dsPathsFrom", dsPathWidth := ← n "dsPathWidth",
    clValue := ← pr "clValue", clConv := ← n "clConv", clSize := ← n "clSize",
    raLen := ← pr "raLen", raLenConv := ← n "raLenConv", raSizeBase := ← n "raSizeBase", raSizeStride := ← n "raSizeStride",
    raAddrFrom := ← n "raAddrFrom" }

/-! ### why the extracted parser does not recover the request (diagnostic text only: whether a verdict is given is decided by
`specOkF` / `acceptsF`, the proved predicates) -/

/-- One step of a parser, in source order. -/
inductive PStep where
  | sl (name : String) (r : Nat × Nat) (conv : Option Nat)   -- `[u256From<N>Byte!(]byteVecSlice!(payload, a, b)[)]`
  | size (eqn : String) (n : Nat)                            -- `assert!(size!(payload) == n)`

def showR (r : Nat × Nat) : String := s!"[{r.1},{r.2})"

/-- The first step that makes the VM abort on `p`. -/
def firstAbort (p : Bytes) : List PStep → Option String
  | [] => none
  | .sl name r conv :: rest =>
    match Ral.slice p r with
    | none => some s!"byteVecSlice!(payload, {r.1}, {r.2}) ({name}) is out of range: the payload has {p.length} bytes"
    | some s =>
      match conv with
      | some w => if s.length = w then firstAbort p rest else some s!"u256From{w}Byte! ({name}) is applied to the {s.length}-byte slice payload{showR r}"
      | none => firstAbort p rest
  | .size eqn n :: rest =>
    if p.length = n then firstAbort p rest else some s!"assert!(size!(payload) == {eqn}) fails: the parser wants {n} bytes, the payload has {p.length}"

def headerSteps (F : Facts) : List PStep := [.sl "module" F.moduleSlice (some F.moduleConv), .sl "action id" F.actionSlice none]

/-- The header's value assertions (module constant, action byte), once its slices can be taken. -/
def headerValue (F : Facts) (module action : Nat) (p : Bytes) : Option String :=
  match Ral.slice p F.moduleSlice, Ral.slice p F.actionSlice with
  | some m, some a =>
    if unbe m != module then some s!"module check fails: payload{showR F.moduleSlice} = {hexOrDash m} is not the module constant 0x{toHex (be 32 module)}"
    else if a != be 1 action then some s!"action check fails: payload{showR F.actionSlice} = {hexOrDash a}, the contract's ActionId is #{toHex (be 1 action)}"
    else none
  | _, _ => none

def readNat (p : Bytes) (r : Nat × Nat) : Nat := match Ral.slice p r with | some s => unbe s | none => 0

/-- The parser of the kind of `pl`, as the list of its steps on this payload (dynamic sizes computed from the count it reads),
its function name, its module / action constants. -/
def stepsOf (F : Facts) (pl : Payload) (p : Bytes) : String × Nat × Nat × List PStep :=
  match pl with
  | .none => ("-", 0, 0, [])
  | .updateMessageFee _ => ("governance.ral submitSetMessageFee", F.coreModule, F.actNewMessageFee,
      [.sl "fee" F.feeValue (some F.feeConv), .size s!"{F.feeSize}" F.feeSize])
  | .transferFee _ _ => ("governance.ral submitTransferFees", F.coreModule, F.actTransferFee,
      [.sl "amount" F.tfAmount (some F.tfAmountConv), .sl "recipient" F.tfRecipient none, .size s!"{F.tfSize}" F.tfSize])
  | .guardianSet _ =>
    let n := readNat p F.gsCount
    let size := F.gsSizeBase + n * F.gsSizeStride
    ("governance.ral submitNewGuardianSet", F.coreModule, F.actNewGuardianSet,
      [.sl "newGuardianSetIndex" F.gsIndex (some F.gsIndexConv), .sl "newGuardianSetSize" F.gsCount (some F.gsCountConv),
       .size s!"{F.gsSizeBase} + {n} * {F.gsSizeStride}; newGuardianSetSize = u256From{F.gsCountConv}Byte!(payload{showR F.gsCount}) = {n}" size, .sl "guardianSets[1]" (F.gsStoreFrom, size) none])
  | .contractUpgrade _ => ("governance.ral submitContractUpgrade / TokenBridgeFactory.parseContractUpgrade", F.coreModule, F.actContractUpgrade,
      [.sl "contractCodeLength" F.cuCodeLen (some F.cuCodeLenConv)])
  | .registerChain m _ _ => ("token_bridge_governance.ral parseAndVerifyRegisterChain", unbe m, F.actRegisterChain,
      [.sl "remoteChainId" F.rcChain (some F.rcChainConv), .sl "remoteTokenBridgeId" F.rcBridge none, .size s!"{F.rcSize}" F.rcSize])
  | .bridgeUpgrade m _ => ("token_bridge_governance.ral upgradeContract / TokenBridgeFactory.parseContractUpgrade", unbe m, F.actBridgeContractUpgrade,
      [.sl "contractCodeLength" F.cuCodeLen (some F.cuCodeLenConv)])
  | .destroy _ _ =>
    let n := readNat p F.dsCount
    let size := F.dsSizeBase + n * F.dsSizeStride
    ("token_bridge_governance.ral destroyUnexecutedSequenceContracts", F.tokenBridgeModule, F.actDestroy,
      [.sl "remoteChainIdBytes" F.dsChain none, .sl "length" F.dsCount (some F.dsCountConv),
       .size s!"{F.dsSizeBase} + {n} * {F.dsSizeStride}; length = u256From{F.dsCountConv}Byte!(payload{showR F.dsCount}) = {n}" size, .sl "paths" (F.dsPathsFrom, size) none])
  | .minConsistency _ => ("token_bridge_governance.ral updateMinimalConsistencyLevel", F.tokenBridgeModule, F.actMinConsistency,
      [.size s!"{F.clSize}" F.clSize, .sl "consistencyLevel" F.clValue (some F.clConv)])
  | .refundAddress _ =>
    let n := readNat p F.raLen
    let size := F.raSizeBase + n * F.raSizeStride
    ("token_bridge_governance.ral updateRefundAddress", F.tokenBridgeModule, F.actRefundAddress,
      [.sl "addressSize" F.raLen (some F.raLenConv), .size s!"{F.raSizeBase} + {n} * {F.raSizeStride}; addressSize = u256From{F.raLenConv}Byte!(payload{showR F.raLen}) = {n}" size,
       .sl "newRefundAddress" (F.raAddrFrom, size) none])

def showBs (bs : Bytes) : String := if bs.length > 40 then toHex (bs.take 40) ++ s!"..({bs.length}B)" else hexOrDash bs
def showNats (ns : List Nat) : String := if ns.length > 6 then s!"{ns.take 6}..({ns.length} values)" else s!"{ns}"

/-- What the accepting parser reads, next to what was requested (first field that differs). -/
def otherValue (F : Facts) (gsi : Nat) (pl : Payload) (p : Bytes) : String :=
  match pl with
  | .updateMessageFee fee =>
    s!"fee read from payload{showR F.feeValue} = {(RalF.parseMessageFee F p).getD 0}, requested {unbe ((hexDecode fee).getD [])}"
  | .transferFee a r =>
    match RalF.parseTransferFee F p with
    | some (av, rv) =>
      if av != unbe ((hexDecode a).getD []) then s!"amount read from payload{showR F.tfAmount} = {av}, requested {unbe ((hexDecode a).getD [])}"
      else s!"recipient read from payload{showR F.tfRecipient} = {showBs rv}, requested {showBs ((hexDecode r).getD [])}"
    | none => "-"
  | .guardianSet gs =>
    match RalF.parseGuardianSet F p with
    | some (i, ks) =>
      if i != gsi + 1 then s!"new guardian set index read from payload{showR F.gsIndex} = {i}, requested {gsi + 1}"
      else s!"guardian keys read (blob from {F.gsStoreFrom}, key k at {F.gsKeyBase} + k * {F.gsKeyStride}, {F.gsKeyWidth} bytes) = {ks.map showBs}, requested {((keysOf gs).getD []).map showBs}"
    | none => "-"
  | .contractUpgrade s =>
    s!"upgrade description read from offset {F.cuStart} (code length at {showR F.cuCodeLen}) = {showBs ((RalF.parseUpgrade F F.coreModule F.actContractUpgrade p).getD [])}, requested {showBs ((hexDecode s).getD [])}"
  | .registerChain m c e =>
    match RalF.parseRegisterChain F (unbe m) p with
    | some (cv, b) =>
      if cv != c then s!"remote chain id read from payload{showR F.rcChain} = {cv}, requested {c}"
      else s!"remote token bridge id read from payload{showR F.rcBridge} = {showBs b}, requested {showBs ((hexDecode e).getD [])}"
    | none => "-"
  | .bridgeUpgrade m s =>
    s!"upgrade description read from offset {F.cuStart} (code length at {showR F.cuCodeLen}) = {showBs ((RalF.parseUpgrade F (unbe m) F.actBridgeContractUpgrade p).getD [])}, requested {showBs ((hexDecode s).getD [])}"
  | .destroy c seqs =>
    match RalF.parseDestroy F p with
    | some (cv, sv) =>
      if cv != c then s!"remote chain id read from payload{showR F.dsChain} = {cv}, requested {c}"
      else s!"sequences read (count at {showR F.dsCount}, paths from {F.dsPathsFrom} in chunks of {F.dsPathWidth}) = {showNats sv}, requested {showNats seqs}"
    | none => "-"
  | .minConsistency l => s!"consistency level read from payload{showR F.clValue} = {(RalF.parseMinConsistency F p).getD 0}, requested {l}"
  | .refundAddress s =>
    s!"refund address read from payload[{F.raAddrFrom},..) = {showBs ((RalF.parseRefundAddress F p).getD [])}, requested {showBs ((hexDecode s).getD [])}"
  | .none => "-"

/-- Clause and explanation for a payload the extracted parser does not decode back to the request. -/
def contractClause (F : Facts) (gsi : Nat) (pl : Payload) (p : Bytes) : String × String :=
  let (fn, module, action, steps) := stepsOf F pl p
  if acceptsF F pl p then ("contract-reads-other-value", s!"{fn} accepts the payload but reads another value: {otherValue F gsi pl p}")
  else
    let why := match firstAbort p (headerSteps F) with
      | some w => s!"parseAndVerifyGovernanceVAAGeneric: {w}"
      | none => match headerValue F module action p with
        | some w => s!"parseAndVerifyGovernanceVAAGeneric: {w}"
        | none => match firstAbort p steps with
          | some w => w
          | none => "an assertion of the parser fails (e.g. a zero guardian count)"
    ("contract-rejects-node-payload", s!"{fn} rejects the payload: {why}")

/-- Which part of the request the parser does not recover (the stable key of a finding). -/
def lossyClause (F : Facts) (gsi : Nat) (pl : Payload) (p : Bytes) : String :=
  match pl with
  | .destroy c _ =>
    match RalF.parseDestroy F p with
    | some (c', _) => if c' != c then "destroy-emitter-chain-lossy" else "destroy-sequences-lossy"
    | none => "destroy-sequences-lossy"
  | .guardianSet gs =>
    -- the guardian COUNT is a requested value too: what the parser reads at its count slice is not the number of guardians asked for
    -- (a one-byte count wraps at 256) - whatever limit the admin server applied
    if (Ral.slice p F.gsCount).isSome && readNat p F.gsCount != gs.length then "guardian-count-lossy" else
    match RalF.parseGuardianSet F p with
    | some (i, _) => if i != gsi + 1 then "guardian-set-index-lossy" else "guardian-set-keys-lossy"
    | none => "guardian-set-keys-lossy"
  | .registerChain _ c _ =>
    match RalF.parseRegisterChain F (unbe (p.take 32)) p with
    | some (c', _) => if c' != c then "register-chain-id-lossy" else "register-chain-lossy"
    | none => "register-chain-lossy"
  | _ => s!"{kindName pl}-lossy"

/-- Spec on the implementation's own VAAs, message by message; `none` = holds. -/
def specSent (F : Facts) (cfg : Cfg) (req : Req) : List Msg → List Vaa → Option String
  | _, [] => none
  | [], v :: _ => some s!"extra-vaa a VAA was injected that no message asked for: {showVaa v}"
  | m :: ms, v :: vs =>
    if !envOk cfg req m v then some (envClause cfg req m v)
    else if !specOkF F req.currentSetIndex m.payload v.body.payload then
      let p := v.body.payload
      if convert req.currentSetIndex m.payload == .ok p then
        -- the node emitted exactly the payload its (proved) model emits: what no longer fits is the contract's parser
        let (clause, why) := contractClause F req.currentSetIndex m.payload p
        some s!"{clause} the governance request kind={kindName m.payload} ({showPayload m.payload}, current_set_index={req.currentSetIndex}, target_chain_id={m.targetChain}) makes the node emit the payload {hexOrDash (p.take 110)}{if p.length > 110 then ".." else ""} ({p.length} bytes); the contract parser as extracted from the current source: {why}"
      else
        let detail : String := match m.payload with
          | .guardianSet gs =>
            if (Ral.slice p F.gsCount).isSome && readNat p F.gsCount != gs.length then
              s!": {gs.length} guardians were requested, the guardian count the contract reads at payload{showR F.gsCount} is {readNat p F.gsCount} (a {F.gsCount.2 - F.gsCount.1}-byte field, followed by {p.length - F.gsCount.2} key bytes)"
            else ""
          | _ => ""
        some s!"{lossyClause F req.currentSetIndex m.payload p} accepted request ({showPayload m.payload}, current_set_index={req.currentSetIndex}) is not what the contract parser recovers from payload {hexOrDash (p.take 80)} ({p.length} bytes){detail}"
    else specSent F cfg req ms vs

/-- `ps` = `label:fingerprint,...`; the label of the first instance whose complete result differs from the reference's. -/
def stateDependent (ps : String) : Option String :=
  let fps := (ps.splitOn ",").map fun e => match e.splitOn ":" with | [l, f] => (l, f) | _ => ("?", e)
  match fps with
  | (_, f0) :: others => (others.find? fun x => x.2 != f0).map (·.1)
  | [] => none

/-- Verdict text for an instance whose result differs from the reference instance's. -/
def altVerdict (lbl : String) (msgs : List Msg) (sent : List Vaa) (rest : List String) : String :=
  let altres := (kv rest "altres").getD "?"
  let altsent := ((kv rest "altsent") >>= parseSent).getD []
  if altres = "panic" then
    let cur : String := match msgs[altsent.length]? with | some m => kindName m.payload | none => "request"
    s!"request-panic-{cur} InjectGovernanceVAA panicked ({showStr (((kvHex rest "altmsg")).getD [])}) on the node instance {lbl} (message {altsent.length})"
  else
    let firstDiff := (List.zip sent altsent).find? fun (a, b) => a != b
    let detail := match firstDiff with
      | some (a, b) =>
        let what := (if a.gsIndex != b.gsIndex then " guardian_set_index" else "") ++ (if a.body.payload != b.body.payload then " payload" else "") ++
                    (if a.body != b.body && a.body.payload == b.body.payload then " body" else "")
        s!"VAA differs in{what}: reference {showVaa a} / {lbl} {showVaa b}"
      | none => s!"reference injected {sent.length} VAAs, {lbl} injected {altsent.length}, result {altres} code={(kv rest "altcode").getD "?"} msg=\"{showStr ((kvHex rest "altmsg").getD [])}\" digests {(kv rest "altdig").getD "-"} vs {(kv rest "dig").getD "-"}"
    s!"result-depends-on-node-state the same request gives a different result on the node instance {lbl} (same governance configuration, different ambient state): {detail}"

structure St where
  facts : Facts := Facts.node
  factsGiven : Nat := 0
  n : Nat := 0
  accepted : Nat := 0
  rejected : Nat := 0
  vaas : Nat := 0
  kinds : List (String × Nat × Nat) := []   -- kind, accepted, rejected (single-message requests)

def bump (ks : List (String × Nat × Nat)) (k : String) (ok : Bool) : List (String × Nat × Nat) :=
  if ks.any (·.1 == k) then ks.map fun (n, a, r) => if n == k then (if ok then (n, a + 1, r) else (n, a, r + 1)) else (n, a, r)
  else ks ++ [(k, if ok then 1 else 0, if ok then 0 else 1)]

def showIRes : IRes → String
  | .ok => "ok"
  | .err c m => s!"err code={c} msg=\"{showStr m}\""
  | .panic => "panic"

/-- Hand-over clauses, evaluated on what reached the injection channel until quiescence (next to the per-message clauses of
`stepMain`, never instead of them):
* `nil-vaa-injected` — a nil pointer was handed to the processor ("no request crashes the node": it dereferences what it reads);
* `injected-vaas-not-the-acknowledged` — the request was accepted and one digest per message returned, but the VAAs handed to the
  processor are not (as a multiset) the VAAs with those digests: some message's VAA never arrives, another arrives twice. -/
def handOver (id : String) (rest : List String) : List String :=
  let nils := (kvNat rest "nil").getD 0
  let a := if nils > 0 then
      [s!"spec {id} nil-vaa-injected InjectGovernanceVAA handed {nils} nil VAA pointer(s) to the injection channel (result {(kv rest "res").getD "?"}): the processor dereferences what it reads there"]
    else []
  let lst (k : String) : List String := match kv rest k with | some "-" => [] | some x => x.splitOn "," | none => []
  let dig := lst "dig"
  let kk := lst "kk"
  let count (l : List String) (x : String) : Nat := (l.filter (· == x)).length
  let b :=
    if (kv rest "res") == some "ok" && (dig.any (fun d => count kk d != count dig d) || kk.any (fun d => count kk d != count dig d)) then
      let seqOf (i : Nat) : String := match (kv rest "msgs" >>= parseMsgs) with
        | some ms => (match ms[i]? with | some m => s!"message {i} (sequence {m.sequence}, {kindName m.payload})" | none => s!"message {i}")
        | none => s!"message {i}"
      let never := (List.range dig.length).filter fun i => count kk (dig.getD i "") < count dig (dig.getD i "")
      let twice := (List.range dig.length).filter fun i => count kk (dig.getD i "") > count dig (dig.getD i "")
      let strays := (kk.filter fun d => !dig.contains d).length
      [s!"spec {id} injected-vaas-not-the-acknowledged request of {dig.length} messages accepted, one digest per message returned, but the VAAs handed to the processor (read until nothing was in flight any more: {kk.length}) are not the VAAs with those digests: never injected: {never.map seqOf}; injected more often than acknowledged: {twice.map seqOf}; injected with a digest that was not returned: {strays}"]
    else []
  a ++ b

def stepMain (st : St) (line : String) : St × List String :=
  let fs := fields line
  match fs with
  | "inj" :: id :: rest =>
    match kvNat rest "cc", kvHex rest "ce", kvNat rest "gsi", kvNat rest "ts", kv rest "msgs" >>= parseMsgs,
          kv rest "res", kvNat rest "code", kvHex rest "msg", kv rest "sent" >>= parseSent with
    | some cc, some ce, some gsi, some ts, some msgs, some res, some code, some msg, some sent =>
      let cfg : Cfg := ⟨cc, ce⟩
      let req : Req := ⟨gsi, ts, msgs⟩
      let st := { st with n := st.n + 1 }
      let cur : String := match msgs[sent.length]? with | some m => kindName m.payload | none => "request"
      -- 1. the Spec, on the implementation's own results
      if res = "panic" then
        (st, [s!"spec {id} request-panic-{cur} InjectGovernanceVAA panicked ({showStr msg}) on message {sent.length}: {match msgs[sent.length]? with | some m => showPayload m.payload | none => "-"}"])
      else if res = "errnonnil" then (st, [s!"spec {id} partial-result an error was returned together with a response"])
      else match specSent st.facts cfg req msgs sent with
      | some c => (st, [s!"spec {id} {c}"])
      | none =>
        if res = "ok" && sent.length != msgs.length then
          (st, [s!"spec {id} missing-vaa request of {msgs.length} messages accepted but {sent.length} VAAs injected"])
        else if res = "ok" && (kv rest "dig" != kv rest "kk") then
          (st, [s!"spec {id} digest-not-body-hash returned digests are not Keccak(Keccak(signing body)) of the injected VAAs"])
        else if let some lbl := stateDependent ((kv rest "ps").getD "-") then
          (st, [s!"spec {id} {altVerdict lbl msgs sent rest}"])
        else
          -- 2. the tie: model vs implementation, full observable result
          let (msent, mres) := inject cfg req
          let ires : Option IRes := if res = "ok" then some .ok else if res = "err" then some (.err code msg) else none
          if some mres != ires then (st, [s!"diff {id} result model={showIRes mres} impl={res} code={code} msg=\"{showStr msg}\""])
          else if msent != sent then
            (st, [s!"diff {id} injected VAAs model=[{" | ".intercalate (msent.map showVaa)}] impl=[{" | ".intercalate (sent.map showVaa)}]"])
          else
            let okb := res = "ok"
            let st := if okb then { st with accepted := st.accepted + 1 } else { st with rejected := st.rejected + 1 }
            let st := { st with vaas := st.vaas + sent.length }
            let st := match msgs with
              | [m] => { st with kinds := bump st.kinds (kindName m.payload) okb }
              | _ => st
            (st, [s!"ok {id}"])
    | _, _, _, _, _, _, _, _, _ => (st, [s!"diff {id} unparsable inj line"])
  | "facts" :: _ :: rest =>
    match parseFacts rest with
    | some F =>
      if st.n > 0 || st.factsGiven > 0 then (st, ["diff - facts line is not the first line of the input"])
      else ({ st with facts := F, factsGiven := 1 }, [])
    | none => (st, ["diff - unparsable facts line"])
  | [] => (st, [])
  | _ => (st, [s!"diff ? unknown line: {line.take 80}"])

def step (st : St) (line : String) : St × List String :=
  let (st', outs) := stepMain st line
  match fields line with
  | "inj" :: id :: rest =>
    let extra := handOver id rest
    if extra.isEmpty then (st', outs)
    else if outs.any (·.startsWith "spec ") then (st', outs ++ extra)
    else (st', extra)
  | _ => (st', outs)

def fin (st : St) : List String :=
  [s!"stat facts_from_current_sources {st.factsGiven}", s!"stat facts_equal_node_layout {if st.facts = Facts.node then 1 else 0}",
   s!"stat cases {st.n}", s!"stat requests_accepted {st.accepted}", s!"stat requests_rejected {st.rejected}", s!"stat vaas_checked {st.vaas}"] ++
  st.kinds.flatMap fun (k, a, r) => [s!"stat accepted_{k} {a}", s!"stat rejected_{k} {r}"]

def run (h : IO.FS.Stream) : IO Unit := loop h ({} : St) step fin

end Whv.Driver.GovFam
