import Whv.Driver.Util
import Whv.Model.Gov
/-!
Driver family `gov` (C15).  One case per line (fields separated by one space):

`inj <id> cc=<n> ce=<hex> gsi=<n> ts=<n> msgs=<m;m;..|-> res=ok|err|errnonnil|panic code=<n> msg=<hex|-> sent=<canon|canon..|->
 dig=<hex,..|-> kk=<hex,..|-> ps=<label:hex,label:hex,..> [alt=<label> altres= altcode= altmsg= altsent= altdig=]`

* `cc`, `ce`: the service's `governanceChainId` / `governanceEmitterAddress`; `gsi`, `ts`: `CurrentSetIndex`, `Timestamp`;
* a message is `seq:nonce:tc:kind:args` with kind/args one of `none:-`, `fee:<s>`, `tf:<s>,<s>`, `gs:<pub>/<name>,..|-`, `cu:<s>`,
  `rc:<s>,<n>,<s>`, `bu:<s>,<s>`, `ds:<n>,<n.n.n|->`, `cl:<n>`, `ra:<s>`; every Go string `<s>` is the hex of its bytes (`-` = empty);
* `res`/`code`/`msg`: what the real `InjectGovernanceVAA` returned (gRPC status code and message), `sent`: every VAA it pushed on
  `injectC`, canon = `ver,gs,sigs,ts,nonce,ec,tc,emhex,seq,cl,plhex`; `dig`: the digests it returned; `kk`: Keccak(Keccak(body)) recomputed
  by the harness from the pushed VAAs; `ps`: fingerprints of the complete result (status, message, every field of every VAA, digests) of the
  same request on the reference instance and on instances with different ambient node state (guardian-set state nil / empty / index 0 /
  equal / higher, different stores, channel fill levels and histories; some built by the production constructor and called over the admin
  unix socket); `alt*`: the complete result of the first instance that differs from the reference.
-/
namespace Whv.Driver.GovFam
open Whv Whv.Driver Whv.Gov

def parseStr (s : String) : Option Str := parseHexD s

def parseGuardians (s : String) : Option (List Guardian) :=
  if s = "-" then some [] else
  (s.splitOn ",").mapM fun e =>
    match e.splitOn "/" with
    | [p, n] => do let p ← parseStr p; let n ← parseStr n; pure ⟨p, n⟩
    | _ => none

def parseSeqs (s : String) : Option (List Nat) :=
  if s = "-" then some [] else (s.splitOn ".").mapM String.toNat?

def parsePayload (kind args : String) : Option Payload :=
  match kind, args.splitOn "," with
  | "none", _ => some .none
  | "fee", [a] => do pure (.updateMessageFee (← parseStr a))
  | "tf", [a, r] => do pure (.transferFee (← parseStr a) (← parseStr r))
  | "gs", _ => do pure (.guardianSet (← parseGuardians args))
  | "cu", [a] => do pure (.contractUpgrade (← parseStr a))
  | "rc", [m, c, e] => do pure (.registerChain (← parseStr m) (← c.toNat?) (← parseStr e))
  | "bu", [m, p] => do pure (.bridgeUpgrade (← parseStr m) (← parseStr p))
  | "ds", [c, s] => do pure (.destroy (← c.toNat?) (← parseSeqs s))
  | "cl", [l] => do pure (.minConsistency (← l.toNat?))
  | "ra", [a] => do pure (.refundAddress (← parseStr a))
  | _, _ => none

def parseMsg (s : String) : Option Msg :=
  match s.splitOn ":" with
  | [seq, nonce, tc, kind, args] => do
    pure { sequence := ← seq.toNat?, nonce := ← nonce.toNat?, targetChain := ← tc.toNat?, payload := ← parsePayload kind args }
  | _ => none

def parseMsgs (s : String) : Option (List Msg) :=
  if s = "-" then some [] else (s.splitOn ";").mapM parseMsg

def parseCanon (s : String) : Option Vaa :=
  match s.splitOn "," with
  | [ver, gs, sigs, ts, nonce, ec, tc, em, seq, cl, pl] => do
    let ver ← ver.toNat?; let gs ← gs.toNat?; let ts ← ts.toNat?
    let nonce ← nonce.toNat?; let ec ← ec.toNat?; let tc ← tc.toNat?; let em ← parseHexD em
    let seq ← seq.toNat?; let cl ← cl.toNat?; let pl ← parseHexD pl
    -- governance VAAs are unsigned; anything else is kept visible as a non-empty marker
    let sigs : List Sig := if sigs = "-" then [] else [⟨0, []⟩]
    pure { version := ver, gsIndex := gs, sigs := sigs,
           body := { ts := ts, nonce := nonce, emitterChain := ec, targetChain := tc, emitter := em,
                     sequence := seq, consistency := cl, payload := pl } }
  | _ => none

def parseSent (s : String) : Option (List Vaa) :=
  if s = "-" then some [] else (s.splitOn "|").mapM parseCanon

def showVaa (v : Vaa) : String :=
  let b := v.body
  let pl := if b.payload.length > 120 then toHex (b.payload.take 120) ++ s!"..({b.payload.length}B)" else hexOrDash b.payload
  s!"{v.version},{v.gsIndex},{if v.sigs.isEmpty then "-" else "sigs"},{b.ts},{b.nonce},{b.emitterChain},{b.targetChain},{hexOrDash b.emitter},{b.sequence},{b.consistency},{pl}"

def showStr (s : Str) : String := String.ofList (s.map fun b => if 32 ≤ b.toNat ∧ b.toNat < 127 then Char.ofNat b.toNat else '?')

def kindName : Payload → String
  | .none => "unset-payload"
  | .updateMessageFee _ => "message-fee"
  | .transferFee _ _ => "transfer-fee"
  | .guardianSet _ => "guardian-set"
  | .contractUpgrade _ => "contract-upgrade"
  | .registerChain _ _ _ => "register-chain"
  | .bridgeUpgrade _ _ => "bridge-upgrade"
  | .destroy _ _ => "destroy-sequences"
  | .minConsistency _ => "consistency-level"
  | .refundAddress _ => "refund-address"

/-- A short rendering of what was requested, for verdict texts. -/
def showPayload : Payload → String
  | .none => "oneof unset"
  | .updateMessageFee f => s!"fee={showStr (f.take 70)}"
  | .transferFee a r => s!"amount={showStr (a.take 70)} recipient={showStr (r.take 70)}"
  | .guardianSet gs => s!"{gs.length} guardians"
  | .contractUpgrade p => s!"payload of {p.length} hex characters"
  | .registerChain m c e => s!"module={showStr (m.take 40)} ({m.length} bytes) chain_id={c} emitter={showStr (e.take 70)}"
  | .bridgeUpgrade m p => s!"module={showStr (m.take 40)} ({m.length} bytes) payload of {p.length} hex characters"
  | .destroy c s => s!"emitter_chain={c} {s.length} sequences"
  | .minConsistency l => s!"new_consistency_level={l}"
  | .refundAddress a => s!"refund address of {a.length} hex characters"

def envClause (cfg : Cfg) (_req : Req) (m : Msg) (v : Vaa) : String :=
  if v.body.targetChain != m.targetChain then s!"envelope-target-chain requested target_chain_id={m.targetChain}, VAA carries {v.body.targetChain}"
  else if v.body.emitterChain != cfg.chain || v.body.emitter != cfg.emitter then
    s!"envelope-emitter VAA emitter {v.body.emitterChain}/{hexOrDash v.body.emitter} is not the configured governance emitter {cfg.chain}/{hexOrDash cfg.emitter}"
  else s!"envelope-field version/set index/signatures/timestamp/nonce/sequence differ from the request: {showVaa v}"

/-- Which part of the request the parser does not recover (the stable key of a finding). -/
def lossyClause (gsi : Nat) (pl : Payload) (p : Bytes) : String :=
  match pl with
  | .destroy c _ =>
    match Ral.parseDestroy p with
    | some (c', _) => if c' != c then "destroy-emitter-chain-lossy" else "destroy-sequences-lossy"
    | none => "destroy-sequences-lossy"
  | .guardianSet _ =>
    match Ral.parseGuardianSet p with
    | some (i, _) => if i != gsi + 1 then "guardian-set-index-lossy" else "guardian-set-keys-lossy"
    | none => "guardian-set-keys-lossy"
  | .registerChain _ c _ =>
    match Ral.parseRegisterChain (unbe (p.take 32)) p with
    | some (c', _) => if c' != c then "register-chain-id-lossy" else "register-chain-lossy"
    | none => "register-chain-lossy"
  | _ => s!"{kindName pl}-lossy"

/-- Spec on the implementation's own VAAs, message by message; `none` = holds. -/
def specSent (cfg : Cfg) (req : Req) : List Msg → List Vaa → Option String
  | _, [] => none
  | [], v :: _ => some s!"extra-vaa a VAA was injected that no message asked for: {showVaa v}"
  | m :: ms, v :: vs =>
    if !envOk cfg req m v then some (envClause cfg req m v)
    else if !specOk req.currentSetIndex m.payload v.body.payload then
      some s!"{lossyClause req.currentSetIndex m.payload v.body.payload} accepted request ({showPayload m.payload}, current_set_index={req.currentSetIndex}) is not what the contract parser recovers from payload {hexOrDash (v.body.payload.take 80)} ({v.body.payload.length} bytes)"
    else specSent cfg req ms vs

/-- `ps` = `label:fingerprint,...`; the label of the first instance whose complete result differs from the reference's. -/
def stateDependent (ps : String) : Option String :=
  let fps := (ps.splitOn ",").map fun e => match e.splitOn ":" with | [l, f] => (l, f) | _ => ("?", e)
  match fps with
  | (_, f0) :: others => (others.find? fun x => x.2 != f0).map (·.1)
  | [] => none

/-- Verdict text for an instance whose result differs from the reference instance's. -/
def altVerdict (lbl : String) (msgs : List Msg) (sent : List Vaa) (rest : List String) : String :=
  let altres := (kv rest "altres").getD "?"
  let altsent := ((kv rest "altsent") >>= parseSent).getD []
  if altres = "panic" then
    let cur : String := match msgs[altsent.length]? with | some m => kindName m.payload | none => "request"
    s!"request-panic-{cur} InjectGovernanceVAA panicked ({showStr (((kvHex rest "altmsg")).getD [])}) on the node instance {lbl} (message {altsent.length})"
  else
    let firstDiff := (List.zip sent altsent).find? fun (a, b) => a != b
    let detail := match firstDiff with
      | some (a, b) =>
        let what := (if a.gsIndex != b.gsIndex then " guardian_set_index" else "") ++ (if a.body.payload != b.body.payload then " payload" else "") ++
                    (if a.body != b.body && a.body.payload == b.body.payload then " body" else "")
        s!"VAA differs in{what}: reference {showVaa a} / {lbl} {showVaa b}"
      | none => s!"reference injected {sent.length} VAAs, {lbl} injected {altsent.length}, result {altres} code={(kv rest "altcode").getD "?"} msg=\"{showStr ((kvHex rest "altmsg").getD [])}\" digests {(kv rest "altdig").getD "-"} vs {(kv rest "dig").getD "-"}"
    s!"result-depends-on-node-state the same request gives a different result on the node instance {lbl} (same governance configuration, different ambient state): {detail}"

structure St where
  n : Nat := 0
  accepted : Nat := 0
  rejected : Nat := 0
  vaas : Nat := 0
  kinds : List (String × Nat × Nat) := []   -- kind, accepted, rejected (single-message requests)

def bump (ks : List (String × Nat × Nat)) (k : String) (ok : Bool) : List (String × Nat × Nat) :=
  if ks.any (·.1 == k) then ks.map fun (n, a, r) => if n == k then (if ok then (n, a + 1, r) else (n, a, r + 1)) else (n, a, r)
  else ks ++ [(k, if ok then 1 else 0, if ok then 0 else 1)]

def showIRes : IRes → String
  | .ok => "ok"
  | .err c m => s!"err code={c} msg=\"{showStr m}\""
  | .panic => "panic"

def step (st : St) (line : String) : St × List String :=
  let fs := fields line
  match fs with
  | "inj" :: id :: rest =>
    match kvNat rest "cc", kvHex rest "ce", kvNat rest "gsi", kvNat rest "ts", kv rest "msgs" >>= parseMsgs,
          kv rest "res", kvNat rest "code", kvHex rest "msg", kv rest "sent" >>= parseSent with
    | some cc, some ce, some gsi, some ts, some msgs, some res, some code, some msg, some sent =>
      let cfg : Cfg := ⟨cc, ce⟩
      let req : Req := ⟨gsi, ts, msgs⟩
      let st := { st with n := st.n + 1 }
      let cur : String := match msgs[sent.length]? with | some m => kindName m.payload | none => "request"
      -- 1. the Spec, on the implementation's own results
      if res = "panic" then
        (st, [s!"spec {id} request-panic-{cur} InjectGovernanceVAA panicked ({showStr msg}) on message {sent.length}: {match msgs[sent.length]? with | some m => showPayload m.payload | none => "-"}"])
      else if res = "errnonnil" then (st, [s!"spec {id} partial-result an error was returned together with a response"])
      else match specSent cfg req msgs sent with
      | some c => (st, [s!"spec {id} {c}"])
      | none =>
        if res = "ok" && sent.length != msgs.length then
          (st, [s!"spec {id} missing-vaa request of {msgs.length} messages accepted but {sent.length} VAAs injected"])
        else if res = "ok" && (kv rest "dig" != kv rest "kk") then
          (st, [s!"spec {id} digest-not-body-hash returned digests are not Keccak(Keccak(signing body)) of the injected VAAs"])
        else if let some lbl := stateDependent ((kv rest "ps").getD "-") then
          (st, [s!"spec {id} {altVerdict lbl msgs sent rest}"])
        else
          -- 2. the tie: model vs implementation, full observable result
          let (msent, mres) := inject cfg req
          let ires : Option IRes := if res = "ok" then some .ok else if res = "err" then some (.err code msg) else none
          if some mres != ires then (st, [s!"diff {id} result model={showIRes mres} impl={res} code={code} msg=\"{showStr msg}\""])
          else if msent != sent then
            (st, [s!"diff {id} injected VAAs model=[{" | ".intercalate (msent.map showVaa)}] impl=[{" | ".intercalate (sent.map showVaa)}]"])
          else
            let okb := res = "ok"
            let st := if okb then { st with accepted := st.accepted + 1 } else { st with rejected := st.rejected + 1 }
            let st := { st with vaas := st.vaas + sent.length }
            let st := match msgs with
              | [m] => { st with kinds := bump st.kinds (kindName m.payload) okb }
              | _ => st
            (st, [s!"ok {id}"])
    | _, _, _, _, _, _, _, _, _ => (st, [s!"diff {id} unparsable inj line"])
  | [] => (st, [])
  | _ => (st, [s!"diff ? unknown line: {line.take 80}"])

def fin (st : St) : List String :=
  [s!"stat cases {st.n}", s!"stat requests_accepted {st.accepted}", s!"stat requests_rejected {st.rejected}", s!"stat vaas_checked {st.vaas}"] ++
  st.kinds.flatMap fun (k, a, r) => [s!"stat accepted_{k} {a}", s!"stat rejected_{k} {r}"]

def run (h : IO.FS.Stream) : IO Unit := loop h ({} : St) step fin

end Whv.Driver.GovFam
