import Whv.Driver.Util
import Whv.Driver.Vaa
import Whv.Model.Explorer
/-!
Driver family `explorer` (C19).  Case lines (a sequence shares its `<cid>`; `gsnew`/`gsinit` start one):

* `gsinit <cid> cur=<int> list=<sets>`                                       state set directly (adversarial cases)
* `gsnew  <cid> list=<sets> res=ok|panic sent=<sets> cur=<int> list=<sets>`  `NewGuardianSets` (first `list=` is the argument)
* `gsupd  <cid> in=<sets> res=nil|err|panic cur= list=`                      `updateGuardianSets`
* `gsget  <cid> idx=<int> dial=0|1 chain=<log> res=ok|err|errnonnil|panic set=<set> sent=<sets> cur= list=`   `GetGuardianSet`
* `gscur  <cid> res=ok|panic set=<set>`                                      `GetCurrentGuardianSet`
* `gsfetch <cid> from=<n> chain=<log> res=ok|err|panic sets=<sets>`          `GetGuardianSetsFromChain`
* `gstick <cid> chain=<log> res=ok|timeout sent=<set> cur= list=`            one round of the ticker goroutine
* `gsconc <cid> rounds= sets= reads= appends= wrong= panics= first=`         concurrent readers/writers (results checked in Go)
* `gsrace <cid> detected=<n> read=<func> write=<func>`                       the race detector's verdict (written by checks/c19.py)
* `vfy  <cid> v=<canon> addrs=<keys> rec=<tbl> res=nil|noaddr|notsigned|noquorum|badsigs|panic`   `verifyVAA`
        (Spec clauses: `verify-accepts-unverified` - nil for a VAA that is not signed / has no quorum of / is not `Valid` for `addrs`;
         `gate-accepts-invalid-signature-list` - additionally, when the signature list itself is one `VerifySignatures` rejects;
         the same pair on `push` lines is `queued-unverified` + `gate-accepts-invalid-signature-list`)
* `quo  <cid> n=<n> q=<q>`                                                   `processor.CalculateQuorum` (module-cache version)
* `push <cid> v=<canon> rec=<tbl> hit=0|1 room=0|1 dial=0|1 chain=<log> res=<class> enq=0|1 qsame=0|1 getkey=0|1 stored=0|1
        setkey=0|1 sent=<sets> cur= list= named=<keys>`                      `Push` (state lines come from a verif-only accessor)

Optional fields: `gsnew … boot=1` - the list argument is what the real `GetGuardianSetsFromChain(0)` returned from an honest chain
(main.go's start-up), so the sequence is one the callers produce whatever the list looks like; `gsupd … src=fetch` - the input is what
the real `GetGuardianSetsFromChain(current+1)` returned (the ticker's body); `gsget`/`push … cur0=<int>` - the lookup read
`current = cur0`, was held at the chain while other lookups / fetches completed, and its batch arrived in the state of the previous
line (`getGuardianSetStale` / `pushStale`: overlapping and repeated fetches).  A lookup the fake node failed (RPC error, HTTP 503,
undecodable / empty result: `<i>:err` in the log; endpoint not dialled: `dial=0`) is `fetchRange = none` in the model; the Spec of a
`push` line never looks at what the lookup returned: `named=` is the key list the chain holds for the index the VAA carries.

set = `idx:keys`, keys = `nil` | `-` | `hex,hex`; sets = `-` | `set;set`; log = `-` | entries `c:<n>`, `c:err`, `<i>:<keys>`, `<i>:err`.
-/
namespace Whv.Driver.ExplorerFam
open Whv Whv.Driver Whv.Explorer

def parseKeys (s : String) : Option (Option (List Addr)) :=
  if s = "nil" then some none
  else if s = "-" then some (some [])
  else ((s.splitOn ",").mapM parseHexD).map some

def parseSet (s : String) : Option GSet :=
  match s.splitOn ":" with
  | [i, k] => do let i ← i.toNat?; let k ← parseKeys k; pure ⟨i, k⟩
  | _ => none

def parseSets (s : String) : Option (List GSet) :=
  if s = "-" then some [] else (s.splitOn ";").mapM parseSet

def showKeys : Option (List Addr) → String
  | none => "nil"
  | some [] => "-"
  | some l => ",".intercalate (l.map toHex)

def showSet (s : GSet) : String := s!"{s.index}:{showKeys s.keys}"
def showSets (l : List GSet) : String := if l.isEmpty then "-" else ";".intercalate (l.map showSet)
def showIdx (l : List GSet) : String := if l.isEmpty then "-" else ",".intercalate (l.map fun s => toString s.index)

inductive LogE
  | cur (n : Option Nat)
  | get (i : Nat) (ans : Option (Option (List Addr)))

def parseLog (s : String) : Option (List LogE) :=
  if s = "-" then some [] else
  (s.splitOn ";").mapM fun e =>
    match e.splitOn ":" with
    | ["c", "err"] => some (.cur none)
    | ["c", n] => n.toNat?.map fun n => .cur (some n)
    | [i, "err"] => i.toNat?.map fun i => .get i none
    | [i, k] => do let i ← i.toNat?; let k ← parseKeys k; pure (.get i (some k))
    | _ => none

def logGets (l : List LogE) : List (Nat × Option (Option (List Addr))) :=
  l.filterMap fun | .get i a => some (i, a) | _ => none

/-- The chain function the model sees: the answers the fake node gave; an index it was never asked is an RPC error
(the request lists are compared separately, so a model that asks for more than the implementation did is reported). -/
def chainOf (l : List LogE) : Chain := fun i => ((logGets l).lookup i).join

/-- The sequence of `getGuardianSet` requests the model makes for a range: stops after the first RPC error. -/
def modelRequests (chain : Chain) : Nat → Nat → List Nat
  | 0, _ => []
  | n + 1, i => match chain i with
    | none => [i]
    | some _ => i :: modelRequests chain n (i + 1)

def kvInt (fs : List String) (k : String) : Option Int := (kv fs k).bind String.toInt?

def parseState (fs : List String) : Option GS := do
  let c ← kvInt fs "cur"
  -- the LAST `list=` field is the state (gsnew also has the argument as the first one)
  let l ← (fs.reverse.findSome? fun f => if f.startsWith "list=" then some ((f.drop 5).toString) else none) >>= parseSets
  pure ⟨c, l⟩

/-- Decidable forms of the hypotheses of `c19_index_invariant`. -/
def contigB : Nat → List GSet → Bool
  | _, [] => true
  | a, s :: rest => s.index == a && contigB (a + 1) rest

def invB (g : GS) : Bool :=
  decide ((g.list.length : Int) = g.cur + 1) && contigB 0 g.list && !g.list.isEmpty && decide (g.list.length ≤ two32)

def inputOkB (g : GS) (sets : List GSet) : Bool :=
  match sets with
  | [] => true
  | s :: _ => contigB s.index sets && decide ((s.index : Int) ≤ g.cur + 1) && sets.all (fun x => decide (x.index < two32))

structure St where
  g : GS := ⟨-1, []⟩
  realistic : Bool := false
  n : Nat := 0
  nReal : Nat := 0
  nGetFast : Nat := 0
  nGetFetch : Nat := 0
  nGetErr : Nat := 0
  nPanic : Nat := 0
  nUpdAppend : Nat := 0
  nUpdNoop : Nat := 0
  nUpdErr : Nat := 0
  nQueued : Nat := 0
  nDup : Nat := 0
  nFull : Nat := 0
  nInvalid : Nat := 0
  nVfyOk : Nat := 0
  nVfyRej : Nat := 0
  nBoot : Nat := 0
  nStale : Nat := 0
  nFar : Nat := 0
  nLookupFailed : Nat := 0

def showState (g : GS) : String := s!"cur={g.cur} idx=[{showIdx g.list}]"

/-- compare the model's post-state with the implementation's -/
def stateDiff (m i : GS) : Option String :=
  if m = i then none else some s!"state model({showState m}) impl({showState i})"

def b01 (s : Option String) : Option Bool := match s with | some "1" => some true | some "0" => some false | _ => none

def verifyErrName : VerifyErr → String
  | .noAddresses => "noaddr" | .notSigned => "notsigned" | .noQuorum => "noquorum" | .badSignatures => "badsigs"

def pushResName : PushRes → String
  | .getErr => "geterr" | .getPanic => "panic" | .invalid e => verifyErrName e | .dup => "dup" | .queued => "queued" | .full => "full"

def recoverOf (tbl : List (Bytes × Option Addr)) : Bytes → Option Addr := fun s => (tbl.lookup s).join

/-- The property's acceptance condition, evaluated directly (not through the model of `verifyVAA`):
signed, a quorum of the named set, and `Valid` signatures (C06 Spec). -/
def verifiedB (recover : Bytes → Option Addr) (v : Vaa) (named : Option (List Addr)) : Bool :=
  match named with
  | none => false
  | some a => !v.sigs.isEmpty && decide (quorum a.length ≤ v.sigs.length) && VaaFam.validB recover v.sigs a

/-- The C06 part of the acceptance condition on its own: the signature list is one `VerifySignatures` accepts against the
named keys (`VaaFam.validB` is `C06.Valid`, `C06.validB_iff`; `C06.verify_iff` equates it with the model of `VerifySignatures`).
`false` = "the gate let through a list that `VerifySignatures` against the named set rejects". -/
def sigListOkB (recover : Bytes → Option Addr) (v : Vaa) (named : Option (List Addr)) : Bool :=
  match named with
  | none => true
  | some a => VaaFam.validB recover v.sigs a

def showSigIdx (v : Vaa) : String := ",".intercalate (v.sigs.map fun s => toString s.idx)

/-- The extra verdict for clause `gate-accepts-invalid-signature-list` (owned by C19, also reported by C06 for its anchor
vaa_gossip_consumer.go). -/
def gateVerdict (id how : String) (recover : Bytes → Option Addr) (v : Vaa) (named : Option (List Addr)) : List String :=
  -- C07 (anchor vaa_gossip_consumer.go): the explorer's threshold is the node's and the contracts' floor(2n/3)+1
  (match named with
   | some a => if a.length > 0 ∧ v.sigs.length < quorum a.length then
       [s!"spec {id} explorer-accepts-below-quorum {how}: accepted with {v.sigs.length} signature(s) for a set of {a.length} keys, floor(2n/3)+1 = {quorum a.length}"]
     else []
   | none => []) ++
  if sigListOkB recover v named then [] else
  [s!"spec {id} gate-accepts-invalid-signature-list {how}: the explorer's verification gate accepted a signature list that VerifySignatures against the named set rejects - {v.sigs.length} signature(s) with indexes [{showSigIdx v}] against {(named.map List.length).getD 0} key(s) (quorum {quorum ((named.map List.length).getD 0)})"]

def step (st : St) (line : String) : St × List String :=
  let fs := fields line
  match fs with
  | "gsinit" :: id :: rest =>
    match parseState rest with
    | some g => ({ st with g := g, realistic := false, n := st.n + 1 }, [s!"ok {id}"])
    | none => (st, [s!"diff {id} unparsable gsinit line"])
  | "gsnew" :: id :: rest =>
    match kv rest "list" >>= parseSets, kv rest "res", kv rest "sent" >>= parseSets, parseState rest with
    | some arg, some res, some sent, some ig =>
      let st := { st with n := st.n + 1 }
      match newGuardianSets arg, res with
      | none, "panic" => ({ st with g := ⟨-1, []⟩, realistic := false, nPanic := st.nPanic + 1 }, [s!"ok {id}"])
      | some (g, c), "ok" =>
        let boot := kv rest "boot" == some "1"
        let st := { st with g := ig, realistic := invB ig || boot, nReal := st.nReal + (if invB ig || boot then 1 else 0),
                            nBoot := st.nBoot + (if boot then 1 else 0) }
        if sent ≠ [c] then (st, [s!"diff {id} NewGuardianSets sent model={showSet c} impl={showSets sent}"])
        else match stateDiff g ig with
          | some d => (st, [s!"diff {id} NewGuardianSets {d}"])
          | none => (st, [s!"ok {id}"])
      | m, r => ({ st with g := ig, realistic := false }, [s!"diff {id} NewGuardianSets model={if m.isSome then "ok" else "panic"} impl={r}"])
    | _, _, _, _ => (st, [s!"diff {id} unparsable gsnew line"])
  | "gsupd" :: id :: rest =>
    match kv rest "in" >>= parseSets, kv rest "res", parseState rest with
    | some inp, some res, some ig =>
      let realistic := st.realistic && (inputOkB st.g inp || kv rest "src" == some "fetch")
      let (mg, mr) := update st.g inp
      let st' := { st with g := ig, realistic := realistic, n := st.n + 1 }
      let mrs := if mr = .err then "err" else "nil"
      -- Spec on the implementation's own result, for histories the callers can produce
      if realistic && (res = "err" || !invB ig) then
        (st', [s!"spec {id} index-invariant-broken after update with [{showIdx inp}] from {showState st.g}: res={res} {showState ig}"])
      else if res ≠ mrs then (st', [s!"diff {id} updateGuardianSets result model={mrs} impl={res} input=[{showIdx inp}] from {showState st.g}"])
      else match stateDiff mg ig with
        | some d => (st', [s!"diff {id} updateGuardianSets input=[{showIdx inp}] from {showState st.g}: {d}"])
        | none =>
          let st' := if mr = .err then { st' with nUpdErr := st'.nUpdErr + 1 }
                     else if mg = st.g then { st' with nUpdNoop := st'.nUpdNoop + 1 } else { st' with nUpdAppend := st'.nUpdAppend + 1 }
          (st', [s!"ok {id}"])
    | _, _, _ => (st, [s!"diff {id} unparsable gsupd line"])
  | "gsget" :: id :: rest =>
    match kvInt rest "idx", b01 (kv rest "dial"), kv rest "chain" >>= parseLog, kv rest "res", kv rest "sent" >>= parseSets, parseState rest with
    | some idx, some dial, some log, some res, some sent, some ig =>
      let chain := chainOf log
      let cur0 := (kvInt rest "cur0").getD st.g.cur
      let o := getGuardianSetStale st.g cur0 idx dial chain
      let iset := kv rest "set" >>= parseSet
      let st' := { st with g := ig, n := st.n + 1, nStale := st.nStale + (if (kvInt rest "cur0").isSome then 1 else 0),
                           nFar := st.nFar + (if idx > st.g.cur + 8 then 1 else 0) }
      -- Spec: "the guardian set it returns for index i is always the set with index i"
      if st.realistic && res = "panic" then (st', [s!"spec {id} get-panic GetGuardianSet({idx}) panicked in {showState st.g}"])
      else if st.realistic && res = "ok" && (iset.map fun s => (s.index : Int)) ≠ some idx then
        (st', [s!"spec {id} get-returned-wrong-set GetGuardianSet({idx}) returned {kv rest "set"}"])
      else if st.realistic && !invB ig then
        (st', [s!"spec {id} index-invariant-broken after GetGuardianSet({idx}) from {showState st.g}: {showState ig}"])
      else
        let mres := match o.res with | .ok _ => "ok" | .err => "err" | .panic => "panic"
        let mreq := match o.asked with
          | none => []
          | some (lo, hi) => modelRequests chain (hi + 1 - lo) lo
        let ireq := (logGets log).map (·.1)
        if res ≠ mres then (st', [s!"diff {id} GetGuardianSet({idx}) result model={mres} impl={res} from {showState st.g}"])
        else if (match o.res with | .ok s => decide (some s ≠ iset) | _ => false) then
          (st', [s!"diff {id} GetGuardianSet({idx}) set model={match o.res with | .ok s => showSet s | _ => "-"} impl={kv rest "set"}"])
        else if mreq ≠ ireq then (st', [s!"diff {id} GetGuardianSet({idx}) chain requests model={mreq} impl={ireq}"])
        else if res ≠ "panic" && o.sent ≠ sent then (st', [s!"diff {id} GetGuardianSet({idx}) sent model={showSets o.sent} impl={showSets sent}"])
        else match stateDiff o.st ig with
          | some d => (st', [s!"diff {id} GetGuardianSet({idx}) {d}"])
          | none =>
            let st' := match o.res, o.asked with
              | .panic, _ => { st' with nPanic := st'.nPanic + 1 }
              | .err, _ => { st' with nGetErr := st'.nGetErr + 1 }
              | .ok _, none => { st' with nGetFast := st'.nGetFast + 1 }
              | .ok _, some _ => { st' with nGetFetch := st'.nGetFetch + 1 }
            (st', [s!"ok {id}"])
    | _, _, _, _, _, _ => (st, [s!"diff {id} unparsable gsget line"])
  | "gscur" :: id :: rest =>
    match kv rest "res" with
    | some res =>
      let st := { st with n := st.n + 1 }
      let iset := kv rest "set" >>= parseSet
      if st.realistic && res = "panic" then (st, [s!"spec {id} get-panic GetCurrentGuardianSet panicked in {showState st.g}"])
      else if st.realistic && (iset.map fun s => (s.index : Int)) ≠ some st.g.cur then
        (st, [s!"spec {id} get-returned-wrong-set GetCurrentGuardianSet returned {kv rest "set"} in {showState st.g}"])
      else match getCurrent st.g, res with
        | none, "panic" => ({ st with nPanic := st.nPanic + 1 }, [s!"ok {id}"])
        | some c, "ok" => if some c = iset then (st, [s!"ok {id}"]) else (st, [s!"diff {id} GetCurrentGuardianSet model={showSet c} impl={kv rest "set"}"])
        | m, r => (st, [s!"diff {id} GetCurrentGuardianSet model={if m.isSome then "ok" else "panic"} impl={r}"])
    | none => (st, [s!"diff {id} unparsable gscur line"])
  | "gsfetch" :: id :: rest =>
    match kvNat rest "from", kv rest "chain" >>= parseLog, kv rest "res", kv rest "sets" >>= parseSets with
    | some lo, some log, some res, some sets =>
      let st := { st with n := st.n + 1 }
      let chain := chainOf log
      let ireq := (logGets log).map (·.1)
      match log.head? with
      | some (.cur none) =>
        if res = "err" && ireq = [] then (st, [s!"ok {id}"]) else (st, [s!"diff {id} GetGuardianSetsFromChain: index call failed, impl res={res} requests={ireq}"])
      | some (.cur (some hi)) =>
        let m := fetchRange chain lo hi
        let mreq := modelRequests chain (hi + 1 - lo) lo
        if mreq ≠ ireq then (st, [s!"diff {id} GetGuardianSetsFromChain({lo}) requests model={mreq} impl={ireq}"])
        else match m, res with
          | none, "err" => (st, [s!"ok {id}"])
          | some ms, "ok" => if ms = sets then (st, [s!"ok {id}"]) else (st, [s!"diff {id} GetGuardianSetsFromChain({lo}) model={showSets ms} impl={showSets sets}"])
          | _, r => (st, [s!"diff {id} GetGuardianSetsFromChain({lo}) model={if m.isSome then "ok" else "err"} impl={r}"])
      | _ => (st, [s!"diff {id} GetGuardianSetsFromChain did not ask for the current index first"])
    | _, _, _, _ => (st, [s!"diff {id} unparsable gsfetch line"])
  | "gstick" :: id :: rest =>
    match kv rest "chain" >>= parseLog, kv rest "res", parseState rest with
    | some log, some res, some ig =>
      let st' := { st with g := ig, n := st.n + 1 }
      let chain := chainOf log
      let ireq := (logGets log).map (·.1)
      let lo := u32 (st.g.cur + 1)
      if res ≠ "ok" then (st', [s!"diff {id} ticker round did not complete: {res}"])
      else match log.head? with
      | some (.cur (some hi)) =>
        let mreq := modelRequests chain (hi + 1 - lo) lo
        match fetchRange chain lo hi with
        | none => (st', [s!"diff {id} ticker: model fetch fails"])
        | some sets =>
          let realistic := st.realistic && inputOkB st.g sets
          let st' := { st' with realistic := realistic }
          let mg := (update st.g sets).1
          if realistic && !invB ig then (st', [s!"spec {id} index-invariant-broken after a ticker round from {showState st.g}: {showState ig}"])
          else if mreq ≠ ireq then (st', [s!"diff {id} ticker requests model={mreq} impl={ireq} from {showState st.g}"])
          else match stateDiff mg ig with
            | some d => (st', [s!"diff {id} ticker {d}"])
            | none =>
              if (getCurrent mg) ≠ (kv rest "sent" >>= parseSet) then (st', [s!"diff {id} ticker sent model={(getCurrent mg).map showSet} impl={kv rest "sent"}"])
              else (st', [s!"ok {id}"])
      | _ => (st', [s!"diff {id} ticker did not ask for the current index first: {kv rest "chain"}"])
    | _, _, _ => (st, [s!"diff {id} unparsable gstick line"])
  | "gsconc" :: id :: rest =>
    match kvNat rest "wrong", kvNat rest "panics", kvNat rest "reads" with
    | some wrong, some panics, some reads =>
      let st := { st with n := st.n + 1 }
      if panics > 0 then (st, [s!"spec {id} concurrent-get-panic {panics} of {reads} concurrent lookups panicked while sets were appended; first: {(kv rest "first").getD "-"}"])
      else if wrong > 0 then (st, [s!"spec {id} concurrent-get-wrong-set {wrong} of {reads} concurrent lookups returned a set with another index; first: {(kv rest "first").getD "-"}"])
      else (st, [s!"ok {id}"])
    | _, _, _ => (st, [s!"diff {id} unparsable gsconc line"])
  | "gsrace" :: id :: rest =>
    match kvNat rest "detected" with
    | some 0 => ({ st with n := st.n + 1 }, [s!"ok {id}"])
    | some k => ({ st with n := st.n + 1 },
        [s!"spec {id} guardian-set-read-races-with-append race detector: {k} report(s); read in {(kv rest "read").getD "?"} races with write in {(kv rest "write").getD "?"}"])
    | none => (st, [s!"diff {id} unparsable gsrace line"])
  | "quo" :: id :: rest =>
    match kvNat rest "n", kvNat rest "q" with
    | some n, some q => ({ st with n := st.n + 1 }, [if quorum n = q then s!"ok {id}" else s!"diff {id} CalculateQuorum({n}) model={quorum n} impl={q}"])
    | _, _ => (st, [s!"diff {id} unparsable quo line"])
  | "vfy" :: id :: rest =>
    match kv rest "v" >>= VaaFam.parseCanon, kv rest "addrs" >>= parseKeys, kv rest "rec" >>= VaaFam.parseRec, kv rest "res" with
    | some v, some addrs, some tbl, some res =>
      let recover := recoverOf tbl
      let st := { st with n := st.n + 1 }
      let m := match verifyVAA recover v addrs with | none => "nil" | some e => verifyErrName e
      if res = "nil" && !verifiedB recover v addrs then
        (st, [s!"spec {id} verify-accepts-unverified verifyVAA accepted {v.sigs.length} signature(s) against {(addrs.map List.length).getD 0} key(s) (quorum {quorum ((addrs.map List.length).getD 0)})"]
              ++ gateVerdict id "verifyVAA returned nil" recover v addrs)
      else if res ≠ m then (st, [s!"diff {id} verifyVAA model={m} impl={res}"])
      else (if res = "nil" then { st with nVfyOk := st.nVfyOk + 1 } else { st with nVfyRej := st.nVfyRej + 1 }, [s!"ok {id}"])
    | _, _, _, _ => (st, [s!"diff {id} unparsable vfy line"])
  | "push" :: id :: rest =>
    match kv rest "v" >>= VaaFam.parseCanon, kv rest "rec" >>= VaaFam.parseRec, b01 (kv rest "hit"), b01 (kv rest "room"), b01 (kv rest "dial"),
          kv rest "chain" >>= parseLog, kv rest "res", b01 (kv rest "enq"), b01 (kv rest "stored"), kv rest "sent" >>= parseSets,
          parseState rest, kv rest "named" >>= parseKeys with
    | some v, some tbl, some hit, some room, some dial, some log, some res, some enq, some stored, some sent, some ig, some named =>
      let recover := recoverOf tbl
      let chain := chainOf log
      let cur0 := (kvInt rest "cur0").getD st.g.cur
      let o := pushStale st.g cur0 v recover dial chain hit room
      -- the named set is not held and the on-demand lookup could not be served (no dial / one request of the range failed)
      let lookupFailed := (v.gsIndex : Int) > cur0 && (!dial || (logGets log).any fun e => e.2.isNone)
      let st' := { st with g := ig, n := st.n + 1, nStale := st.nStale + (if (kvInt rest "cur0").isSome then 1 else 0),
                           nFar := st.nFar + (if (v.gsIndex : Int) > st.g.cur + 8 then 1 else 0),
                           nLookupFailed := st.nLookupFailed + (if lookupFailed then 1 else 0) }
      let qsame := b01 (kv rest "qsame") == some true
      let keysOk := b01 (kv rest "getkey") != some false && b01 (kv rest "setkey") != some false
      -- Spec, on the implementation's own behaviour
      if enq && !verifiedB recover v named then
        (st', [s!"spec {id} queued-unverified queued a VAA naming set {v.gsIndex} with {v.sigs.length} signature(s) that is not verified against that set ({(named.map List.length).getD 0} keys)"]
               ++ gateVerdict id s!"Push queued a VAA naming set {v.gsIndex}" recover v named)
      else if enq && !qsame then (st', [s!"spec {id} queued-wrong-message the queued message is not the pushed VAA / bytes"])
      else if stored && !enq then (st', [s!"spec {id} marked-seen-without-queueing res={res}: the message id was stored in the dedup cache although nothing was queued"])
      else if st.realistic && res = "panic" then (st', [s!"spec {id} get-panic Push panicked in {showState st.g}"])
      else
        let mres := pushResName o.res
        let mreq := match o.asked with
          | none => []
          | some (lo, hi) => modelRequests chain (hi + 1 - lo) lo
        let ireq := (logGets log).map (·.1)
        if res ≠ mres then (st', [s!"diff {id} Push result model={mres} impl={res} (set {v.gsIndex}, {v.sigs.length} sigs, hit={hit} room={room}) from {showState st.g}"])
        else if enq ≠ o.enq || stored ≠ o.stored then (st', [s!"diff {id} Push effects model(enq={o.enq},stored={o.stored}) impl(enq={enq},stored={stored})"])
        else if !keysOk then (st', [s!"diff {id} Push used a dedup key other than the VAA's message id"])
        else if mreq ≠ ireq then (st', [s!"diff {id} Push chain requests model={mreq} impl={ireq}"])
        else if res ≠ "panic" && o.sent ≠ sent then (st', [s!"diff {id} Push sent model={showSets o.sent} impl={showSets sent}"])
        else match stateDiff o.st ig with
          | some d => (st', [s!"diff {id} Push {d}"])
          | none =>
            let st' := match o.res with
              | .queued => { st' with nQueued := st'.nQueued + 1 }
              | .dup => { st' with nDup := st'.nDup + 1 }
              | .full => { st' with nFull := st'.nFull + 1 }
              | .invalid _ => { st' with nInvalid := st'.nInvalid + 1 }
              | .getErr => { st' with nGetErr := st'.nGetErr + 1 }
              | .getPanic => { st' with nPanic := st'.nPanic + 1 }
            (st', [s!"ok {id}"])
    | _, _, _, _, _, _, _, _, _, _, _, _ => (st, [s!"diff {id} unparsable push line"])
  | [] => (st, [])
  | _ => (st, [s!"diff ? unknown line: {line.take 80}"])

def fin (st : St) : List String :=
  [s!"stat lines {st.n}", s!"stat realistic_sequences {st.nReal}", s!"stat get_fast {st.nGetFast}", s!"stat get_fetch {st.nGetFetch}",
   s!"stat get_err {st.nGetErr}", s!"stat panics_agreed {st.nPanic}", s!"stat upd_append {st.nUpdAppend}", s!"stat upd_noop {st.nUpdNoop}",
   s!"stat upd_err {st.nUpdErr}", s!"stat push_queued {st.nQueued}", s!"stat push_dup {st.nDup}", s!"stat push_full {st.nFull}",
   s!"stat push_invalid {st.nInvalid}", s!"stat verify_nil {st.nVfyOk}", s!"stat verify_rejected {st.nVfyRej}",
   s!"stat boot_sequences {st.nBoot}", s!"stat overtaken_lookups {st.nStale}", s!"stat far_ahead_lookups {st.nFar}",
   s!"stat push_lookup_failed {st.nLookupFailed}"]

def run (h : IO.FS.Stream) : IO Unit := loop h ({} : St) step fin

end Whv.Driver.ExplorerFam
