import Whv.Driver.Util
import Whv.Model.Verify
/-!
Driver family `vaa` (C04, C05, C06).  Case lines (fields separated by one space):

* `dec <id> in=<hex> res=ok|err|errnonnil|panic [v=<canon>] [re=<hex>]` — `vaa.Unmarshal(in)`; on ok the decoded VAA and its re-`Marshal`.
* `enc <id> v=<canon> out=<hex> back=ok|err|panic [bv=<canon>] d0=<hex> d1=<hex>` — `Marshal`, then `Unmarshal` of it, digests before/after.
* `body <id> v=<canon> body=<hex> dig=<hex> kk=<hex>` — `SerializeBody`, `SigningMsg`, and Keccak(Keccak(body)) recomputed by the harness.
* `eq|ne <id> <clause> <a> <b>` — Spec evaluated on two implementation values (digest equal / different).
* `ver <id> addrs=<hex,..|-> sigs=<idx:hex;..|-> rec=<sighex:addrhex|none;..|-> res=true|false|panic`
* `wver <id> in=<hex> addrs=.. rec=.. dec=ok|err|errnonnil|panic res=true|false|panic|-` — the wire path: `Unmarshal(in)` then
  `VerifySignatures`; the signature records (and their ORDER) are read off `in` by `wireSigs`, the Spec is `validB` on those.
* `wire <id> v=<canon> res=ok|err:..|panic out=<hex> body=<hex> dig=<hex> kkw=<hex|->` — `Marshal`, `SerializeBody`, `SigningMsg`, and
  Keccak(Keccak(·)) of the section of `out` the contracts hash (everything after `6 + 66·out[5]` bytes), computed by the harness.
* `conc <id> what=digest|wire|process calls=<n> bad=<n> panics=<n> want=<x> got=<x> [v=<canon of the first deviating call's VAA>]` — results of calls made while other goroutines call
  into the package, `want` = what the same call returned sequentially; `got=panic:..` / `hang:..` / `crash:..` when it did not return.
* `dseq <id> prev=<hex|-> in=<hex> res=.. [v=<canon>] [re=<hex>] [want=<canon>]` — a decode HISTORY: `Unmarshal(in)` where `in` is the caller's
  buffer, which held `prev` at the previous decode (or: the same bytes were decoded before and that result was edited by its owner);
  `want` = the VAA the harness hand-encoded into `in`.  Judged like `dec`, and: when `want` is in the domain and `in` is its encoding
  (by the model's `marshal`), the decoder must return exactly `want`.
* `enc` lines with `back=nomarshal merr=<text>`: `Marshal` returned an error (or panicked) instead of bytes.

canon = `ver,gs,sigs,ts,nonce,ec,tc,emhex,seq,cl,plhex`, sigs = `-` or `idx:hex;idx:hex`.
-/
namespace Whv.Driver.VaaFam
open Whv Whv.Driver

def parseSigs (s : String) : Option (List Sig) :=
  if s = "-" then some [] else
  (s.splitOn ";").mapM fun e =>
    match e.splitOn ":" with
    | [i, h] => do let i ← i.toNat?; let h ← parseHexD h; pure ⟨i, h⟩
    | _ => none

def parseCanon (s : String) : Option Vaa :=
  match s.splitOn "," with
  | [ver, gs, sigs, ts, nonce, ec, tc, em, seq, cl, pl] => do
    let ver ← ver.toNat?; let gs ← gs.toNat?; let sigs ← parseSigs sigs
    -- a negative Unix time (outside the wire range) is kept as an out-of-range value so that it compares unequal
    let ts ← (ts.toInt?).map fun (t : Int) => if t < 0 then 18446744073709551616 + t.natAbs else t.toNat
    let nonce ← nonce.toNat?; let ec ← ec.toNat?; let tc ← tc.toNat?; let em ← parseHexD em
    let seq ← seq.toNat?; let cl ← cl.toNat?; let pl ← parseHexD pl
    pure { version := ver, gsIndex := gs, sigs := sigs,
           body := { ts := ts, nonce := nonce, emitterChain := ec, targetChain := tc, emitter := em,
                     sequence := seq, consistency := cl, payload := pl } }
  | _ => none

def showSigs (l : List Sig) : String :=
  if l.isEmpty then "-" else ";".intercalate (l.map fun s => s!"{s.idx}:{hexOrDash s.sig}")

def showCanon (v : Vaa) : String :=
  let b := v.body
  s!"{v.version},{v.gsIndex},{showSigs v.sigs},{b.ts},{b.nonce},{b.emitterChain},{b.targetChain},{hexOrDash b.emitter},{b.sequence},{b.consistency},{hexOrDash b.payload}"

/-- Decidable form of the C06 Spec (`Whv.C06.Valid`, proved equivalent in `Whv/Spec/C06.lean`). -/
def validB (recover : Bytes → Option Addr) (sigs : List Sig) (addrs : List Addr) : Bool :=
  sigs.all (fun s => decide (s.idx < addrs.length) && (recover s.sig == addrs[s.idx]?)) &&
  pairwiseB (fun a b => decide (a.idx < b.idx)) sigs &&
  pairwiseB (fun a b => recover a.sig != recover b.sig) sigs
where
  pairwiseB (r : Sig → Sig → Bool) : List Sig → Bool
    | [] => true
    | a :: l => l.all (r a) && pairwiseB r l

def parseRec (s : String) : Option (List (Bytes × Option Addr)) :=
  if s = "-" then some [] else
  (s.splitOn ";").mapM fun e =>
    match e.splitOn ":" with
    | [h, a] => do
      let h ← parseHexD h
      if a = "none" then pure (h, none) else do let a ← parseHexD a; pure (h, some a)
    | _ => none

def parseAddrs (s : String) : Option (List Addr) :=
  if s = "-" then some [] else (s.splitOn ",").mapM parseHexD

/-- The section of a serialized VAA the contracts hash: everything after the `6 + 66·k`-byte header, `k` = the count byte at
offset 5 (`Whv.C04.header_offsets` proves these are the constants extracted from `Messages.sol` and `governance.ral`;
`Whv.C04.contract_body_of_wire`: on the model's encoding this is the signing body, for every payload length). -/
def contractBody (wire : Bytes) : Bytes :=
  match takeN 5 wire with
  | none => []
  | some (_, r) =>
    match takeN 1 r with
    | none => []
    | some (k, r2) => r2.drop (66 * unbe k)

/-- The signature records of a serialized VAA in wire order (`none`: the string ends inside the signature section);
`Whv.C06.wireSigs_of_unmarshal`: for every string the decoder accepts this is the decoded list. -/
def wireSigs (wire : Bytes) : Option (List Sig) :=
  match takeN 5 wire with
  | none => none
  | some (_, r) =>
    match takeN 1 r with
    | none => none
    | some (k, r2) => (readSigs (unbe k) r2).map (·.1)

/-- The path every consumer of serialized VAAs takes: `Unmarshal`, then `VerifySignatures` on the result. -/
def decodeVerify (recover : Bytes → Option Addr) (wire : Bytes) (addrs : List Addr) : Bool :=
  match unmarshal wire with
  | none => false
  | some v => verifySignatures recover v.sigs addrs

def showIdx (l : List Sig) : String := ",".intercalate (l.map fun s => toString s.idx)

structure St where
  n : Nat := 0
  wf : Nat := 0
  acc : Nat := 0
  rej : Nat := 0
  verTrue : Nat := 0
  verFalse : Nat := 0

def step (st : St) (line : String) : St × List String :=
  let fs := fields line
  match fs with
  | "dec" :: id :: rest =>
    match kvHex rest "in", kv rest "res" with
    | some inp, some res =>
      let m := unmarshal inp
      let st := { st with n := st.n + 1 }
      if res = "panic" then (st, [s!"spec {id} decoder-panic Unmarshal panicked on {inp.length} bytes"])
      else if res = "errnonnil" then (st, [s!"spec {id} partial-result Unmarshal returned an error together with a non-nil VAA"])
      else if res = "err" then
        match m with
        | none => ({ st with rej := st.rej + 1 }, [s!"ok {id}"])
        | some v => (st, [s!"diff {id} model accepts ({showCanon v}) impl rejects"])
      else
        match kv rest "v" >>= parseCanon, kvHex rest "re" with
        | some iv, some re =>
          -- Spec on the implementation's own result: accepted input must re-encode to itself, and be complete
          if re ≠ inp then (st, [s!"spec {id} accepted-not-reencoded decoder accepted {inp.length} bytes that re-encode to {re.length} bytes"])
          else if ¬ decide iv.WF then (st, [s!"spec {id} accepted-out-of-domain decoded VAA is outside the representable range"])
          else match m with
            | none => (st, [s!"diff {id} model rejects, impl accepts {showCanon iv}"])
            | some v => if v = iv then ({ st with acc := st.acc + 1 }, [s!"ok {id}"])
                        else (st, [s!"diff {id} model={showCanon v} impl={showCanon iv}"])
        | _, _ => (st, [s!"diff {id} unparsable dec line"])
    | _, _ => (st, [s!"diff {id} unparsable dec line"])
  | "dseq" :: id :: rest =>
    match kvHex rest "prev", kvHex rest "in", kv rest "res" with
    | some prev, some inp, some res =>
      let m := unmarshal inp
      let st := { st with n := st.n + 1 }
      -- the statement's first sentence applies when the harness encoded an in-domain VAA into the buffer
      let want : Option Vaa := match kv rest "want" >>= parseCanon with
        | some w => if decide w.WF && marshal w == inp then some w else none
        | none => none
      let earlier (iv : Vaa) : Bool := prev != inp && unmarshal prev == some iv
      if res = "panic" then (st, [s!"spec {id} decoder-panic Unmarshal panicked on {inp.length} bytes"])
      else if res = "errnonnil" then (st, [s!"spec {id} partial-result Unmarshal returned an error together with a non-nil VAA"])
      else if res = "err" then
        match want, m with
        | some w, _ => (st, [s!"spec {id} roundtrip-rejected the encoding of an in-domain VAA (payload {w.body.payload.length} bytes, {w.sigs.length} sigs) does not decode (the buffer held another message before)"])
        | none, none => ({ st with rej := st.rej + 1 }, [s!"ok {id}"])
        | none, some v => (st, [s!"diff {id} model accepts ({showCanon v}) impl rejects"])
      else
        match kv rest "v" >>= parseCanon, kvHex rest "re" with
        | some iv, some re =>
          if want.isSome && want ≠ some iv then
            if earlier iv then
              (st, [s!"spec {id} decode-depends-on-earlier-decode decoding the encoding of {(want.map showCanon).getD ""} returns the VAA of the message decoded BEFORE it (from the same buffer / the same bytes): {showCanon iv}"])
            else (st, [s!"spec {id} roundtrip-altered decoding the encoding of {(want.map showCanon).getD ""} (after other decodes) yields {showCanon iv}"])
          else if re ≠ inp then
            if earlier iv then
              (st, [s!"spec {id} decode-depends-on-earlier-decode the decoder accepted {inp.length} bytes and returned the VAA of the bytes it was given BEFORE ({showCanon iv})"])
            else (st, [s!"spec {id} accepted-not-reencoded decoder accepted {inp.length} bytes that re-encode to {re.length} bytes (after other decodes): {showCanon iv}"])
          else if ¬ decide iv.WF then (st, [s!"spec {id} accepted-out-of-domain decoded VAA is outside the representable range"])
          else match m with
            | none => (st, [s!"diff {id} model rejects, impl accepts {showCanon iv}"])
            | some v => if v = iv then ({ st with acc := st.acc + 1 }, [s!"ok {id}"])
                        else (st, [s!"diff {id} model={showCanon v} impl={showCanon iv}"])
        | _, _ => (st, [s!"diff {id} unparsable dseq line"])
    | _, _, _ => (st, [s!"diff {id} unparsable dseq line"])
  | "enc" :: id :: rest =>
    match kv rest "v" >>= parseCanon, kvHex rest "out", kv rest "back" with
    | some v, some out, some back =>
      let st := { st with n := st.n + 1 }
      let mo := marshal v
      if back = "nomarshal" then
        -- the encoder gave no bytes at all: for a VAA inside the statement's domain there is then nothing to decode
        if decide v.WF then
          (st, [s!"spec {id} in-domain-vaa-not-encodable Marshal failed ({(kv rest "merr").getD "?"}) on a VAA with {v.sigs.length} signatures and a {v.body.payload.length}-byte payload"])
        else (st, [s!"diff {id} marshal model={mo.length} bytes impl fails ({(kv rest "merr").getD "?"}) on an out-of-domain VAA"])
      else if mo ≠ out then (st, [s!"diff {id} marshal model={toHex mo} impl={toHex out}"])
      else if decide v.WF then
        let st := { st with wf := st.wf + 1 }
        if back = "panic" then (st, [s!"spec {id} decoder-panic Unmarshal(Marshal(v)) panicked"])
        else if back ≠ "ok" then (st, [s!"spec {id} roundtrip-rejected in-domain VAA (payload {v.body.payload.length} bytes, {v.sigs.length} sigs) does not decode"])
        else match kv rest "bv" >>= parseCanon with
          | some bv =>
            if bv ≠ v then (st, [s!"spec {id} roundtrip-altered payload {v.body.payload.length} bytes decoded as {bv.body.payload.length} bytes; {showCanon bv}"])
            else if kv rest "d0" ≠ kv rest "d1" then (st, [s!"spec {id} roundtrip-digest digest changed across the round trip"])
            else match unmarshal mo with
              | some mv => if mv = v then (st, [s!"ok {id}"]) else (st, [s!"diff {id} model roundtrip differs"])
              | none => (st, [s!"diff {id} model rejects its own encoding"])
          | none => (st, [s!"diff {id} unparsable bv"])
      else
        -- outside the domain (e.g. empty payload, > 255 signatures): only the encoder is compared
        match unmarshal mo, back with
        | none, "err" => (st, [s!"ok {id}"])
        | some mv, "ok" => if some mv = (kv rest "bv" >>= parseCanon) then (st, [s!"ok {id}"]) else (st, [s!"diff {id} out-of-domain decode differs"])
        | _, "panic" => (st, [s!"spec {id} decoder-panic Unmarshal panicked"])
        | _, _ => (st, [s!"diff {id} out-of-domain accept/reject differs (impl {back})"])
    | _, _, _ => (st, [s!"diff {id} unparsable enc line"])
  | "body" :: id :: rest =>
    match kv rest "v" >>= parseCanon, kvHex rest "body" with
    | some v, some b =>
      let st := { st with n := st.n + 1 }
      if serializeBody v.body ≠ b then (st, [s!"diff {id} serializeBody model={toHex (serializeBody v.body)} impl={toHex b}"])
      else if kv rest "dig" ≠ kv rest "kk" then (st, [s!"spec {id} digest-not-double-keccak SigningMsg is not Keccak(Keccak(body))"])
      else (st, [s!"ok {id}"])
    | _, _ => (st, [s!"diff {id} unparsable body line"])
  | ["eq", id, clause, a, b] =>
    ({ st with n := st.n + 1 }, [if a = b then s!"ok {id}" else s!"spec {id} {clause} values differ: {a} vs {b}"])
  | ["ne", id, clause, a, b] =>
    ({ st with n := st.n + 1 }, [if a ≠ b then s!"ok {id}" else s!"spec {id} {clause} values coincide: {a}"])
  | "wire" :: id :: rest =>
    match kv rest "v" >>= parseCanon, kv rest "res", kvHex rest "out", kvHex rest "body" with
    | some v, some res, some out, some b =>
      let st := { st with n := st.n + 1 }
      -- domain of the clause: what the wire form can carry (count byte = number of records, 65-byte signatures)
      let dom := decide (v.sigs.length ≤ 255) && v.sigs.all (fun s => decide s.WF)
      if res ≠ "ok" then (st, [s!"diff {id} marshal model={(marshal v).length} bytes impl {res}"])
      else
        let sec := contractBody out
        if dom && sec ≠ b then
          (st, [s!"spec {id} wire-body-not-signing-body the serialized VAA ({v.sigs.length} signatures, {v.body.payload.length}-byte payload) carries a {sec.length}-byte body after its header, the signing body has {b.length} bytes: wire={toHex sec} signed={toHex b}"])
        else if dom && kv rest "kkw" ≠ kv rest "dig" then
          (st, [s!"spec {id} contract-digest-not-signed-digest contracts hash {(kv rest "kkw").getD "?"} from the wire form, guardians sign {(kv rest "dig").getD "?"}"])
        else if marshal v ≠ out then (st, [s!"diff {id} marshal model={toHex (marshal v)} impl={toHex out}"])
        else if serializeBody v.body ≠ b then (st, [s!"diff {id} serializeBody model={toHex (serializeBody v.body)} impl={toHex b}"])
        else (st, [s!"ok {id}"])
    | _, _, _, _ => (st, [s!"diff {id} unparsable wire line"])
  | "conc" :: id :: rest =>
    match kv rest "what", kv rest "want", kv rest "got" with
    | some what, some want, some got =>
      let st := { st with n := st.n + 1 }
      if got.startsWith "crash:" then
        (st, [s!"spec {id} concurrent-callers-crash-the-process the process running concurrent digest / encode / verify calls died: {got}"])
      else if got.startsWith "hang:" then
        (st, [s!"spec {id} concurrent-calls-never-return digest / encode / verify calls made from several goroutines did not return: {got}"])
      else if got.startsWith "panic:" then
        (st, [s!"spec {id} concurrent-{what}-panics {got} (sequentially the same call returned {want.take 80})"])
      else if got ≠ want then
        (st, [s!"spec {id} concurrent-{what}-differs sequentially {want}, with other goroutines calling into the package {got} ({(kv rest "bad").getD "?"} of {(kv rest "calls").getD "?"} calls deviate) on VAA {((kv rest "v").getD "-").take 400}"])
      else (st, [s!"ok {id}"])
    | _, _, _ => (st, [s!"diff {id} unparsable conc line"])
  | "wver" :: id :: rest =>
    match kvHex rest "in", kv rest "addrs" >>= parseAddrs, kv rest "rec" >>= parseRec, kv rest "dec", kv rest "res" with
    | some inp, some addrs, some tbl, some dec, some res =>
      let recover : Bytes → Option Addr := fun s => (tbl.lookup s).join
      let st := { st with n := st.n + 1 }
      if dec = "panic" then (st, [s!"spec {id} decoder-panic Unmarshal panicked on {inp.length} bytes"])
      else if res = "panic" then (st, [s!"spec {id} verify-panic VerifySignatures panicked on a decoded VAA"])
      else
        -- Spec: the signature records as they stand on the wire, in wire order
        match wireSigs inp with
        | none => (st, [s!"diff {id} wver: harness wrote a wire string without a complete signature section"])
        | some wsigs =>
          let sp := validB recover wsigs addrs
          let accepted := dec = "ok" && res = "true"
          let m := decodeVerify recover inp addrs
          if accepted && !sp then
            (st, [s!"spec {id} wire-verify-accepts-invalid decode+verify accepts a serialized VAA whose signature records are not Valid (wire order {showIdx wsigs})"])
          else if !accepted && sp && dec = "ok" then
            (st, [s!"spec {id} wire-verify-rejects-valid decode+verify rejects a serialized VAA whose signature records are Valid (wire order {showIdx wsigs})"])
          else if accepted ≠ m then (st, [s!"diff {id} wver model={m} impl dec={dec} res={res}"])
          else (if accepted then { st with verTrue := st.verTrue + 1 } else { st with verFalse := st.verFalse + 1 }, [s!"ok {id}"])
    | _, _, _, _, _ => (st, [s!"diff {id} unparsable wver line"])
  | "ver" :: id :: rest =>
    match kv rest "addrs" >>= parseAddrs, kv rest "sigs" >>= parseSigs, kv rest "rec" >>= parseRec, kv rest "res" with
    | some addrs, some sigs, some tbl, some res =>
      let recover : Bytes → Option Addr := fun s => (tbl.lookup s).join
      let m := verifySignatures recover sigs addrs
      let sp := validB recover sigs addrs
      let st := { st with n := st.n + 1 }
      if res = "panic" then (st, [s!"spec {id} verify-panic VerifySignatures panicked"])
      else
        let r := res = "true"
        if r ≠ sp then (st, [s!"spec {id} verify-{if r then "accepts-invalid" else "rejects-valid"} impl={res} Valid={sp} sigs={showSigs sigs}"])
        else if r ≠ m then (st, [s!"diff {id} verify model={m} impl={res}"])
        else (if r then { st with verTrue := st.verTrue + 1 } else { st with verFalse := st.verFalse + 1 }, [s!"ok {id}"])
    | _, _, _, _ => (st, [s!"diff {id} unparsable ver line"])
  | [] => (st, [])
  | _ => (st, [s!"diff ? unknown line: {line.take 80}"])

def fin (st : St) : List String :=
  [s!"stat cases {st.n}", s!"stat in_domain_encodes {st.wf}", s!"stat decode_accepts {st.acc}", s!"stat decode_rejects {st.rej}",
   s!"stat verify_true {st.verTrue}", s!"stat verify_false {st.verFalse}"]

def run (h : IO.FS.Stream) : IO Unit := loop h ({} : St) step fin

end Whv.Driver.VaaFam
