import Whv.Driver.Util
import Whv.Model.Evm
/-!
Driver family `evm` (C10).  Lines written by `harness/ethereum/*_verif_test.go`:

* `start <cid> contract= chain= dev= wait= lat= fin= safe= gserr= topic= tag= sub= exit= stuck=` — the real `Watcher.Run` was
  started against the scripted node; `tag` = block tag it asked for, `sub` = its `eth_subscribe` filter.
* `log <cid> tx= bh= bn= sender= tchain= seq= nonce= pl= cl= rm= bad= bt= <tail>` — a log notification was delivered.
* `head <cid> <tail>` — the node's heads changed (`pe` = consecutive poll failures scripted, `nn` = failure flavour).
* `race <cid> <log fields> held= ins= <tail>` — the node's heads changed and, while the watcher was processing the new head
  (`held=1`: the node held back the answer to a receipt request of that scan), a log notification was delivered; `ins` =
  `during` if the entry was in `w.pending` while the receipt was still held, `after` if the log goroutine parked on `pendingMu`.
* `reobs <cid> tx= blat= bfin= bsafe= bnerr= nn= rc= rbt= rlogs= hq= <tail>` — an observation request was sent (`hq` = head
  reads that reached the node during the op: block tags of `eth_getBlockByNumber`, or the name of another method).
  `<tail>` = `lat= fin= safe= pe= ans=<tx:answer,..>` (inputs: heads after the op, what the node answers for each pending tx)
  then the implementation's results `heads= look= fwd= reord= out= pend= en= exit= stuck= bts=`.
* `restart <cid> was= gserr= <tail> sub=` — `Run` had returned (`was` = why) and the supervisor started it again on the same
  `Watcher`; `gserr=1`: the guardian-set call of the new incarnation failed (`Run` returned again during start-up).
  `start` and `restart` lines: `pe=`/`nn=` = how many of the block poller's first block queries failed (and how), `tried=` = the
  block tags it requested up to and including the first one that was answered, `tag=` = the tag of that one.
* `rreobs <cid> tx= blat= bfin= bsafe= k= sw= seq= rc= rbt= rlogs= rc2= rbt2= <tail>` — an observation request during which the
  node changed branch: after `k` RPC requests of the re-observation had been answered the heads moved from `blat/bfin/bsafe` to
  the tail's `lat/fin/safe` and the transaction's receipt from `rc` (block time `rbt`) to `rc2` (`rbt2`); `seq` = the RPC requests
  of the re-observation in order, each with the view it was answered in (`hq:<tag>/a`, `rc/a`, `bt/b`), `sw` = how many in view a.
* `gsf <id> via= cur= cidx= cn= ckeys= callerr= sent= idx= n= keys= err= after= panic= stuck=` — one guardian-set fetch
  (`fetchAndUpdateGuardianSet` directly, or the initial fetch of `Run`): what the chain holds next to what arrived on `setC`.
* `evt <id> ...` / `gb <id> ...` / `pb <id> ...` — direct calls of `MessageEventsForTransaction`, `getBlock`, `pollBlocks`.

One verdict per case id (`ok` / `diff` / `spec`, Spec first).  The Spec is evaluated on the implementation's own
results against the node's ground truth in the line; it does not call the model.
-/
namespace Whv.Driver.EvmFam
open Whv Whv.Driver Whv.Evm

def showMsg (m : Msg) : String :=
  s!"{toHex m.tx},{m.ts},{m.nonce},{m.seq},{m.emitterChain},{m.targetChain},{toHex m.emitter},{m.cl},{hexOrDash m.payload}"

def showKey (k : Key) : String := s!"{toHex k.tx}/{toHex k.bh}/{toHex k.emitter}/{k.seq}"

def showPend (p : Pend) : String := s!"{showKey p.key}@{p.height}"

def Outcome.name : Outcome → String
  | .wait => "wait" | .timeout => "timeout" | .orphaned => "orphaned" | .failed => "failed"
  | .retry => "retry" | .mismatch => "mismatch" | .confirmed => "confirmed"

def sortS (l : List String) : List String := (l.toArray.qsort (· < ·)).toList

def splitList (s : String) (sep : String) : List String := if s = "-" then [] else s.splitOn sep

def joinS (l : List String) (sep : String) : String := if l.isEmpty then "-" else sep.intercalate l

def kvList (fs : List String) (k : String) (sep : String) : List String :=
  match kv fs k with
  | some s => splitList s sep
  | none => []

def kvBool (fs : List String) (k : String) : Bool :=
  match kv fs k with
  | some "1" => true
  | some "true" => true
  | _ => false

/-- `null | nf | err | bad0 | bad1 | r.<status>.<bh>.<bn|nil>` -/
def parseNodeRc (s : String) : Option (NodeRc × Option Nat) :=
  match s.splitOn "." with
  | ["null"] => some (.null, none)
  | ["nf"] => some (.errNotFound, none)
  | ["err"] => some (.errOther, none)
  | ["bad0"] => some (.bad 0, none)
  | ["bad1"] => some (.bad 1, none)
  | ["r", st, bh, bn] => do
    let st ← st.toNat?
    let bh ← ofHex bh
    if bn = "nil" then pure (.receipt st bh, none) else do
      let bn ← bn.toNat?
      pure (.receipt st bh, some bn)
  | _ => none

/-- `tx:answer,...` -/
def parseAns (s : String) : Option (List (String × NodeRc)) :=
  (splitList s ",").mapM fun e =>
    match e.splitOn ":" with
    | [tx, a] => do let (a, _) ← parseNodeRc a; pure (tx, a)
    | _ => none

/-- what the node answers for `tx` (unknown transactions: JSON null) -/
def nodeAns (tbl : List (String × NodeRc)) (tx : Bytes) : NodeRc := (tbl.lookup (toHex tx)).getD .null

/-- `ok.<sender>.<tchain>.<seq>.<nonce>.<cl>.<payload>.<rawtx>` | `err` | `na` -/
def parseEvent (s : String) : Option (Option Event) :=
  match s.splitOn "." with
  | ["err"] => some none
  | ["na"] => some none
  | ["ok", sender, tchain, seq, nonce, cl, pl, rawtx] => do
    let sender ← ofHex sender; let tchain ← tchain.toNat?; let seq ← seq.toNat?; let nonce ← nonce.toNat?
    let cl ← cl.toNat?; let pl ← parseHexD pl; let rawtx ← ofHex rawtx
    pure (some { sender := sender, targetChain := tchain, seq := seq, nonce := nonce, payload := pl, cl := cl, rawTx := rawtx })
  | _ => none

/-- `nil` | `<addr>/<topics joined by +, or ->/<parse>` -/
def parseRLog (s : String) : Option (Option RLog) :=
  if s = "nil" then some none else
  match s.splitOn "/" with
  | [addr, topics, p] => do
    let addr ← ofHex addr
    let topics ← (splitList topics "+").mapM ofHex
    let p ← parseEvent p
    pure (some { addr := addr, topics := topics, parse := p })
  | _ => none

def parseRLogs (s : String) : Option (List (Option RLog)) := (splitList s ";").mapM parseRLog

/-- `ok:<t>` | `null` | `err` -/
def parseBt (s : String) : Option Nat :=
  match s.splitOn ":" with
  | ["ok", t] => t.toNat?
  | _ => none

/-! ## per-case state -/

structure CaseSt where
  id : String := ""
  cfg : Cfg := { contract := [], chainId := 0, dev := false, wait := false }
  st : St := { pending := [], enabled := false, last := 0 }
  alive : Bool := false          -- the model says Run is still running
  truth : List Pend := []        -- Spec: messages delivered to the watcher and not yet resolved (by key)
  maxServed : Nat := 0           -- Spec: highest head the node has served under the tag the watcher reads
  spec : Option String := none   -- first Spec failure of the case
  diff : Option String := none   -- first model/implementation difference of the case
  lines : Nat := 0

structure DSt where
  cur : Option CaseSt := none
  counters : List (String × Nat) := []

def bump (st : DSt) (k : String) (n : Nat := 1) : DSt :=
  match st.counters.lookup k with
  | some v => { st with counters := st.counters.map fun (k', v') => if k' = k then (k', v + n) else (k', v') }
  | none => { st with counters := st.counters ++ [(k, n)] }

def CaseSt.addDiff (c : CaseSt) (msg : String) : CaseSt := if c.diff.isSome then c else { c with diff := some msg }
def CaseSt.addSpec (c : CaseSt) (clause msg : String) : CaseSt := if c.spec.isSome then c else { c with spec := some s!"{clause} {msg}" }

def flush (c : CaseSt) : List String :=
  match c.spec, c.diff with
  | some s, _ => [s!"spec {c.id} {s}"]
  | none, some d => [s!"diff {c.id} {d}"]
  | none, none => [s!"ok {c.id}"]

def watchedBy (cfg : Cfg) (lat fin : Nat) : Nat := reobsHead cfg lat fin

/-- What the model expects the harness to have observed during one op. -/
structure Obs where
  heads : List String := []
  look : List String := []
  fwd : List String := []
  reord : List String := []
  out : List String := []
  bts : List String := []
  exit : String := "-"

def headObs (r : HeadRes) (H : Nat) : Obs :=
  { heads := [s!"{H}u"],
    look := r.lookups.map toHex,
    fwd := r.forwarded.map (fun p => showMsg p.msg),
    out := (r.outcomes.filter (fun x => x.2 ≠ .wait)).map (fun x => s!"{showKey x.1.key}:{Outcome.name x.2}") }

def Obs.merge (a b : Obs) : Obs :=
  { heads := a.heads ++ b.heads, look := a.look ++ b.look, fwd := a.fwd ++ b.fwd, reord := a.reord ++ b.reord,
    out := a.out ++ b.out, bts := a.bts ++ b.bts, exit := if a.exit ≠ "-" then a.exit else b.exit }

/-- compare the model's expectation with the implementation's fields -/
def compareObs (c : CaseSt) (op : String) (fs : List String) (o : Obs) : CaseSt :=
  let chk (c : CaseSt) (name : String) (model impl : List String) : CaseSt :=
    if sortS model = sortS impl then c else c.addDiff s!"{op}#{c.lines} {name}: model={joinS (sortS model) ","} impl={joinS (sortS impl) ","}"
  let c := if (kv fs "stuck").getD "-" ≠ "-" then c.addDiff s!"{op}#{c.lines} implementation did not reach the expected state (barrier {(kv fs "stuck").getD "?"})" else c
  let c := if (kv fs "exit").getD "-" ≠ o.exit then c.addDiff s!"{op}#{c.lines} exit: model={o.exit} impl={(kv fs "exit").getD "?"}" else c
  let c := chk c "heads" o.heads (kvList fs "heads" ",")
  let c := chk c "lookups" o.look (kvList fs "look" ",")
  let c := chk c "forwarded" o.fwd (kvList fs "fwd" ";")
  let c := if o.reord = kvList fs "reord" "," then c else c.addDiff s!"{op}#{c.lines} reobs decisions: model={joinS o.reord ","} impl={(kv fs "reord").getD "?"}"
  let c := chk c "outcomes" o.out (kvList fs "out" ",")
  let c := chk c "blocktime-lookups" o.bts (kvList fs "bts" ",")
  let c := chk c "pending" (c.st.pending.map showPend) (kvList fs "pend" ",")
  let c := if c.alive && c.st.enabled ≠ kvBool fs "en" then c.addDiff s!"{op}#{c.lines} poller enabled: model={c.st.enabled} impl={(kv fs "en").getD "?"}" else c
  c

/-! ## Spec (C10 statement) on the implementation's results -/

def removeOne (x : String) : List String → Option (List String)
  | [] => none
  | y :: l => if x = y then some l else (removeOne x l).map (y :: ·)

/-- `rc` is good for entry `e`: a successful receipt pointing at the block the log was seen in. -/
def goodFor (a : NodeRc) (e : Pend) : Bool :=
  match a with
  | .receipt s bh => s == 1 && bh == e.key.bh
  | _ => false

def transient : NodeRc → Bool
  | .errOther => true
  | .bad _ => true
  | _ => false

def specConf (cfg : Cfg) (cl : Nat) : Nat := if cfg.wait then cl else 0

/-- Messages the re-observation path may hand over for this receipt, per the statement: log of the configured contract,
message-published topic, successful transaction, block number + confirmations ≤ a head the watcher has seen. -/
def reobsJustified (cfg : Cfg) (topic : Bytes) (rc : Option Receipt) (bt : Option Nat) (seen : Nat) : List String :=
  match rc, bt with
  | some r, some t =>
    if r.status ≠ 1 then [] else
    match r.bn with
    | none => []
    | some bn =>
      r.logs.filterMap fun l =>
        match l with
        | some l =>
          match l.parse with
          | some ev =>
            if l.addr = cfg.contract ∧ l.topics.head? = some topic ∧ bn + specConf cfg ev.cl ≤ seen
            then some (showMsg (mkMsg cfg.chainId ev t)) else none
          | none => none
        | none => none
  | _, _ => none.toList

/-- a rendered message without its timestamp field (`tx,ts,nonce,seq,…`) -/
def dropTs (m : String) : String :=
  match m.splitOn "," with
  | tx :: _ :: rest => ",".intercalate (tx :: rest)
  | _ => m

/-- the timestamp field of a rendered message -/
def tsOf (m : String) : String := ((m.splitOn ",")[1]?).getD "?"

/-- `m` is one of the receipt's messages in every field except the timestamp, which is NOT the time of the block the receipt
points to (`bt`; any value if the block-time lookup gave nothing) -/
def tsOnlyDiffers (cfg : Cfg) (rc : Option Receipt) (bt : Option Nat) (m : String) : Bool :=
  match rc with
  | some r =>
    r.logs.any fun l => match l with
      | some l => match l.parse with
        | some ev => dropTs (showMsg (mkMsg cfg.chainId ev (bt.getD 0))) == dropTs m && some (tsOf m) != bt.map toString
        | none => false
      | none => false
  | none => false

/-- why a re-observed message that is not justified was not: the most specific clause -/
def reobsWhy (cfg : Cfg) (topic : Bytes) (rc : Option Receipt) (bt : Option Nat) (seen : Nat) (m : String) : String :=
  match rc, bt with
  | some r, some t =>
    let cands := r.logs.filterMap fun l => match l with
      | some l => match l.parse with
        | some ev => if showMsg (mkMsg cfg.chainId ev t) = m then some (l, ev) else none
        | none => none
      | none => none
    match cands with
    | [] => if tsOnlyDiffers cfg rc bt m then "forwarded-timestamp-not-block-time" else "forwarded-unknown"
    | (l, ev) :: _ =>
      if l.addr ≠ cfg.contract then "reobs-foreign-contract"
      else if l.topics.head? ≠ some topic then "reobs-wrong-topic"
      else if r.status ≠ 1 then "reobs-failed-tx"
      else match r.bn with
        | some bn => if bn + specConf cfg ev.cl ≤ seen then "forwarded-twice" else "reobs-not-final"
        | none => "reobs-not-final"
  | some _, none => if tsOnlyDiffers cfg rc bt m then "forwarded-timestamp-not-block-time" else "forwarded-unknown"
  | _, _ => "forwarded-unknown"

/-- the rendered message `m` has the transaction, sequence and emitter of `x` (but may differ elsewhere) -/
def sameIdentity (x : Msg) (m : String) : Bool :=
  match m.splitOn "," with
  | [tx, _, _, seq, _, _, em, _, _] => tx == toHex x.tx && seq == toString x.seq && em == toHex x.emitter
  | _ => false

/-- multiset difference -/
def minusL (a b : List String) : List String :=
  b.foldl (fun acc x => match removeOne x acc with | some l => l | none => acc) a

/-- `rreobs`: what a re-observation may hand over when the node changed branch during the request. The statement: "the chain
head the watcher has seen is at least the log's block number plus the required confirmations, and at that moment the
transaction's receipt still points to the same block". Two moments exist: view a (only if at least one RPC request of the
re-observation was answered in it) with the heads the watcher had seen by then (`seenA`), and view b with everything it has
seen (`seenB`). A message is justified if, in one of the two views, the receipt is a successful one carrying its log (core
contract, topic) and its block number + confirmations ≤ the heads seen by that view. -/
def rreobsJust (cfg : Cfg) (topic : Bytes) (hasA : Bool) (rcA : Option Receipt) (btA : Option Nat) (seenA : Nat)
    (rcB : Option Receipt) (btB : Option Nat) (seenB : Nat) : List String :=
  let ja := if hasA then reobsJustified cfg topic rcA btA seenA else []
  let jb := reobsJustified cfg topic rcB btB seenB
  ja ++ minusL jb ja

/-- does the later receipt still point to the block of the earlier one? -/
def sameBlock (rcA rcB : Option Receipt) : Bool :=
  match rcA, rcB with
  | some a, some b => a.bh == b.bh && b.status == 1
  | _, _ => false

def rreobsWhy (cfg : Cfg) (topic : Bytes) (hasA : Bool) (rcA : Option Receipt) (btA : Option Nat) (seenA : Nat)
    (rcB : Option Receipt) (btB : Option Nat) (seenB : Nat) (m : String) : String :=
  let wa := if hasA then reobsWhy cfg topic rcA btA seenA m else "forwarded-unknown"
  let wb := reobsWhy cfg topic rcB btB seenB m
  if wa = "reobs-not-final" then
    -- deep enough only under a head seen after the node had changed branch, when the receipt no longer pointed to that block
    if reobsWhy cfg topic rcA btA seenB m = "forwarded-twice" && !sameBlock rcA rcB then "reobs-receipt-moved" else "reobs-not-final"
  else if wa ≠ "forwarded-unknown" ∧ wa ≠ "forwarded-timestamp-not-block-time" then wa
  else if wb ≠ "forwarded-unknown" then wb else wa

structure SpecIn where
  heads : List Nat
  fwd : List String
  pend : List String
  ans : List (String × NodeRc)
  reobs : Option (Option Receipt × Option Nat) := none   -- receipt + block time the node served for the re-observed tx
  just : List String := []                               -- `rreobs`: what the re-observation may hand over (computed by the op)
  whyAlt : Option (String → String) := none              -- `rreobs`: the clause for a message that is not in `just`
  note : String := ""

def specEval (c : CaseSt) (op : String) (topic : Bytes) (i : SpecIn) : CaseSt := Id.run do
  let cfg := c.cfg
  let mut c := c
  let truth0 := c.truth
  let mut fwdLeft := i.fwd
  let inPend (e : Pend) : Bool := i.pend.contains (showPend e)
  match i.heads.foldl (fun a h => some (match a with | some x => max x h | none => h)) (none : Option Nat) with
  | none =>
    for e in c.truth do
      if !inPend e then
        -- forwarded without a processed head is reported below; here: it simply vanished
        if !(i.fwd.contains (showMsg e.msg)) then
          c := c.addSpec "pending-lost" s!"{op}#{c.lines} message {showKey e.key} disappeared from pending although no head was processed"
  | some H =>
    -- "the chain head the watcher has seen is at least the log's block number plus the required confirmations (zero on chains
    -- read at finalized height)": the head is the one of the height the chain is read at - a message handed over must have
    -- reached its depth under a head the node has served at that height
    for e in c.truth do
      let conf := specConf cfg e.msg.cl
      if i.fwd.contains (showMsg e.msg) && !inPend e && e.height + conf ≤ H && e.height + conf > c.maxServed then
        c := c.addSpec "forwarded-not-final" s!"{op}#{c.lines} message {showKey e.key} at height {e.height} needs {conf} confirmations and was forwarded at head {H}, but the highest head the node has served at the height this chain is read at ({reobsHeadTag cfg}) is {c.maxServed}"
    if H > c.maxServed then
      c := c.addSpec "head-not-served" s!"{op}#{c.lines} watcher processed head {H} but the node never served more than {c.maxServed}"
    let mut keep : List Pend := []
    for e in c.truth do
      let conf := specConf cfg e.msg.cl
      let ready := e.height + conf ≤ H
      let a := nodeAns i.ans e.key.tx
      if !ready then
        if !inPend e then
          match removeOne (showMsg e.msg) fwdLeft with
          | some l =>
            fwdLeft := l
            c := c.addSpec "forwarded-not-final" s!"{op}#{c.lines} message {showKey e.key} at height {e.height} needs {conf} confirmations but was forwarded at head {H}"
          | none =>
            c := c.addSpec "abandoned-not-ready" s!"{op}#{c.lines} message {showKey e.key} at height {e.height} (conf {conf}) left pending at head {H} before its depth was reached"
        else keep := keep ++ [e]
      else if goodFor a e then
        match removeOne (showMsg e.msg) fwdLeft with
        | some l => fwdLeft := l
        | none =>
          match fwdLeft.find? (sameIdentity e.msg) with
          | some m =>
            c := c.addSpec "forwarded-altered" s!"{op}#{c.lines} message {showKey e.key} was forwarded as {m} instead of {showMsg e.msg}"
          | none =>
            c := c.addSpec "final-not-forwarded" s!"{op}#{c.lines} message {showKey e.key} height {e.height} conf {conf}: head {H} reached its depth and the receipt still points to its block with status 1, yet it was not forwarded (still pending: {inPend e})"
      else if transient a then
        if inPend e then keep := keep ++ [e]
        else if e.height + conf + cfg.maxWait ≤ H then pure ()
        else c := c.addSpec "transient-error-dropped" s!"{op}#{c.lines} message {showKey e.key} height {e.height} conf {conf}: the node answers its receipt lookup with a transient error at head {H} (window ends at {e.height + conf + cfg.maxWait}) and the message is no longer pending (abandoned)"
      else
        -- orphaned (not found), failed (status ≠ 1) or re-mined in another block: must be dropped
        if inPend e then
          c := c.addSpec "bad-receipt-kept" s!"{op}#{c.lines} message {showKey e.key}: receipt is missing / failed / in another block at head {H} but the message is still pending"
    c := { c with truth := keep }
  -- whatever else was forwarded needs a justification
  let mut reobsOK : List String :=
    match i.reobs with
    | some (rc, bt) => reobsJustified cfg topic rc bt c.maxServed
    | none => i.just
  for m in fwdLeft do
    match removeOne m reobsOK with
    | some l => reobsOK := l
    | none =>
      let clause : String := Id.run do
        match truth0.find? (fun e => showMsg e.msg = m) with
        | some e =>
          let conf := specConf cfg e.msg.cl
          match i.heads.foldl (fun a h => some (match a with | some x => max x h | none => h)) (none : Option Nat) with
          | none => return "forwarded-without-head"
          | some H =>
            if e.height + conf > H then return "forwarded-not-final"
            if !(truth0.any fun e' => showMsg e'.msg = m && goodFor (nodeAns i.ans e'.key.tx) e') then return "forwarded-bad-receipt"
            return "forwarded-twice"
        | none =>
          match i.reobs with
          | some (rc, bt) => return reobsWhy cfg topic rc bt c.maxServed m
          | none =>
            match i.whyAlt with
            | some f => return f m
            | none => return "forwarded-unknown"
      let tsNote : String :=
        if clause = "forwarded-timestamp-not-block-time" then
          match i.reobs with
          | some (rc, bt) => s!": it carries timestamp {tsOf m}, but the receipt of its transaction points to block {(rc.map fun r => toHex r.bh).getD "?"} (height {(rc.bind (·.bn)).map toString}), whose time the node gives as {bt.map toString} — every other guardian signs the body with that block's time"
          | none => ": it is the receipt's message in every field but the timestamp, which is the time of neither block the receipt pointed to during the request"
        else ""
      c := c.addSpec clause s!"{op}#{c.lines} forwarded message {m} is not justified{tsNote}{i.note}"
  return c

/-! ## ops -/

def parseTail (fs : List String) : Option (Nat × Nat × Nat × List (String × NodeRc)) := do
  let lat ← kvNat fs "lat"; let fin ← kvNat fs "fin"; let pe ← kvNat fs "pe"
  let ans ← (kv fs "ans") >>= parseAns
  pure (lat, fin, pe, ans)

def implHeads (fs : List String) : List Nat :=
  (kvList fs "heads" ",").filterMap fun s => (s.dropEnd 1).toString.toNat?

/-- model: settle after an op; returns new case state and what should have been observed -/
def modelSettle (c : CaseSt) (W : Nat) (ans : List (String × NodeRc)) : CaseSt × Obs :=
  if !c.alive then (c, {}) else
  let rc := fun tx => clientView (nodeAns ans tx)
  match settle c.cfg c.st W rc with
  | (st', some r) => ({ c with st := st' }, headObs r W)
  | (st', none) => ({ c with st := st' }, {})

def topicBytes : Bytes := (ofHex logTopicHex).getD []

/-- the tags the poller is expected to have requested when its first `pe` block queries fail: `pollerStart` on `pe` failing
answers followed by one that serves `W` -/
def expTried (cfg : Cfg) (pe W : Nat) : String :=
  joinS (pollerStart cfg.useFinalized (List.replicate pe (fun _ => BlockAns.err) ++ [fun _ => BlockAns.ok W])).1 ","

def stepCase (c : CaseSt) (op : String) (fs : List String) : CaseSt :=
  let c := { c with lines := c.lines + 1 }
  match parseTail fs with
  | none => c.addDiff s!"{op}#{c.lines} unparsable line"
  | some (lat, fin, pe, ans) =>
    let W := watchedBy c.cfg lat fin
    let implExit := (kv fs "exit").getD "-"
    let specIn : SpecIn := { heads := implHeads fs, fwd := kvList fs "fwd" ";", pend := kvList fs "pend" ",", ans := ans }
    match op with
    | "log" =>
      match kvHex fs "tx", kvHex fs "bh", kvNat fs "bn", kvHex fs "sender", kvNat fs "tchain", kvNat fs "seq", kvNat fs "nonce",
            kvHex fs "pl", kvNat fs "cl", kv fs "bt" with
      | some tx, some bh, some bn, some sender, some tchain, some seq, some nonce, some pl, some cl, some bt =>
        let ev : Event := { sender := sender, targetChain := tchain, seq := seq, nonce := nonce, payload := pl, cl := cl,
                            rawTx := tx, rawBh := bh, rawBn := bn }
        let bad := kvBool fs "bad"
        let c := { c with maxServed := max c.maxServed W }
        -- model
        let (cm, obs) : CaseSt × Obs :=
          if !c.alive then (c, {})
          else if bad then ({ c with alive := false }, { exit := "logsub" })
          else match parseBt bt with
            | none => ({ c with alive := false }, { exit := "blocktime", bts := [toHex bh] })
            | some t =>
              let c1 := { c with st := onLog c.cfg c.st ev t }
              let (c2, o) := modelSettle c1 W ans
              (c2, Obs.merge { bts := [toHex bh] } o)
        let cm := compareObs cm op fs obs
        -- Spec: the message counts as delivered when the node delivered a decodable log and served its block time
        let cs := if !bad && (parseBt bt).isSome && implExit = "-" then
                    { cm with truth := insertPend (mkPend cm.cfg ev ((parseBt bt).getD 0)) cm.truth } else cm
        if implExit = "-" then specEval cs op topicBytes specIn else cs
      | _, _, _, _, _, _, _, _, _, _ => c.addDiff s!"{op}#{c.lines} unparsable log line"
    | "race" =>
      match kvHex fs "tx", kvHex fs "bh", kvNat fs "bn", kvHex fs "sender", kvNat fs "tchain", kvNat fs "seq", kvNat fs "nonce",
            kvHex fs "pl", kvNat fs "cl", (kv fs "bt") >>= parseBt with
      | some tx, some bh, some bn, some sender, some tchain, some seq, some nonce, some pl, some cl, some t =>
        let ev : Event := { sender := sender, targetChain := tchain, seq := seq, nonce := nonce, payload := pl, cl := cl,
                            rawTx := tx, rawBh := bh, rawBn := bn }
        let c := { c with maxServed := max c.maxServed W }
        let pB := mkPend c.cfg ev t
        -- model: the scan holds pendingMu, so the log is inserted when the scan has ended (head event, then log event); the
        -- insertion enables the poller, which publishes the head if the scan had not been for it
        let (cm, obs, mHeld) : CaseSt × Obs × Bool :=
          if !c.alive then (c, {}, false)
          else
            let rcf := fun x => clientView (nodeAns ans x)
            let (st1, r1) := headThenLog c.cfg c.st W rcf ev t
            let o1 : Obs := match r1 with
              | some r => headObs r W
              | none => {}
            let (c2, o2) := modelSettle { c with st := st1 } W ans
            (c2, Obs.merge (Obs.merge o1 { bts := [toHex bh] }) o2, !o1.look.isEmpty)
        let cm := compareObs cm op fs obs
        let cm := if c.alive && implExit = "-" && kvBool fs "held" ≠ mHeld then
                    cm.addDiff s!"{op}#{cm.lines} receipt request held during the scan: model={mHeld} impl={(kv fs "held").getD "?"}" else cm
        let cm := if c.alive && implExit = "-" && kv fs "ins" ≠ some "after" then
                    cm.addDiff s!"{op}#{cm.lines} the log was inserted into pending while the head scan was waiting for a receipt (the scan does not hold pendingMu)" else cm
        if implExit ≠ "-" then cm else
        -- Spec: the message counts as delivered (decodable log pushed, block time served, the watcher logged it). The head of this
        -- op was published before the delivery, so the message owes nothing to it - unless the watcher forwarded it already.
        if specIn.fwd.contains (showMsg pB.msg) then
          specEval { cm with truth := insertPend pB cm.truth } op topicBytes specIn
        else
          let cs := specEval cm op topicBytes specIn
          { cs with truth := insertPend pB cs.truth }
      | _, _, _, _, _, _, _, _, _, _ => c.addDiff s!"{op}#{c.lines} unparsable race line"
    | "restart" =>
      let gserr := kvBool fs "gserr"
      let c := { c with maxServed := max c.maxServed W }
      -- model: only a Run that has returned is started again; the pending set is the Watcher's, the connector is new
      let cm : CaseSt :=
        if c.alive then c.addDiff s!"{op}#{c.lines} restart of a Run that the model says is still running"
        else { c with st := restart c.st W, alive := !gserr }
      let cm := compareObs cm op fs { exit := if gserr then "gs" else "-" }
      let cm := if !gserr && !c.alive && kvBool fs "en" then cm.addDiff s!"{op}#{cm.lines} poller enabled right after a restart" else cm
      let cm := match kv fs "tried" with
        | some t => if !gserr && implExit = "-" && t ≠ expTried c.cfg pe W then
            cm.addDiff s!"{op}#{cm.lines} block tags requested by the new poller until its first block: model={expTried c.cfg pe W} impl={t}" else cm
        | none => cm
      let expSub := s!"{toHex c.cfg.contract}/{logTopicHex};-"
      let cm := if !gserr && implExit = "-" && kv fs "sub" ≠ some expSub then
                  cm.addSpec "sub-filter" s!"{op}#{cm.lines} log subscription filter after the restart is {(kv fs "sub").getD "?"}, expected {expSub}" else cm
      -- Spec: no head is processed by a restart, so nothing may be forwarded and nothing may leave the pending set
      specEval cm op topicBytes specIn
    | "head" =>
      let c := { c with maxServed := if pe ≥ 3 then c.maxServed else max c.maxServed W }
      let (cm, obs) : CaseSt × Obs :=
        if !c.alive then (c, {})
        else if pe ≥ 3 && c.st.enabled then ({ c with alive := false }, { exit := "headsub" })
        else modelSettle c W ans
      let cm := compareObs cm op fs obs
      if implExit = "-" then specEval cm op topicBytes specIn else cm
    | "reobs" =>
      match kvHex fs "tx", kvNat fs "blat", kvNat fs "bfin", (kv fs "rc") >>= parseNodeRc, kv fs "rbt", (kv fs "rlogs") >>= parseRLogs with
      | some tx, some blat, some bfin, some (nrc, rbn), some rbt, some rlogs =>
        let bnerr := kvBool fs "bnerr"
        let Wb := watchedBy c.cfg blat bfin
        let c := { c with maxServed := max (if bnerr then c.maxServed else max c.maxServed Wb) W }
        -- what the Connector returns for this node answer (ethclient: null -> NotFound error, malformed -> error)
        let (rcv, rcErr) : Option Receipt × Bool :=
          match nrc with
          | .receipt s bh => (some { status := s, bh := bh, bn := rbn, logs := rlogs }, false)
          | _ => (none, true)
        let bt := parseBt rbt
        let (cm, obs) : CaseSt × Obs :=
          if !c.alive then (c, {})
          else
            let bnAns := if bnerr then none else some Wb
            let evt := messageEvents c.cfg.contract topicBytes c.cfg.chainId rcv rcErr bt
            let decs := reobserve c.cfg bnAns evt
            let o : Obs :=
              { look := if bnerr then [] else [toHex tx],
                bts := if bnerr || rcErr then [] else match rcv with
                  | some r => if r.status = 1 then [toHex r.bh] else []
                  | none => [],
                fwd := (reobsForwarded c.cfg bnAns evt).map showMsg,
                reord := if decs.any (fun x => x.2 = .zero) then decs.map (fun _ => "z")
                         else decs.map fun x => (if x.2 = .fwd then "f" else "i") ++ toString x.1.seq }
            let (c2, o2) := modelSettle c W ans
            (c2, Obs.merge o o2)
        let cm := compareObs cm op fs obs
        -- the head read of the re-observation path goes through the poller's getBlock: same tag as the poller, nothing else
        let cm := if c.alive && implExit = "-" && (kv fs "hq").isSome && kvList fs "hq" "," ≠ [reobsHeadTag c.cfg] then
                    cm.addDiff s!"{op}#{cm.lines} head reads during re-observation: model={reobsHeadTag c.cfg} impl={(kv fs "hq").getD "?"}" else cm
        if implExit = "-" then specEval cm op topicBytes { specIn with reobs := some (rcv, bt) } else cm
      | _, _, _, _, _, _ => c.addDiff s!"{op}#{c.lines} unparsable reobs line"
    | "rreobs" =>
      match kvHex fs "tx", kvNat fs "blat", kvNat fs "bfin", kvNat fs "k", (kv fs "rc") >>= parseNodeRc, kv fs "rbt",
            (kv fs "rlogs") >>= parseRLogs, (kv fs "rc2") >>= parseNodeRc, kv fs "rbt2" with
      | some tx, some blat, some bfin, some k, some (nrcA, bnA), some rbtA, some rlogs, some (nrcB, bnB), some rbtB =>
        let Wa := watchedBy c.cfg blat bfin
        let mkRc := fun (nrc : NodeRc) (bn : Option Nat) => match nrc with
          | .receipt s bh => ((some { status := s, bh := bh, bn := bn, logs := rlogs } : Option Receipt), false)
          | _ => ((none : Option Receipt), true)
        let (rcA, errA) := mkRc nrcA bnA
        let (rcB, errB) := mkRc nrcB bnB
        let btA := parseBt rbtA
        let btB := parseBt rbtB
        -- blocks stay retrievable by hash on either branch
        let btOf : Bytes → Option Nat := fun h =>
          if (rcA.map (·.bh)) = some h then btA else if (rcB.map (·.bh)) = some h then btB else none
        let va : NodeView := { head := some Wa, rc := rcA, rcErr := errA, bt := btOf }
        let vb : NodeView := { head := some W, rc := rcB, rcErr := errB, bt := btOf }
        let tag := reobsHeadTag c.cfg
        let sv := fun (j : Nat) => if j ≤ k then "a" else "b"
        let vr := viewAt k va vb 2
        let btAsked : Option Bytes := match vr.rc with
          | some r => if !vr.rcErr && r.status = 1 then some r.bh else none
          | none => none
        let expSeq := [s!"hq:{tag}/{sv 1}", s!"rc/{sv 2}"] ++ (if btAsked.isSome then [s!"bt/{sv 3}"] else [])
        let iseq := kvList fs "seq" ","
        let (cm, obs) : CaseSt × Obs :=
          if !c.alive then (c, {})
          else
            let decs := reobserveAcross c.cfg topicBytes k va vb
            let o : Obs :=
              { look := [toHex tx],
                bts := btAsked.toList.map toHex,
                fwd := (reobsForwardedAcross c.cfg topicBytes k va vb).map showMsg,
                reord := if decs.any (fun x => x.2 = .zero) then decs.map (fun _ => "z")
                         else decs.map fun x => (if x.2 = .fwd then "f" else "i") ++ toString x.1.seq }
            let (c2, o2) := modelSettle c W ans
            (c2, Obs.merge o o2)
        let cm := compareObs cm op fs obs
        let cm := if c.alive && implExit = "-" && iseq ≠ expSeq then
                    cm.addDiff s!"{op}#{cm.lines} RPC requests of the re-observation (with the view each was answered in): model={joinS expSeq ","} impl={joinS iseq ","}" else cm
        -- Spec, on the implementation's own requests: which heads had it seen in which view
        let hasA := iseq.any (·.endsWith "/a")
        let seenA := if iseq.contains s!"hq:{tag}/a" then max c.maxServed Wa else c.maxServed
        let seenB := if iseq.contains s!"hq:{tag}/b" then max seenA W else seenA
        let just := rreobsJust c.cfg topicBytes hasA rcA btA seenA rcB btB seenB
        let note := s!" (node changed branch after {(kvNat fs "sw").getD 0} of the requests {joinS iseq ","}: receipt {(kv fs "rc").getD "?"} -> {(kv fs "rc2").getD "?"}, head {Wa} -> {W}; heads seen while the first receipt held: {seenA}, after: {seenB})"
        let cs := if implExit = "-" then
                    specEval cm op topicBytes { specIn with just := just, note := note, whyAlt := some (rreobsWhy c.cfg topicBytes hasA rcA btA seenA rcB btB seenB) }
                  else cm
        { cs with maxServed := max (max cs.maxServed Wa) W }
      | _, _, _, _, _, _, _, _, _ => c.addDiff s!"{op}#{c.lines} unparsable rreobs line"
    | _ => c.addDiff s!"unknown op {op}"

def startCase (id : String) (fs : List String) : CaseSt :=
  match kvHex fs "contract", kvNat fs "chain", kvNat fs "lat", kvNat fs "fin" with
  | some contract, some chain, some lat, some fin =>
    let cfg : Cfg := { contract := contract, chainId := chain, dev := kvBool fs "dev", wait := kvBool fs "wait" }
    let W := watchedBy cfg lat fin
    let gserr := kvBool fs "gserr"
    let c : CaseSt := { id := id, cfg := cfg, st := { pending := [], enabled := false, last := W }, alive := !gserr, maxServed := W, lines := 1 }
    let c := if (kv fs "stuck").getD "-" ≠ "-" then c.addDiff s!"start: watcher did not come up ({(kv fs "stuck").getD "?"})" else c
    let expExit := if gserr then "gs" else "-"
    let c := if (kv fs "exit").getD "-" ≠ expExit then c.addDiff s!"start: exit model={expExit} impl={(kv fs "exit").getD "?"}" else c
    if gserr then c else
    let expTag := blockTag none cfg.useFinalized false
    let c := if kv fs "tag" ≠ some expTag then c.addDiff s!"start: block tag model={expTag} impl={(kv fs "tag").getD "?"}" else c
    let c := match kv fs "tried" with
      | some t => if t ≠ expTried cfg ((kvNat fs "pe").getD 0) W then
          c.addDiff s!"start: block tags requested by the poller until its first block: model={expTried cfg ((kvNat fs "pe").getD 0) W} impl={t}" else c
      | none => c
    let c := if kv fs "topic" ≠ some logTopicHex then c.addDiff s!"start: LogMessagePublishedTopic constant is {(kv fs "topic").getD "?"}" else c
    -- Spec: the subscription must ask the node for logs of the configured contract with the message-published topic only
    let expSub := s!"{toHex contract}/{logTopicHex};-"
    if kv fs "sub" ≠ some expSub then c.addSpec "sub-filter" s!"start: log subscription filter is {(kv fs "sub").getD "?"}, expected {expSub}" else c
  | _, _, _, _ => ({ id := id } : CaseSt).addDiff "unparsable start line"

/-! ## direct lines -/

def showEvtRes : EvtRes → String × String
  | .panic => ("panic", "-")
  | .err .receipt => ("err.receipt", "-")
  | .err .status => ("err.status", "-")
  | .err .blocktime => ("err.blocktime", "-")
  | .err .parse => ("err.parse", "-")
  | .ok bn msgs => (s!"ok.{bn}", joinS (msgs.map showMsg) ";")

def stepEvt (id : String) (fs : List String) : List String × String :=
  match kvHex fs "contract", kvNat fs "chain", kv fs "rc", kv fs "rcerr", kv fs "rbt", (kv fs "rlogs") >>= parseRLogs, kv fs "res", kv fs "msgs" with
  | some contract, some chain, some rc, some rcerr, some rbt, some rlogs, some res, some msgs =>
    let rcv : Option (Option Receipt) :=
      if rc = "nil" then some none else
      match parseNodeRc rc with
      | some (.receipt s bh, bn) => some (some { status := s, bh := bh, bn := bn, logs := rlogs })
      | _ => none
    match rcv with
    | none => ([s!"diff {id} unparsable receipt"], "bad")
    | some rcv =>
      let bt := parseBt rbt
      let m := messageEvents contract topicBytes chain rcv (rcerr ≠ "none") bt
      let (mres, mmsgs) := showEvtRes m
      -- Spec on the implementation's result: every returned message is a decodable log of the configured contract with the
      -- message-published topic in a successful transaction
      let cfg : Cfg := { contract := contract, chainId := chain, dev := false, wait := false }
      let just := match rcv with
        | some r => reobsJustified cfg topicBytes (some { r with bn := some 0 }) bt 0
        | none => []
      let bad := (splitList msgs ";").foldl (fun (acc : List String × Option String) x =>
        match removeOne x acc.1 with
        | some l => (l, acc.2)
        | none => (acc.1, acc.2.orElse fun _ => some x)) (just, none)
      match bad.2 with
      | some x =>
        let why := match rcv with
          | some r => reobsWhy cfg topicBytes (some { r with bn := some 0 }) bt 0 x
          | none => "forwarded-unknown"
        ([s!"spec {id} {why} MessageEventsForTransaction returned {x}"], "spec")
      | none =>
        if res ≠ mres then ([s!"diff {id} evt result model={mres} impl={res}"], "diff")
        else if msgs ≠ mmsgs then ([s!"diff {id} evt messages model={mmsgs} impl={msgs}"], "diff")
        else ([s!"ok {id}"], if mres = "panic" then "evt_panic_agree" else if mres.startsWith "err" then "evt_err" else "evt_ok")
  | _, _, _, _, _, _, _, _ => ([s!"diff {id} unparsable evt line"], "bad")

def parseBlockAns (fs : List String) : Option BlockAns :=
  match kv fs "ans", kvNat fs "n" with
  | some "ok", some n => some (.ok n)
  | some "nonum", _ => some .noNum
  | some "err", _ => some .err
  | _, _ => none

def stepGb (id : String) (fs : List String) : List String :=
  match kv fs "num", parseBlockAns fs, kv fs "tags", kv fs "res" with
  | some num, some ans, some tags, some res =>
    let number := if num = "nil" then none else num.toNat?
    let fin := kvBool fs "fin"; let safe := kvBool fs "safe"
    let tag := blockTag number fin safe
    let mres := match getBlock ans safe with
      | some (n, s) => s!"ok.{n}.{s}"
      | none => "err"
    if tags ≠ tag then [s!"diff {id} getBlock requested {tags}, model {tag}"]
    else if res ≠ mres then [s!"diff {id} getBlock result model={mres} impl={res}"]
    else [s!"ok {id}"]
  | _, _, _, _ => [s!"diff {id} unparsable gb line"]

def stepPb (id : String) (fs : List String) : List String :=
  match kvNat fs "last", parseBlockAns fs, kv fs "tags", kv fs "res", kv fs "pub" with
  | some last, some ans, some tags, some res, some pub =>
    let fin := kvBool fs "fin"; let safe := kvBool fs "safe"
    let tag := blockTag none fin safe
    let (nl, p, e) := pollBlocks last ans safe
    let mres := (if e then "err." else "ok.") ++ toString nl
    let mpub := match p with
      | some (n, s) => s!"{n}.{s}"
      | none => "-"
    if tags ≠ tag then [s!"diff {id} pollBlocks requested {tags}, model {tag}"]
    else if res ≠ mres then [s!"diff {id} pollBlocks result model={mres} impl={res}"]
    else if pub ≠ mpub then [s!"diff {id} pollBlocks published model={mpub} impl={pub}"]
    else [s!"ok {id}"]
  | _, _, _, _, _ => [s!"diff {id} unparsable pb line"]

/-! ## guardian-set fetch lines -/

def parseCur (s : String) : Option (Option Nat) := if s = "nil" then some none else s.toNat?.map some

def showKeys (ks : List Bytes) : String := joinS (ks.map toHex) ","

/-- Spec clause `guardian-set-altered-before-processor` (C07: the node's threshold is computed from the set it was handed, the
contracts' from the set on chain): whatever arrives on `setC` is the chain's current index with the chain's keys, all of them,
in order. Evaluated on the implementation's side of the line only. -/
def gsAltered (cidx : Nat) (ckeys : List Bytes) (idx : String) (keys : List Bytes) : Option String :=
  if idx ≠ toString cidx then some s!"index differs: chain {cidx}, handed on {idx}"
  else if keys.length ≠ ckeys.length then some s!"{ckeys.length} keys on chain, {keys.length} handed on"
  else match (List.range keys.length).find? (fun i => keys[i]? ≠ ckeys[i]?) with
    | some i => some s!"key {i} differs: chain {(ckeys[i]?.map toHex).getD "?"}, handed on {(keys[i]?.map toHex).getD "?"}"
    | none => none

def stepGsf (id : String) (fs : List String) : List String × String :=
  match (kv fs "cur") >>= parseCur, kvNat fs "cidx", (kvList fs "ckeys" ",").mapM ofHex, kvNat fs "sent", kv fs "idx",
        (kvList fs "keys" ",").mapM ofHex, (kv fs "after") >>= parseCur with
  | some cur, some cidx, some ckeys, some sent, some idx, some keys, some after =>
    let callerr := kvBool fs "callerr"
    let (mAfter, mSent, mErr) := gsFetch cur (if callerr then none else some (cidx, ckeys))
    -- Spec first, on what the implementation handed on
    let spec : Option String :=
      if sent = 0 then none
      else if callerr then some "a set was handed on although the contract call failed"
      else if sent > 1 then some s!"{sent} sets handed on for one fetch"
      else gsAltered cidx ckeys idx keys
    match spec with
    | some why =>
      ([s!"spec {id} guardian-set-altered-before-processor the set handed to the processor is not the set the chain holds (index {cidx}, {ckeys.length} keys): {why}"], "gsf_spec")
    | none =>
      let mSentS := match mSent with
        | some (i, ks) => s!"1:{i}:{showKeys ks}"
        | none => "0"
      let iSentS := if sent = 0 then "0" else s!"{sent}:{idx}:{showKeys keys}"
      if kvBool fs "stuck" then ([s!"diff {id} guardian-set fetch did not return"], "diff")
      else if kvBool fs "panic" then ([s!"diff {id} guardian-set fetch panicked"], "diff")
      else if kvBool fs "err" ≠ mErr then ([s!"diff {id} guardian-set fetch error: model={mErr} impl={(kv fs "err").getD "?"}"], "diff")
      else if iSentS ≠ mSentS then ([s!"diff {id} handed to the processor: model={(mSentS.take 200).toString} impl={(iSentS.take 200).toString}"], "diff")
      else if kv fs "via" = some "direct" && after ≠ mAfter then ([s!"diff {id} remembered index: model={mAfter} impl={(kv fs "after").getD "?"}"], "diff")
      else ([s!"ok {id}"], if mSent.isSome then "gsf_handed_on" else if mErr then "gsf_call_failed" else "gsf_already_current")
  | _, _, _, _, _, _, _ => ([s!"diff {id} unparsable gsf line"], "bad")

def countOutcomes (st : DSt) (fs : List String) : DSt :=
  (kvList fs "out" ",").foldl (fun st o =>
    match (o.splitOn ":").getLast? with
    | some k => bump st ("outcome_" ++ k)
    | none => st) st

def step (st : DSt) (line : String) : DSt × List String :=
  let fs := fields line
  match fs with
  | "start" :: id :: rest =>
    let outs := match st.cur with
      | some c => flush c
      | none => []
    ({ bump st "ws_cases" with cur := some (startCase id rest) }, outs)
  | op :: id :: rest =>
    if op = "log" || op = "head" || op = "reobs" || op = "rreobs" || op = "race" || op = "restart" then
      match st.cur with
      | some c =>
        if c.id = id then
          let st := countOutcomes (bump st ("op_" ++ op)) rest
          let st := if (kvList rest "heads" ",").isEmpty then st else bump st "heads_processed"
          let st := (kvList rest "reord" ",").foldl (fun st d => bump st ("reobs_" ++ (d.take 1).toString)) st
          let st := if (kv rest "exit").getD "-" ≠ "-" then bump st "run_exits" else st
          ({ st with cur := some (stepCase c op rest) }, [])
        else (st, [s!"diff {id} line outside its case"])
      | none => (st, [s!"diff {id} line before any start"])
    else if op = "evt" then
      let (outs, k) := stepEvt id rest
      (bump st k, outs)
    else if op = "gsf" then
      let (outs, k) := stepGsf id rest
      (bump st k, outs)
    else if op = "gb" then (bump st "getblock", stepGb id rest)
    else if op = "pb" then (bump st "pollblocks", stepPb id rest)
    else (st, [s!"diff ? unknown line: {(line.take 80).toString}"])
  | _ => (st, [])

def fin (st : DSt) : List String :=
  (match st.cur with
   | some c => flush c
   | none => []) ++ st.counters.map fun (k, v) => s!"stat {k} {v}"

def run (h : IO.FS.Stream) : IO Unit := loop h ({} : DSt) step fin

end Whv.Driver.EvmFam
