import Whv.Driver.Util
import Whv.Model.Reobserve
import Whv.Gen.C17
/-!
Driver family `reobserve` (C17).  One session (= one case id) is a `reset` line followed by operations on the REAL
`handleReobservationRequests` loop; `post` lines are single-line cases for `common.PostObservationRequest`.

* `reset   <cid> tick=<ns|none|many> chans=<chain:cap,..|->`
* `req     <cid> now=<ns> chain=<u32> tx=<hex|-> res=ok|blocked|dead lens=<chain:len,..|->`
* `tick    <cid> now=<ns> res=.. lens=..`
* `drain   <cid> chain=<c> n=<k> got=<chain32:txhex;..|-> lens=..`
* `setchan <cid> chain=<c> cap=<k> lens=..`      `delchan <cid> chain=<c> lens=..`
* `end     <cid> res=ok|panic|running`
* `post    <id> cap=<k> fill=<j> res=ok|full|blocked|panic len=<n>`

Per session the driver replays the model (`Whv.Reobserve.step` with the extracted window) and compares every queue
length and every drained item (`diff`), and evaluates the property on what the implementation itself did (`spec`),
from a ghost record built ONLY from the implementation's observable behaviour (queue length changes, drained
items, the clock readings in the lines) — it never looks at the model's cache.
-/
namespace Whv.Driver.ReobserveFam
open Whv Whv.Driver Whv.Reobserve

def W : Nat := Whv.Gen.C17.windowNs

def parsePairs (s : String) : Option (List (Nat × Nat)) :=
  if s = "-" then some [] else
  (s.splitOn ",").mapM fun e =>
    match e.splitOn ":" with
    | [a, b] => do let a ← a.toNat?; let b ← b.toNat?; pure (a, b)
    | _ => none

def parseItems (s : String) : Option (List Req) :=
  if s = "-" then some [] else
  (s.splitOn ";").mapM fun e =>
    match e.splitOn ":" with
    | [a, b] => do let a ← a.toNat?; let b ← parseHexD b; pure ⟨a, b⟩
    | _ => none

def showReq (r : Req) : String := s!"{r.chain}:{hexOrDash r.tx}"

def showLens (l : List (Nat × Nat)) : String :=
  if l.isEmpty then "-" else ",".intercalate (l.map fun (a, b) => s!"{a}:{b}")

def insertSorted (k : Nat) (v : α) : List (Nat × α) → List (Nat × α)
  | [] => [(k, v)]
  | (a, b) :: l => if k < a then (k, v) :: (a, b) :: l else if k = a then (k, v) :: l else (a, b) :: insertSorted k v l

def sortByChain (l : List (Nat × α)) : List (Nat × α) := l.foldl (fun acc (k, v) => insertSorted k v acc) []

def modelLens (s : State) : List (Nat × Nat) := sortByChain (s.chans.map fun (c, q) => (c, q.items.length))

/-- What the implementation is known to have done for one key (ghost, from observations only). -/
structure KeyInfo where
  lastFwd : Option Nat := none    -- time of the last forward the implementation made
  purgeable : Bool := false       -- a tick later than lastFwd + W has been handled since
  dropped : Bool := false         -- since then a request for it was dropped for lack of a watcher / room

structure Sess where
  cid : String := ""
  active : Bool := false
  model : State := {}
  caps : List (Nat × Nat) := []            -- ghost: watcher capacities (from reset / setchan lines)
  lens : List (Nat × Nat) := []            -- ghost: last queue lengths the implementation reported
  gq : List (Nat × List Req) := []         -- ghost: what the implementation forwarded and was not yet drained
  keys : List (Key × KeyInfo) := []
  spec : Option String := none
  diff : Option String := none
  ended : Bool := false

structure St where
  s : Sess := {}
  sessions : Nat := 0
  reqs : Nat := 0
  forwards : Nat := 0
  duplicates : Nat := 0
  fulls : Nat := 0
  unknowns : Nat := 0
  wraps : Nat := 0
  ticks : Nat := 0
  purges : Nat := 0
  reforwards : Nat := 0
  posts : Nat := 0

def Sess.addSpec (s : Sess) (clause text : String) : Sess :=
  if s.spec.isSome then s else { s with spec := some s!"{clause} {text}" }

def Sess.addDiff (s : Sess) (text : String) : Sess :=
  if s.diff.isSome then s else { s with diff := some text }

def Sess.verdict (s : Sess) : List String :=
  if !s.active then [] else
  match s.spec, s.diff with
  | some t, _ => [s!"spec {s.cid} {t}"]
  | none, some t => [s!"diff {s.cid} {t}"]
  | none, none => if s.ended then [s!"ok {s.cid}"] else [s!"diff {s.cid} session has no end line"]

def keyInfo (s : Sess) (k : Key) : KeyInfo := (s.keys.lookup k).getD {}

def setKeyInfo (s : Sess) (k : Key) (i : KeyInfo) : Sess :=
  { s with keys := (k, i) :: s.keys.filter (fun e => e.1 != k) }

/-- compare the implementation's queue lengths with the model's -/
def cmpLens (s : Sess) (what : String) (lens : List (Nat × Nat)) : Sess :=
  let m := modelLens s.model
  if m = lens then s else s.addDiff s!"{what}: queue lengths model={showLens m} impl={showLens lens}"

def stepSess (st : St) (op : String) (rest : List String) : St :=
  let s := st.s
  match op with
  | "req" =>
    match kvNat rest "now", kvNat rest "chain", kvHex rest "tx", kv rest "res", kv rest "lens" >>= parsePairs with
    | some now, some chain, some tx, some res, some lens =>
      let r : Req := ⟨chain, tx⟩
      let named := chain % 65536
      let st := { st with reqs := st.reqs + 1, wraps := st.wraps + (if chain ≥ 65536 then 1 else 0) }
      if res = "blocked" then { st with s := s.addSpec "dispatcher-blocked" s!"the dispatcher did not take request {showReq r} at now={now} within the timeout" }
      else if res ≠ "ok" then { st with s := s.addSpec "dispatcher-died" s!"the dispatcher loop ended while handling request {showReq r} at now={now}" }
      else
      -- ---------- Spec on the implementation's own behaviour
      let wrong := lens.filter fun (c, n) => c ≠ named && (s.lens.lookup c) != some n
      let before := (s.lens.lookup named).getD 0
      let after := (lens.lookup named).getD 0
      let fwd := after = before + 1
      let known := (s.caps.lookup named).isSome
      let room := decide (before < (s.caps.lookup named).getD 0)
      let ki := keyInfo s r.key
      let s :=
        if !wrong.isEmpty then s.addSpec "forwarded-to-wrong-chain" s!"request {showReq r} changed the queue of chain(s) {showLens wrong}; before {showLens s.lens}"
        else if lens.map (·.1) ≠ s.lens.map (·.1) then s.addDiff s!"watcher set changed during a request: {showLens s.lens} -> {showLens lens}"
        else if after ≠ before ∧ !fwd then s.addSpec "forwarded-more-than-once" s!"request {showReq r}: queue of chain {named} went {before} -> {after}"
        else if fwd then
          match ki.lastFwd with
          | some t0 =>
            if now ≤ t0 + W then s.addSpec "duplicate-within-window" s!"{showReq r} forwarded at {t0} and again at {now} ({now - t0} ns later, window {W} ns)"
            else s
          | none => s
        else if known && room then
          match ki.lastFwd, ki.purgeable, ki.dropped with
          | some _, false, _ => s    -- suppressed: remembered and not yet purgeable
          | _, _, true => s.addSpec "dropped-request-remembered" s!"{showReq r} at now={now} not forwarded although its watcher has room ({before}/{(s.caps.lookup named).getD 0}): only a DROPPED request for it preceded (last forward {ki.lastFwd}, purge tick since: {ki.purgeable})"
          | none, _, false => s.addSpec "first-request-not-forwarded" s!"{showReq r} at now={now}: never forwarded before, watcher of chain {named} has room ({before}/{(s.caps.lookup named).getD 0}), yet nothing was sent"
          | some t0, true, false => s.addSpec "not-forwarded-after-window" s!"{showReq r} at now={now}: forwarded at {t0}, a purge tick later than {t0}+{W} was handled since, watcher has room, yet nothing was sent"
        else s
      -- ---------- ghost update (from the implementation's behaviour)
      let s :=
        if fwd then
          let q := (s.gq.lookup named).getD []
          let s := { s with gq := (named, q ++ [r]) :: s.gq.filter (fun e => e.1 != named) }
          setKeyInfo s r.key { lastFwd := some now, purgeable := false, dropped := false }
        else if !(known && room) && (ki.lastFwd.isNone || ki.purgeable) then setKeyInfo s r.key { ki with dropped := true }
        else s
      -- ---------- model
      let (m', o) := step W s.model (.req now r)
      let s := { s with model := m', lens := lens }
      let s := cmpLens s s!"req {showReq r} now={now} (model outcome {repr o})" lens
      let st := match o with
        | some (.forwarded _) => { st with forwards := st.forwards + 1, reforwards := st.reforwards + (if ki.lastFwd.isSome then 1 else 0) }
        | some .duplicate => { st with duplicates := st.duplicates + 1 }
        | some .full => { st with fulls := st.fulls + 1 }
        | some .unknown => { st with unknowns := st.unknowns + 1 }
        | none => st
      { st with s := s }
    | _, _, _, _, _ => { st with s := s.addDiff "unparsable req line" }
  | "tick" =>
    match kvNat rest "now", kv rest "res", kv rest "lens" >>= parsePairs with
    | some now, some res, some lens =>
      if res = "blocked" then { st with s := s.addSpec "dispatcher-blocked" s!"the dispatcher did not take the purge tick at now={now} within the timeout" }
      else if res ≠ "ok" then { st with s := s.addSpec "dispatcher-died" s!"the dispatcher loop ended while handling the tick at now={now}" }
      else
      let s := if lens ≠ s.lens then s.addSpec "forwarded-to-wrong-chain" s!"a purge tick changed watcher queues: {showLens s.lens} -> {showLens lens}" else s
      let s := { s with keys := s.keys.map fun ((k, i) : Key × KeyInfo) =>
        match i.lastFwd with
        | some t0 => if now > t0 + W then (k, { i with purgeable := true }) else (k, i)
        | none => (k, i) }
      let (m', _) := step W s.model (.tick now)
      let purged := s.model.cache.length - m'.cache.length
      let s := { s with model := m', lens := lens }
      { st with s := cmpLens s s!"tick now={now}" lens, ticks := st.ticks + 1, purges := st.purges + purged }
    | _, _, _ => { st with s := s.addDiff "unparsable tick line" }
  | "drain" =>
    match kvNat rest "chain", kvNat rest "n", kv rest "got" >>= parseItems, kv rest "lens" >>= parsePairs with
    | some ch, some n, some got, some lens =>
      let gqc := (s.gq.lookup ch).getD []
      let s := if got ≠ gqc.take n then
          s.addSpec "forwarded-message-altered" s!"watcher of chain {ch} received [{";".intercalate (got.map showReq)}] but the dispatcher had accepted [{";".intercalate ((gqc.take n).map showReq)}] for it"
        else s
      let s := { s with gq := (ch, gqc.drop n) :: s.gq.filter (fun e => e.1 != ch) }
      let mq : List Req := ((s.model.chans.lookup ch).map (fun (q : Chan) => q.items)).getD []
      let s := if got ≠ mq.take n then s.addDiff s!"drain chain {ch}: model=[{";".intercalate ((mq.take n).map showReq)}] impl=[{";".intercalate (got.map showReq)}]" else s
      let (m', _) := step W s.model (.drain ch n)
      let s := { s with model := m', lens := lens }
      { st with s := cmpLens s s!"drain chain {ch}" lens }
    | _, _, _, _ => { st with s := s.addDiff "unparsable drain line" }
  | "setchan" =>
    match kvNat rest "chain", kvNat rest "cap", kv rest "lens" >>= parsePairs with
    | some ch, some cap, some lens =>
      let s := { s with caps := (ch, cap) :: s.caps.filter (fun e => e.1 != ch), gq := s.gq.filter (fun e => e.1 != ch) }
      let (m', _) := step W s.model (.setchan ch cap)
      let s := { s with model := m', lens := lens }
      { st with s := cmpLens s s!"setchan {ch}" lens }
    | _, _, _ => { st with s := s.addDiff "unparsable setchan line" }
  | "delchan" =>
    match kvNat rest "chain", kv rest "lens" >>= parsePairs with
    | some ch, some lens =>
      let s := { s with caps := s.caps.filter (fun e => e.1 != ch), gq := s.gq.filter (fun e => e.1 != ch) }
      let (m', _) := step W s.model (.delchan ch)
      let s := { s with model := m', lens := lens }
      { st with s := cmpLens s s!"delchan {ch}" lens }
    | _, _ => { st with s := s.addDiff "unparsable delchan line" }
  | "end" =>
    let s := { s with ended := true }
    match kv rest "res" with
    | some "ok" => { st with s := s }
    | some "panic" => { st with s := s.addSpec "dispatcher-died" "the dispatcher loop panicked during the session" }
    | some r => { st with s := s.addDiff s!"the dispatcher loop did not return after its context was cancelled ({r})" }
    | none => { st with s := s.addDiff "unparsable end line" }
  | _ => { st with s := s.addDiff s!"unknown op {op}" }

def step (st : St) (line : String) : St × List String :=
  let fs := fields line
  match fs with
  | "reset" :: cid :: rest =>
    let outs := st.s.verdict
    match kv rest "tick", kv rest "chans" >>= parsePairs with
    | some tick, some chans =>
      let s : Sess := { cid := cid, active := true,
                        model := { cache := [], chans := chans.map fun (c, k) => (c, ({ cap := k, items := [] } : Chan)) },
                        caps := chans, lens := chans.map fun (c, _) => (c, 0) }
      let s := if tick = toString Whv.Gen.C17.tickNs then s
               else s.addDiff s!"purge ticker period: the loop asked clock.Ticker for {tick} ns, the extracted constant is {Whv.Gen.C17.tickNs} ns"
      ({ st with s := s, sessions := st.sessions + 1 }, outs)
    | _, _ => ({ st with s := { cid := cid, active := true, diff := some "unparsable reset line" } }, outs)
  | "post" :: id :: rest =>
    let outs := st.s.verdict
    let st := { st with s := {}, posts := st.posts + 1 }
    match kvNat rest "cap", kvNat rest "fill", kv rest "res", kvNat rest "len" with
    | some cap, some fill, some res, some len =>
      let q : Chan := { cap := cap, items := List.replicate fill ⟨0, []⟩ }
      let (q', ok) := post q ⟨1, [1]⟩
      let v :=
        if res = "blocked" then s!"spec {id} post-blocked PostObservationRequest did not return on a queue holding {fill} of {cap}"
        else if res = "panic" then s!"spec {id} post-panic PostObservationRequest panicked on a queue holding {fill} of {cap}"
        else if fill ≥ cap ∧ (res ≠ "full" ∨ len ≠ fill) then s!"spec {id} post-full-not-rejected queue holding {fill} of {cap}: result {res}, length afterwards {len}"
        else if fill < cap ∧ (res ≠ "ok" ∨ len ≠ fill + 1) then s!"spec {id} post-room-rejected queue holding {fill} of {cap}: result {res}, length afterwards {len}"
        else if (res = "ok") ≠ ok ∨ q'.items.length ≠ len then s!"diff {id} post model=({ok},{q'.items.length}) impl=({res},{len})"
        else s!"ok {id}"
      (st, outs ++ [v])
    | _, _, _, _ => (st, outs ++ [s!"diff {id} unparsable post line"])
  | op :: cid :: rest =>
    if st.s.active && st.s.cid = cid then (stepSess st op rest, [])
    else (st, [s!"diff {cid} line outside a session: {line.take 80}"])
  | _ => (st, [])

def fin (st : St) : List String :=
  st.s.verdict ++
  [s!"stat sessions {st.sessions}", s!"stat requests {st.reqs}", s!"stat forwarded {st.forwards}", s!"stat reforwarded_after_window {st.reforwards}",
   s!"stat duplicates {st.duplicates}", s!"stat dropped_full {st.fulls}", s!"stat dropped_unknown {st.unknowns}",
   s!"stat chain_id_above_16_bits {st.wraps}", s!"stat ticks {st.ticks}", s!"stat purged_entries {st.purges}", s!"stat posts {st.posts}"]

def run (h : IO.FS.Stream) : IO Unit := loop h ({} : St) step fin

end Whv.Driver.ReobserveFam
