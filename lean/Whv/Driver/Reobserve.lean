import Whv.Driver.Util
import Whv.Model.Reobserve
import Whv.Gen.C17
/-!
Driver family `reobserve` (C17).  One session (= one case id) is a `reset` line followed by operations on the REAL
`handleReobservationRequests` loop; `post` lines are single-line cases for `common.PostObservationRequest`.

* `reset   <cid> tick=<ns|none|many> chans=<chain:cap,..|-> [sfx=<hex>]`
* `req     <cid> now=<ns> chain=<u32> tx=<hex|-> res=ok|blocked|dead lens=<chain:len,..|->`
* `tick    <cid> now=<ns> res=.. lens=..`
* `drain   <cid> chain=<c> n=<k> got=<chain32:txhex;..|-> lens=..`
* `setchan <cid> chain=<c> cap=<k> lens=..`      `delchan <cid> chain=<c> lens=..`
* `adv     <cid> now=<ns> lens=..`                 (the clock moves on, no dispatcher event)
* `burst   <cid> now=<ns> dt=<ns> chain=<u32> from=<i> n=<k> d=<k digits> lens=<after the last>`  — an abbreviation of `k`
  `req` lines (scale sessions): request `j` at `now + j*dt` for the transaction `le32(from+j) ++ sfx` (`sfx` from the
  session's `reset` line), `res=ok`, the queue of chain `chain mod 2^16` grew by `d[j]` while it was handled and no other
  queue changed.  The driver expands the line and handles every request exactly like a `req` line.
* `rdrain  <cid> chain=<c> n=<k> got=<e;..|-> lens=..`  — a `drain` line whose items are abbreviated: `e` is
  `<chain32>:<from>+<cnt>` (`cnt` items `chain32 : le32(from+j) ++ sfx`) or `<chain32>=<txhex|->`.
* `end     <cid> res=ok|panic|running`
* `post    <id> cap=<k> fill=<j> res=ok|full|blocked|panic len=<n>`
* `adminpost <id> cap=<k> fill=<j> ctx=bg|deadline res=ok|full|err|blocked|panic len=<n> last=same|altered|missing|- prefix=ok|changed`

Per session the driver replays the model (`Whv.Reobserve.step` with the extracted window) and compares every queue
length and every drained item (`diff`), and evaluates the property on what the implementation itself did (`spec`),
from a ghost record built ONLY from the implementation's observable behaviour (queue length changes, drained
items, the clock readings in the lines) — it never looks at the model's cache.

Everything that arrives on a watcher queue is accounted for over the whole session: a queue that grows although no
request of the session was forwarded to it then (during a clock advance, a tick, a drain, a request for another
chain) gets a `stray` placeholder in the ghost queue; when the item is drained it is identified — a request that had
been dropped earlier (`dropped-request-delivered-later`), something nobody asked for (`unrequested-delivery`) — and it
counts as a delivery of its (chain, transaction) for the at-most-once clause (`duplicate-within-window`).
A session reports every clause it violates (one `spec` line per clause).
-/
namespace Whv.Driver.ReobserveFam
open Whv Whv.Driver Whv.Reobserve

def W : Nat := Whv.Gen.C17.windowNs

def parsePairs (s : String) : Option (List (Nat × Nat)) :=
  if s = "-" then some [] else
  (s.splitOn ",").mapM fun e =>
    match e.splitOn ":" with
    | [a, b] => do let a ← a.toNat?; let b ← b.toNat?; pure (a, b)
    | _ => none

def parseItems (s : String) : Option (List Req) :=
  if s = "-" then some [] else
  (s.splitOn ";").mapM fun e =>
    match e.splitOn ":" with
    | [a, b] => do let a ← a.toNat?; let b ← parseHexD b; pure ⟨a, b⟩
    | _ => none

def showReq (r : Req) : String := s!"{r.chain}:{hexOrDash r.tx}"

def showLens (l : List (Nat × Nat)) : String :=
  if l.isEmpty then "-" else ",".intercalate (l.map fun (a, b) => s!"{a}:{b}")

def insertSorted (k : Nat) (v : α) : List (Nat × α) → List (Nat × α)
  | [] => [(k, v)]
  | (a, b) :: l => if k < a then (k, v) :: (a, b) :: l else if k = a then (k, v) :: l else (a, b) :: insertSorted k v l

def sortByChain (l : List (Nat × α)) : List (Nat × α) := l.foldl (fun acc (k, v) => insertSorted k v acc) []

def modelLens (s : State) : List (Nat × Nat) := sortByChain (s.chans.map fun (c, q) => (c, q.items.length))

/-- What the implementation is known to have done for one key (ghost, from observations only). -/
structure KeyInfo where
  lastFwd : Option Nat := none    -- time of the last forward the implementation made
  purgeable : Bool := false       -- a tick later than lastFwd + W has been handled since
  dropped : Bool := false         -- since then a request for it was dropped for lack of a watcher / room
  lastStray : Option Nat := none  -- a delivery of this key that no request made happened after this clock reading

/-- One entry of a ghost watcher queue. -/
inductive GItem where
  | fwd (r : Req)               -- put there by a request of the session (the queue grew by one while it was handled)
  | stray (lo hi : Nat)         -- arrived between the clock readings `lo` and `hi` while nothing was being forwarded to this queue
deriving Repr

def showG : GItem → String
  | .fwd r => showReq r
  | .stray lo hi => s!"<arrived unrequested between {lo} and {hi}>"

structure Sess where
  cid : String := ""
  active : Bool := false
  model : State := {}
  caps : List (Nat × Nat) := []            -- ghost: watcher capacities (from reset / setchan lines)
  lens : List (Nat × Nat) := []            -- ghost: last queue lengths the implementation reported
  gq : List (Nat × List GItem) := []       -- ghost: what arrived on each watcher queue and was not yet drained
  keys : List (Key × KeyInfo) := []
  clock : Nat := 0                         -- ghost: the last clock reading of the session
  dropped : List (Nat × Req × Nat) := []   -- ghost: (named chain, request, time) of requests dropped for lack of room / a watcher
  specs : List (String × String) := []     -- violated clauses (first text per clause), in order
  diff : Option String := none
  ended : Bool := false
  sfx : Bytes := []                        -- scale sessions: what all transactions of the session share (from the reset line)

structure St where
  s : Sess := {}
  sessions : Nat := 0
  reqs : Nat := 0
  forwards : Nat := 0
  duplicates : Nat := 0
  fulls : Nat := 0
  unknowns : Nat := 0
  wraps : Nat := 0
  ticks : Nat := 0
  purges : Nat := 0
  reforwards : Nat := 0
  posts : Nat := 0
  adminPosts : Nat := 0
  adminFull : Nat := 0
  advances : Nat := 0
  bursts : Nat := 0
  burstReqs : Nat := 0

def Sess.addSpec (s : Sess) (clause text : String) : Sess :=
  if s.specs.any (·.1 == clause) then s else { s with specs := s.specs ++ [(clause, text)] }

def Sess.addDiff (s : Sess) (text : String) : Sess :=
  if s.diff.isSome then s else { s with diff := some text }

def Sess.verdict (s : Sess) : List String :=
  if !s.active then [] else
  match s.specs, s.diff with
  | _ :: _, _ => s.specs.map fun (c, t) => s!"spec {s.cid} {c} {t}"
  | [], some t => [s!"diff {s.cid} {t}"]
  | [], none => if s.ended then [s!"ok {s.cid}"] else [s!"diff {s.cid} session has no end line"]

def keyInfo (s : Sess) (k : Key) : KeyInfo := (s.keys.lookup k).getD {}

/-- the newest entry of a key is the first one (`keyInfo` looks no further); older ones are shadowed -/
def setKeyInfo (s : Sess) (k : Key) (i : KeyInfo) : Sess :=
  { s with keys := (k, i) :: s.keys }

/-- compare the implementation's queue lengths with the model's -/
def cmpLens (s : Sess) (what : String) (lens : List (Nat × Nat)) : Sess :=
  let m := modelLens s.model
  if m = lens then s else s.addDiff s!"{what}: queue lengths model={showLens m} impl={showLens lens}"

def pending (s : Sess) (c : Nat) : Bool := s.dropped.any fun d => d.1 == c

def showDropped (s : Sess) (c : Nat) : String :=
  ";".intercalate ((s.dropped.filter fun d => d.1 == c).map fun (_, r, t) => s!"{showReq r}@{t}")

/-- Queues that hold more than `expected` says: nothing was being forwarded to them, so what arrived was not forwarded
by a request of the session.  A placeholder per surplus item goes into the ghost queue (identified when drained).
The clause: `dropped-request-delivered-later` when requests for that chain were dropped earlier in the session,
otherwise `other` (the clause the op reported for this before strays were tracked). -/
def noteStrays (s : Sess) (what : String) (hi : Nat) (expected lens : List (Nat × Nat)) (other : String) : Sess :=
  lens.foldl (fun s (c, n) =>
    match expected.lookup c with
    | some e =>
      if n > e then
        let q := (s.gq.lookup c).getD []
        let s := { s with gq := (c, q ++ List.replicate (n - e) (GItem.stray s.clock hi)) :: s.gq.filter (fun x => x.1 != c) }
        if pending s c then
          s.addSpec "dropped-request-delivered-later" s!"the queue of the watcher of chain {c} grew {e} -> {n} during {what} (clock {s.clock} .. {hi}) although no request of the session was forwarded to it then; requests for chain {c} dropped earlier in the session (full queue / no watcher), which are to be forgotten: {showDropped s c}"
        else
          s.addSpec other s!"the queue of the watcher of chain {c} grew {e} -> {n} during {what} (clock {s.clock} .. {hi}) although no request of the session was forwarded to it then"
      else s
    | none => s) s

/-- A drained item that stands where a stray arrival was noted: who is it? -/
def identifyStray (s : Sess) (ch : Nat) (g : Req) (lo hi : Nat) : Sess :=
  let s := match s.dropped.find? (fun d => d.1 == ch && d.2.1 == g) with
    | some (_, _, td) => s.addSpec "dropped-request-delivered-later" s!"the watcher of chain {ch} received {showReq g} between clock {lo} and {hi} although no request of the session was forwarded then: {showReq g} had been DROPPED at now={td} (watcher queue full / no watcher) and a dropped request is not to be remembered"
    | none => s.addSpec "unrequested-delivery" s!"the watcher of chain {ch} received {showReq g} between clock {lo} and {hi}: no request of the session was forwarded then, nor had {showReq g} been requested and dropped before"
  let ki := keyInfo s g.key
  let s := match ki.lastFwd with
    | some t0 =>
      if max hi t0 ≤ min lo t0 + W then
        s.addSpec "duplicate-within-window" s!"{showReq g} was forwarded at {t0} and reached the watcher of chain {ch} a second time between clock {lo} and {hi} (window {W} ns) - deliveries of the whole session counted"
      else s
    | none => s
  let s := match ki.lastStray with
    | some a =>
      if hi ≤ a + W then
        s.addSpec "duplicate-within-window" s!"{showReq g} reached the watcher of chain {ch} after clock {a} and again between clock {lo} and {hi} (window {W} ns) - deliveries of the whole session counted"
      else s
    | none => s
  setKeyInfo s g.key { ki with lastStray := some lo }

/-- Compare what a watcher took from its queue with the ghost queue. -/
def matchDrain (s : Sess) (ch : Nat) (got : List Req) (exp : List GItem) : Sess :=
  let same := got.length = exp.length && (got.zip exp).all fun (g, e) =>
    match e with
    | .fwd r => g == r
    | .stray _ _ => true
  -- a request that had been dropped, sitting where something else (or nothing) was accepted: delivered after all
  let intruder := (got.zip (exp.map some ++ List.replicate got.length none)).find? fun (g, e) =>
    (match e with
     | some (.fwd r) => g != r
     | some (.stray _ _) => false
     | none => true) && s.dropped.any (fun d => d.1 == ch && d.2.1 == g)
  let s := if same then s else
    match intruder with
    | some (g, _) =>
      s.addSpec "dropped-request-delivered-later" s!"watcher of chain {ch} received [{";".intercalate (got.map showReq)}] where the requests of the session account for [{";".intercalate (exp.map showG)}]: {showReq g} had been DROPPED (requests dropped for chain {ch}: {showDropped s ch}) and reached the watcher later without a request of the session being forwarded for it"
    | none =>
      s.addSpec "forwarded-message-altered" s!"watcher of chain {ch} received [{";".intercalate (got.map showReq)}] but the dispatcher had accepted [{";".intercalate (exp.map showG)}] for it"
  (got.zip exp).foldl (fun s (g, e) =>
    match e with
    | .stray lo hi => identifyStray s ch g lo hi
    | .fwd _ => s) s

/-- One request handled by the dispatcher (a `req` line, or one request of a `burst` line). -/
def reqOp (st : St) (now chain : Nat) (tx : Bytes) (res : String) (lens : List (Nat × Nat)) : St :=
  let s := st.s
  let r : Req := ⟨chain, tx⟩
  let named := chain % 65536
  let st := { st with reqs := st.reqs + 1, wraps := st.wraps + (if chain ≥ 65536 then 1 else 0) }
  if res = "blocked" then { st with s := s.addSpec "dispatcher-blocked" s!"the dispatcher did not take request {showReq r} at now={now} within the timeout" }
  else if res ≠ "ok" then { st with s := s.addSpec "dispatcher-died" s!"the dispatcher loop ended while handling request {showReq r} at now={now}" }
  else
  -- ---------- Spec on the implementation's own behaviour
  let before := (s.lens.lookup named).getD 0
  let after := (lens.lookup named).getD 0
  let fwd := after = before + 1 || (after > before + 1 && pending s named)
  -- arrivals that this request cannot account for, on queues for which requests were dropped earlier
  let expected := s.lens.map fun (c, n) => if c = named && fwd then (c, n + 1) else (c, n)
  let late := lens.filter fun (c, n) => pending s c && n > (expected.lookup c).getD n
  let s := noteStrays s s!"request {showReq r} at now={now}" now (expected.filter fun e => late.any (·.1 == e.1)) lens "unrequested-delivery"
  let wrong := lens.filter fun (c, n) => c ≠ named && (s.lens.lookup c) != some n && !(late.any (·.1 == c))
  let known := (s.caps.lookup named).isSome
  let room := decide (before < (s.caps.lookup named).getD 0)
  let ki := keyInfo s r.key
  let s :=
    if !wrong.isEmpty then s.addSpec "forwarded-to-wrong-chain" s!"request {showReq r} changed the queue of chain(s) {showLens wrong}; before {showLens s.lens}"
    else if lens.map (·.1) ≠ s.lens.map (·.1) then s.addDiff s!"watcher set changed during a request: {showLens s.lens} -> {showLens lens}"
    else if after ≠ before ∧ !fwd then s.addSpec "forwarded-more-than-once" s!"request {showReq r}: queue of chain {named} went {before} -> {after}"
    else if fwd then
      let s := match ki.lastFwd with
        | some t0 =>
          if now ≤ t0 + W then s.addSpec "duplicate-within-window" s!"{showReq r} forwarded at {t0} and again at {now} ({now - t0} ns later, window {W} ns)"
          else s
        | none => s
      match ki.lastStray with
      | some a =>
        if now ≤ a + W then s.addSpec "duplicate-within-window" s!"{showReq r} reached its watcher after clock {a} (a delivery no request made) and was forwarded again at {now} (window {W} ns) - deliveries of the whole session counted"
        else s
      | none => s
    else if known && room then
      match ki.lastFwd, ki.purgeable, ki.dropped with
      | some _, false, _ => s    -- suppressed: remembered and not yet purgeable
      | _, _, true => s.addSpec "dropped-request-remembered" s!"{showReq r} at now={now} not forwarded although its watcher has room ({before}/{(s.caps.lookup named).getD 0}): only a DROPPED request for it preceded (last forward {ki.lastFwd}, purge tick since: {ki.purgeable})"
      | none, _, false => s.addSpec "first-request-not-forwarded" s!"{showReq r} at now={now}: never forwarded before, watcher of chain {named} has room ({before}/{(s.caps.lookup named).getD 0}), yet nothing was sent"
      | some t0, true, false => s.addSpec "not-forwarded-after-window" s!"{showReq r} at now={now}: forwarded at {t0}, a purge tick later than {t0}+{W} was handled since, watcher has room, yet nothing was sent"
    else s
  -- ---------- ghost update (from the implementation's behaviour)
  let s :=
    if fwd then
      let q := (s.gq.lookup named).getD []
      let s := { s with gq := (named, q ++ [GItem.fwd r]) :: s.gq.filter (fun e => e.1 != named) }
      setKeyInfo s r.key { lastFwd := some now, purgeable := false, dropped := false, lastStray := (keyInfo s r.key).lastStray }
    else if !(known && room) && (ki.lastFwd.isNone || ki.purgeable) then
      let s := setKeyInfo s r.key { (keyInfo s r.key) with dropped := true }
      { s with dropped := s.dropped ++ [(named, r, now)] }
    else s
  -- ---------- model
  let (m', o) := step W s.model (.req now r)
  let s := { s with model := m', lens := lens, clock := now }
  let s := cmpLens s s!"req {showReq r} now={now} (model outcome {repr o})" lens
  let st := match o with
    | some (.forwarded _) => { st with forwards := st.forwards + 1, reforwards := st.reforwards + (if ki.lastFwd.isSome then 1 else 0) }
    | some .duplicate => { st with duplicates := st.duplicates + 1 }
    | some .full => { st with fulls := st.fulls + 1 }
    | some .unknown => { st with unknowns := st.unknowns + 1 }
    | none => st
  { st with s := s }

/-- A watcher took up to `n` items from its queue (a `drain` / `rdrain` line). -/
def drainOp (st : St) (ch n : Nat) (got : List Req) (lens : List (Nat × Nat)) : St :=
  let s := st.s
  -- arrivals between the previous line and this drain: the queue held (what was taken + what is left) items when the
  -- watcher took its share; more than the ghost queue knows of = strays, queued behind everything known
  let held := lens.map fun (c, k) => if c = ch then (c, k + got.length) else (c, k)
  let s := noteStrays s s!"a drain of chain {ch}" s.clock s.lens held "unrequested-delivery"
  let gqc := (s.gq.lookup ch).getD []
  let s := matchDrain s ch got (gqc.take n)
  let s := { s with gq := (ch, gqc.drop n) :: s.gq.filter (fun e => e.1 != ch) }
  let mq : List Req := ((s.model.chans.lookup ch).map (fun (q : Chan) => q.items)).getD []
  let s := if got ≠ mq.take n then s.addDiff s!"drain chain {ch}: model=[{";".intercalate ((mq.take n).map showReq)}] impl=[{";".intercalate (got.map showReq)}]" else s
  let (m', _) := step W s.model (.drain ch n)
  let s := { s with model := m', lens := lens }
  { st with s := cmpLens s s!"drain chain {ch}" lens }

/-- 4-byte little-endian counter (transaction `i` of a scale session is `le32 i ++ sfx`). -/
def le32 (i : Nat) : Bytes :=
  [UInt8.ofNat (i % 256), UInt8.ofNat (i / 256 % 256), UInt8.ofNat (i / 65536 % 256), UInt8.ofNat (i / 16777216 % 256)]

/-- items of an `rdrain` line -/
def parseRuns (sfx : Bytes) (s : String) : Option (List Req) :=
  if s = "-" then some [] else
  (s.splitOn ";").foldlM (fun acc e =>
    match e.splitOn "=" with
    | [a, b] => do let a ← a.toNat?; let b ← parseHexD b; pure (acc ++ [(⟨a, b⟩ : Req)])
    | _ =>
      match e.splitOn ":" with
      | [a, b] =>
        match b.splitOn "+" with
        | [f, c] => do
          let a ← a.toNat?; let f ← f.toNat?; let c ← c.toNat?
          pure (acc ++ (List.range c).map fun j => (⟨a, le32 (f + j) ++ sfx⟩ : Req))
        | _ => none
      | _ => none) []

/-- the queue lengths after the named chain's queue grew by `g` -/
def growLens (lens : List (Nat × Nat)) (named g : Nat) : List (Nat × Nat) :=
  lens.map fun (c, n) => if c = named then (c, n + g) else (c, n)

/-- A `burst` line: `ds.length` requests, request `j` at `now + j*dt` for transaction `from + j`, each handled by `reqOp`
with the queue lengths the line stands for. -/
def burstOp (st : St) (now dt chain frm : Nat) (ds : List Nat) : St :=
  (ds.foldl (fun (acc : St × Nat) g =>
    let (st, j) := acc
    (reqOp st (now + j * dt) chain (le32 (frm + j) ++ st.s.sfx) "ok" (growLens st.s.lens (chain % 65536) g), j + 1)) (st, 0)).1

def stepSess (st : St) (op : String) (rest : List String) : St :=
  let s := st.s
  match op with
  | "req" =>
    match kvNat rest "now", kvNat rest "chain", kvHex rest "tx", kv rest "res", kv rest "lens" >>= parsePairs with
    | some now, some chain, some tx, some res, some lens => reqOp st now chain tx res lens
    | _, _, _, _, _ => { st with s := s.addDiff "unparsable req line" }
  | "tick" =>
    match kvNat rest "now", kv rest "res", kv rest "lens" >>= parsePairs with
    | some now, some res, some lens =>
      if res = "blocked" then { st with s := s.addSpec "dispatcher-blocked" s!"the dispatcher did not take the purge tick at now={now} within the timeout" }
      else if res ≠ "ok" then { st with s := s.addSpec "dispatcher-died" s!"the dispatcher loop ended while handling the tick at now={now}" }
      else
      let late := lens.filter fun (c, n) => pending s c && n > (s.lens.lookup c).getD n
      let s := if !late.isEmpty then noteStrays s s!"the purge tick at now={now}" now s.lens lens "forwarded-to-wrong-chain"
        else if lens ≠ s.lens then s.addSpec "forwarded-to-wrong-chain" s!"a purge tick changed watcher queues: {showLens s.lens} -> {showLens lens}" else s
      let s := { s with keys := s.keys.map fun ((k, i) : Key × KeyInfo) =>
        match i.lastFwd with
        | some t0 => if now > t0 + W then (k, { i with purgeable := true }) else (k, i)
        | none => (k, i) }
      let (m', _) := step W s.model (.tick now)
      let purged := s.model.cache.length - m'.cache.length
      let s := { s with model := m', lens := lens, clock := now }
      { st with s := cmpLens s s!"tick now={now}" lens, ticks := st.ticks + 1, purges := st.purges + purged }
    | _, _, _ => { st with s := s.addDiff "unparsable tick line" }
  | "drain" =>
    match kvNat rest "chain", kvNat rest "n", kv rest "got" >>= parseItems, kv rest "lens" >>= parsePairs with
    | some ch, some n, some got, some lens => drainOp st ch n got lens
    | _, _, _, _ => { st with s := s.addDiff "unparsable drain line" }
  | "rdrain" =>
    match kvNat rest "chain", kvNat rest "n", kv rest "got" >>= parseRuns s.sfx, kv rest "lens" >>= parsePairs with
    | some ch, some n, some got, some lens => drainOp st ch n got lens
    | _, _, _, _ => { st with s := s.addDiff "unparsable rdrain line" }
  | "burst" =>
    match kvNat rest "now", kvNat rest "dt", kvNat rest "chain", kvNat rest "from", kvNat rest "n", kv rest "d", kv rest "lens" >>= parsePairs with
    | some now, some dt, some chain, some frm, some n, some d, some lens =>
      let ds := d.toList.map fun c => c.toNat - 48
      if ds.length ≠ n ∨ d.toList.any (fun c => !c.isDigit) then { st with s := s.addDiff "burst line: d does not have n digits" }
      else
        let st := burstOp { st with bursts := st.bursts + 1, burstReqs := st.burstReqs + n } now dt chain frm ds
        if st.s.lens = lens then st
        else { st with s := st.s.addDiff s!"burst line: the queue lengths it ends with ({showLens lens}) are not those its digits add up to ({showLens st.s.lens})" }
    | _, _, _, _, _, _, _ => { st with s := s.addDiff "unparsable burst line" }
  | "setchan" =>
    match kvNat rest "chain", kvNat rest "cap", kv rest "lens" >>= parsePairs with
    | some ch, some cap, some lens =>
      let s := { s with caps := (ch, cap) :: s.caps.filter (fun e => e.1 != ch), gq := s.gq.filter (fun e => e.1 != ch) }
      let (m', _) := step W s.model (.setchan ch cap)
      let s := { s with model := m', lens := lens }
      { st with s := cmpLens s s!"setchan {ch}" lens }
    | _, _, _ => { st with s := s.addDiff "unparsable setchan line" }
  | "delchan" =>
    match kvNat rest "chain", kv rest "lens" >>= parsePairs with
    | some ch, some lens =>
      let s := { s with caps := s.caps.filter (fun e => e.1 != ch), gq := s.gq.filter (fun e => e.1 != ch) }
      let (m', _) := step W s.model (.delchan ch)
      let s := { s with model := m', lens := lens }
      { st with s := cmpLens s s!"delchan {ch}" lens }
    | _, _ => { st with s := s.addDiff "unparsable delchan line" }
  | "adv" =>
    match kvNat rest "now", kv rest "lens" >>= parsePairs with
    | some now, some lens =>
      let s := noteStrays s s!"a clock advance to now={now} (no request, no tick)" now s.lens lens "unrequested-delivery"
      let (m', _) := step W s.model (.advance now)
      let s := { s with model := m', lens := lens, clock := now }
      { st with s := cmpLens s s!"adv now={now}" lens, advances := st.advances + 1 }
    | _, _ => { st with s := s.addDiff "unparsable adv line" }
  | "end" =>
    let s := { s with ended := true }
    match kv rest "res" with
    | some "ok" => { st with s := s }
    | some "panic" => { st with s := s.addSpec "dispatcher-died" "the dispatcher loop panicked during the session" }
    | some r => { st with s := s.addDiff s!"the dispatcher loop did not return after its context was cancelled ({r})" }
    | none => { st with s := s.addDiff "unparsable end line" }
  | _ => { st with s := s.addDiff s!"unknown op {op}" }

def step (st : St) (line : String) : St × List String :=
  let fs := fields line
  match fs with
  | "reset" :: cid :: rest =>
    let outs := st.s.verdict
    match kv rest "tick", kv rest "chans" >>= parsePairs with
    | some tick, some chans =>
      let s : Sess := { cid := cid, active := true,
                        model := { cache := [], chans := chans.map fun (c, k) => (c, ({ cap := k, items := [] } : Chan)) },
                        caps := chans, lens := chans.map fun (c, _) => (c, 0), sfx := (kvHex rest "sfx").getD [] }
      let s := if tick = toString Whv.Gen.C17.tickNs then s
               else s.addDiff s!"purge ticker period: the loop asked clock.Ticker for {tick} ns, the extracted constant is {Whv.Gen.C17.tickNs} ns"
      ({ st with s := s, sessions := st.sessions + 1 }, outs)
    | _, _ => ({ st with s := { cid := cid, active := true, diff := some "unparsable reset line" } }, outs)
  | "post" :: id :: rest =>
    let outs := st.s.verdict
    let st := { st with s := {}, posts := st.posts + 1 }
    match kvNat rest "cap", kvNat rest "fill", kv rest "res", kvNat rest "len" with
    | some cap, some fill, some res, some len =>
      let q : Chan := { cap := cap, items := List.replicate fill ⟨0, []⟩ }
      let (q', ok) := post q ⟨1, [1]⟩
      let v :=
        if res = "blocked" then s!"spec {id} post-blocked PostObservationRequest did not return on a queue holding {fill} of {cap}"
        else if res = "panic" then s!"spec {id} post-panic PostObservationRequest panicked on a queue holding {fill} of {cap}"
        else if fill ≥ cap ∧ (res ≠ "full" ∨ len ≠ fill) then s!"spec {id} post-full-not-rejected queue holding {fill} of {cap}: result {res}, length afterwards {len}"
        else if fill < cap ∧ (res ≠ "ok" ∨ len ≠ fill + 1) then s!"spec {id} post-room-rejected queue holding {fill} of {cap}: result {res}, length afterwards {len}"
        else if (res = "ok") ≠ ok ∨ q'.items.length ≠ len then s!"diff {id} post model=({ok},{q'.items.length}) impl=({res},{len})"
        else s!"ok {id}"
      (st, outs ++ [v])
    | _, _, _, _ => (st, outs ++ [s!"diff {id} unparsable post line"])
  | "adminpost" :: id :: rest =>
    let outs := st.s.verdict
    let st := { st with s := {}, adminPosts := st.adminPosts + 1 }
    match kvNat rest "cap", kvNat rest "fill", kv rest "ctx", kv rest "res", kvNat rest "len", kv rest "last", kv rest "prefix" with
    | some cap, some fill, some ctx, some res, some len, some last, some pre =>
      let q : Chan := { cap := cap, items := List.replicate fill ⟨0, []⟩ }
      let (q', ok) := adminSend q ⟨1, [1]⟩
      let caller := if ctx = "bg" then "a context without deadline" else "a context with a deadline far beyond the harness timeout"
      let st := if fill ≥ cap then { st with adminFull := st.adminFull + 1 } else st
      let v :=
        if res = "blocked" then
          if fill ≥ cap then s!"spec {id} admin-post-blocked SendObservationRequest (caller with {caller}) had not returned within the harness timeout on a FULL outbound request queue ({fill} of {cap}): the post stalls its caller instead of failing immediately"
          else s!"spec {id} admin-post-blocked SendObservationRequest (caller with {caller}) had not returned within the harness timeout on an outbound request queue holding {fill} of {cap}"
        else if res = "panic" then s!"spec {id} admin-post-panic SendObservationRequest panicked on a queue holding {fill} of {cap}"
        else if fill ≥ cap ∧ (res = "ok" ∨ len ≠ fill ∨ pre ≠ "ok") then s!"spec {id} admin-post-full-not-rejected SendObservationRequest on a full queue ({fill} of {cap}): result {res}, length afterwards {len}, earlier entries {pre}"
        else if fill < cap ∧ (res ≠ "ok" ∨ len ≠ fill + 1) then s!"spec {id} admin-post-room-rejected SendObservationRequest on a queue holding {fill} of {cap}: result {res}, length afterwards {len}"
        else if fill < cap ∧ (last = "altered" ∨ last = "missing" ∨ pre ≠ "ok") then s!"spec {id} admin-post-request-altered SendObservationRequest on a queue holding {fill} of {cap} returned success but the last entry of the queue is not the caller's request unchanged (last={last}, earlier entries {pre})"
        else if (res = "ok") ≠ ok ∨ q'.items.length ≠ len then s!"diff {id} adminpost model=({ok},{q'.items.length}) impl=({res},{len})"
        else s!"ok {id}"
      (st, outs ++ [v])
    | _, _, _, _, _, _, _ => (st, outs ++ [s!"diff {id} unparsable adminpost line"])
  | op :: cid :: rest =>
    if st.s.active && st.s.cid = cid then (stepSess st op rest, [])
    else (st, [s!"diff {cid} line outside a session: {line.take 80}"])
  | _ => (st, [])

def fin (st : St) : List String :=
  st.s.verdict ++
  [s!"stat sessions {st.sessions}", s!"stat requests {st.reqs}", s!"stat forwarded {st.forwards}", s!"stat reforwarded_after_window {st.reforwards}",
   s!"stat duplicates {st.duplicates}", s!"stat dropped_full {st.fulls}", s!"stat dropped_unknown {st.unknowns}",
   s!"stat chain_id_above_16_bits {st.wraps}", s!"stat ticks {st.ticks}", s!"stat purged_entries {st.purges}", s!"stat posts {st.posts}",
   s!"stat admin_posts {st.adminPosts}", s!"stat admin_posts_on_full_queue {st.adminFull}", s!"stat clock_advances {st.advances}",
   s!"stat burst_lines {st.bursts}", s!"stat requests_in_burst_lines {st.burstReqs}"]

def run (h : IO.FS.Stream) : IO Unit := loop h ({} : St) step fin

end Whv.Driver.ReobserveFam
