import Whv.Driver.Util
import Whv.Model.AlphWatch
/-!
Driver family `alphwatch` (C08, C09).  Case lines are written by `harness/alephium/*_verif_test.go`:

* `conf`, `dur`, `hconf`, `tinfo`, `hunconf`, `reobs` — one line per case (direct calls / one re-observation request);
* `winit` / `wbatch` / `wtick` / `wheight` / `wskip` — one watcher life (all lines share the case id; the verdict is printed when the next case starts);
  `wrestart` (the loops are started again on the same `Watcher` value), `wti` (the token contracts answer differently from now on)
  and `wreobs` (a re-observation request served by the life's own loop) belong to a life as well.

Every line carries the fake node's answers (oracle tables and the request/answer log).  The driver replays the
model (`Whv/Model/AlphWatch.lean`), compares full observable results, and evaluates the Spec — the words of the
C08 / C09 statements — on the *implementation's* results.  Spec verdicts take priority over diffs.
-/
namespace Whv.Driver.AlphWatchFam
open Whv Whv.Alph Whv.Driver

/-! ## parsing -/

def parseDec (s : String) : Option Nat :=
  if s.isEmpty || !(s.toList.all Char.isDigit) then none else s.toNat?

def parseInt (s : String) : Option Int :=
  if s.startsWith "-" then (parseDec (s.drop 1).toString).map fun n => -(n : Int)
  else (parseDec s).map fun n => (n : Int)

def kvInt (fs : List String) (k : String) : Option Int := (kv fs k).bind parseInt
def kvB (fs : List String) (k : String) : Option Bool := (kv fs k).map (· == "1")

def splitList (s : String) (sep : String) : List String := if s = "-" then [] else s.splitOn sep

def parseMsg (s : String) : Option Msg :=
  match s.splitOn "." with
  | [sender, tc, nonce, seq, cl, pl] => do
    let sender ← parseHexD sender; let tc ← parseDec tc; let nonce ← parseDec nonce
    let seq ← parseDec seq; let cl ← parseDec cl; let pl ← parseHexD pl
    pure { sender := sender, targetChain := tc, nonce := nonce, seq := seq, cl := cl, payload := pl }
  | _ => none

def parseEv (s : String) : Option Event :=
  match s.splitOn ";" with
  | [id, bh, tx, idx, contract, conv] => do
    let id ← parseDec id; let idx ← parseInt idx
    let conv ← (if conv = "x" then some none else (parseMsg conv).map some)
    pure { id := id, block := bh, tx := tx, idx := idx, contract := contract, conv := conv }
  | _ => none

def parseEvs (s : String) : Option (List Event) := (splitList s ",").mapM parseEv

def parsePub (s : String) : Option Pub :=
  match s.splitOn "." with
  | [tx, ts, nonce, seq, cl, ec, tc, em, pl] => do
    let ts ← parseInt ts; let nonce ← parseDec nonce; let seq ← parseDec seq; let cl ← parseDec cl
    let ec ← parseDec ec; let tc ← parseDec tc; let em ← parseHexD em; let pl ← parseHexD pl
    pure { tx := tx, ts := ts, nonce := nonce, seq := seq, cl := cl, emitterChain := ec, targetChain := tc, emitter := em, payload := pl }
  | _ => none

def showMsg (m : Msg) : String :=
  s!"{toHex m.sender}.{m.targetChain}.{m.nonce}.{m.seq}.{m.cl}.{hexOrDash m.payload}"

def showPub (p : Pub) : String :=
  s!"{p.tx}.{p.ts}.{p.nonce}.{p.seq}.{p.cl}.{p.emitterChain}.{p.targetChain}.{toHex p.emitter}.{hexOrDash p.payload}"

def showUnconf (u : Unconf) : String := s!"{u.ev.block};{u.ev.tx};{u.ev.idx};{showMsg u.msg}"

def sortStrs (l : List String) : List String := (l.toArray.qsort (· < ·)).toList

/-- token metadata table: token id, contract address, answer -/
abbrev TiTable := List (Bytes × String × String × TiAns)

def parseRet (s : String) : Ret :=
  match s.toList with
  | 'B' :: rest => .bytes (ofHex (String.ofList rest))
  | 'U' :: rest => .u256 (parseDec (String.ofList rest))
  | _ => .other

def parseCall (s : String) : CallRes :=
  if s = "F" then .failed
  else if s = "N" then .neither
  else if s = "S" then .ok []
  else if s.startsWith "S" then .ok (((s.drop 1).toString.splitOn "/").map parseRet)
  else .neither

def parseShape (s : String) : TiAns :=
  if s = "e" || s = "e400" || s = "e404" then .apiErr else if s = "-" then .results [] else .results ((s.splitOn "|").map parseCall)

def parseTi (s : String) : Option TiTable :=
  (splitList s ",").mapM fun e =>
    match e.splitOn ":" with
    | [tok, addr, shape] => do let t ← ofHex tok; pure (t, addr, shape, parseShape shape)
    | _ => none

def tiOracle (tbl : TiTable) (tokenId : Bytes) : TiAns :=
  match tbl.find? (fun e => e.1 == tokenId) with
  | some e => e.2.2.2
  | none => .apiErr

/-- the log entry of the metadata multi-call for `tokenId` (three calls, methods 0,1,2, group = last byte) -/
def tiReq (tbl : TiTable) (tokenId : Bytes) : String :=
  let g := (tokenId.getD 31 0).toNat
  match tbl.find? (fun e => e.1 == tokenId) with
  | some e => s!"ti:{e.2.1}:{g}.0+{g}.1+{g}.2>{e.2.2.1}"
  | none => "ti:?"

/-- metadata requests `handleUnconfirmedEvents` / `getGovernanceEventsByTxId` make for one message -/
def tiReqsOfMsg (tbl : TiTable) (m : Msg) : List String :=
  if isAttest m then
    match parseAttest m.payload with
    | some ti => if ti.tokenId = alphTokenId then [] else [tiReq tbl ti.tokenId]
    | none => []
  else []

def tiReqsOfEvents (tbl : TiTable) (evs : List Event) : List String :=
  evs.flatMap fun e => match toUnconfirmed e with | some u => tiReqsOfMsg tbl u.msg | none => []

structure Tables where
  main : List (String × Option Bool)
  hdr : List (String × Option Header)

def parseMainTbl (s : String) : Option (List (String × Option Bool)) :=
  (splitList s ",").mapM fun e =>
    match e.splitOn ":" with
    | [bh, v] => some (bh, if v = "e" then none else some (v == "1"))
    | _ => none

def parseHdrTbl (s : String) : Option (List (String × Option Header)) :=
  (splitList s ",").mapM fun e =>
    match e.splitOn ":" with
    | [bh, "e"] => some (bh, none)
    | [bh, h, ts] => do let h ← parseInt h; let ts ← parseInt ts; pure (bh, some ⟨h, ts⟩)
    | _ => none

def oracleOf (t : Tables) : Oracle :=
  { main := fun bh => (t.main.lookup bh).join, hdr := fun bh => (t.hdr.lookup bh).join }

/-! ## the statement's conditions, in true (unbounded) arithmetic -/

def inRange (h : Header) : Bool :=
  decide (-2147483648 ≤ h.height ∧ h.height + 255 < 2147483648 ∧ -9223372036854775808 ≤ h.ts ∧ h.ts + 255 * 16000 < 9223372036854775808)

def heightFinal (m : Msg) (h : Header) (height : Int) : Bool := decide (h.height + m.cl ≤ height)

def floorOk (mainnet : Bool) (m : Msg) (h : Header) (now : Int) : Bool :=
  !(mainnet && isTransfer m) || decide (h.ts + (max m.cl 205 : Nat) * 16000 ≤ now)

def count {α} [BEq α] (a : α) (l : List α) : Nat := (l.filter (· == a)).length

/-- first clause (in the order given) that no candidate passes beyond; `none` if some candidate passes all -/
def firstFailing (cands : List (List (String × Bool))) : Option String :=
  let score (c : List (String × Bool)) : Nat := (c.takeWhile (·.2)).length
  match cands with
  | [] => some "unknown"
  | c0 :: _ =>
    let best := cands.foldl (fun b c => if score c > score b then c else b) c0
    (best.find? (fun x => !x.2)).map (·.1)

/-- Which fields of a forwarded publication differ from the closest candidate (same transaction if there is one): the text of
the `…-forwarded-altered` verdicts. -/
def pubDiffs (p q : Pub) : List String :=
  (if p.tx ≠ q.tx then [s!"tx {q.tx} -> {p.tx}"] else []) ++
  (if p.ts ≠ q.ts then [s!"timestamp (ms) {q.ts} -> {p.ts}"] else []) ++
  (if p.nonce ≠ q.nonce then [s!"nonce {q.nonce} -> {p.nonce}"] else []) ++
  (if p.seq ≠ q.seq then [s!"sequence {q.seq} -> {p.seq}"] else []) ++
  (if p.cl ≠ q.cl then [s!"consistencyLevel {q.cl} -> {p.cl}"] else []) ++
  (if p.emitterChain ≠ q.emitterChain then [s!"emitterChain {q.emitterChain} -> {p.emitterChain}"] else []) ++
  (if p.targetChain ≠ q.targetChain then [s!"targetChain {q.targetChain} -> {p.targetChain}"] else []) ++
  (if p.emitter ≠ q.emitter then [s!"emitter {toHex q.emitter} -> {toHex p.emitter}"] else []) ++
  (if p.payload ≠ q.payload then ["payload"] else [])

def describeAltered (ps : String) (cands : List (String × Pub)) : String :=
  match parsePub ps with
  | none => ""
  | some p =>
    let same := cands.filter fun c => c.2.tx == p.tx
    let pool := if same.isEmpty then cands else same
    match pool with
    | [] => ""
    | c0 :: _ =>
      let best := pool.foldl (fun b c => if (pubDiffs p c.2).length < (pubDiffs p b.2).length then c else b) c0
      s!"; closest: {best.1}, of which it differs in {pubDiffs p best.2} (event value -> forwarded value)"

/-- how the Watcher of the case was made: the `ctor=` field -/
def ctorNote (fs : List String) : String :=
  match kv fs "ctor" with
  | some "-" | none => ""
  | some net => s!" [Watcher built by NewAlephiumWatcher from configs/alephium/{net}.json as read by common.ReadConfigsByNetwork(\"{net}\"), isMainnet = {net == "mainnet"}]"

def netNote (fs : List String) : String :=
  match kv fs "net" with
  | some "-" | none => ""
  | some net => s!" [after NewAlephiumWatcher was called with configs/alephium/{net}.json as read by common.ReadConfigsByNetwork(\"{net}\")]"

/-! ## case state -/

structure CaseSt where
  id : String := ""
  active : Bool := false
  cfg : Cfg := { mainnet := false, bridge := [], gov := "" }
  ti : TiTable := []
  st : WState := {}
  specs : List String := []         -- Spec failures "<clause> <text>", the first one of each clause, in order of appearance
  diff : Option String := none      -- first model/implementation difference
  fwdAll : List String := []        -- everything the implementation forwarded so far
  faulted : Bool := false           -- an API error was injected somewhere in this case
  tracked : List (Unconf × Bool) := []  -- delivered events, and whether their block was canonical at every height tick since
  fetch : Bool := false
  hdrs : List (String × Header) := []   -- headers the node has shown for a block hash (a header is a function of the hash)
  implFrom : Option Int := none         -- next unfetched index according to the implementation's own request log
  implFromAlt : Option Int := none      -- after a round that failed and delivered nothing while the watcher carried on: the index the round started at
  note : String := ""                   -- how the Watcher was made (constructor + shipped configuration), for the verdict texts
  implAlive : Bool := true              -- the implementation's loops are running (no line reported exit=1 since the last start)
  lost : List (Unconf × Bool) := []     -- served in a page answer of a round that delivered nothing while the watcher carried on; not delivered since
  reobsFwd : List String := []          -- what re-observation requests of this life handed to the signer
  dipNote : String := ""                -- a count poll of this life answered lower than the next unfetched index (for the verdict texts)
  tiNote : String := ""                 -- a token contract that had answered successfully answers differently now (for the verdict texts)

structure St where
  c : CaseSt := {}
  n : Nat := 0
  nOk : Nat := 0
  fwd : Nat := 0
  ticks : Nat := 0
  heights : Nat := 0
  reobsFwd : Nat := 0
  pages : Nat := 0
  grew : Nat := 0
  restarts : Nat := 0
  wreobs : Nat := 0

/-- Every Spec clause is evaluated on the implementation's own results and the node's answers only (never on the
model's state), so a Spec failure is recorded whether or not the tie broke earlier in the case. -/
def clauseOf (s : String) : String := (s.splitOn " ").headD ""

/-- One verdict line per clause and case: the statements of C08, C09, C11 (and C04, C17) overlap on these cases, each check reports the
clauses of its own property, so a failure of one property must not hide the failure of another in the same case. -/
def addClause (l : List String) (s : String) : List String := if l.any (fun t => clauseOf t == clauseOf s) then l else l ++ [s]

def CaseSt.addSpec (c : CaseSt) (s : String) : CaseSt := { c with specs := addClause c.specs s }
def CaseSt.addDiff (c : CaseSt) (s : String) : CaseSt := if c.diff.isSome then c else { c with diff := some s }

def flush (st : St) : St × List String :=
  if !st.c.active then (st, [])
  else
    let c := st.c
    let st := { st with c := {}, n := st.n + 1 }
    match c.specs, c.diff with
    | s :: rest, _ => (st, (s :: rest).map fun s => s!"spec {c.id} {s}")
    | [], some d => (st, [s!"diff {c.id} {d}"])
    | [], none => ({ st with nOk := st.nOk + 1 }, [s!"ok {c.id}"])

def singleL (st : St) (id : String) (specs : List String) (diff : Option String) : St × List String :=
  let st := { st with n := st.n + 1 }
  match specs.foldl addClause [], diff with
  | s :: rest, _ => (st, (s :: rest).map fun s => s!"spec {id} {s}")
  | [], some d => (st, [s!"diff {id} {d}"])
  | [], none => ({ st with nOk := st.nOk + 1 }, [s!"ok {id}"])

def single (st : St) (id : String) (spec : Option String) (diff : Option String) : St × List String :=
  singleL st id spec.toList diff

/-! ## direct calls -/

def mkMsg (cl : Nat) (p0 : Int) : Msg :=
  { sender := [], targetChain := 0, nonce := 0, seq := 0, cl := cl, payload := if p0 < 0 then [] else [UInt8.ofNat p0.toNat, 7] }

def doConf (st : St) (id : String) (fs : List String) : St × List String :=
  match kvB fs "mainnet", kvNat fs "cl", kvInt fs "p0", kvInt fs "h", kvInt fs "ts", kvInt fs "height", kvInt fs "now", kvB fs "res" with
  | some mainnet, some cl, some p0, some h, some ts, some height, some now, some res =>
    let m := mkMsg cl p0
    let hd : Header := ⟨h, ts⟩
    let model := isEventConfirmed m hd now height mainnet
    let spec :=
      if res && inRange hd && !heightFinal m hd height then some s!"height-not-final confirmed with block height {h} + cl {cl} > current height {height}"
      else if res && inRange hd && !floorOk mainnet m hd now then some s!"mainnet-transfer-floor mainnet transfer confirmed {now - ts} ms after the block (cl {cl}; the floor is max(cl, 205) x 16000 ms = {(max cl 205) * 16000} ms){netNote fs}"
      else none
    let after := (kvNat fs "clafter").getD cl
    single st id spec (if model ≠ res then some s!"isEventConfirmed model={model} impl={res}"
                       else if after ≠ cl then some s!"isEventConfirmed changed the message it was asked about: consistencyLevel {cl} -> {after}" else none)
  | _, _, _, _, _, _, _, _ => single st id none (some "unparsable conf line")

def doDur (st : St) (id : String) (fs : List String) : St × List String :=
  match kvB fs "mainnet", kvB fs "transfer", kvNat fs "cl", kvInt fs "res" with
  | some mainnet, some transfer, some cl, some res =>
    let model : Int := confDur mainnet transfer cl
    let spec := if mainnet && transfer && decide (res < (max cl 205 : Nat) * 16000)
      then some s!"mainnet-transfer-floor duration {res} ms for a mainnet transfer with cl {cl} (the floor is max(cl, 205) x 16000 ms = {(max cl 205) * 16000} ms){netNote fs}" else none
    single st id spec (if model = res then none else some s!"getConfirmationDuration model={model} impl={res}")
  | _, _, _, _ => single st id none (some "unparsable dur line")

def parseHdrList (s : String) : Option (List Header) :=
  (splitList s ",").mapM fun e =>
    match e.splitOn ":" with
    | [h, ts] => do let h ← parseInt h; let ts ← parseInt ts; pure ⟨h, ts⟩
    | _ => none

def toUnconfs (evs : List Event) : Option (List Unconf) :=
  evs.mapM fun e => e.conv.map fun m => ⟨e, m⟩

def doHconf (st : St) (id : String) (fs : List String) : St × List String :=
  match kvHex fs "bridge", (kv fs "evs").bind parseEvs, (kv fs "hdrs").bind parseHdrList, kv fs "fwd", kv fs "err" with
  | some bridge, some evs, some hdrs, some fwd, some err =>
    match toUnconfs evs with
    | some us =>
      let cfg : Cfg := { mainnet := false, bridge := bridge, gov := "" }
      let entries := us.zip hdrs
      let r := handleConfirmed cfg entries
      let model := r.1.map (fun c => showPub (pubOf c))
      let impl := splitList fwd ","
      let spec : Option String :=
        if err = "panic" then some "handler-panic handleConfirmedEvents panicked" else
        impl.findSome? fun p =>
          match parsePub p with
          | none => some "forwarded-altered unparsable publication"
          | some pp =>
            let cands := entries.filter fun c => showPub (pubOf c) == p
            if cands.isEmpty then some s!"forwarded-altered {p} corresponds to no confirmed event{describeAltered p (entries.map fun c => (s!"event {c.1.ev.id} (sequence {c.1.msg.seq}, block timestamp {c.2.ts}, position {c.1.ev.id} of the batch)", pubOf c))}{match kvB fs "mainnet" with | some mn => s!" [pending events made by toUnconfirmedEvent of a Watcher with isMainnet = {mn}]" | none => ""}"
            else if pp.emitter ≠ bridge then some s!"not-token-bridge forwarded a message whose sender {toHex pp.emitter} is not the token bridge"
            else if !(cands.any fun c => c.1.ev.idx == 0) then some s!"event-index forwarded an event with a non-zero event index"
            else if count p impl > cands.length then some s!"forwarded-twice {p}"
            else none
      let diff := if model ≠ impl then some s!"handleConfirmedEvents model={model} impl={impl}"
                  else if (err == "1") ≠ r.2 then some s!"handleConfirmedEvents error model={r.2} impl={err}" else none
      let (st, out) := single st id spec diff
      ({ st with fwd := st.fwd + impl.length }, out)
    | none => single st id none (some "hconf event without conversion")
  | _, _, _, _, _ => single st id none (some "unparsable hconf line")

def showInfo (t : TokenInfo) : String := s!"ok:{toHex t.tokenId}:{t.decimals}:{hexOrDash t.symbol}:{hexOrDash t.name}"

def lastIsTi (reqs : List String) : Bool := match reqs.getLast? with | some r => r.startsWith "ti:" | none => false

def doTinfo (st : St) (id : String) (fs : List String) : St × List String :=
  match kvHex fs "token", kv fs "addr", kv fs "shape", kv fs "reqs", kv fs "res" with
  | some token, some addr, some shape, some reqs, some res =>
    let tbl : TiTable := [(token, addr, shape, parseShape shape)]
    let model := match getTokenInfo (tiOracle tbl) token with | some t => showInfo t | none => "err"
    let expReqs := if token = alphTokenId then [] else [tiReq tbl token]
    let spec := if res = "panic" then some s!"metadata-call-panic GetTokenInfo panicked on answer shape {shape}" else none
    let diff := if model ≠ res then some s!"GetTokenInfo model={model} impl={res}"
                else if splitList reqs "," ≠ expReqs then some s!"GetTokenInfo requests model={expReqs} impl={reqs}" else none
    single st id spec diff
  | _, _, _, _, _ => single st id none (some "unparsable tinfo line")

/-- an event as the implementation delivered it: `bh;tx;idx;conv` -/
def parseUev (s : String) : Option Unconf :=
  match s.splitOn ";" with
  | [bh, tx, idx, conv] => do
    let idx ← parseInt idx; let m ← parseMsg conv
    pure ⟨{ id := 0, block := bh, tx := tx, idx := idx, contract := "-", conv := some m }, m⟩
  | _ => none

/-- log position of a delivered event the node never served (no page answer of the tick contains it) -/
def unknownId : Nat := 1000000000

/-- The fetch loop hands events on without their log position.  Each delivery is attributed to one event the node served in the
same round: first the deliveries that ARE the conversion of a served event (same block, transaction, event index, and the
event's own message), then what is left to the remaining served events of the same block, transaction and index, in order —
a delivery of that second kind is the watcher's rendering of that event with values other than the event's fields. -/
def attributeTo (served : List Event) (us : List Unconf) : List (Unconf × Option Event) :=
  let p1 := us.foldl (fun (acc : List (Unconf × Option Event) × List Event) u =>
      match acc.2.find? (fun e => e.block == u.ev.block && e.tx == u.ev.tx && e.idx == u.ev.idx && e.conv == some u.msg) with
      | some e => (acc.1 ++ [(u, some e)], acc.2.erase e)
      | none => (acc.1 ++ [(u, none)], acc.2)) ([], served)
  (p1.1.foldl (fun (acc : List (Unconf × Option Event) × List Event) ue =>
      match ue.2 with
      | some _ => (acc.1 ++ [ue], acc.2)
      | none =>
        match acc.2.find? (fun e => e.block == ue.1.ev.block && e.tx == ue.1.ev.tx && e.idx == ue.1.ev.idx) with
        | some e => (acc.1 ++ [(ue.1, some e)], acc.2.erase e)
        | none => (acc.1 ++ [ue], acc.2)) ([], p1.2)).1

/-- What later Spec evaluation refers to as "the event delivered to the event loop": the log position of the served event and the
EVENT's own message (the generator's ground truth), not the watcher's rendering of it — a message handed to the signer is judged
against the event it was made from. -/
def groundTruth (a : List (Unconf × Option Event)) : List Unconf :=
  a.map fun (u, oe) =>
    match oe with
    | some e =>
      (match e.conv with
       | some m => ⟨{ u.ev with id := e.id }, m⟩
       | none => { u with ev := { u.ev with id := e.id } })
    | none => { u with ev := { u.ev with id := unknownId } }

def msgDiffs (d m : Msg) : List String :=
  (if d.sender ≠ m.sender then [s!"sender {toHex m.sender} -> {toHex d.sender}"] else []) ++
  (if d.targetChain ≠ m.targetChain then [s!"targetChain {m.targetChain} -> {d.targetChain}"] else []) ++
  (if d.nonce ≠ m.nonce then [s!"nonce {m.nonce} -> {d.nonce}"] else []) ++
  (if d.seq ≠ m.seq then [s!"sequence {m.seq} -> {d.seq}"] else []) ++
  (if d.cl ≠ m.cl then [s!"consistencyLevel {m.cl} -> {d.cl}"] else []) ++
  (if d.payload ≠ m.payload then ["payload"] else [])

/-- C11 "is decoded into a message with exactly those values", at the point where the watcher turns a fetched event into a pending
one (`handleUnconfirmedEvents` → `toUnconfirmedEvent`): the pending message must carry the event's fields. -/
def alteredSpec (who : String) (a : List (Unconf × Option Event)) (note : String) : Option String :=
  a.findSome? fun (u, oe) =>
    match oe with
    | some e =>
      (match e.conv with
       | some m =>
         if m == u.msg then none else
         some s!"delivered-altered {who} turned the event at position {e.id} (tx {e.tx}, sequence {m.seq}) into a pending message that differs from the event's fields in {msgDiffs u.msg m} (event value -> pending value): that is what the confirmation rules are applied to and what is handed to the signer{note}"
       | none => none)
    | none => none

/-- symbol / name / decimals of an attestation payload, for verdict texts -/
def infoText (t : TokenInfo) : String := s!"symbol {hexOrDash t.symbol} name {hexOrDash t.name} decimals {t.decimals}"

def attestedText (m : Msg) : String :=
  match parseAttest m.payload with
  | some ti => infoText ti
  | none => "an attestation payload that does not parse"

def reportedText (tbl : TiTable) (m : Msg) : String :=
  match parseAttest m.payload with
  | some ti => (match getTokenInfo (tiOracle tbl) ti.tokenId with
                | some t => infoText t
                | none => "no usable answer (the metadata calls fail)")
  | none => "-"

/-- `wti`: which token contracts answered successfully before and answer something else now (for the verdict texts) -/
def tiChanges (old new : TiTable) : List String :=
  new.filterMap fun e =>
    match getTokenInfo (tiOracle old) e.1, getTokenInfo (tiOracle new) e.1 with
    | some a, some b => if a == b then none else some s!"token {toHex e.1} reported {infoText a} and reports {infoText b} now"
    | some a, none => some s!"token {toHex e.1} reported {infoText a} and its metadata calls fail now"
    | none, _ => none

/-- Spec on a delivered batch: nothing well-formed is lost, nothing with mismatching metadata is let through.  Both halves are
evaluated (the first is C08's, the second C09's): an attestation let through although the token contract reports something else
must not hide, in the same page, one that equals what the contract reports and was dropped. -/
def batchSpecs (tbl : TiTable) (evs : List Event) (impl : List String) : List String :=
  let ans := tiOracle tbl
  let lost := evs.find? fun e =>
    match acceptEv ans e with
    | some u => count (showUnconf u) impl < count (showUnconf u) ((handleUnconfirmed ans evs).map showUnconf)
    | none => false
  let bad := evs.find? fun e =>
    match toUnconfirmed e with
    | some u => isAttest u.msg && !validateAttest ans u.msg && impl.contains (showUnconf u)
                && !((handleUnconfirmed ans evs).map showUnconf).contains (showUnconf u)
    | none => false
  (match bad with
   | some e =>
     let what := match e.conv with
       | some m => s!" (token {toHex ((m.payload.drop 1).take 32)}, attested {attestedText m}; the contract's answer in this tick: {reportedText tbl m})"
       | none => ""
     [s!"attest-mismatch-admitted event {e.id}: attested metadata differs from what the token contract reports{what}"]
   | none => []) ++
  (match lost with
   | some e =>
     let what := match e.conv with
       | some m => if isAttest m then
                     s!": an attestation of token {toHex ((m.payload.drop 1).take 32)} by sender {toHex m.sender} that equals what the token contract reports in this tick"
                   else ""
       | none => ""
     [s!"wellformed-event-dropped event {e.id} (cl {(e.conv.map (·.cl)).getD 0}) converts and validates but was not delivered{what}"]
   | none => [])

/-- the first failing clause of a batch, as before (`attest-mismatch-admitted` first) -/
def batchSpec (tbl : TiTable) (evs : List Event) (impl : List String) : Option String := (batchSpecs tbl evs impl).head?

def doHunconf (st : St) (id : String) (fs : List String) : St × List String :=
  match (kv fs "ti").bind parseTi, (kv fs "evs").bind parseEvs, kv fs "reqs", kv fs "out", kv fs "res" with
  | some tbl, some evs, some reqs, some out, some res =>
    let model := (handleUnconfirmed (tiOracle tbl) evs).map showUnconf
    let impl := splitList out ","
    let reqs := splitList reqs ","
    let spec :=
      if res = "panic" then some (if lastIsTi reqs then "metadata-call-panic handleUnconfirmedEvents panicked inside the token metadata call" else "watcher-panic handleUnconfirmedEvents panicked")
      else if res = "err" then some "malformed-event-ends-watcher handleUnconfirmedEvents returned an error (sent to errC: the watcher ends and the page is lost)"
      else none
    let specs := if res = "ok" then batchSpecs tbl evs impl else []
    let mainnet := (kvB fs "mainnet").getD false
    let altered := if res = "ok" then alteredSpec s!"handleUnconfirmedEvents (Watcher with isMainnet = {mainnet})" (attributeTo evs (impl.filterMap parseUev)) "" else none
    let diff := if model ≠ impl then some s!"handleUnconfirmedEvents model={model} impl={impl}"
                else if reqs ≠ tiReqsOfEvents tbl evs then some s!"handleUnconfirmedEvents requests model={tiReqsOfEvents tbl evs} impl={reqs}" else none
    singleL st id (altered.toList ++ spec.toList ++ specs) diff
  | _, _, _, _, _ => single st id none (some "unparsable hunconf line")

/-- `_fetchHeight` while the poller is enabled: every polled height is passed on (changed or not), an error is reported. -/
def doFheight (st : St) (id : String) (fs : List String) : St × List String :=
  match kv fs "seq", kv fs "got" with
  | some seq, some got =>
    let seq := splitList seq ","
    let got := splitList got ","
    let exp := (seq.takeWhile (· ≠ "e")) ++ (if seq.contains "e" then ["e"] else [])
    let spec := if got.contains "stall" then some s!"height-not-resent the height poller stopped passing heights on: polled {seq}, passed on {got}" else none
    single st id spec (if got ≠ exp then some s!"_fetchHeight model={exp} impl={got}" else none)
  | _, _ => single st id none (some "unparsable fheight line")

/-! ## re-observation -/

def reobsTrace (cfg : Cfg) (tbl : TiTable) (node : ReobsNode) (statusRaw : String) (chain hashLen : Nat) (tx : String) : List String :=
  if chain ≠ 255 || hashLen ≠ 32 then [] else
  let l0 := [s!"status:{tx}>{statusRaw}"]
  match node.status with
  | some (.confirmed bh) =>
    match node.txEvents with
    | none => l0 ++ [s!"txev:{tx}>e"]
    | some evs =>
      let l1 := l0 ++ [s!"txev:{tx}>{evs.length}"]
      let rec go (evs : List Event) (acc : List String) : List String × Bool :=
        match evs with
        | [] => (acc, true)
        | e :: rest =>
          if e.idx ≠ 0 || e.contract ≠ cfg.gov || e.block ≠ bh then go rest acc
          else match node.hdr e.block with
            | none => (acc ++ [s!"hdr:{e.block}>e"], false)
            | some h =>
              let acc := acc ++ [s!"hdr:{e.block}>{h.height}:{h.ts}"]
              match e.conv with
              | none => (acc, false)
              | some m => go rest (acc ++ tiReqsOfMsg tbl m)
      let (l2, ok) := go evs l1
      if !ok then l2 else
      match node.main bh with
      | none => l2 ++ [s!"main:{bh}>e"]
      | some false => l2 ++ [s!"main:{bh}>0"]
      | some true =>
        match node.height with
        | none => l2 ++ [s!"main:{bh}>1", "height>e"]
        | some h => l2 ++ [s!"main:{bh}>1", s!"height>{h}"]
  | _ => l0

/-- One re-observation request: Spec verdict, model/implementation difference, number of forwarded messages, and — `owed` —
the first message the request owed to the signer but did not forward (evaluated by the caller where the statement demands it). -/
structure ReobsEval where
  spec : Option String
  diff : Option String
  nFwd : Nat
  owed : Option String
  requeued : Option String := none   -- the watcher's own request queue held requests the harness (the dispatcher) had not put there

def evalReobs (fs : List String) : ReobsEval :=
  match kvB fs "mainnet", kvHex fs "bridge", kv fs "gov", kvNat fs "chain", kvHex fs "hash", kv fs "status", kv fs "evs",
        (kv fs "hdr").bind parseHdrTbl, (kv fs "main").bind parseMainTbl, (kv fs "ti").bind parseTi with
  | some mainnet, some bridge, some gov, some chain, some hash, some status, some evs, some hdrT, some mainT, some tbl =>
    match kv fs "height", kvInt fs "now", kv fs "reqs", kv fs "fwd", kv fs "res", (if evs = "e" then some none else (parseEvs evs).map some) with
    | some height, some now, some reqs, some fwd, some res, some evs =>
      let cfg : Cfg := { mainnet := mainnet, bridge := bridge, gov := gov }
      let tx := toHex (hash.take 32)
      let o := oracleOf ⟨mainT, hdrT⟩
      let node : ReobsNode :=
        { status := if status = "e" then none else if status.startsWith "c:" then some (.confirmed (status.drop 2).toString) else some .other,
          txEvents := evs, hdr := o.hdr, main := o.main, height := if height = "e" then none else parseInt height, ti := tiOracle tbl }
      let model := (reobserve cfg node now chain hash.length tx).map showPub
      let impl := splitList fwd ","
      let reqs := splitList reqs ","
      let bhOk : Option String := match node.status with | some (.confirmed bh) => some bh | _ => none
      let spec : Option String :=
        if res ≠ "ok" then some (if lastIsTi reqs then s!"metadata-call-panic handleObsvRequest {res} inside the token metadata call"
                                 else s!"reobs-panic handleObsvRequest {res}") else
        impl.findSome? fun p =>
          let cands : List (List (String × Bool)) := (evs.getD []).filterMap fun e =>
            match e.conv, o.hdr e.block with
            | some m, some h =>
              if showPub (toPub tx m h) ≠ p then none else
              some [("reobs-event-index", e.idx == 0),
                    ("reobs-foreign-contract-event", e.contract == gov),
                    ("reobs-not-token-bridge", m.sender == bridge),
                    ("reobs-event-block-not-canonical", (bhOk == some e.block) && o.main e.block == some true && reqs.contains s!"main:{e.block}>1"),
                    ("reobs-height-not-final", !inRange h || (match node.height with | some hh => heightFinal m h hh | none => false)),
                    ("reobs-mainnet-transfer-floor", !inRange h || floorOk mainnet m h now),
                    ("reobs-attest-mismatch", !isAttest m || validateAttest node.ti m)]
            | _, _ => none
          match firstFailing cands with
          | some cl =>
            if cl = "unknown" then
              let all := (evs.getD []).filterMap fun e => match e.conv, o.hdr e.block with
                | some m, some h => some (s!"event {e.id} of the transaction (block timestamp {h.ts})", toPub tx m h)
                | _, _ => none
              some s!"reobs-forwarded-altered forwarded {p}, which is not the message of any event of the transaction{describeAltered p all}{ctorNote fs}"
            else
              let metaTxt := if cl ≠ "reobs-attest-mismatch" then "" else
                match parsePub p with
                | some pp =>
                  let m : Msg := { sender := pp.emitter, targetChain := pp.targetChain, nonce := pp.nonce, seq := pp.seq, cl := pp.cl, payload := pp.payload }
                  s!" (attested {attestedText m}; the token contract's answer in this call: {reportedText tbl m})"
                | none => ""
              some s!"{cl} forwarded {p}{if cl = "reobs-mainnet-transfer-floor" then s!" at {now} (the floor is max(cl, 205) x 16000 ms after the block timestamp)" ++ ctorNote fs else ""}{metaTxt}"
          | none =>
            let good := cands.filter fun c => c.all (·.2)
            if count p impl > good.length then some s!"reobs-forwarded-twice {p}" else none
      let exp := reobsTrace cfg tbl node status chain hash.length tx
      let diff := if model ≠ impl then some s!"reobserve model={model} impl={impl}"
                  else if reqs ≠ exp then some s!"reobserve requests model={exp} impl={reqs}" else none
      -- what the request owed: every node request answered, the transaction confirmed in a block reported canonical, each of
      -- the governance contract's index-0 events in that block convertible; then every such event from the token bridge that
      -- is final at the height answered and (attestation) equals what the token contract reports in this call.
      let nodeErr := reqs.any fun r => r.endsWith ">e" && !r.startsWith "ti:"
      let owed : Option String :=
        if res ≠ "ok" || chain ≠ 255 || hash.length ≠ 32 || nodeErr then none else
        match bhOk, evs, node.height with
        | some bh, some evs, some hh =>
          if o.main bh ≠ some true then none else
          let mine := evs.filter fun e => e.idx == 0 && e.contract == gov && e.block == bh
          if !(mine.all fun e => e.conv.isSome && (o.hdr e.block).isSome) then none else
          let due := mine.filterMap fun e =>
            match e.conv, o.hdr e.block with
            | some m, some h =>
              if m.sender == bridge && isEventConfirmed m h now hh mainnet && (!isAttest m || validateAttest node.ti m)
              then some (showPub (toPub tx m h)) else none
            | _, _ => none
          due.find? fun p => count p impl < count p due
        | _, _, _ => none
      -- C17 "forwarded ... at most once per (chain, transaction) within the suppression window", observed where the statement
      -- observes it: on the watcher's request queue.  The harness plays the dispatcher: it put this one request on the queue
      -- (and, behind it, a sentinel request that is not listed); `stray` is what the queue held once the loop had finished with it.
      let stray := splitList ((kv fs "stray").getD "-") ","
      let requeued : Option String :=
        if stray.isEmpty then none else
        some s!"reobs-request-requeued the dispatcher forwarded ONE request ({chain}, {tx}) to the Alephium watcher; after the watcher had taken it off its request queue and handled it (node requests: {reqs.take 6}), {stray.length} request(s) the dispatcher never sent were on that queue: {stray.take 4} (chain:transaction) — the pair crosses the watcher's queue again inside the suppression window{if reqs.any (fun r => r.endsWith ">e") then ", put back by the watcher itself while a node request fails" else ""}"
      { spec := spec, diff := diff, nFwd := impl.length, owed := owed, requeued := requeued }
    | _, _, _, _, _, _ => { spec := none, diff := some "unparsable reobs line (2)", nFwd := 0, owed := none }
  | _, _, _, _, _, _, _, _, _, _ => { spec := none, diff := some "unparsable reobs line", nFwd := 0, owed := none }

def doReobs (st : St) (id : String) (fs : List String) : St × List String :=
  let r := evalReobs fs
  let (st, out) := singleL st id (r.requeued.toList ++ r.spec.toList) r.diff
  ({ st with reobsFwd := st.reobsFwd + r.nFwd }, out)

/-! ## one watcher life -/

def doWinit (st : St) (id : String) (fs : List String) : St × List String :=
  let (st, out) := flush st
  match kvB fs "mainnet", kvHex fs "bridge", kv fs "gov", kvB fs "fetch", (kv fs "ti").bind parseTi with
  | some mainnet, some bridge, some gov, some fetch, some tbl =>
    let c : CaseSt := { id := id, active := true, cfg := { mainnet := mainnet, bridge := bridge, gov := gov }, ti := tbl, fetch := fetch, note := ctorNote fs }
    -- the Watcher the life runs: a struct literal holding the case's values, or what `NewAlephiumWatcher` made of a shipped file
    let c := match kv fs "w" with
      | none => c
      | some w =>
        let impl := w.splitOn ";"
        let id32 (h : String) : Option Bytes := match ofHex h with | some b => if b.length = 32 then some b else none | none => none
        let model : Option Built := match (kv fs "cfg").map (·.splitOn ";"), kv fs "ctor" with
          | some [b, g, grp, mn], some net =>
            newWatcher (fun _ => gov) { groupIndex := (parseDec grp).getD 0, governance := id32 g, tokenBridge := id32 b, minimalConsistencyLevel := (parseDec mn).getD 0 } (net == "mainnet")
          | _, _ => some { cfg := c.cfg, group := ((impl[2]?).bind parseDec).getD 0 }
        match model with
        | none => c.addDiff s!"NewAlephiumWatcher: the model rejects the configuration, the implementation built {w}"
        | some b =>
          let exp := [toHex b.cfg.bridge, b.cfg.gov, toString b.group, toString b.group, if b.cfg.mainnet then "1" else "0"]
          let c := if exp ≠ impl then c.addDiff s!"the Watcher of the life: model={exp} impl={impl}" else c
          if b.cfg.bridge ≠ bridge || b.cfg.gov ≠ gov || b.cfg.mainnet ≠ mainnet then c.addDiff s!"harness: the case's configuration differs from what the constructor is given ({exp})" else c
    let c :=
      if !fetch then c else
      match kv fs "reqs", kvB fs "exit", kvB fs "panic" with
      | some reqs, some exit, some pan =>
        let c := if pan then c.addSpec "watcher-panic the fetch loop panicked on its first count request" else c
        match splitList reqs "," with
        | [r] =>
          if r = "count>e" then
            let c := { c with st := { c.st with alive := false }, faulted := true, implAlive := !exit }
            if exit then c else c.addDiff "count error at start: model ends, impl continues"
          else if r = "count>404" then
            let c := { c with implFrom := some 0, implAlive := !exit }
            if exit then c.addDiff "count 404 at start: impl ended" else c
          else match (if r.startsWith "count>" then parseInt (r.drop 6).toString else none) with
            | some n =>
              let c := { c with st := { c.st with fromIndex := n }, implFrom := some n, implAlive := !exit }
              if exit then c.addDiff "impl ended on a successful first count" else c
            | none => if r.startsWith "count@" then c.addSpec s!"wrong-contract-polled {r}" else c.addDiff s!"unexpected first request {r}"
        | l => c.addDiff s!"unexpected requests at start {l}"
      | _, _, _ => c.addDiff "unparsable winit line"
    ({ st with c := c }, out)
  | _, _, _, _, _ => ({ st with c := ({ id := id, active := true } : CaseSt).addDiff "unparsable winit line" }, out)

def track (c : CaseSt) (us : List Unconf) : CaseSt := { c with tracked := c.tracked ++ us.map (·, true) }

/-- Delivered events are tracked per position of the governance contract's event log: an event that is fetched and delivered
again (by a later incarnation of the watcher, say) is still ONE fetched event — it justifies one forward, and it is owed from
its latest delivery on. -/
def trackFetched (c : CaseSt) (us : List Unconf) : CaseSt :=
  let c := { c with lost := c.lost.filter fun t => !(us.any fun u => u.ev.id == t.1.ev.id) }
  us.foldl (fun c u =>
    if u.ev.id ≠ unknownId && c.tracked.any (fun t => t.1.ev.id == u.ev.id) then
      { c with tracked := c.tracked.map fun t => if t.1.ev.id == u.ev.id then (t.1, true) else t }
    else { c with tracked := c.tracked ++ [(u, true)] }) c

/-- `wbatch`: a page handed to the event loop without the fetch loop — through the watcher's own `handleUnconfirmedEvents`
(`evs`, what came out is `out`), except for events the production route can never deliver but the handler guards against (event
index ≠ 0: `direct`, built by the harness and appended). -/
def doWbatch (st : St) (fs : List String) : St × List String :=
  let c := st.c
  match (kv fs "evs").bind parseEvs, (kv fs "direct").bind parseEvs >>= toUnconfs, kvB fs "en", kv fs "out", kv fs "reqs", kv fs "res" with
  | some evs, some direct, some en, some out, some reqs, some res =>
    let ans := tiOracle c.ti
    let reqs := splitList reqs ","
    let impl := splitList out ","
    let modelUs := handleUnconfirmed ans evs
    let s' := stepBatch c.st (modelUs ++ direct)
    let c :=
      if res = "panic" then c.addSpec (if lastIsTi reqs then "metadata-call-panic handleUnconfirmedEvents panicked inside the token metadata call" else "watcher-panic handleUnconfirmedEvents panicked")
      else if res = "err" then c.addSpec "malformed-event-ends-watcher handleUnconfirmedEvents returned an error (sent to errC: the watcher ends and the page is lost)"
      else (batchSpecs c.ti evs impl).foldl (fun c s => c.addSpec (s ++ c.tiNote)) c
    let attributed := attributeTo evs (impl.filterMap parseUev)
    let c := if res ≠ "ok" then c else match alteredSpec "handleUnconfirmedEvents (-> toUnconfirmedEvent)" attributed c.note with
             | some s => c.addSpec s | none => c
    let c := if res ≠ "ok" then c
             else if modelUs.map showUnconf ≠ impl then c.addDiff s!"handleUnconfirmedEvents model={modelUs.map showUnconf} impl={impl}"
             else if reqs ≠ tiReqsOfEvents c.ti evs then c.addDiff s!"handleUnconfirmedEvents requests model={tiReqsOfEvents c.ti evs} impl={reqs}" else c
    let c := track { c with st := s' } (groundTruth attributed ++ direct)
    let c := if s'.enabled ≠ en then c.addDiff s!"block poller enabled after batch: model={s'.enabled} impl={en}" else c
    ({ st with c := c }, [])
  | _, _, _, _, _, _ => ({ st with c := c.addDiff "unparsable wbatch line" }, [])

/-- Node requests of the re-observation path (`status:` / `txev:`) in the log of a fetch tick or a height tick: the harness serves
re-observation requests one at a time and only while the other loops are parked, so such requests were made by a loop that works
on a request nobody handed it.  They are taken out of the tick's log (the tick is judged on its own requests) and reported. -/
def splitReobsTraffic (c : CaseSt) (reqs : List String) : CaseSt × List String :=
  let isRe := fun (r : String) => r.startsWith "status:" || r.startsWith "txev:"
  if reqs.any isRe then
    (c.addDiff s!"node requests of the re-observation path while no re-observation request was being served: {(reqs.filter isRe).take 4} ({(reqs.filter isRe).length} in this line)",
     reqs.filter fun r => !isRe r)
  else (c, reqs)

/-- page log entry `page:<start>><next|e|spin>` -/
def parsePageReq (r : String) : Option (Int × Option Int) :=
  if !r.startsWith "page:" then none else
  match (r.drop 5).toString.splitOn ">" with
  | [s, a] => do
    let s ← parseInt s
    if a = "e" || a = "spin" then pure (s, none) else do let a ← parseInt a; pure (s, some a)
  | _ => none

/-- give each successful page answer its events (consumed in order from the line's `evs`) -/
def attachEvents (pages : List (Int × Option Int)) (evs : List Event) : List (Int × Option Page) :=
  match pages with
  | [] => []
  | (s, none) :: rest => (s, none) :: attachEvents rest evs
  | (s, some nx) :: rest =>
    let k := (nx - s).toNat
    (s, some ⟨evs.take k, nx⟩) :: attachEvents rest (evs.drop k)

def doWtick (st : St) (fs : List String) : St × List String :=
  let c := st.c
  match (kv fs "evs").bind parseEvs, kv fs "reqs", kv fs "out", kvB fs "exit", kvB fs "en" with
  | some evs, some reqs, some out, some exit, some en =>
    let spin := (kvB fs "spin").getD false
    let pan := (kvB fs "panic").getD false
    let (c, reqs) := splitReobsTraffic c (splitList reqs ",")
    let nonTi := reqs.filter fun r => !r.startsWith "ti:"
    let pagesRaw := nonTi.filterMap parsePageReq
    let pages := attachEvents pagesRaw evs
    -- a failing token-metadata call is not a fault of the event source: the statement demands that the watcher lives on
    -- ("contracts whose metadata calls fail"), so it neither excuses an exit nor suspends what is owed
    let injected := reqs.any fun r => r.endsWith ">e" && !r.startsWith "ti:"
    let countAns : Option (Option Int) :=
      match reqs with
      | r :: _ => if r = "count>e" then some none else if r = "count>404" then some (some 0)
                  else if r.startsWith "count>" then (parseInt (r.drop 6).toString).map some else none
      | [] => none
    match countAns with
    | none => ({ st with c := c.addDiff s!"tick does not start with a count request: {reqs.take 2}" }, [])
    | some cnt =>
      -- model
      let pageFn : Nat → Int → Option Page := fun k start =>
        match pages[k]? with
        | some (s, p) => if s = start then p else none
        | none => none
      let ans := tiOracle c.ti
      let (s', delivered) := fetchTick ans cnt pageFn (pages.length + 1) c.st
      -- expected request log
      let expLog : List String :=
        reqs.take 1 ++ (pages.flatMap fun (s, p) =>
          match p with
          | some pg => [s!"page:{s}>{pg.next}"] ++ tiReqsOfEvents c.ti pg.events
          | none => [])
      -- Spec on the implementation's own tick
      let firstStart := (pagesRaw.head?).map (·.1)
      let repeated := (pagesRaw.zip (pagesRaw.drop 1)).any fun (a, b) => a.1 == b.1 && a.2.isSome
      let gap := (pagesRaw.zip (pagesRaw.drop 1)).any fun (a, b) => match a.2 with | some nx => nx ≠ b.1 | none => false
      let implOut := if out = "none" then none else some (splitList out ",")
      let c :=
        if reqs.any (fun r => r.startsWith "count@" || r.startsWith "page@" || r.startsWith "page:badquery") then
          c.addSpec s!"wrong-contract-polled {reqs.take 3}"
        else if spin || repeated then
          c.addSpec s!"page-loop-spin {pagesRaw.length} page requests in one tick (count {cnt.getD 0}, fromIndex {c.st.fromIndex}); the same page is requested again and again: {(reqs.drop 1).take 6}"
        else if pan then
          c.addSpec (if lastIsTi reqs then "metadata-call-panic the fetch loop panicked inside the token metadata call of an attestation-shaped event" else "watcher-panic the fetch loop panicked")
        else if exit && !injected then
          c.addSpec "malformed-event-ends-watcher the fetch loop reported an error although every node request succeeded (an event that does not convert ends the watcher)"
        else if !exit && pagesRaw.isEmpty && (match cnt, c.implFrom with | some cn, some f => decide (cn > f) | _, _ => false) then
          c.addSpec s!"fetch-stalled the count ({cnt.getD 0}) is ahead of the next unfetched index ({c.implFrom.getD 0}) but the tick requested no page"
        else if firstStart.isSome && c.implFrom.isSome && firstStart ≠ c.implFrom && (c.implFromAlt.isNone || firstStart ≠ c.implFromAlt) then
          c.addSpec s!"page-gap-or-overlap first page requested at {firstStart.getD 0}, but the previous tick ended at nextStart {c.implFrom.getD 0}{c.dipNote}"
        else if gap then
          c.addSpec s!"page-gap-or-overlap page requests do not continue at the previous nextStart: {nonTi}"
        else match implOut with
          | some impl => if exit then c else
              (batchSpecs c.ti (pages.flatMap fun (_, p) => match p with | some pg => pg.events | none => []) impl).foldl (fun c s => c.addSpec (s ++ c.tiNote)) c
          | none => c
      -- comparison with the model
      -- a node API error excuses what is lost with a watcher that ENDS on it (the supervisor starts a new one, see `wrestart`);
      -- a watcher that carries on stays bound by the statement ("while the watcher runs")
      let c := if injected && exit then { c with faulted := true } else c
      let c := if exit then { c with implAlive := false } else c
      let modelOut := delivered.map fun us => us.map showUnconf
      let c :=
        if exit ≠ !s'.alive then c.addDiff s!"fetch tick exit: model={!s'.alive} impl={exit} reqs={reqs.take 8}"
        else if exit then c
        else if modelOut ≠ implOut then c.addDiff s!"fetch tick delivered: model={modelOut} impl={implOut}"
        else if reqs ≠ expLog then c.addDiff s!"fetch tick requests: model={expLog} impl={reqs}"
        else if s'.enabled ≠ en then c.addDiff s!"block poller enabled after tick: model={s'.enabled} impl={en}"
        else c
      let lastNext := (pagesRaw.filterMap (·.2)).getLast?
      -- the count moved backwards: remembered for the texts of later verdicts (how the watcher reacts is judged by what it fetches and forwards)
      let c := match cnt, c.implFrom with
        | some cn, some f => if cn < f && c.dipNote.isEmpty then
            { c with dipNote := s!" [earlier in this life a count poll answered {cn} while the next unfetched index was {f}: the event count had moved backwards{if pagesRaw.isEmpty then ", and the watcher requested no page in that tick" else ""}]" } else c
        | _, _ => c
      -- what the implementation itself delivered is what the later Spec evaluation refers to
      let attributed := attributeTo ((pages.flatMap fun (_, p) => match p with | some pg => pg.events | none => []) ++ c.lost.map (·.1.ev)) ((implOut.getD []).filterMap parseUev)
      let implUs := groundTruth attributed
      let c := if exit then c else match alteredSpec "the fetch loop (fetchEvents -> handleUnconfirmedEvents -> toUnconfirmedEvent)" attributed c.note with
               | some s => c.addSpec s | none => c
      let c := if !exit && !implUs.isEmpty && !en then
                 c.addSpec "poller-not-enabled events were delivered to the event loop but the block poller is not enabled (no height tick will ever process them)"
               else c
      -- A request of the round failed, the watcher carries on, and nothing was handed to the event loop: the events the node DID
      -- serve in the round's page answers have been fetched.  Whether the watcher keeps them for later or asks for them again
      -- (its next round may start where this one started, or where it stopped) is its business; that they reach the event loop
      -- is demanded at the drain.
      let survived := !exit && injected && implOut.isNone && !pagesRaw.isEmpty
      let servedOk := handleUnconfirmed ans (pages.flatMap fun (_, p) => match p with | some pg => pg.events | none => [])
      let alt := if survived then (if c.implFromAlt.isSome then c.implFromAlt else c.implFrom) else if pagesRaw.isEmpty then c.implFromAlt else none
      let c := if survived then
                 { c with lost := c.lost ++ (servedOk.filter fun u => !(c.lost.any fun t => t.1.ev.id == u.ev.id) && !(c.tracked.any fun t => t.1.ev.id == u.ev.id)).map (·, true) }
               else c
      let c := trackFetched { c with st := s', implFrom := if lastNext.isSome then lastNext else c.implFrom, implFromAlt := alt } implUs
      let grew : Bool := match cnt, pagesRaw.getLast? with | some cn, some (_, some nx) => decide (nx > cn) | _, _ => false
      ({ st with c := c, ticks := st.ticks + 1, pages := st.pages + pagesRaw.length, grew := st.grew + (if grew then 1 else 0) }, [])
  | _, _, _, _, _ => ({ st with c := c.addDiff "unparsable wtick line" }, [])

def doWheight (st : St) (fs : List String) : St × List String :=
  let c := st.c
  match kvInt fs "height", kvInt fs "now", (kv fs "main").bind parseMainTbl, (kv fs "hdr").bind parseHdrTbl, kv fs "reqs", kv fs "fwd", kvB fs "exit", kvB fs "en" with
  | some height, some now, some mainT, some hdrT, some reqs, some fwd, some exit, some en =>
    let pan := (kvB fs "panic").getD false
    let o := oracleOf ⟨mainT, hdrT⟩
    let (c, reqs) := splitReobsTraffic c (splitList reqs ",")
    let impl := splitList fwd ","
    let cfg := c.cfg
    let before := c.st
    -- `height` is the height the node reported last (ground truth); with via=fh it reached the event loop through the real
    -- height poller, which passed on `passed`.  Model and Spec both refer to the node's own answer.
    let viaFH := kv fs "via" == some "fh"
    let passed := (kv fs "passed").getD "-"
    if (kvB fs "stall").getD false then
      ({ st with c := c.addSpec "height-not-resent the block poller is enabled but the height poller asked the node for nothing within 2 s" }, [])
    else
    let heightErr := viaFH && reqs.contains "height>e"
    let (s', entries) := stepPolled cfg o (if heightErr then none else some height) now before
    let model := sortStrs (entries.map fun e => showPub (pubOf e))
    let injected := reqs.any fun r => r.endsWith ">e"
    -- Spec (C08) on what the implementation forwarded, against everything delivered to the event loop so far
    -- (independent of the model's state): some delivered event must justify each forwarded message.
    let hdrs := (hdrT.filterMap fun (bh, h) => h.map fun h => (bh, h)) ++ c.hdrs
    let specFwd : Option String := impl.findSome? fun p =>
      let cands : List (List (String × Bool)) := c.tracked.filterMap fun (u, _) =>
        match hdrs.lookup u.ev.block with
        | none => none
        | some h =>
          if showPub (pubOf (u, h)) ≠ p then none else
          some [("poll-not-token-bridge", u.msg.sender == cfg.bridge),
                ("poll-event-index", u.ev.idx == 0),
                ("poll-not-canonical", o.main u.ev.block == some true && reqs.contains s!"main:{u.ev.block}>1"),
                ("poll-height-not-final", !inRange h || heightFinal u.msg h height),
                ("poll-mainnet-transfer-floor", !inRange h || floorOk cfg.mainnet u.msg h now)]
      match firstFailing cands with
      | some cl =>
        if cl = "unknown" then
          let all := (c.tracked ++ c.lost).filterMap fun (u, _) => (hdrs.lookup u.ev.block).map fun h =>
            (s!"the event at position {u.ev.id} of the governance contract's log (block timestamp {h.ts})", pubOf (u, h))
          let viaReobs := match parsePub p with
            | some pp => (match c.reobsFwd.find? (fun q => match parsePub q with | some qq => qq.tx == pp.tx && qq.seq == pp.seq && qq.nonce == pp.nonce | none => false) with
                          | some q => s!"; a re-observation request of this life handed {q} to the signer for the same event: two guardians would sign different digests for one message"
                          | none => "")
            | none => ""
          some s!"poll-forwarded-altered {p} corresponds to no event delivered to the event loop{describeAltered p all}{viaReobs}{c.note}"
        else some s!"{cl} forwarded {p} while the node reports height {height} (height handed to the event loop: {passed}){if cl = "poll-mainnet-transfer-floor" then s!" at {now}: the floor is max(cl, 205) x 16000 ms after the block timestamp" ++ c.note else ""}"
      | none =>
        let good := cands.filter fun cd => cd.all (·.2)
        if count p impl + count p c.fwdAll > cands.length then
          some s!"poll-forwarded-twice {p} forwarded {count p impl + count p c.fwdAll} times for {cands.length} delivered event(s) ({good.length} eligible now){c.dipNote}"
        else none
    let c := match (if pan then some "watcher-panic handleEvents panicked"
                    else if exit && !injected && c.fetch then
                      some "malformed-event-ends-watcher the event loop ended although every node request succeeded (an event let through by the fetch loop made the handler fail)"
                    else specFwd) with | some s => c.addSpec s | none => c
    let c := if injected && exit then { c with faulted := true } else c
    let wasAlive := c.implAlive
    let c := if exit then { c with implAlive := false } else c
    -- comparison with the model
    let expReqs := sortStrs ((if viaFH then [s!"height>{height}"] else []) ++ before.pending.flatMap fun pb =>
      (match o.main pb.block with | some b => [s!"main:{pb.block}>{if b then "1" else "0"}"] | none => [s!"main:{pb.block}>e"]) ++
      (match pb.hdr, o.main pb.block with
       | none, some _ => (match o.hdr pb.block with | some h => [s!"hdr:{pb.block}>{h.height}:{h.ts}"] | none => [s!"hdr:{pb.block}>e"])
       | _, _ => []))
    let c :=
      if exit ≠ !s'.alive then c.addDiff s!"height tick exit: model={!s'.alive} impl={exit}"
      else if !exit && passed ≠ toString height then c.addDiff s!"height handed to the event loop: node reported {height}, implementation passed {passed}"
      else if model ≠ impl then c.addDiff s!"height tick {height} forwarded: model={model} impl={impl}"
      else if !exit && reqs ≠ expReqs then c.addDiff s!"height tick requests: model={expReqs} impl={reqs}"
      else if !exit && s'.enabled ≠ en then c.addDiff s!"block poller enabled after height tick: model={s'.enabled} impl={en}"
      else c
    -- liveness bookkeeping (C09): a delivered event whose block is canonical at every tick is owed to the signer
    let tracked := c.tracked.map fun (u, stayed) => (u, stayed && o.main u.ev.block == some true)
    let lost := c.lost.map fun (u, stayed) => (u, stayed && o.main u.ev.block == some true)
    let c := { c with st := s', fwdAll := c.fwdAll ++ impl, tracked := tracked, lost := lost, hdrs := hdrs }
    let drain := (kvB fs "drain").getD false
    let c :=
      if drain && !exit && !c.faulted && wasAlive then
        -- fetched and never handed to the event loop although the watcher kept running
        let c := match lost.find? (fun (u, stayed) => match o.hdr u.ev.block with
                    | some h => stayed && u.ev.idx == 0 && u.msg.sender == cfg.bridge && isEventConfirmed u.msg h now height cfg.mainnet
                                && count (showPub (pubOf (u, h))) c.fwdAll == 0
                    | none => false) with
          | some (u, _) => c.addSpec s!"final-message-not-forwarded the event at position {u.ev.id} of the governance contract's log (tx {u.ev.tx}, sequence {u.msg.seq}) was served to the fetch loop in a page answer of a round in which another request failed; the watcher kept running and never handed it to the event loop, although it is the token bridge's, well-formed, final and its block stayed canonical: forwarded 0 times (owed 1)"
          | none => c
        let owed := tracked.filterMap fun (u, stayed) =>
          match o.hdr u.ev.block with
          | some h => if stayed && u.ev.idx == 0 && u.msg.sender == cfg.bridge && isEventConfirmed u.msg h now height cfg.mainnet
                      then some (showPub (pubOf (u, h))) else none
          | none => none
        match owed.find? (fun p => count p c.fwdAll < count p owed) with
        | some p => c.addSpec s!"final-message-not-forwarded {p} is final, from the token bridge, its block stayed canonical, yet it was forwarded {count p c.fwdAll} times (owed {count p owed})"
        | none => c
      else c
    ({ st with c := c, heights := st.heights + 1, fwd := st.fwd + impl.length }, [])
  | _, _, _, _, _, _, _, _ => ({ st with c := c.addDiff "unparsable wheight line" }, [])

/-- `wskip`: the poller is disabled, so no height reaches the event loop.  On a drain tick nothing final may still be owed. -/
def doWskip (st : St) (fs : List String) : St × List String :=
  let c := st.c
  match kvInt fs "height", kvInt fs "now", (kv fs "main").bind parseMainTbl, (kv fs "hdr").bind parseHdrTbl with
  | some height, some now, some mainT, some hdrT =>
    let o := oracleOf ⟨mainT, hdrT⟩
    let drain := (kvB fs "drain").getD false
    let c :=
      if drain && !c.faulted && c.implAlive then
        let c := match c.lost.find? (fun (u, stayed) => match o.hdr u.ev.block with
                    | some h => stayed && o.main u.ev.block == some true && u.ev.idx == 0 && u.msg.sender == c.cfg.bridge
                                && isEventConfirmed u.msg h now height c.cfg.mainnet && count (showPub (pubOf (u, h))) c.fwdAll == 0
                    | none => false) with
          | some (u, _) => c.addSpec s!"final-message-not-forwarded the event at position {u.ev.id} of the governance contract's log (tx {u.ev.tx}, sequence {u.msg.seq}) was served to the fetch loop in a page answer of a round in which another request failed; the watcher kept running and never handed it to the event loop (the block poller is even disabled), although it is the token bridge's, well-formed, final and its block stayed canonical: forwarded 0 times (owed 1)"
          | none => c
        let owed := c.tracked.filterMap fun (u, stayed) =>
          match o.hdr u.ev.block with
          | some h => if stayed && o.main u.ev.block == some true && u.ev.idx == 0 && u.msg.sender == c.cfg.bridge
                         && isEventConfirmed u.msg h now height c.cfg.mainnet
                      then some (showPub (pubOf (u, h))) else none
          | none => none
        match owed.find? (fun p => count p c.fwdAll < count p owed) with
        | some p => c.addSpec s!"poller-not-enabled {p} is final and still owed to the signer, but the block poller is disabled: no height tick will ever process it"
        | none => c
      else c
    let c := if c.st.alive && c.st.enabled then c.addDiff "block poller: model enabled, implementation disabled (tick skipped)" else c
    ({ st with c := c }, [])
  | _, _, _, _ => ({ st with c := c.addDiff "unparsable wskip line" }, [])

/-- `wrestart`: the loops were stopped (node API error, or cancellation) and are started again on the same `Watcher` value.
Everything forwarded so far stays on record (at most once is judged over all incarnations); what was pending is lost with the
old incarnation — after a node API error the statement excuses that — so liveness is owed again only for what is delivered
from now on.  Where the new incarnation resumes fetching is not prescribed by the statement (the pinned code starts at the
current count); what it forwards is. -/
def doWrestart (st : St) (fs : List String) : St × List String :=
  let c := st.c
  match kv fs "reqs", kvB fs "exit", kvB fs "en", kv fs "fwd" with
  | some reqs, some exit, some en, some fwd =>
    let pan := (kvB fs "panic").getD false
    let late := splitList fwd ","
    let (c, reqsL) := splitReobsTraffic c (splitList reqs ",")
    let reqs := if reqsL.isEmpty then "-" else ",".intercalate reqsL
    let stray := splitList ((kv fs "stray").getD "-") ","
    let c := if stray.isEmpty then c else
      c.addSpec s!"reobs-request-requeued when the watcher was stopped its request queue held {stray.length} request(s): {stray.take 4} (chain:transaction) — every request handed to the watcher (one at a time, the harness' barrier request included) had been taken off the queue and handled before, so the watcher put these (back) there itself; the next incarnation of the watcher would find them"
    let c := if pan then c.addSpec "watcher-panic the fetch loop panicked on the first count request after a restart" else c
    let c := if late.isEmpty then c else
      { c.addDiff s!"messages were forwarded outside a height tick (seen at the restart): {late}" with fwdAll := c.fwdAll ++ late }
    let cnt : Option (Option Int) :=
      match splitList reqs "," with
      | [r] => if r = "count>e" then some none else if r = "count>404" then some (some 0)
               else if r.startsWith "count>" then (parseInt (r.drop 6).toString).map some else none
      | _ => none
    let c := { c with tracked := c.tracked.map (fun (t : Unconf × Bool) => (t.1, false)), implFrom := none, implFromAlt := none, lost := [], implAlive := !exit }
    match cnt with
    | none =>
      let c := if (splitList reqs ",").any (fun r => r.startsWith "count@") then c.addSpec s!"wrong-contract-polled {reqs}" else c.addDiff s!"unexpected requests at restart {reqs}"
      ({ st with c := { c with st := restartW c.st none, faulted := true } }, [])
    | some cn =>
      let s' := restartW c.st cn
      let c := { c with st := s', faulted := cn.isNone }
      let c := if exit ≠ !s'.alive then c.addDiff s!"restart: model alive={s'.alive} impl exit={exit} reqs={reqs}"
               else if s'.enabled ≠ en then c.addDiff s!"block poller flag across the restart: model={s'.enabled} impl={en}" else c
      ({ st with c := c, restarts := st.restarts + 1 }, [])
  | _, _, _, _ => ({ st with c := c.addDiff "unparsable wrestart line" }, [])

/-- `wti`: the token contracts answer differently from now on (same process, same client). -/
def doWti (st : St) (fs : List String) : St × List String :=
  match (kv fs "ti").bind parseTi with
  | some tbl =>
    let ch := tiChanges st.c.ti tbl
    let note := if ch.isEmpty then st.c.tiNote
                else s!" [earlier in the life of this Watcher / Client the token contract answered its three getters successfully, later it began to answer differently: {"; ".intercalate ch}]"
    ({ st with c := { st.c with ti := tbl, tiNote := note } }, [])
  | none => ({ st with c := st.c.addDiff "unparsable wti line" }, [])

/-- `wreobs`: a re-observation request served by the life's own `handleObsvRequest` loop.  Judged like a `reobs` case; in
addition what the request owed must come out: these lives are the ones in which a foreign attestation-shaped event named the
token id while its metadata calls failed — that must not make the token bridge's own message disappear later. -/
def doWreobs (st : St) (fs : List String) : St × List String :=
  let c := st.c
  let r := evalReobs fs
  let c := match r.spec with
    | some s => c.addSpec (if (clauseOf s) == "reobs-attest-mismatch" then s ++ c.tiNote else s)
    | none => c
  let c := match r.owed with
    | some p => c.addSpec s!"reobs-wellformed-event-dropped {p} is the token bridge's message, final, in a canonical block and (attestation) equal to what the token contract reports in this call; every node request succeeded, yet the re-observation request did not hand it to the signer{c.tiNote}"
    | none => c
  let c := match r.requeued with | some s => c.addSpec s | none => c
  let c := match r.diff with | some d => c.addDiff d | none => c
  let c := { c with reobsFwd := c.reobsFwd ++ splitList ((kv fs "fwd").getD "-") "," }
  ({ st with c := c, reobsFwd := st.reobsFwd + r.nFwd, wreobs := st.wreobs + 1 }, [])

def step (st : St) (line : String) : St × List String :=
  let fs := fields line
  match fs with
  | [] => (st, [])
  | op :: id :: rest =>
    if op = "end" then flush st
    else if op = "winit" then doWinit st id rest
    else if op = "wbatch" || op = "wtick" || op = "wheight" || op = "wskip" || op = "wrestart" || op = "wti" || op = "wreobs" then
      if !st.c.active || st.c.id ≠ id then
        let (st, out) := flush st
        ({ st with n := st.n + 1 }, out ++ [s!"diff {id} {op} line outside a case"])
      else if op = "wbatch" then doWbatch st rest
      else if op = "wtick" then doWtick st rest
      else if op = "wskip" then doWskip st rest
      else if op = "wrestart" then doWrestart st rest
      else if op = "wti" then doWti st rest
      else if op = "wreobs" then doWreobs st rest
      else doWheight st rest
    else
      let (st, out) := flush st
      let (st, out2) :=
        if op = "conf" then doConf st id rest
        else if op = "dur" then doDur st id rest
        else if op = "hconf" then doHconf st id rest
        else if op = "tinfo" then doTinfo st id rest
        else if op = "hunconf" then doHunconf st id rest
        else if op = "reobs" then doReobs st id rest
        else if op = "fheight" then doFheight st id rest
        else ({ st with n := st.n + 1 }, [s!"diff {id} unknown op {op}"])
      (st, out ++ out2)
  | _ => (st, [s!"diff ? unknown line: {line.take 80}"])

def fin (st : St) : List String :=
  let (st, out) := flush st
  out ++ [s!"stat cases {st.n}", s!"stat ok {st.nOk}", s!"stat poll_forwarded {st.fwd}", s!"stat reobs_forwarded {st.reobsFwd}",
          s!"stat fetch_ticks {st.ticks}", s!"stat page_requests {st.pages}", s!"stat ticks_with_log_growth {st.grew}",
          s!"stat height_ticks {st.heights}", s!"stat restarts {st.restarts}",
          s!"stat reobs_inside_lives {st.wreobs}"]

def run (h : IO.FS.Stream) : IO Unit := loop h ({} : St) step fin

end Whv.Driver.AlphWatchFam
