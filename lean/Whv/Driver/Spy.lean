import Whv.Driver.Util
import Whv.Model.Spy
/-!
Driver family `spy` (C20).  Case lines (a delivery sequence shares its `<cid>`, `spynew` starts one):

* `spynew <cid>`
* `spysub <cid> id=<n> filters=<-|chain:hex,chain:hex,other> res=ok|badaddress|unsupported|blocked|panic|error|returned-nil`
* `spypub <cid> len=<n> dec=<chain:addrhex|err> res=nil|err|blocked|panic recv=<-|id:count:same:barrier;...>`
      what every live subscriber received for this VAA (`same` = every copy is byte-identical to what was published,
      `barrier` = the per-subscription sentinel sent after it came through)
* `spyleave <cid> id=<n> how=cancel|senderr res=canceled|senderr|nil|other|timeout removed=0|1`
* `spystall <cid> variant=stall|depart filterA=.. entered=0|1 published= through= pub= reg= rem= bgot= arem= deadline_ms= recovered=`
* `spyslow <cid> filterA=<-|chain:hex> len= entered=0|1 pubs=<dec;dec;..> res=<r,r,..> agot=<-|i,i,x..> bgot=<..> abar=0|1 bbar=0|1`
      a slow (not stalled) subscriber A and a prompt one B; what each received, as indexes into the list of published VAAs
      (`x` = bytes that were never published)
* `spydepart <cid> filterA=.. caughtup=0|1 inwindow=0|1 pub= rem= bgot= deadline_ms= recovered=`
      a subscriber that has read everything disconnects; one matching VAA is published while its handler is between waking and removal
* `spycap <cid> through=<n>`  (only when a publish blocked) publishes absorbed by the stalled subscriber
      one subscriber's client stopped reading (and, for `depart`, then disconnected): did a later Publish, a new registration,
      another subscriber's removal, delivery to a reading subscriber (and the stalled subscriber's own removal) complete in time
-/
namespace Whv.Driver.SpyFam
open Whv Whv.Driver Whv.Spy

def parseReq (s : String) : Option (List ReqFilter) :=
  if s = "-" then some [] else
  (s.splitOn ",").mapM fun e =>
    if e = "other" then some .other else
    match e.splitOn ":" with
    | [c, h] => c.toNat?.map fun c => .emitter c h
    | _ => none

def parseDec (s : String) : Option Decoded :=
  if s = "err" then some none else
  match s.splitOn ":" with
  | [c, h] => do let c ← c.toNat?; let a ← ofHex h; pure (some (c, a))
  | _ => none

structure Recv where
  id : Nat
  count : Nat
  same : Bool
  barrier : Bool

def parseRecv (s : String) : Option (List Recv) :=
  if s = "-" then some [] else
  (s.splitOn ";").mapM fun e =>
    match e.splitOn ":" with
    | [i, c, sm, b] => do let i ← i.toNat?; let c ← c.toNat?; pure ⟨i, c, sm == "1", b == "1"⟩
    | _ => none

structure St where
  subs : List (SubId × List Filter) := []
  n : Nat := 0
  nSubOk : Nat := 0
  nSubRejected : Nat := 0
  nPubDecodable : Nat := 0
  nPubUndecodable : Nat := 0
  nDeliveries : Nat := 0
  nDuplicates : Nat := 0
  nLeaves : Nat := 0
  nStall : Nat := 0
  nSlow : Nat := 0

def showFilters (fs : List Filter) : String :=
  if fs.isEmpty then "-" else ",".intercalate (fs.map fun f => s!"{f.chain}:{toHex f.addr}")

def step (st : St) (line : String) : St × List String :=
  let fs := fields line
  match fs with
  | ["spynew", id] => ({ st with subs := [], n := st.n + 1 }, [s!"ok {id}"])
  | "spysub" :: id :: rest =>
    match kvNat rest "id", kv rest "filters" >>= parseReq, kv rest "res" with
    | some sid, some req, some res =>
      let st := { st with n := st.n + 1 }
      -- Spec: "... does not prevent ... the registration ... of subscriptions" — no subscriber is stalled in these sequences
      if res = "blocked" then (st, [s!"spec {id} registration-blocked SubscribeSignedVAA #{sid} did not register within the deadline although no subscriber is stalled"])
      else match parseFilters req with
      | .ok f =>
        if res = "ok" then ({ st with subs := st.subs ++ [(sid, f)], nSubOk := st.nSubOk + 1 }, [s!"ok {id}"])
        else (st, [s!"diff {id} SubscribeSignedVAA #{sid} model=ok impl={res}"])
      | .error e =>
        let m := if e = .badAddress then "badaddress" else "unsupported"
        if res = m then ({ st with nSubRejected := st.nSubRejected + 1 }, [s!"ok {id}"])
        else
          let st' := if res = "ok" then { st with subs := st.subs ++ [(sid, [])] } else st
          (st', [s!"diff {id} SubscribeSignedVAA #{sid} model={m} impl={res}"])
    | _, _, _ => (st, [s!"diff {id} unparsable spysub line"])
  | "spypub" :: id :: rest =>
    match kv rest "dec" >>= parseDec, kv rest "res", kv rest "recv" >>= parseRecv with
    | some d, some res, some recv =>
      let st := { st with n := st.n + 1 }
      let cnt (sid : Nat) : Nat := ((recv.find? (·.id == sid)).map (·.count)).getD 0
      if res = "blocked" then (st, [s!"spec {id} publish-blocked Publish did not return within the deadline although every subscriber keeps reading"])
      else if res = "panic" then (st, [s!"spec {id} publish-panic Publish panicked"])
      else if recv.any (fun r => !r.barrier) then
        (st, [s!"spec {id} delivery-stalled a subscriber that keeps reading did not get what was queued for it within the deadline"])
      else if recv.any (fun r => !r.same) then (st, [s!"spec {id} delivered-bytes-altered a subscriber received bytes other than the published VAA"])
      else if recv.map (·.id) ≠ st.subs.map (·.1) then (st, [s!"diff {id} live subscriptions model={st.subs.map (·.1)} impl={recv.map (·.id)}"])
      else
      -- "the VAA's emitter chain and address": what the decoder says, and for a VAA the harness BUILT (Marshal of a value with a
      -- non-empty payload and at most 255 signatures, which C05 says decodes to an equal VAA) the emitter it was built with —
      -- a decoder that rejects such bytes does not take the VAA out of the statement
      let built : Decoded := if kv rest "ep" = some "1" then none else ((kv rest "em" >>= parseDec).getD none)
      let dSpec : Decoded := match d with | some x => some x | none => built
      match dSpec with
      | some (c, a) =>
        -- Spec (statement): delivered to every subscriber with no filters or a matching filter, and to no other
        let missing := st.subs.filter fun (sid, f) => subMatches f c a && cnt sid == 0
        let extra := st.subs.filter fun (sid, f) => !subMatches f c a && cnt sid != 0
        match missing, extra with
        | (sid, f) :: _, _ => (st, [s!"spec {id} matching-subscriber-not-served subscriber #{sid} (filters {showFilters f}) matches emitter {c}:{toHex a} but received nothing"])
        | _, (sid, f) :: _ => (st, [s!"spec {id} non-matching-subscriber-served subscriber #{sid} (filters {showFilters f}) does not match emitter {c}:{toHex a} but received {cnt sid} message(s)"])
        | [], [] =>
          let (l, e) := sends d st.subs
          let bad := st.subs.filter fun (sid, _) => l.count sid != cnt sid
          if res ≠ "nil" || e then (st, [s!"diff {id} Publish result model=nil impl={res}"])
          else match bad with
            | (sid, f) :: _ => (st, [s!"diff {id} copies for subscriber #{sid} (filters {showFilters f}) model={l.count sid} impl={cnt sid}"])
            | [] =>
              let dups := (st.subs.filter fun (sid, _) => cnt sid > 1).length
              ({ st with nPubDecodable := st.nPubDecodable + 1, nDeliveries := st.nDeliveries + l.length, nDuplicates := st.nDuplicates + dups },
               [s!"ok {id}"])
      | none =>
        -- model (`sends none`): subscriptions WITH filters are skipped (no emitter to match), every subscription without
        -- filters gets one copy, and the decode error is returned iff some subscription has filters
        let filtered := st.subs.filter fun (_, f) => !f.isEmpty
        let badF := filtered.filter fun (sid, _) => cnt sid != 0
        let unf := st.subs.filter fun (_, f) => f.isEmpty
        -- Spec (statement, first sentence): "delivered to every subscriber that has no filters" needs no decoding.  For bytes that
        -- are what `Marshal` writes for a signed VAA (here: one with an empty payload, which `Unmarshal` rejects) the clause
        -- is claimed; for arbitrary garbage (not a VAA) the statement says nothing.
        let unserved := unf.filter fun (sid, _) => cnt sid == 0
        if kv rest "ep" = some "1" && !unserved.isEmpty then
          (st, [s!"spec {id} unfiltered-subscriber-not-served a signed VAA with an empty payload was published (Publish returned {res}); subscriber(s) {unserved.map (·.1)} have no filters but received nothing (subscriptions in registration order: {st.subs.map fun (sid, f) => s!"#{sid}:{showFilters f}"})"])
        else
        if !badF.isEmpty then (st, [s!"diff {id} undecodable VAA reached a filtered subscriber"])
        else
          let (l, e) := sends none st.subs
          let want := if e then "err" else "nil"
          let bad := st.subs.filter fun (sid, _) => l.count sid != cnt sid
          if res = want && bad.isEmpty then ({ st with nPubUndecodable := st.nPubUndecodable + 1 }, [s!"ok {id}"])
          else (st, [s!"diff {id} undecodable VAA: model={want}, copies {l}; impl={res} {kv rest "recv"}"])
    | _, _, _ => (st, [s!"diff {id} unparsable spypub line"])
  | "spyleave" :: id :: rest =>
    match kvNat rest "id", kv rest "how", kv rest "res", kvNat rest "removed" with
    | some sid, some how, some res, some removed =>
      let st' := { st with subs := st.subs.filter (·.1 != sid), n := st.n + 1, nLeaves := st.nLeaves + 1 }
      -- Spec: "... nor the ... removal of subscriptions"
      if res = "timeout" || removed = 0 then
        (st', [s!"spec {id} removal-blocked subscriber #{sid} left ({how}) but its handler did not return / its subscription was not removed within the deadline (res={res} removed={removed})"])
      else if (how = "cancel" && res ≠ "canceled") || (how = "senderr" && res ≠ "senderr") then
        (st', [s!"diff {id} handler of #{sid} returned {res} after {how}"])
      else (st', [s!"ok {id}"])
    | _, _, _, _ => (st, [s!"diff {id} unparsable spyleave line"])
  | "spystall" :: id :: rest =>
    let st := { st with n := st.n + 1, nStall := st.nStall + 1 }
    match kv rest "setup" with
    | some x => (st, [s!"diff {id} stall scenario could not be set up: {x}"])
    | none =>
      let g (k : String) : String := (kv rest k).getD "?"
      -- the first VAA must go through and reach the (now stalling) client
      if g "through" = "0" || g "entered" ≠ "1" then
        (st, [s!"spec {id} publish-blocked the first publish did not go through (through={g "through"} entered={g "entered"})"])
      else
        -- Spec: "A subscriber that stops reading or disconnects does not prevent delivery to the other subscribers,
        -- nor the registration and removal of subscriptions."
        let bad := ["pub", "reg", "rem", "bgot", "arem"].filter fun k => g k ≠ "done" && g k ≠ "n/a"
        -- a weaker consequence of the same sentence, kept as its own clause: once the stalled subscriber's client reads again (or
        -- has disconnected) everything that was held up completes — a stall must not turn into a permanent deadlock
        let recov := if g "recovered" = "0" then
            [s!"spec {id} not-recovered-after-subscriber-resumes variant={g "variant"} filterA={g "filterA"}: the subscriber's client resumed reading / disconnected, yet within {g "deadline_ms"} ms the held-up Publish or a subscription handler did not finish (next-publish={g "pub"})"]
          else []
        if bad.isEmpty then (st, if recov.isEmpty then [s!"ok {id}"] else recov)
        else (st, recov ++ [s!"spec {id} publish-blocked-by-stalled-subscriber variant={g "variant"} filterA={g "filterA"}: with one subscriber not reading, after {g "through"} publishes, within {g "deadline_ms"} ms: next-publish={g "pub"} registration={g "reg"} removal-of-another={g "rem"} delivery-to-reader={g "bgot"} removal-of-stalled={g "arem"}"])
  | "spyslow" :: id :: rest =>
    let st := { st with n := st.n + 1 }
    match kv rest "setup" with
    | some x => (st, [s!"diff {id} slow-subscriber scenario could not be set up: {x}"])
    | none =>
    let parseIdx (s : String) : List (Option Nat) := if s = "-" then [] else (s.splitOn ",").map String.toNat?
    match kv rest "filterA" >>= parseReq, kv rest "pubs", kv rest "res", kv rest "agot", kv rest "bgot" with
    | some reqA, some pubs, some res, some agot, some bgot =>
      match parseFilters reqA, (pubs.splitOn ";").mapM parseDec with
      | .ok fA, some decs =>
        let n := decs.length
        let idxs := List.range n
        let mt (f : List Filter) (i : Nat) : Bool := match decs[i]? with
          | some (some (c, a)) => subMatches f c a
          | _ => false
        let expA := idxs.filter (mt fA)
        let expB := idxs
        -- Spec on the exact byte strings: every subscriber receives the published VAAs matching its filters, those bytes, nothing else
        let judge (who : String) (f : List Filter) (exp : List Nat) (got : List (Option Nat)) : Option String :=
          if got.any (·.isNone) then some s!"delivered-bytes-altered subscriber {who} received bytes that were never published (received {got.map fun o => (o.map toString).getD "x"}, published {n})"
          else
            let g := got.filterMap (fun o => o)
            match g.find? (fun i => !mt f i) with
            | some i => some s!"non-matching-subscriber-served subscriber {who} (filters {showFilters f}) received published VAA #{i}, whose emitter it does not match"
            | none =>
              if g = exp then none
              else if g.length = exp.length then some s!"delivered-bytes-altered subscriber {who} was sent {exp} but received the bytes of {g}"
              else match exp.find? (fun i => !g.contains i) with
                | some i => some s!"matching-subscriber-not-served subscriber {who} never received published VAA #{i} (expected {exp}, received {g})"
                | none => some s!"delivered-bytes-altered subscriber {who} expected {exp}, received {g}"
        if (res.splitOn ",").any (· == "blocked") then
          (st, [s!"diff {id} a Publish waited for a slow subscriber whose channel had a free slot (model: capacity {chanCap}); res={res}"])
        else if (res.splitOn ",").any (· != "nil") then (st, [s!"diff {id} Publish results {res}"])
        else if kv rest "abar" ≠ some "1" || kv rest "bbar" ≠ some "1" || kv rest "entered" ≠ some "1" then
          (st, [s!"spec {id} delivery-stalled a reading subscriber did not get what was queued for it within the deadline"])
        else match judge "A" fA expA (parseIdx agot), judge "B" [] expB (parseIdx bgot) with
          | some e, _ => (st, [s!"spec {id} {e}"])
          | _, some e => (st, [s!"spec {id} {e}"])
          | none, none => ({ st with nSlow := st.nSlow + 1 }, [s!"ok {id}"])
      | _, _ => (st, [s!"diff {id} unparsable spyslow line"])
    | _, _, _, _, _ => (st, [s!"diff {id} unparsable spyslow line"])
  | "spydepart" :: id :: rest =>
    let st := { st with n := st.n + 1, nStall := st.nStall + 1 }
    match kv rest "setup" with
    | some x => (st, [s!"diff {id} departing-subscriber scenario could not be set up: {x}"])
    | none =>
      let g (k : String) : String := (kv rest k).getD "?"
      if g "caughtup" ≠ "1" then (st, [s!"spec {id} delivery-stalled the first VAA did not reach both subscribers"])
      else
        -- Spec: "A subscriber that ... disconnects does not prevent delivery to the other subscribers, nor the ... removal of
        -- subscriptions" — here nobody stopped reading: the subscriber had received everything before it left
        let bad := ["pub", "rem", "bgot"].filter fun k => g k ≠ "done"
        if bad.isEmpty then (st, [s!"ok {id}"])
        else (st, [s!"spec {id} departing-subscriber-blocks-publish filterA={g "filterA"}: a subscriber that had read everything disconnected; a matching VAA published while its handler was between waking and removal (inwindow={g "inwindow"}): within {g "deadline_ms"} ms publish={g "pub"} its-removal={g "rem"} delivery-to-other={g "bgot"}"])
  | "spycap" :: id :: rest =>
    -- tie for the channel capacity: a subscriber stalled inside Send absorbs 1 + cap(sub.ch) publishes before one blocks
    match kvNat rest "through" with
    | some n => ({ st with n := st.n + 1 },
        [if n = chanCap + 1 then s!"ok {id}" else s!"diff {id} a stalled subscriber absorbed {n} publishes before one blocked; model (channel capacity {chanCap}) says {chanCap + 1}"])
    | none => (st, [s!"diff {id} unparsable spycap line"])
  | [] => (st, [])
  | _ => (st, [s!"diff ? unknown line: {line.take 80}"])

def fin (st : St) : List String :=
  [s!"stat lines {st.n}", s!"stat subscriptions_registered {st.nSubOk}", s!"stat subscriptions_rejected {st.nSubRejected}",
   s!"stat publishes_decodable {st.nPubDecodable}", s!"stat publishes_undecodable {st.nPubUndecodable}",
   s!"stat channel_sends {st.nDeliveries}", s!"stat duplicate_deliveries {st.nDuplicates}", s!"stat leaves {st.nLeaves}",
   s!"stat stall_scenarios {st.nStall}", s!"stat slow_subscriber_scenarios {st.nSlow}"]

def run (h : IO.FS.Stream) : IO Unit := loop h ({} : St) step fin

end Whv.Driver.SpyFam
