import Whv.Lemmas.Assemble
/-!
The C01 invariant of the processor model: recorded signatures recover to the address they are filed under,
snapshots are sets learned from chain, the own VAA hashes to the key it is filed under, and everything in the store is
a quorum-signed, verifiable VAA.
-/
namespace Whv.Proc
open Whv

/-- "Carries valid signatures, over its own digest, from at least the quorum number of distinct members of `g`, in
strictly ascending guardian order" — `verifySignatures = true` is exactly that by `C06.verify_iff`. -/
def Good (O : Oracle) (g : GSet) (v : Vaa) : Prop :=
  verifySignatures (O.recover (O.digestOf v.body)) v.sigs g.keys = true ∧ quorum g.keys.length ≤ v.sigs.length

def isGov (cfg : Config) (b : Body) : Prop := b.emitter = cfg.govEmitter ∧ b.emitterChain = cfg.govChain

instance (cfg : Config) (b : Body) : Decidable (isGov cfg b) := by unfold isGov; exact inferInstance

/-- `L` = the guardian sets delivered by guardian-set updates so far ("learned from chain"). -/
structure Inv1 (O : Oracle) (cfg : Config) (L : List GSet) (s : PState) : Prop where
  cur : ∀ g, s.gs = some g → g ∈ L
  sigs : ∀ p ∈ s.agg, ∀ q ∈ p.2.signatures, O.recover p.1 q.2 = some q.1
  snap : ∀ p ∈ s.agg, ∀ g, p.2.gs = some g → g ∈ L
  our : ∀ p ∈ s.agg, ∀ v, p.2.ourVAA = some v →
          O.digestOf v.body = p.1 ∧ ∃ g, p.2.gs = some g ∧ (¬ isGov cfg v.body → v.gsIndex = g.index)
  db : ∀ p ∈ s.db, ∃ v g, p.2 = marshal v ∧ p.1 = v.body.id ∧ g ∈ L ∧ Good O g v

/-- What C01 demands of a published VAA (`b` = the bytes broadcast or stored). -/
def PublishedGood (O : Oracle) (L : List GSet) (b : Bytes) : Prop :=
  ∃ v g, b = marshal v ∧ g ∈ L ∧ Good O g v

theorem inv1_init (O : Oracle) (cfg : Config) : Inv1 O cfg [] {} :=
  ⟨by intro g h; simp at h, by intro p hp; simp at hp, by intro p hp; simp at hp, by intro p hp; simp at hp,
   by intro p hp; simp at hp⟩

theorem inv1_mono {O : Oracle} {cfg : Config} {L L' : List GSet} {s : PState} (h : Inv1 O cfg L s)
    (hsub : ∀ g ∈ L, g ∈ L') : Inv1 O cfg L' s :=
  ⟨fun g hg => hsub g (h.cur g hg), h.sigs, fun p hp g hg => hsub g (h.snap p hp g hg), h.our,
   fun p hp => by
     obtain ⟨v, g, a, b, c, d⟩ := h.db p hp
     exact ⟨v, g, a, b, hsub g c, d⟩⟩

/-- Per-entry part of the invariant, for an entry filed under digest `d`. -/
structure EntryInv (O : Oracle) (cfg : Config) (L : List GSet) (d : Bytes) (st : VState) : Prop where
  sigs : ∀ q ∈ st.signatures, O.recover d q.2 = some q.1
  snap : ∀ g, st.gs = some g → g ∈ L
  our : ∀ v, st.ourVAA = some v →
          O.digestOf v.body = d ∧ ∃ g, st.gs = some g ∧ (¬ isGov cfg v.body → v.gsIndex = g.index)

theorem entryInv_of_mem {O : Oracle} {cfg : Config} {L : List GSet} {s : PState} (h : Inv1 O cfg L s)
    {d : Bytes} {st : VState} (hm : (d, st) ∈ s.agg) : EntryInv O cfg L d st :=
  ⟨h.sigs _ hm, h.snap _ hm, h.our _ hm⟩

theorem entryInv_entryOrFresh {O : Oracle} {cfg : Config} {L : List GSet} {s : PState} (h : Inv1 O cfg L s)
    (d : Bytes) (now : Int) : EntryInv O cfg L d (entryOrFresh s d now) := by
  unfold entryOrFresh
  split
  · rename_i st hl; exact entryInv_of_mem h (mem_of_lookup hl)
  · exact ⟨by intro q hq; simp at hq, by intro g hg; simp at hg, by intro v hv; simp at hv⟩

theorem inv1_insert_agg {O : Oracle} {cfg : Config} {L : List GSet} {s : PState} (h : Inv1 O cfg L s)
    {d : Bytes} {st : VState} (hst : EntryInv O cfg L d st) :
    Inv1 O cfg L { s with agg := alInsert d st s.agg } := by
  refine ⟨h.cur, ?_, ?_, ?_, h.db⟩
  · intro p hp
    rcases mem_alInsert hp with rfl | hp
    · exact hst.sigs
    · exact h.sigs p hp
  · intro p hp
    rcases mem_alInsert hp with rfl | hp
    · exact hst.snap
    · exact h.snap p hp
  · intro p hp
    rcases mem_alInsert hp with rfl | hp
    · exact hst.our
    · exact h.our p hp

theorem inv1_insert_db {O : Oracle} {cfg : Config} {L : List GSet} {s : PState} (h : Inv1 O cfg L s)
    (v : Vaa) (g : GSet) (hg : g ∈ L) (hgood : Good O g v) :
    Inv1 O cfg L { s with db := alInsert v.body.id (marshal v) s.db } := by
  refine ⟨h.cur, h.sigs, h.snap, h.our, ?_⟩
  intro p hp
  rcases mem_alInsert hp with rfl | hp
  · exact ⟨v, g, rfl, rfl, hg, hgood⟩
  · exact h.db p hp

end Whv.Proc

namespace Whv.Proc
open Whv

theorem broadcastSignature_inv1 {O : Oracle} {cfg : Config} {L : List GSet} {s : PState} (h : Inv1 O cfg L s)
    (v : Vaa) (sig tx : Bytes) (now : Int) (g : GSet) (hg : s.gs = some g)
    (hidx : ¬ isGov cfg v.body → v.gsIndex = g.index) :
    Inv1 O cfg L (broadcastSignature cfg s (O.digestOf v.body) v sig tx now).1 ∧
    ∀ b, Out.vaa b ∉ (broadcastSignature cfg s (O.digestOf v.body) v sig tx now).2 := by
  unfold broadcastSignature
  simp only
  constructor
  · apply inv1_insert_agg h
    have he := entryInv_entryOrFresh h (O.digestOf v.body) now
    refine ⟨he.sigs, ?_, ?_⟩
    · intro g' hg'
      simp only at hg'
      exact h.cur g' hg'
    · intro v' hv'
      simp only [Option.some.injEq] at hv'
      subst hv'
      exact ⟨rfl, g, hg, hidx⟩
  · intro b hb
    simp at hb

theorem handleMessage_inv1 {O : Oracle} {cfg : Config} {L : List GSet} {s : PState} (h : Inv1 O cfg L s)
    (m : Msg) (now : Int) (s' : PState) (outs : List Out) (hr : handleMessage O cfg s m now = .ok s' outs) :
    Inv1 O cfg L s' ∧ ∀ b, Out.vaa b ∉ outs := by
  unfold handleMessage at hr
  split at hr
  · cases hr; exact ⟨h, by intro b hb; simp at hb⟩
  · rename_i g hg
    have hproceed : ∀ s' outs, (match O.sign (O.digestOf (vaaOfMsg g.index m).body) with
        | none => Res.panic "sign"
        | some sig =>
          let (s', outs) := broadcastSignature cfg s (O.digestOf (vaaOfMsg g.index m).body) (vaaOfMsg g.index m) sig m.txHash now
          Res.ok s' outs) = .ok s' outs → Inv1 O cfg L s' ∧ ∀ b, Out.vaa b ∉ outs := by
      intro s' outs hr
      split at hr
      · cases hr
      · rename_i sig _
        have := broadcastSignature_inv1 h (vaaOfMsg g.index m) sig m.txHash now g hg (fun _ => rfl)
        simp only at hr
        cases hr
        exact this
    simp only at hr
    split at hr
    · cases hr; exact ⟨h, by intro b hb; simp at hb⟩
    · split at hr
      · split at hr
        · cases hr; exact ⟨h, by intro b hb; simp at hb⟩
        · split at hr
          · cases hr; exact ⟨h, by intro b hb; simp at hb⟩
          · exact hproceed _ _ hr
      · exact hproceed _ _ hr

theorem handleInjection_inv1 {O : Oracle} {cfg : Config} {L : List GSet} {s : PState} (h : Inv1 O cfg L s)
    (v : Vaa) (hgov : isGov cfg v.body) (now : Int) (s' : PState) (outs : List Out)
    (hr : handleInjection O cfg s v now = .ok s' outs) :
    Inv1 O cfg L s' ∧ ∀ b, Out.vaa b ∉ outs := by
  unfold handleInjection at hr
  split at hr
  · cases hr; exact ⟨h, by intro b hb; simp at hb⟩
  · rename_i g hg
    simp only at hr
    split at hr
    · cases hr
    · rename_i sig _
      have := broadcastSignature_inv1 h v sig [] now g hg (fun hn => absurd hgov hn)
      cases hr
      exact this

theorem handleInbound_inv1 {O : Oracle} {cfg : Config} {L : List GSet} {s : PState} (h : Inv1 O cfg L s)
    (bytes : Bytes) (s' : PState) (outs : List Out) (hr : handleInbound O s bytes = .ok s' outs) :
    Inv1 O cfg L s' ∧ outs = [] ∧
    -- an already stored VAA is never replaced by a peer's copy
    (∀ id b, s.db.lookup id = some b → s'.db.lookup id = some b) ∧
    -- whatever was stored is a quorum-signed VAA verifiable against the current set
    (s'.db = s.db ∨ ∃ v g, unmarshal bytes = some v ∧ s.gs = some g ∧ Good O g v ∧
        s.db.lookup v.body.id = none ∧ s'.db = alInsert v.body.id (marshal v) s.db) := by
  unfold handleInbound at hr
  have same : ∀ {s' outs}, Res.ok s [] = Res.ok s' outs → Inv1 O cfg L s' ∧ outs = [] ∧
      (∀ id b, s.db.lookup id = some b → s'.db.lookup id = some b) ∧
      (s'.db = s.db ∨ ∃ v g, unmarshal bytes = some v ∧ s.gs = some g ∧ Good O g v ∧
        s.db.lookup v.body.id = none ∧ s'.db = alInsert v.body.id (marshal v) s.db) := by
    intro s' outs e; cases e; exact ⟨h, rfl, fun _ _ x => x, Or.inl rfl⟩
  split at hr
  · exact same hr
  · rename_i v hv
    split at hr
    · exact same hr
    · rename_i g hg
      split at hr
      · exact same hr
      · split at hr
        · exact same hr
        · rename_i hne
          split at hr
          · exact same hr
          · rename_i hq
            split at hr
            · exact same hr
            · rename_i hver
              split at hr
              · exact same hr
              · rename_i hnone
                rw [storeSigned_some _ _ hne] at hr
                cases hr
                have hgood : Good O g v := ⟨by simpa using hver, by omega⟩
                refine ⟨inv1_insert_db h v g (h.cur g hg) hgood, rfl, ?_, Or.inr ⟨v, g, hv, hg, hgood, hnone, rfl⟩⟩
                intro id b hl
                simp only
                by_cases hid : id = v.body.id
                · subst hid; rw [hnone] at hl; cases hl
                · exact lookup_alInsert_ne hid hl

end Whv.Proc

namespace Whv.Proc
open Whv

theorem gateSet_mem {O : Oracle} {cfg : Config} {L : List GSet} {s : PState} (h : Inv1 O cfg L s)
    {d : Bytes} {gs : GSet} (hg : gateSet s d = some gs) : gs ∈ L := by
  unfold gateSet at hg
  split at hg
  · rename_i st hl
    split at hg
    · rename_i g hsg
      cases hg
      exact h.snap _ (mem_of_lookup hl) _ hsg
    · exact h.cur _ hg
  · exact h.cur _ hg

theorem gateSet_eq_snap {s : PState} {d : Bytes} {gs g' : GSet} (now : Int) (hg : gateSet s d = some gs)
    (hs : (entryOrFresh s d now).gs = some g') : gs = g' := by
  unfold gateSet at hg
  unfold entryOrFresh at hs
  split at hg
  · rename_i st hl
    rw [hl] at hs
    simp only at hs
    rw [hs] at hg
    simp only at hg
    cases hg; rfl
  · rename_i hl
    rw [hl] at hs
    simp at hs

theorem obsFinish_inv1 {O : Oracle} {cfg : Config} {L : List GSet} {s : PState} (h : Inv1 O cfg L s)
    (d : Bytes) (gs : GSet) (hgs : gs ∈ L) (hok : GSetOk gs) {st1 : VState} (hst : EntryInv O cfg L d st1)
    (hsnap : ∀ g', st1.gs = some g' → gs = g')
    (s' : PState) (outs : List Out) (hr : obsFinish s d gs st1 = .ok s' outs) :
    Inv1 O cfg L s' ∧
    ∀ b, Out.vaa b ∈ outs → ∃ v, b = marshal v ∧ Good O gs v ∧ (¬ isGov cfg v.body → v.gsIndex = gs.index) ∧
      s'.db = alInsert v.body.id b s.db ∧ ∃ v0, st1.ourVAA = some v0 ∧ v.body = v0.body ∧ st1.gs = some gs := by
  unfold obsFinish at hr
  split at hr
  · cases hr
  · split at hr
    · cases hr
      exact ⟨inv1_insert_agg h hst, by intro b hb; simp at hb⟩
    · rename_i v hv
      simp only at hr
      split at hr
      · rename_i hq
        have hne : (assemble gs.keys st1.signatures).length ≠ 0 := by
          have := quorum_pos gs.keys.length
          omega
        rw [storeSigned_some _ _ (by simpa using hne)] at hr
        cases hr
        obtain ⟨hd, g', hg', hidx⟩ := hst.our v hv
        have hgg : gs = g' := hsnap g' hg'
        subst hgg
        have hgood : Good O gs { v with sigs := assemble gs.keys st1.signatures } := by
          constructor
          · simp only
            rw [hd]
            exact assemble_verifies _ gs hok _ hst.sigs
          · exact hq.1
        constructor
        · have h1 := inv1_insert_db h { v with sigs := assemble gs.keys st1.signatures } gs hgs hgood
          have h2 : EntryInv O cfg L d { st1 with submitted := true } := ⟨hst.sigs, hst.snap, hst.our⟩
          have := inv1_insert_agg h1 h2
          exact ⟨this.cur, this.sigs, this.snap, this.our, this.db⟩
        · intro b hb
          simp at hb
          subst hb
          exact ⟨_, rfl, hgood, hidx, rfl, v, hv, rfl, hg'⟩
      · cases hr
        exact ⟨inv1_insert_agg h hst, by intro b hb; simp at hb⟩

theorem handleObservation_inv1 {O : Oracle} {cfg : Config} {L : List GSet} (hL : ∀ g ∈ L, GSetOk g) {s : PState}
    (h : Inv1 O cfg L s) (o : Obs) (now : Int) (s' : PState) (outs : List Out)
    (hr : handleObservation O s o now = .ok s' outs) :
    Inv1 O cfg L s' ∧
    ∀ b, Out.vaa b ∈ outs → ∃ v g, b = marshal v ∧ g ∈ L ∧ Good O g v ∧
      -- g is the snapshot taken when the node observed the message, and (chain messages) the set the VAA names
      (∃ st, s.agg.lookup o.hash = some st ∧ st.gs = some g ∧ ∃ v0, st.ourVAA = some v0 ∧ v.body = v0.body) ∧
      (¬ isGov cfg v.body → v.gsIndex = g.index) ∧ s'.db = alInsert v.body.id b s.db := by
  unfold handleObservation at hr
  have same : ∀ {s' outs}, Res.ok s [] = Res.ok s' outs → Inv1 O cfg L s' ∧
      ∀ b, Out.vaa b ∈ outs → ∃ v g, b = marshal v ∧ g ∈ L ∧ Good O g v ∧
      (∃ st, s.agg.lookup o.hash = some st ∧ st.gs = some g ∧ ∃ v0, st.ourVAA = some v0 ∧ v.body = v0.body) ∧
      (¬ isGov cfg v.body → v.gsIndex = g.index) ∧ s'.db = alInsert v.body.id b s.db := by
    intro s' outs e; cases e; exact ⟨h, by intro b hb; simp at hb⟩
  split at hr
  · exact same hr
  · rename_i signer hrec
    split at hr
    · exact same hr
    · rename_i haddr
      have haddr' : bytesToAddress o.addr = signer := by simpa using haddr
      split at hr
      · exact same hr
      · rename_i gs hg
        split at hr
        · exact same hr
        · have he := entryInv_entryOrFresh h o.hash now
          have hst1 : EntryInv O cfg L o.hash (recordSig (entryOrFresh s o.hash now) (bytesToAddress o.addr) o.sig) := by
            refine ⟨?_, he.snap, he.our⟩
            intro q hq
            rcases mem_alInsert hq with rfl | hq
            · simp only; rw [haddr']; exact hrec
            · exact he.sigs q hq
          have hmem := gateSet_mem h hg
          obtain ⟨hinv, hpub⟩ := obsFinish_inv1 h o.hash gs hmem (hL gs hmem) hst1
            (fun g' hg' => gateSet_eq_snap now hg hg') s' outs hr
          refine ⟨hinv, ?_⟩
          intro b hb
          obtain ⟨v, hbv, hgood, hidx, hdb, v0, hv0, hbody, hsg⟩ := hpub b hb
          refine ⟨v, gs, hbv, hmem, hgood, ?_, hidx, hdb⟩
          -- the published body is the node's own observation, filed under this digest with this snapshot
          have hv0' : (entryOrFresh s o.hash now).ourVAA = some v0 := hv0
          have hsg' : (entryOrFresh s o.hash now).gs = some gs := hsg
          unfold entryOrFresh at hv0' hsg'
          cases hl : List.lookup o.hash s.agg with
          | none => rw [hl] at hv0'; simp at hv0'
          | some st =>
            rw [hl] at hv0' hsg'
            exact ⟨st, rfl, hsg', v0, hv0', hbody⟩

end Whv.Proc

namespace Whv.Proc
open Whv

/-- A kept entry keeps its signatures, snapshot and own VAA; cleanup never emits a signed VAA. -/
theorem cleanupEntry_keep (pgs : Option GSet) (db : List (VaaId × Bytes)) (now : Int) (room : Bool) (st st' : VState)
    (outs : List Out) (h : cleanupEntry pgs db now room st = .keep st' outs) :
    st'.signatures = st.signatures ∧ st'.gs = st.gs ∧ st'.ourVAA = st.ourVAA ∧ st'.submitted = st.submitted ∧
    st'.firstObserved = st.firstObserved ∧ st'.ourMsg = st.ourMsg ∧ ∀ b, Out.vaa b ∉ outs := by
  unfold cleanupEntry at h
  split at h
  · cases h
  · split at h
    · unfold settleAct at h
      split at h
      · cases h
      · cases h; exact ⟨rfl, rfl, rfl, rfl, rfl, rfl, by intro b hb; simp at hb⟩
    · split at h
      · cases h
      · split at h
        · cases h
        · split at h
          · unfold retryAct at h
            split at h
            · split at h
              · cases h
              · cases h
                refine ⟨rfl, rfl, rfl, rfl, rfl, rfl, ?_⟩
                intro b hb
                simp at hb
            · split at h <;> cases h
          · cases h; exact ⟨rfl, rfl, rfl, rfl, rfl, rfl, by intro b hb; simp at hb⟩

theorem cleanupAll_inv1 {O : Oracle} {cfg : Config} {L : List GSet} (pgs : Option GSet) (db : List (VaaId × Bytes)) (now : Int) :
    ∀ (l : List (Bytes × VState)) (room : Nat) (l' : List (Bytes × VState)) (outs : List Out),
      (∀ p ∈ l, EntryInv O cfg L p.1 p.2) → cleanupAll pgs db now l room = .ok (l', outs) →
      (∀ p ∈ l', EntryInv O cfg L p.1 p.2) ∧ ∀ b, Out.vaa b ∉ outs := by
  intro l
  induction l with
  | nil =>
    intro room l' outs _ h
    simp [cleanupAll] at h
    obtain ⟨rfl, rfl⟩ := h
    exact ⟨by intro p hp; simp at hp, by intro b hb; simp at hb⟩
  | cons hd tl ih =>
    intro room l' outs hall h
    obtain ⟨d, st⟩ := hd
    unfold cleanupAll at h
    split at h
    · cases h
    · exact ih _ _ _ (fun p hp => hall p (by simp [hp])) h
    · rename_i st' o hk
      split at h
      · cases h
      · rename_i agg' outs' hrest
        simp only [Except.ok.injEq, Prod.mk.injEq] at h
        obtain ⟨rfl, rfl⟩ := h
        obtain ⟨i1, i2⟩ := ih _ _ _ (fun p hp => hall p (by simp [hp])) hrest
        obtain ⟨e1, e2, e3, _, _, _, e7⟩ := cleanupEntry_keep _ _ _ _ _ _ _ hk
        have hst := hall (d, st) (by simp)
        constructor
        · intro p hp
          simp at hp
          rcases hp with rfl | hp
          · exact ⟨by rw [e1]; exact hst.sigs, by rw [e2]; exact hst.snap, by rw [e3, e2]; exact hst.our⟩
          · exact i1 p hp
        · intro b hb
          simp at hb
          rcases hb with hb | hb
          · exact e7 b hb
          · exact i2 b hb

theorem cleanupAll_no_vaa (pgs : Option GSet) (db : List (VaaId × Bytes)) (now : Int) :
    ∀ (l : List (Bytes × VState)) (room : Nat) (l' : List (Bytes × VState)) (outs : List Out),
      cleanupAll pgs db now l room = .ok (l', outs) → ∀ b, Out.vaa b ∉ outs := by
  intro l
  induction l with
  | nil =>
    intro room l' outs h
    simp [cleanupAll] at h
    obtain ⟨rfl, rfl⟩ := h
    intro b hb; simp at hb
  | cons hd tl ih =>
    intro room l' outs h
    obtain ⟨d, st⟩ := hd
    unfold cleanupAll at h
    split at h
    · cases h
    · exact ih _ _ _ h
    · rename_i st' o hk
      split at h
      · cases h
      · rename_i agg' outs' hrest
        simp only [Except.ok.injEq, Prod.mk.injEq] at h
        obtain ⟨rfl, rfl⟩ := h
        have e7 := (cleanupEntry_keep _ _ _ _ _ _ _ hk).2.2.2.2.2.2
        intro b hb
        simp at hb
        rcases hb with hb | hb
        · exact e7 b hb
        · exact ih _ _ _ hrest b hb

theorem handleCleanup_inv1 {O : Oracle} {cfg : Config} {L : List GSet} {s : PState} (h : Inv1 O cfg L s)
    (now : Int) (room : Nat) (s' : PState) (outs : List Out) (hr : handleCleanup s now room = .ok s' outs) :
    Inv1 O cfg L s' ∧ (∀ b, Out.vaa b ∉ outs) ∧ s'.db = s.db := by
  unfold handleCleanup at hr
  split at hr
  · cases hr
  · rename_i agg' o hc
    cases hr
    obtain ⟨i1, i2⟩ := cleanupAll_inv1 (O := O) (cfg := cfg) (L := L) _ _ _ _ _ _ _
      (fun p hp => entryInv_of_mem h (by cases p; exact hp)) hc
    exact ⟨⟨h.cur, fun p hp => (i1 p hp).sigs, fun p hp => (i1 p hp).snap, fun p hp => (i1 p hp).our, h.db⟩, i2, rfl⟩

/-- The sets learned from chain after an event. -/
def learn (L : List GSet) : Event → List GSet
  | .setUpdate g => g :: L
  | _ => L

/-- Hypotheses on the environment, per event: sets delivered by the chain watcher have distinct keys (≤ 256), and
injected VAAs come from the governance emitter (the only thing the admin RPC injects). -/
def EventOk (cfg : Config) : Event → Prop
  | .setUpdate g => GSetOk g
  | .injection v _ => isGov cfg v.body
  | _ => True

/-- **One step preserves the C01 invariant, and everything it broadcasts as complete is `PublishedGood`.** -/
theorem step_inv1 {O : Oracle} {cfg : Config} {L : List GSet} (hL : ∀ g ∈ L, GSetOk g) {s : PState}
    (h : Inv1 O cfg L s) (e : Event) (he : EventOk cfg e) (s' : PState) (outs : List Out)
    (hr : step O cfg s e = .ok s' outs) :
    Inv1 O cfg (learn L e) s' ∧ (∀ g ∈ learn L e, GSetOk g) ∧ ∀ b, Out.vaa b ∈ outs → PublishedGood O (learn L e) b := by
  cases e with
  | setUpdate g =>
    simp only [step] at hr
    cases hr
    refine ⟨?_, ?_, by intro b hb; simp at hb⟩
    · have := inv1_mono (L' := g :: L) h (fun x hx => by simp [hx])
      exact ⟨by intro g' hg'; simp at hg'; simp [learn, hg'], this.sigs, this.snap, this.our, this.db⟩
    · intro x hx
      simp [learn] at hx
      rcases hx with rfl | hx
      · exact he
      · exact hL x hx
  | message m now =>
    obtain ⟨a, b⟩ := handleMessage_inv1 h m now s' outs hr
    exact ⟨a, hL, fun x hx => absurd hx (b x)⟩
  | injection v now =>
    obtain ⟨a, b⟩ := handleInjection_inv1 h v he now s' outs hr
    exact ⟨a, hL, fun x hx => absurd hx (b x)⟩
  | observation o now =>
    obtain ⟨a, b⟩ := handleObservation_inv1 hL h o now s' outs hr
    refine ⟨a, hL, fun x hx => ?_⟩
    obtain ⟨v, g, e1, e2, e3, _⟩ := b x hx
    exact ⟨v, g, e1, e2, e3⟩
  | inbound bytes =>
    obtain ⟨a, b, _⟩ := handleInbound_inv1 h bytes s' outs hr
    exact ⟨a, hL, by intro x hx; rw [b] at hx; simp at hx⟩
  | cleanup now room =>
    obtain ⟨a, b, _⟩ := handleCleanup_inv1 h now room s' outs hr
    exact ⟨a, hL, fun x hx => absurd hx (b x)⟩

def learnAll (L : List GSet) : List Event → List GSet
  | [] => L
  | e :: es => learnAll (learn L e) es

theorem learn_sub (L : List GSet) (e : Event) : ∀ g ∈ L, g ∈ learn L e := by
  intro g hg; cases e <;> simp [learn, hg]

theorem learnAll_sub : ∀ (es : List Event) (L : List GSet), ∀ g ∈ L, g ∈ learnAll L es := by
  intro es
  induction es with
  | nil => intro L g hg; exact hg
  | cons e es ih => intro L g hg; exact ih _ g (learn_sub L e g hg)

theorem publishedGood_mono {O : Oracle} {L L' : List GSet} {b : Bytes} (h : PublishedGood O L b)
    (hsub : ∀ g ∈ L, g ∈ L') : PublishedGood O L' b := by
  obtain ⟨v, g, a, c, d⟩ := h
  exact ⟨v, g, a, hsub g c, d⟩

/-- **Every run**: the invariant holds at the end and every `SignedVAAWithQuorum` ever broadcast is `PublishedGood`. -/
theorem run_inv1 {O : Oracle} {cfg : Config} : ∀ (es : List Event) (L : List GSet) (s : PState),
    (∀ g ∈ L, GSetOk g) → Inv1 O cfg L s → (∀ e ∈ es, EventOk cfg e) →
    ∀ sf outs, run O cfg s es = .ok (sf, outs) →
      Inv1 O cfg (learnAll L es) sf ∧ ∀ os ∈ outs, ∀ b, Out.vaa b ∈ os → PublishedGood O (learnAll L es) b := by
  intro es
  induction es with
  | nil =>
    intro L s _ h _ sf outs hr
    simp [run] at hr
    obtain ⟨rfl, rfl⟩ := hr
    exact ⟨h, by intro os hos; simp at hos⟩
  | cons e es ih =>
    intro L s hL h hev sf outs hr
    unfold run at hr
    split at hr
    · cases hr
    · rename_i s' o hs
      split at hr
      · cases hr
      · rename_i sf' os hrest
        simp only [Except.ok.injEq, Prod.mk.injEq] at hr
        obtain ⟨rfl, rfl⟩ := hr
        obtain ⟨i1, i2, i3⟩ := step_inv1 hL h e (hev e (by simp)) s' o hs
        obtain ⟨j1, j2⟩ := ih (learn L e) s' i2 i1 (fun x hx => hev x (by simp [hx])) _ _ hrest
        refine ⟨j1, ?_⟩
        intro os' hos' b hb
        simp at hos'
        rcases hos' with rfl | hos'
        · exact publishedGood_mono (i3 b hb) (learnAll_sub es _)
        · exact j2 os' hos' b hb

end Whv.Proc
