import Whv.Model.Vaa
namespace Whv

theorem unbe_be1 {n : Nat} (h : n < 256) : unbe (be 1 n) = n := unbe_be_of_lt (by simpa using h)

theorem sigsBytes_length (sigs : List Sig) (h : ∀ s ∈ sigs, s.WF) : (sigsBytes sigs).length = 66 * sigs.length := by
  induction sigs with
  | nil => rfl
  | cons s ss ih =>
    have hs := h s (by simp)
    have := ih (fun x hx => h x (by simp [hx]))
    simp only [sigsBytes, sigBytes, List.length_append, be_length, List.length_cons, this, hs.2]
    omega

theorem readSigs_sigsBytes (sigs : List Sig) (rest : Bytes) (h : ∀ s ∈ sigs, s.WF) :
    readSigs sigs.length (sigsBytes sigs ++ rest) = some (sigs, rest) := by
  induction sigs with
  | nil => rfl
  | cons s ss ih =>
    have hs := h s (by simp)
    have ih' := ih (fun x hx => h x (by simp [hx]))
    have e : sigsBytes (s :: ss) ++ rest = be 1 s.idx ++ (s.sig ++ (sigsBytes ss ++ rest)) := by
      simp [sigsBytes, sigBytes, List.append_assoc]
    rw [e, List.length_cons, readSigs, takeN_append_of_length (be_length 1 s.idx)]
    simp only [takeN_append_of_length hs.2, ih', unbe_be1 hs.1]

theorem readSigs_some : ∀ (n : Nat) (bs : Bytes) (sigs : List Sig) (rest : Bytes),
    readSigs n bs = some (sigs, rest) →
    bs = sigsBytes sigs ++ rest ∧ sigs.length = n ∧ ∀ s ∈ sigs, s.WF := by
  intro n
  induction n with
  | zero =>
    intro bs sigs rest h
    simp [readSigs] at h
    obtain ⟨rfl, rfl⟩ := h
    simp [sigsBytes]
  | succ n ih =>
    intro bs sigs rest h
    unfold readSigs at h
    split at h
    · cases h
    · rename_i i r1 h1
      split at h
      · cases h
      · rename_i s r2 h2
        split at h
        · cases h
        · rename_i ss r3 h3
          cases h
          obtain ⟨e1, l1⟩ := takeN_some h1
          obtain ⟨e2, l2⟩ := takeN_some h2
          obtain ⟨e3, l3, w3⟩ := ih _ _ _ h3
          refine ⟨?_, by simp [l3], ?_⟩
          · have hi : be 1 (unbe i) = i := by have := be_unbe i; rwa [l1] at this
            simp [sigsBytes, sigBytes, hi, e1, e2, e3, List.append_assoc]
          · intro x hx
            simp at hx
            rcases hx with rfl | hx
            · exact ⟨by have := unbe_lt i; rw [l1] at this; simpa using this, l2⟩
            · exact w3 x hx

theorem readBody_serializeBody (b : Body) (h : b.WF) (hp : b.payload ≠ []) :
    readBody (serializeBody b) = some b := by
  obtain ⟨h1, h2, h3, h4, h5, h6, h7⟩ := h
  unfold readBody serializeBody
  simp only [takeN_append_of_length (be_length _ _), takeN_append_of_length h5,
    unbe_be_of_lt h1, unbe_be_of_lt h2, unbe_be_of_lt h3, unbe_be_of_lt h4, unbe_be_of_lt h6, unbe_be_of_lt h7, hp, if_false]

theorem readBody_some (r : Bytes) (b : Body) (h : readBody r = some b) :
    serializeBody b = r ∧ b.WF ∧ b.payload ≠ [] := by
  unfold readBody at h
  split at h; · cases h
  rename_i ts r1 e1
  split at h; · cases h
  rename_i nonce r2 e2
  split at h; · cases h
  rename_i ec r3 e3
  split at h; · cases h
  rename_i tc r4 e4
  split at h; · cases h
  rename_i em r5 e5
  split at h; · cases h
  rename_i sq r6 e6
  split at h; · cases h
  rename_i cl r7 e7
  split at h; · cases h
  rename_i hne
  cases h
  obtain ⟨a1, l1⟩ := takeN_some e1
  obtain ⟨a2, l2⟩ := takeN_some e2
  obtain ⟨a3, l3⟩ := takeN_some e3
  obtain ⟨a4, l4⟩ := takeN_some e4
  obtain ⟨a5, l5⟩ := takeN_some e5
  obtain ⟨a6, l6⟩ := takeN_some e6
  obtain ⟨a7, l7⟩ := takeN_some e7
  have b1 := be_unbe ts; rw [l1] at b1
  have b2 := be_unbe nonce; rw [l2] at b2
  have b3 := be_unbe ec; rw [l3] at b3
  have b4 := be_unbe tc; rw [l4] at b4
  have b6 := be_unbe sq; rw [l6] at b6
  have b7 := be_unbe cl; rw [l7] at b7
  refine ⟨?_, ⟨?_, ?_, ?_, ?_, l5, ?_, ?_⟩, hne⟩
  · simp only [serializeBody, b1, b2, b3, b4, b6, b7]
    rw [a1, a2, a3, a4, a5, a6, a7]
  · have := unbe_lt ts; rwa [l1] at this
  · have := unbe_lt nonce; rwa [l2] at this
  · have := unbe_lt ec; rwa [l3] at this
  · have := unbe_lt tc; rwa [l4] at this
  · have := unbe_lt sq; rwa [l6] at this
  · have := unbe_lt cl; rwa [l7] at this

theorem serializeBody_length (b : Body) (h : b.WF) : (serializeBody b).length = 53 + b.payload.length := by
  simp [serializeBody, h.2.2.2.2.1]; omega

end Whv
