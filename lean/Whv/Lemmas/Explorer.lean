import Whv.Model.Explorer
/-! Lemmas about the guardian-set list of the explorer (C19): contiguous ranges, the index invariant, `plan`. -/
namespace Whv.Explorer

/-- `sets` is the contiguous range of set indexes `a, a+1, …`. -/
def Contig : Nat → List GSet → Prop
  | _, [] => True
  | a, s :: rest => s.index = a ∧ Contig (a + 1) rest

/-- The index invariant of the property: the list is indexed by set index, `current` is its last position,
and (being `uint32` indexes) there are at most `2^32` entries; the list is not empty (the constructor
panics on an empty list). -/
structure Inv (cur : Int) (list : List GSet) : Prop where
  len : (list.length : Int) = cur + 1
  idx : Contig 0 list
  ne : list ≠ []
  bound : list.length ≤ two32

theorem contig_get {a : Nat} {l : List GSet} (h : Contig a l) (i : Nat) (hi : i < l.length) : l[i].index = a + i := by
  induction l generalizing a i with
  | nil => simp at hi
  | cons s rest ih =>
    cases i with
    | zero => simpa using h.1
    | succ i =>
      have := ih h.2 i (by simpa using hi)
      simp only [List.getElem_cons_succ]
      omega

theorem contig_of_get {a : Nat} {l : List GSet} (h : ∀ i (hi : i < l.length), l[i].index = a + i) : Contig a l := by
  induction l generalizing a with
  | nil => trivial
  | cons s rest ih =>
    refine ⟨by have := h 0 (by simp); simp only [List.getElem_cons_zero] at this; omega, ih fun i hi => ?_⟩
    have := h (i + 1) (by simpa using hi)
    simp only [List.getElem_cons_succ] at this
    omega

theorem contig_append {a : Nat} {l r : List GSet} (hl : Contig a l) (hr : Contig (a + l.length) r) : Contig a (l ++ r) := by
  induction l generalizing a with
  | nil => simpa using hr
  | cons s rest ih =>
    refine ⟨hl.1, ih hl.2 ?_⟩
    have e : a + 1 + rest.length = a + (s :: rest).length := by simp; omega
    rw [e]; exact hr

theorem contig_drop {a : Nat} {l : List GSet} (h : Contig a l) (k : Nat) : Contig (a + k) (l.drop k) := by
  induction k generalizing a l with
  | zero => simpa using h
  | succ k ih =>
    cases l with
    | nil => trivial
    | cons s rest =>
      have := ih h.2
      simp only [List.drop_succ_cons]
      have e : a + 1 + k = a + (k + 1) := by omega
      rw [← e]; exact this

theorem contig_getLast {a : Nat} {l : List GSet} (h : Contig a l) {last : GSet} (hl : l.getLast? = some last) :
    last.index + 1 = a + l.length := by
  induction l generalizing a with
  | nil => simp at hl
  | cons s rest ih =>
    cases rest with
    | nil =>
      simp at hl
      subst hl
      have := h.1
      simp; omega
    | cons t rest' =>
      have hl' : (t :: rest').getLast? = some last := by simpa [List.getLast?_cons_cons] using hl
      have := ih h.2 hl'
      simp only [List.length_cons] at this ⊢
      omega

theorem findFirst_contig {a : Nat} {l : List GSet} (h : Contig a l) (t : Nat) (h1 : a ≤ t) (h2 : t < a + l.length) :
    findFirst t l = some (t - a) := by
  induction l generalizing a with
  | nil => simp at h2; omega
  | cons s rest ih =>
    unfold findFirst
    by_cases e : s.index = t
    · have := h.1
      simp [e]; omega
    · have hs := h.1
      have hat : a + 1 ≤ t := by omega
      rw [if_neg e, ih h.2 hat (by simp at h2; omega)]
      simp; omega

theorem fetchLoop_contig (chain : Chain) : ∀ (n i : Nat) (sets : List GSet), fetchLoop chain n i = some sets →
    Contig i sets ∧ sets.length = n := by
  intro n
  induction n with
  | zero => intro i sets h; simp [fetchLoop] at h; subst h; exact ⟨trivial, rfl⟩
  | succ n ih =>
    intro i sets h
    unfold fetchLoop at h
    cases hc : chain i with
    | none => simp [hc] at h
    | some keys =>
      simp only [hc] at h
      cases hr : fetchLoop chain n (i + 1) with
      | none => simp [hr] at h
      | some rest =>
        simp only [hr, Option.some.injEq] at h
        subst h
        have := ih (i + 1) rest hr
        exact ⟨⟨rfl, this.1⟩, by simp [this.2]⟩

theorem contig_bound {a : Nat} {l : List GSet} (h : Contig a l) (hb : a + l.length ≤ two32) : ∀ x ∈ l, x.index < two32 := by
  intro x hx
  obtain ⟨i, hi, rfl⟩ := List.getElem_of_mem hx
  have := contig_get h i hi
  omega

theorem u32_of_nonneg {x : Int} (h0 : 0 ≤ x) (h1 : x < (two32 : Int)) : (u32 x : Int) = x := by
  unfold u32
  rw [Int.emod_eq_of_lt h0 h1]
  exact Int.toNat_of_nonneg h0

theorem u32_neg_one : u32 (-1) = two32 - 1 := by decide

theorem u32_lt (x : Int) : u32 x < two32 := by
  unfold u32
  have h : (0 : Int) < (two32 : Int) := by decide
  have h1 := Int.emod_lt_of_pos x h
  have h2 := Int.emod_nonneg x (Int.ne_of_gt h)
  omega

/-- The heart of `c19_index_invariant`: a contiguous range starting at or below `current+1` either changes
nothing or extends the list to a longer one that still satisfies the invariant. -/
theorem plan_inv {cur : Int} {list sets : List GSet} {a : Nat} (hinv : Inv cur list) (hc : Contig a sets)
    (ha : (a : Int) ≤ cur + 1) (hb : ∀ x ∈ sets, x.index < two32) {nc : Int} {tail : List GSet}
    (hp : plan cur sets = some (nc, tail)) : Inv nc (list ++ tail) ∧ cur < nc := by
  unfold plan at hp
  cases hl : sets.getLast? with
  | none => simp [hl] at hp
  | some last =>
    simp only [hl] at hp
    have hlast := contig_getLast hc hl
    have hmem : last ∈ sets := List.mem_of_getLast? hl
    have hlb := hb last hmem
    have hlen := hinv.len
    have hne := hinv.ne
    have hpos : 0 < list.length := List.length_pos_iff.mpr hne
    have hcur0 : 0 ≤ cur := by omega
    have hcurlt : cur < (two32 : Int) := by have := hinv.bound; omega
    have hu := u32_of_nonneg hcur0 hcurlt
    by_cases hle : last.index ≤ u32 cur
    · simp [hle] at hp
    · simp only [hle, if_false, Option.some.injEq, Prod.mk.injEq] at hp
      obtain ⟨rfl, rfl⟩ := hp
      have hgt : cur < (last.index : Int) := by omega
      have htarget : (u32 cur + 1) % two32 = u32 cur + 1 := Nat.mod_eq_of_lt (by omega)
      have hst : startIndex sets ((u32 cur + 1) % two32) = u32 cur + 1 - a := by
        unfold startIndex
        rw [htarget, findFirst_contig hc (u32 cur + 1) (by omega) (by omega)]
        rfl
      rw [hst]
      have hd := contig_drop hc (u32 cur + 1 - a)
      have e : a + (u32 cur + 1 - a) = 0 + list.length := by omega
      rw [e] at hd
      refine ⟨⟨?_, contig_append hinv.idx hd, by simp [hne], ?_⟩, hgt⟩
      · simp only [List.length_append, List.length_drop]; omega
      · simp only [List.length_append, List.length_drop]; omega

/-- With the invariant, position `i ≤ current` of the list holds the set with index `i`. -/
theorem inv_listAt {cur : Int} {list : List GSet} (hinv : Inv cur list) {i : Int} (h0 : 0 ≤ i) (h1 : i ≤ cur) :
    ∃ s, listAt list i = some s ∧ (s.index : Int) = i := by
  have hlen := hinv.len
  have hi : i.toNat < list.length := by omega
  refine ⟨list[i.toNat], ?_, ?_⟩
  · unfold listAt
    rw [if_neg (by omega)]
    exact List.getElem?_eq_getElem hi
  · have := contig_get hinv.idx i.toNat hi
    omega

end Whv.Explorer
