import Whv.Model.Explorer
/-! Lemmas about the guardian-set list of the explorer (C19): contiguous ranges, the index invariant, `plan`. -/
namespace Whv.Explorer

/-- `sets` is the contiguous range of set indexes `a, a+1, …`. -/
def Contig : Nat → List GSet → Prop
  | _, [] => True
  | a, s :: rest => s.index = a ∧ Contig (a + 1) rest

/-- The index invariant of the property: the list is indexed by set index, `current` is its last position,
and (being `uint32` indexes) there are at most `2^32` entries; the list is not empty (the constructor
panics on an empty list). -/
structure Inv (cur : Int) (list : List GSet) : Prop where
  len : (list.length : Int) = cur + 1
  idx : Contig 0 list
  ne : list ≠ []
  bound : list.length ≤ two32

theorem contig_get {a : Nat} {l : List GSet} (h : Contig a l) (i : Nat) (hi : i < l.length) : l[i].index = a + i := by
  induction l generalizing a i with
  | nil => simp at hi
  | cons s rest ih =>
    cases i with
    | zero => simpa using h.1
    | succ i =>
      have := ih h.2 i (by simpa using hi)
      simp only [List.getElem_cons_succ]
      omega

theorem contig_of_get {a : Nat} {l : List GSet} (h : ∀ i (hi : i < l.length), l[i].index = a + i) : Contig a l := by
  induction l generalizing a with
  | nil => trivial
  | cons s rest ih =>
    refine ⟨by have := h 0 (by simp); simp only [List.getElem_cons_zero] at this; omega, ih fun i hi => ?_⟩
    have := h (i + 1) (by simpa using hi)
    simp only [List.getElem_cons_succ] at this
    omega

theorem contig_append {a : Nat} {l r : List GSet} (hl : Contig a l) (hr : Contig (a + l.length) r) : Contig a (l ++ r) := by
  induction l generalizing a with
  | nil => simpa using hr
  | cons s rest ih =>
    refine ⟨hl.1, ih hl.2 ?_⟩
    have e : a + 1 + rest.length = a + (s :: rest).length := by simp; omega
    rw [e]; exact hr

theorem contig_drop {a : Nat} {l : List GSet} (h : Contig a l) (k : Nat) : Contig (a + k) (l.drop k) := by
  induction k generalizing a l with
  | zero => simpa using h
  | succ k ih =>
    cases l with
    | nil => trivial
    | cons s rest =>
      have := ih h.2
      simp only [List.drop_succ_cons]
      have e : a + 1 + k = a + (k + 1) := by omega
      rw [← e]; exact this

theorem contig_getLast {a : Nat} {l : List GSet} (h : Contig a l) {last : GSet} (hl : l.getLast? = some last) :
    last.index + 1 = a + l.length := by
  induction l generalizing a with
  | nil => simp at hl
  | cons s rest ih =>
    cases rest with
    | nil =>
      simp at hl
      subst hl
      have := h.1
      simp; omega
    | cons t rest' =>
      have hl' : (t :: rest').getLast? = some last := by simpa [List.getLast?_cons_cons] using hl
      have := ih h.2 hl'
      simp only [List.length_cons] at this ⊢
      omega

theorem findFirst_contig {a : Nat} {l : List GSet} (h : Contig a l) (t : Nat) (h1 : a ≤ t) (h2 : t < a + l.length) :
    findFirst t l = some (t - a) := by
  induction l generalizing a with
  | nil => simp at h2; omega
  | cons s rest ih =>
    unfold findFirst
    by_cases e : s.index = t
    · have := h.1
      simp [e]; omega
    · have hs := h.1
      have hat : a + 1 ≤ t := by omega
      rw [if_neg e, ih h.2 hat (by simp at h2; omega)]
      simp; omega

theorem fetchLoop_contig (chain : Chain) : ∀ (n i : Nat) (sets : List GSet), fetchLoop chain n i = some sets →
    Contig i sets ∧ sets.length = n := by
  intro n
  induction n with
  | zero => intro i sets h; simp [fetchLoop] at h; subst h; exact ⟨trivial, rfl⟩
  | succ n ih =>
    intro i sets h
    unfold fetchLoop at h
    cases hc : chain i with
    | none => simp [hc] at h
    | some keys =>
      simp only [hc] at h
      cases hr : fetchLoop chain n (i + 1) with
      | none => simp [hr] at h
      | some rest =>
        simp only [hr, Option.some.injEq] at h
        subst h
        have := ih (i + 1) rest hr
        exact ⟨⟨rfl, this.1⟩, by simp [this.2]⟩

/-- Every element of a successful fetch is the chain's answer for its own index. -/
theorem fetchLoop_getElem (chain : Chain) : ∀ (n i : Nat) (sets : List GSet), fetchLoop chain n i = some sets →
    ∀ j (hj : j < sets.length), sets[j].index = i + j ∧ chain (i + j) = some sets[j].keys := by
  intro n
  induction n with
  | zero => intro i sets h j hj; simp [fetchLoop] at h; subst h; simp at hj
  | succ n ih =>
    intro i sets h j hj
    unfold fetchLoop at h
    cases hc : chain i with
    | none => simp [hc] at h
    | some keys =>
      simp only [hc] at h
      cases hr : fetchLoop chain n (i + 1) with
      | none => simp [hr] at h
      | some rest =>
        simp only [hr, Option.some.injEq] at h
        subst h
        cases j with
        | zero => simpa using hc
        | succ j =>
          have := ih (i + 1) rest hr j (by simpa using hj)
          simp only [List.getElem_cons_succ]
          have e : i + 1 + j = i + (j + 1) := by omega
          rw [e] at this; exact this

theorem contig_bound {a : Nat} {l : List GSet} (h : Contig a l) (hb : a + l.length ≤ two32) : ∀ x ∈ l, x.index < two32 := by
  intro x hx
  obtain ⟨i, hi, rfl⟩ := List.getElem_of_mem hx
  have := contig_get h i hi
  omega

theorem u32_of_nonneg {x : Int} (h0 : 0 ≤ x) (h1 : x < (two32 : Int)) : (u32 x : Int) = x := by
  unfold u32
  rw [Int.emod_eq_of_lt h0 h1]
  exact Int.toNat_of_nonneg h0

theorem u32_neg_one : u32 (-1) = two32 - 1 := by decide

theorem u32_lt (x : Int) : u32 x < two32 := by
  unfold u32
  have h : (0 : Int) < (two32 : Int) := by decide
  have h1 := Int.emod_lt_of_pos x h
  have h2 := Int.emod_nonneg x (Int.ne_of_gt h)
  omega

/-- The heart of `c19_index_invariant`: a contiguous range starting at or below `current+1` either changes
nothing or extends the list to a longer one that still satisfies the invariant. -/
theorem plan_inv {cur : Int} {list sets : List GSet} {a : Nat} (hinv : Inv cur list) (hc : Contig a sets)
    (ha : (a : Int) ≤ cur + 1) (hb : ∀ x ∈ sets, x.index < two32) {nc : Int} {tail : List GSet}
    (hp : plan cur sets = some (nc, tail)) : Inv nc (list ++ tail) ∧ cur < nc := by
  unfold plan at hp
  cases hl : sets.getLast? with
  | none => simp [hl] at hp
  | some last =>
    simp only [hl] at hp
    have hlast := contig_getLast hc hl
    have hmem : last ∈ sets := List.mem_of_getLast? hl
    have hlb := hb last hmem
    have hlen := hinv.len
    have hne := hinv.ne
    have hpos : 0 < list.length := List.length_pos_iff.mpr hne
    have hcur0 : 0 ≤ cur := by omega
    have hcurlt : cur < (two32 : Int) := by have := hinv.bound; omega
    have hu := u32_of_nonneg hcur0 hcurlt
    by_cases hle : last.index ≤ u32 cur
    · simp [hle] at hp
    · simp only [hle, if_false, Option.some.injEq, Prod.mk.injEq] at hp
      obtain ⟨rfl, rfl⟩ := hp
      have hgt : cur < (last.index : Int) := by omega
      have htarget : (u32 cur + 1) % two32 = u32 cur + 1 := Nat.mod_eq_of_lt (by omega)
      have hst : startIndex sets ((u32 cur + 1) % two32) = u32 cur + 1 - a := by
        unfold startIndex
        rw [htarget, findFirst_contig hc (u32 cur + 1) (by omega) (by omega)]
        rfl
      rw [hst]
      have hd := contig_drop hc (u32 cur + 1 - a)
      have e : a + (u32 cur + 1 - a) = 0 + list.length := by omega
      rw [e] at hd
      refine ⟨⟨?_, contig_append hinv.idx hd, by simp [hne], ?_⟩, hgt⟩
      · simp only [List.length_append, List.length_drop]; omega
      · simp only [List.length_append, List.length_drop]; omega

/-- A batch that starts exactly at `current+1` (a lookup nobody overtook) is appended whole. -/
theorem plan_fresh {cur : Int} {list sets : List GSet} (hinv : Inv cur list) (hc : Contig (u32 (cur + 1)) sets) (hne : sets ≠ [])
    (hlt : cur + 1 < (two32 : Int)) : ∃ nc, plan cur sets = some (nc, sets) := by
  have hlen := hinv.len
  have hpos : 0 < list.length := List.length_pos_iff.mpr hinv.ne
  have hcur0 : 0 ≤ cur := by omega
  have hu := u32_of_nonneg hcur0 (by omega : cur < (two32 : Int))
  have hu1 := u32_of_nonneg (by omega : 0 ≤ cur + 1) hlt
  unfold plan
  cases hl : sets.getLast? with
  | none => exact absurd (List.getLast?_eq_none_iff.mp hl) hne
  | some last =>
    have hlast := contig_getLast hc hl
    have hspos : 0 < sets.length := List.length_pos_iff.mpr hne
    have hle : ¬ last.index ≤ u32 cur := by omega
    have htarget : (u32 cur + 1) % two32 = u32 (cur + 1) := by
      have : u32 cur + 1 = u32 (cur + 1) := by omega
      rw [this]; exact Nat.mod_eq_of_lt (u32_lt _)
    have hst : startIndex sets ((u32 cur + 1) % two32) = 0 := by
      unfold startIndex
      rw [htarget, findFirst_contig hc (u32 (cur + 1)) (Nat.le_refl _) (by omega)]
      simp
    simp only [hle, if_false, hst, List.drop_zero]
    exact ⟨_, rfl⟩

/-- With the invariant, position `i ≤ current` of the list holds the set with index `i`. -/
theorem inv_listAt {cur : Int} {list : List GSet} (hinv : Inv cur list) {i : Int} (h0 : 0 ≤ i) (h1 : i ≤ cur) :
    ∃ s, listAt list i = some s ∧ (s.index : Int) = i := by
  have hlen := hinv.len
  have hi : i.toNat < list.length := by omega
  refine ⟨list[i.toNat], ?_, ?_⟩
  · unfold listAt
    rw [if_neg (by omega)]
    exact List.getElem?_eq_getElem hi
  · have := contig_get hinv.idx i.toNat hi
    omega

end Whv.Explorer

/-! ## The fine-grained (interleaving) model: global invariant of the repaired code -/
namespace Whv.Explorer.Fine
open Whv.Explorer

@[simp] theorem upd_same (f : Nat → Thread) (k : Nat) (t : Thread) : upd f k t k = t := by simp [upd]
theorem upd_other (f : Nat → Thread) {k j : Nat} (t : Thread) (h : j ≠ k) : upd f k t j = f j := by simp [upd, h]

theorem fetchAll_contig (chain : Nat → Option (List Addr)) : ∀ (n i : Nat), Contig i (fetchAll chain n i) ∧ (fetchAll chain n i).length = n := by
  intro n
  induction n with
  | zero => intro i; exact ⟨trivial, rfl⟩
  | succ n ih => intro i; exact ⟨⟨rfl, (ih (i + 1)).1⟩, by simp [fetchAll, (ih (i + 1)).2]⟩

theorem u32_le {x : Int} (h0 : 0 ≤ x) : (u32 x : Int) ≤ x := by
  unfold u32
  have h : (0 : Int) < (two32 : Int) := by decide
  have h2 := Int.emod_nonneg x (Int.ne_of_gt h)
  have h3 : x % (two32 : Int) ≤ x := by unfold two32; omega
  omega

/-- Program counters inside a section that holds `gs.lock` (in the repaired code). -/
def Crit : Pc → Prop
  | .locked _ | .mid _ _ | .unlocking | .reading _ => True
  | _ => False

/-- What is known about the two fields while the lock is held by a goroutine at `pc`: between the two
writes of an update the invariant is the one the *second* write will establish. -/
def HeldOk (cfg : Cfg) (cur : Int) (list : List GSet) : Pc → Prop
  | .mid nc tail => if cfg.indexFirst then cur = nc ∧ Inv nc (list ++ tail) else cur < nc ∧ Inv nc list
  | _ => Inv cur list

/-- A fetched range is one `updateGuardianSets` may be fed with, and stays so while `current` grows. -/
def SetsOk (cur : Int) (sets : List GSet) : Prop :=
  ∃ a : Nat, Contig a sets ∧ (a : Int) ≤ cur + 1 ∧ ∀ x ∈ sets, x.index < two32

def OpBound : Op → Prop
  | .get i => i < two32
  | .refresh b => b < two32

/-- A finished lookup either missed (index beyond `current`) or returned the set with the index asked for. -/
def GoodRes (i : Nat) : Res → Prop
  | .ok x => x.index = i
  | .miss => True
  | .unit => True
  | .panic => False

structure J (cfg : Cfg) (s : Sys) : Prop where
  owner : ∀ k, Crit (s.threads k).pc ↔ s.lock = some k
  free : s.lock = none → Inv s.cur s.list
  held : ∀ k, s.lock = some k → HeldOk cfg s.cur s.list (s.threads k).pc
  setsF : ∀ k sets, (s.threads k).pc = .fetched sets → SetsOk s.cur sets
  setsL : ∀ k sets, (s.threads k).pc = .locked sets → SetsOk s.cur sets
  reading : ∀ k c, (s.threads k).pc = .reading c → ∃ i, (s.threads k).op = .get i ∧ (i : Int) ≤ s.cur
  res : ∀ k i r, (s.threads k).op = .get i → (s.threads k).pc = .done r → GoodRes i r
  bound : ∀ k, OpBound (s.threads k).op

theorem setsOk_mono {cur cur' : Int} {sets : List GSet} (h : SetsOk cur sets) (hle : cur ≤ cur') : SetsOk cur' sets := by
  obtain ⟨a, h1, h2, h3⟩ := h
  exact ⟨a, h1, by omega, h3⟩

/-- The lock owner is unique, so a goroutine other than the owner is outside every critical section. -/
theorem not_crit_of_lock {cfg : Cfg} {s : Sys} (hJ : J cfg s) {k j : Nat} (hl : s.lock = some k) (hjk : j ≠ k) : ¬ Crit (s.threads j).pc := by
  intro hc
  have := (hJ.owner j).1 hc
  rw [hl] at this
  exact hjk (Option.some.inj this).symm

theorem not_crit_of_free {cfg : Cfg} {s : Sys} (hJ : J cfg s) (hl : s.lock = none) (j : Nat) : ¬ Crit (s.threads j).pc := by
  intro hc
  have := (hJ.owner j).1 hc
  rw [hl] at this
  cases this

/-- Generic re-establishment of `J` after goroutine `k` moved to `pc'` and possibly changed the shared fields:
all the other goroutines are outside critical sections (the lock was free, or `k` owned it). -/
theorem J_upd {cfg : Cfg} {s : Sys} (hJ : J cfg s) (k : Nat) (op' : Op) (pc' : Pc) (cur' : Int) (list' : List GSet) (lock' : Option Nat)
    (hop' : (s.threads k).op = op')
    (hmono : s.cur ≤ cur')
    (hothers : ∀ j, j ≠ k → ¬ Crit (s.threads j).pc)
    (hlock : lock' = none ∨ lock' = some k)
    (hown : Crit pc' ↔ lock' = some k)
    (hfree : lock' = none → Inv cur' list')
    (hheld : lock' = some k → HeldOk cfg cur' list' pc')
    (hsetsF : ∀ sets, pc' = .fetched sets → SetsOk cur' sets)
    (hsetsL : ∀ sets, pc' = .locked sets → SetsOk cur' sets)
    (hreading : ∀ c, pc' = .reading c → ∃ i, (s.threads k).op = .get i ∧ (i : Int) ≤ cur')
    (hres : ∀ i r, (s.threads k).op = .get i → pc' = .done r → GoodRes i r) :
    J cfg ⟨cur', list', lock', upd s.threads k ⟨op', pc'⟩⟩ := by
  subst hop'
  refine ⟨?_, hfree, ?_, ?_, ?_, ?_, ?_, ?_⟩
  · intro j
    by_cases hj : j = k
    · subst hj; simpa using hown
    · simp only [upd_other _ _ hj]
      constructor
      · intro hc; exact absurd hc (hothers j hj)
      · intro hl
        rcases hlock with h | h
        · rw [h] at hl; cases hl
        · rw [h] at hl; exact absurd (Option.some.inj hl).symm hj
  · intro j hl
    by_cases hj : j = k
    · subst hj; simpa using hheld hl
    · rcases hlock with h | h
      · rw [h] at hl; cases hl
      · rw [h] at hl; exact absurd (Option.some.inj hl).symm hj
  · intro j sets hp
    by_cases hj : j = k
    · subst hj; exact hsetsF sets (by simpa using hp)
    · simp only [upd_other _ _ hj] at hp
      exact setsOk_mono (hJ.setsF j sets hp) hmono
  · intro j sets hp
    by_cases hj : j = k
    · subst hj; exact hsetsL sets (by simpa using hp)
    · simp only [upd_other _ _ hj] at hp
      exact setsOk_mono (hJ.setsL j sets hp) hmono
  · intro j c hp
    by_cases hj : j = k
    · subst hj; simpa using hreading c (by simpa using hp)
    · simp only [upd_other _ _ hj] at hp
      exact absurd (by rw [hp]; trivial) (hothers j hj)
  · intro j i r ho hp
    by_cases hj : j = k
    · subst hj; exact hres i r (by simpa using ho) (by simpa using hp)
    · simp only [upd_other _ _ hj] at ho hp
      exact hJ.res j i r ho hp
  · intro j
    by_cases hj : j = k
    · subst hj; simpa using hJ.bound j
    · simp only [upd_other _ _ hj]; exact hJ.bound j

theorem inv_getElem {cur : Int} {list : List GSet} (hinv : Inv cur list) {i : Nat} (h : (i : Int) ≤ cur) :
    ∃ x, list[i]? = some x ∧ x.index = i := by
  have hlen := hinv.len
  have hi : i < list.length := by omega
  exact ⟨list[i], List.getElem?_eq_getElem hi, by have := contig_get hinv.idx i hi; omega⟩

/-- **Every step of the repaired code preserves the global invariant** (either write order). -/
theorem step_preserves {cfg : Cfg} {chain : Nat → Option (List Addr)} {s s' : Sys} {k : Nat}
    (hlr : cfg.lockedReads = true) (hJ : J cfg s) (hs : step cfg chain s k = some s') : J cfg s' := by
  unfold step at hs
  cases hpc : (s.threads k).pc with
  | idle =>
    simp only [hpc] at hs
    cases hop : (s.threads k).op with
    | refresh b =>
      simp only [hop, hlr, Bool.true_and] at hs
      cases hl : s.lock with
      | some o => simp [hl] at hs
      | none =>
        simp only [hl, Option.isSome_none, Bool.false_eq_true, if_false, Option.some.injEq] at hs
        subst hs
        have hinv := hJ.free hl
        have hb : b < two32 := by have := hJ.bound k; rw [hop] at this; exact this
        refine J_upd hJ k (.refresh b) (.fetched (fetchAll chain (b + 1 - u32 (s.cur + 1)) (u32 (s.cur + 1)))) s.cur s.list none hop (Int.le_refl _) (fun j _ => not_crit_of_free hJ hl j) (Or.inl rfl)
          ⟨(fun h => h.elim), (fun h => by cases h)⟩ (fun _ => hinv) (fun h => by cases h) ?_ (fun _ h => by cases h)
          (fun _ h => by cases h) (fun _ _ _ h => by cases h)
        intro sets hsets
        cases hsets
        have hlen := hinv.len
        have hpos : 0 < s.list.length := List.length_pos_iff.mpr hinv.ne
        obtain ⟨hc, hn⟩ := fetchAll_contig chain (b + 1 - u32 (s.cur + 1)) (u32 (s.cur + 1))
        have hlo := u32_lt (s.cur + 1)
        exact ⟨_, hc, u32_le (by omega), contig_bound hc (by rw [hn]; omega)⟩
    | get i =>
      simp only [hop, hlr, if_true] at hs
      cases hl : s.lock with
      | some o => simp [hl] at hs
      | none =>
        simp only [hl, Option.isSome_none, Bool.false_eq_true, if_false] at hs
        have hinv := hJ.free hl
        by_cases hle : (i : Int) ≤ s.cur
        · simp only [hle, if_true, Option.some.injEq] at hs
          subst hs
          exact J_upd hJ k (.get i) (.reading s.cur) s.cur s.list (some k) hop (Int.le_refl _) (fun j _ => not_crit_of_free hJ hl j) (Or.inr rfl)
            ⟨(fun _ => rfl), (fun _ => trivial)⟩ (fun h => by cases h) (fun _ => hinv) (fun _ h => by cases h) (fun _ h => by cases h)
            (fun c _ => ⟨i, hop, hle⟩) (fun _ _ _ h => by cases h)
        · simp only [hle, if_false, Option.some.injEq] at hs
          subst hs
          exact J_upd hJ k (.get i) (.done .miss) s.cur s.list none hop (Int.le_refl _) (fun j _ => not_crit_of_free hJ hl j) (Or.inl rfl)
            ⟨(fun h => h.elim), (fun h => by cases h)⟩ (fun _ => hinv) (fun h => by cases h) (fun _ h => by cases h) (fun _ h => by cases h)
            (fun _ h => by cases h) (fun _ r _ h => by cases h; trivial)
  | fetched sets =>
    simp only [hpc] at hs
    have hso := hJ.setsF k sets hpc
    by_cases hemp : sets.isEmpty = true
    · simp only [hemp, if_true, Option.some.injEq] at hs
      subst hs
      have hnc : ¬ Crit (s.threads k).pc := by rw [hpc]; exact fun h => h
      have hlk : s.lock ≠ some k := fun h => hnc ((hJ.owner k).2 h)
      -- nothing shared changes; `k` leaves without the lock
      refine ⟨?_, hJ.free, ?_, ?_, ?_, ?_, ?_, ?_⟩
      · intro j
        by_cases hj : j = k
        · subst hj; simp only [upd_same]; exact ⟨(fun h => h.elim), (fun h => absurd h hlk)⟩
        · simp only [upd_other _ _ hj]; exact hJ.owner j
      · intro j hl
        by_cases hj : j = k
        · subst hj; exact absurd hl hlk
        · simp only [upd_other _ _ hj]; exact hJ.held j hl
      · intro j st hp
        by_cases hj : j = k
        · subst hj; simp at hp
        · simp only [upd_other _ _ hj] at hp; exact hJ.setsF j st hp
      · intro j st hp
        by_cases hj : j = k
        · subst hj; simp at hp
        · simp only [upd_other _ _ hj] at hp; exact hJ.setsL j st hp
      · intro j c hp
        by_cases hj : j = k
        · subst hj; simp at hp
        · simp only [upd_other _ _ hj] at hp ⊢; exact hJ.reading j c hp
      · intro j i r ho hp
        by_cases hj : j = k
        · subst hj
          simp only [upd_same] at ho hp
          cases hp; trivial
        · simp only [upd_other _ _ hj] at ho hp; exact hJ.res j i r ho hp
      · intro j
        by_cases hj : j = k
        · subst hj; simpa using hJ.bound j
        · simp only [upd_other _ _ hj]; exact hJ.bound j
    · simp only [hemp, Bool.false_eq_true, if_false] at hs
      cases hl : s.lock with
      | some o => simp [hl] at hs
      | none =>
        simp only [hl, Option.isSome_none, Bool.false_eq_true, if_false, Option.some.injEq] at hs
        subst hs
        have hinv := hJ.free hl
        exact J_upd hJ k (s.threads k).op (.locked sets) s.cur s.list (some k) rfl (Int.le_refl _) (fun j _ => not_crit_of_free hJ hl j) (Or.inr rfl)
          ⟨(fun _ => rfl), (fun _ => trivial)⟩ (fun h => by cases h) (fun _ => hinv) (fun _ h => by cases h)
          (fun st h => by cases h; exact hso) (fun _ h => by cases h) (fun _ _ _ h => by cases h)
  | locked sets =>
    simp only [hpc] at hs
    have hl : s.lock = some k := (hJ.owner k).1 (by rw [hpc]; trivial)
    have hinv : Inv s.cur s.list := by have := hJ.held k hl; rw [hpc] at this; exact this
    obtain ⟨a, hc, hlow, hb⟩ := hJ.setsL k sets hpc
    have hoth : ∀ j, j ≠ k → ¬ Crit (s.threads j).pc := fun j hj => not_crit_of_lock hJ hl hj
    cases hp : plan s.cur sets with
    | none =>
      simp only [hp, Option.some.injEq] at hs
      subst hs
      exact J_upd hJ k (s.threads k).op .unlocking s.cur s.list s.lock rfl (Int.le_refl _) hoth (Or.inr hl)
        ⟨(fun _ => hl), (fun _ => trivial)⟩ (fun h => by rw [hl] at h; cases h) (fun _ => hinv) (fun _ h => by cases h)
        (fun _ h => by cases h) (fun _ h => by cases h) (fun _ _ _ h => by cases h)
    | some p =>
      obtain ⟨nc, tail⟩ := p
      obtain ⟨hinv', hlt⟩ := plan_inv hinv hc hlow hb hp
      simp only [hp] at hs
      by_cases hif : cfg.indexFirst = true
      · simp only [hif, if_true, Option.some.injEq] at hs
        subst hs
        exact J_upd hJ k (s.threads k).op (.mid nc tail) nc s.list s.lock rfl (by omega) hoth (Or.inr hl)
          ⟨(fun _ => hl), (fun _ => trivial)⟩ (fun h => by rw [hl] at h; cases h) (fun _ => by simp only [HeldOk, hif, if_true]; exact ⟨trivial, hinv'⟩)
          (fun _ h => by cases h) (fun _ h => by cases h) (fun _ h => by cases h) (fun _ _ _ h => by cases h)
      · simp only [hif, Bool.false_eq_true, if_false, Option.some.injEq] at hs
        subst hs
        exact J_upd hJ k (s.threads k).op (.mid nc tail) s.cur (s.list ++ tail) s.lock rfl (Int.le_refl _) hoth (Or.inr hl)
          ⟨(fun _ => hl), (fun _ => trivial)⟩ (fun h => by rw [hl] at h; cases h)
          (fun _ => by simp only [HeldOk, hif, Bool.false_eq_true, if_false]; exact ⟨hlt, hinv'⟩)
          (fun _ h => by cases h) (fun _ h => by cases h) (fun _ h => by cases h) (fun _ _ _ h => by cases h)
  | mid nc tail =>
    simp only [hpc] at hs
    have hl : s.lock = some k := (hJ.owner k).1 (by rw [hpc]; trivial)
    have hh := hJ.held k hl
    rw [hpc] at hh
    have hoth : ∀ j, j ≠ k → ¬ Crit (s.threads j).pc := fun j hj => not_crit_of_lock hJ hl hj
    by_cases hif : cfg.indexFirst = true
    · simp only [hif, if_true, Option.some.injEq] at hs
      subst hs
      simp only [HeldOk, hif, if_true] at hh
      exact J_upd hJ k (s.threads k).op .unlocking s.cur (s.list ++ tail) s.lock rfl (Int.le_refl _) hoth (Or.inr hl)
        ⟨(fun _ => hl), (fun _ => trivial)⟩ (fun h => by rw [hl] at h; cases h) (fun _ => by rw [hh.1]; exact hh.2)
        (fun _ h => by cases h) (fun _ h => by cases h) (fun _ h => by cases h) (fun _ _ _ h => by cases h)
    · simp only [hif, Bool.false_eq_true, if_false, Option.some.injEq] at hs
      subst hs
      simp only [HeldOk, hif, Bool.false_eq_true, if_false] at hh
      exact J_upd hJ k (s.threads k).op .unlocking nc s.list s.lock rfl (by omega) hoth (Or.inr hl)
        ⟨(fun _ => hl), (fun _ => trivial)⟩ (fun h => by rw [hl] at h; cases h) (fun _ => hh.2)
        (fun _ h => by cases h) (fun _ h => by cases h) (fun _ h => by cases h) (fun _ _ _ h => by cases h)
  | unlocking =>
    simp only [hpc, Option.some.injEq] at hs
    subst hs
    have hl : s.lock = some k := (hJ.owner k).1 (by rw [hpc]; trivial)
    have hinv : Inv s.cur s.list := by have := hJ.held k hl; rw [hpc] at this; exact this
    have hoth : ∀ j, j ≠ k → ¬ Crit (s.threads j).pc := fun j hj => not_crit_of_lock hJ hl hj
    exact J_upd hJ k (s.threads k).op (.done .unit) s.cur s.list none rfl (Int.le_refl _) hoth (Or.inl rfl)
      ⟨(fun h => h.elim), (fun h => by cases h)⟩ (fun _ => hinv) (fun h => by cases h) (fun _ h => by cases h) (fun _ h => by cases h)
      (fun _ h => by cases h) (fun _ r _ h => by cases h; trivial)
  | reading c =>
    simp only [hpc] at hs
    have hl : s.lock = some k := (hJ.owner k).1 (by rw [hpc]; trivial)
    have hinv : Inv s.cur s.list := by have := hJ.held k hl; rw [hpc] at this; exact this
    have hoth : ∀ j, j ≠ k → ¬ Crit (s.threads j).pc := fun j hj => not_crit_of_lock hJ hl hj
    obtain ⟨i, hop, hle⟩ := hJ.reading k c hpc
    simp only [hop, hlr, if_true, Option.some.injEq] at hs
    subst hs
    obtain ⟨x, hx, hxi⟩ := inv_getElem hinv hle
    exact J_upd hJ k (.get i) (.done (match s.list[i]? with | some x => Res.ok x | none => Res.panic)) s.cur s.list none hop (Int.le_refl _) hoth (Or.inl rfl)
      ⟨(fun h => h.elim), (fun h => by cases h)⟩ (fun _ => hinv) (fun h => by cases h) (fun _ h => by cases h) (fun _ h => by cases h)
      (fun _ h => by cases h) (fun i' r ho h => by
        rw [hop] at ho
        cases ho
        simp only [hx] at h
        cases h
        exact hxi)
  | done r => simp [hpc] at hs

/-- … hence every schedule does. -/
theorem run_preserves {cfg : Cfg} (chain : Nat → Option (List Addr)) (hlr : cfg.lockedReads = true) :
    ∀ (sched : List Nat) (s : Sys), J cfg s → J cfg (run cfg chain s sched) := by
  intro sched
  induction sched with
  | nil => intro s h; exact h
  | cons k ks ih =>
    intro s h
    unfold run
    cases hs : step cfg chain s k with
    | none => simpa using ih s h
    | some s' => simpa using ih s' (step_preserves hlr h hs)

end Whv.Explorer.Fine
