import Whv.Model.AlphWatch
/-!
# Helper lemmas for the Alephium watcher model (C08, C09)
-/
namespace Whv.Alph
open Whv

/-! ## fixed-width arithmetic -/

theorem i32_id {x : Int} (h1 : -2147483648 ≤ x) (h2 : x < 2147483648) : i32 x = x := by
  unfold i32; omega

theorem i64_id {x : Int} (h1 : -9223372036854775808 ≤ x) (h2 : x < 9223372036854775808) : i64 x = x := by
  unfold i64; omega

/-- Block heights and timestamps for which the Go additions in `isEventConfirmed` do not wrap
(any real chain: heights below 2^31 - 256, millisecond timestamps below 2^63 - 2^23). -/
def InRange (cl : Nat) (h : Header) : Prop :=
  -2147483648 ≤ h.height ∧ h.height + cl < 2147483648 ∧
  -9223372036854775808 ≤ h.ts ∧ h.ts + (max cl 205 : Nat) * 16000 < 9223372036854775808

theorem confDur_le (mainnet transfer : Bool) (cl : Nat) : confDur mainnet transfer cl ≤ max cl 205 * 16000 := by
  unfold confDur MinimalConsistencyLevel BlockTimeMs
  split <;> omega

theorem confDur_ge (mainnet transfer : Bool) (cl : Nat) : cl * 16000 ≤ confDur mainnet transfer cl := by
  unfold confDur MinimalConsistencyLevel BlockTimeMs
  split <;> omega

theorem confDur_mainnet_transfer (cl : Nat) : confDur true true cl = max cl 205 * 16000 := by
  simp [confDur, MinimalConsistencyLevel, BlockTimeMs]

/-- The two comparisons of `isEventConfirmed`, read in unbounded arithmetic. -/
theorem confirmed_iff {m : Msg} {h : Header} {now height : Int} {mainnet : Bool} (hr : InRange m.cl h) :
    isEventConfirmed m h now height mainnet = true ↔
      (h.height + m.cl ≤ height ∧ h.ts + (confDur mainnet (isTransfer m) m.cl : Nat) ≤ now) := by
  obtain ⟨h1, h2, h3, h4⟩ := hr
  have hd := confDur_le mainnet (isTransfer m) m.cl
  have e1 : i32 (h.height + m.cl) = h.height + m.cl := i32_id (by omega) (by omega)
  have e2 : i64 (h.ts + (confDur mainnet (isTransfer m) m.cl : Nat)) = h.ts + (confDur mainnet (isTransfer m) m.cl : Nat) :=
    i64_id (by omega) (by omega)
  unfold isEventConfirmed
  rw [e1, e2]
  constructor
  · intro hc
    split at hc
    · cases hc
    · split at hc
      · cases hc
      · omega
  · intro ⟨a, b⟩
    rw [if_neg (by omega), if_neg (by omega)]

/-! ## `processBlock` / `process` -/

theorem processBlock_some {cfg : Cfg} {o : Oracle} {height now : Int} {pb : PBlock}
    {p : List PBlock} {c : List (Unconf × Header)} (hp : processBlock cfg o height now pb = some (p, c)) :
    ∃ canon h, o.main pb.block = some canon ∧ headerOf o pb = some h ∧
      p = (if (pb.evs.filter fun u => !confirmedIn cfg h height now u).isEmpty then []
           else [{ pb with hdr := some h, evs := pb.evs.filter fun u => !confirmedIn cfg h height now u }]) ∧
      c = (if canon then (pb.evs.filter (confirmedIn cfg h height now)).map (fun u => (u, h)) else []) := by
  unfold processBlock at hp
  split at hp
  · cases hp
  · rename_i canon hm
    split at hp
    · cases hp
    · rename_i h hh
      simp only [Option.some.injEq, Prod.mk.injEq] at hp
      exact ⟨canon, h, hm, hh, hp.1.symm, hp.2.symm⟩

theorem process_cons {cfg : Cfg} {o : Oracle} {height now : Int} {pb : PBlock} {rest : List PBlock}
    {pend : List PBlock} {conf : List (Unconf × Header)}
    (hp : process cfg o height now (pb :: rest) = some (pend, conf)) :
    ∃ p c ps cs, processBlock cfg o height now pb = some (p, c) ∧ process cfg o height now rest = some (ps, cs) ∧
      pend = p ++ ps ∧ conf = c ++ cs := by
  simp only [process] at hp
  split at hp
  · rename_i p c ps cs h1 h2
    simp only [Option.some.injEq, Prod.mk.injEq] at hp
    exact ⟨p, c, ps, cs, h1, h2, hp.1.symm, hp.2.symm⟩
  · cases hp

/-- Exactly which entries one `process` call hands to `handleConfirmedEvents`. -/
theorem mem_conf_iff {cfg : Cfg} {o : Oracle} {height now : Int} {pending pend : List PBlock}
    {conf : List (Unconf × Header)} (hp : process cfg o height now pending = some (pend, conf))
    (u : Unconf) (h : Header) :
    (u, h) ∈ conf ↔ ∃ pb ∈ pending, u ∈ pb.evs ∧ headerOf o pb = some h ∧ o.main pb.block = some true ∧
      confirmedIn cfg h height now u = true := by
  induction pending generalizing pend conf with
  | nil =>
    simp only [process, Option.some.injEq, Prod.mk.injEq] at hp
    simp [← hp.2]
  | cons pb rest ih =>
    obtain ⟨p, c, ps, cs, h1, h2, rfl, rfl⟩ := process_cons hp
    obtain ⟨canon, h', hm, hh, _, rfl⟩ := processBlock_some h1
    rw [List.mem_append, ih h2]
    constructor
    · rintro (hc | ⟨pb', hpb', rest'⟩)
      · cases canon with
        | false => simp at hc
        | true =>
          simp only [if_true, List.mem_map, List.mem_filter, Prod.mk.injEq] at hc
          obtain ⟨u', ⟨hu, hcf⟩, rfl, rfl⟩ := hc
          exact ⟨pb, by simp, hu, hh, hm, hcf⟩
      · exact ⟨pb', by simp [hpb'], rest'⟩
    · rintro ⟨pb', hpb', hu, hh', hm', hcf⟩
      rcases List.mem_cons.1 hpb' with rfl | hin
      · left
        rw [hm] at hm'; cases hm'
        rw [hh] at hh'; cases hh'
        rw [if_pos rfl]
        exact List.mem_map.2 ⟨u, List.mem_filter.2 ⟨hu, hcf⟩, rfl⟩
      · right; exact ⟨pb', hin, hu, hh', hm', hcf⟩

/-- Exactly which events stay pending after one `process` call (and under which cached header). -/
theorem mem_pend_iff {cfg : Cfg} {o : Oracle} {height now : Int} {pending pend : List PBlock}
    {conf : List (Unconf × Header)} (hp : process cfg o height now pending = some (pend, conf))
    (pb' : PBlock) :
    pb' ∈ pend ↔ ∃ pb ∈ pending, ∃ h, headerOf o pb = some h ∧
      (pb.evs.filter fun u => !confirmedIn cfg h height now u) ≠ [] ∧
      pb' = { pb with hdr := some h, evs := pb.evs.filter fun u => !confirmedIn cfg h height now u } := by
  induction pending generalizing pend conf with
  | nil =>
    simp only [process, Option.some.injEq, Prod.mk.injEq] at hp
    simp [← hp.1]
  | cons pb rest ih =>
    obtain ⟨p, c, ps, cs, h1, h2, rfl, rfl⟩ := process_cons hp
    obtain ⟨canon, h', hm, hh, rfl, _⟩ := processBlock_some h1
    rw [List.mem_append, ih h2]
    constructor
    · rintro (hc | ⟨pb0, hpb0, rest'⟩)
      · split at hc
        · simp at hc
        · rename_i hne
          simp only [List.mem_singleton] at hc
          refine ⟨pb, by simp, h', hh, ?_, hc⟩
          intro e; rw [e] at hne; simp at hne
      · exact ⟨pb0, by simp [hpb0], rest'⟩
    · rintro ⟨pb0, hpb0, h0, hh0, hne, rfl⟩
      rcases List.mem_cons.1 hpb0 with rfl | hin
      · left
        rw [hh] at hh0; cases hh0
        rw [if_neg (by intro e; rw [List.isEmpty_iff] at e; exact hne e)]
        simp
      · right; exact ⟨pb0, hin, h0, hh0, hne, rfl⟩

/-- `process` fails only on a node API error for some pending block. -/
theorem process_isSome {cfg : Cfg} {o : Oracle} {height now : Int} {pending : List PBlock}
    (hok : ∀ pb ∈ pending, (o.main pb.block).isSome ∧ (headerOf o pb).isSome) :
    (process cfg o height now pending).isSome := by
  induction pending with
  | nil => simp [process]
  | cons pb rest ih =>
    have h1 := hok pb (by simp)
    have h2 := ih fun pb' hpb' => hok pb' (by simp [hpb'])
    obtain ⟨canon, hm⟩ := Option.isSome_iff_exists.1 h1.1
    obtain ⟨h, hh⟩ := Option.isSome_iff_exists.1 h1.2
    obtain ⟨r, hr⟩ := Option.isSome_iff_exists.1 h2
    simp [process, processBlock, hm, hh, hr]

/-! ## ids: counting events through `process`, `addBatch`, `handleConfirmed` -/

def evIds (l : List Unconf) : List Nat := l.map fun u => u.ev.id
def pendIds (pend : List PBlock) : List Nat := pend.flatMap fun pb => evIds pb.evs
def confIds (conf : List (Unconf × Header)) : List Nat := conf.map fun c => c.1.ev.id

@[simp] theorem pendIds_nil : pendIds [] = [] := rfl
@[simp] theorem pendIds_cons (pb : PBlock) (rest : List PBlock) : pendIds (pb :: rest) = evIds pb.evs ++ pendIds rest := by
  simp [pendIds]
@[simp] theorem pendIds_append (a b : List PBlock) : pendIds (a ++ b) = pendIds a ++ pendIds b := by
  simp [pendIds]
@[simp] theorem confIds_append (a b : List (Unconf × Header)) : confIds (a ++ b) = confIds a ++ confIds b := by
  simp [confIds]

theorem count_filter_split (p : Unconf → Bool) (l : List Unconf) (x : Nat) :
    (evIds (l.filter fun u => !p u)).count x + (evIds (l.filter p)).count x = (evIds l).count x := by
  induction l with
  | nil => simp [evIds]
  | cons u rest ih =>
    simp only [evIds] at ih ⊢
    by_cases hp : p u = true
    · simp only [List.filter_cons, hp, Bool.not_true, Bool.false_eq_true, if_false, if_true, List.map_cons, List.count_cons]
      omega
    · simp only [Bool.not_eq_true] at hp
      simp only [List.filter_cons, hp, Bool.not_false, if_true, Bool.false_eq_true, if_false, List.map_cons, List.count_cons]
      omega

/-- ids of the events one `process` call drops from a block: confirmed, but the block is not on the main chain -/
def dropIds (cfg : Cfg) (o : Oracle) (height now : Int) (pb : PBlock) : List Nat :=
  match o.main pb.block, headerOf o pb with
  | some false, some h => evIds (pb.evs.filter (confirmedIn cfg h height now))
  | _, _ => []

/-- `process` partitions the pending events: every event is kept, handed on, or dropped — never duplicated. -/
theorem process_partition {cfg : Cfg} {o : Oracle} {height now : Int} {pending pend : List PBlock}
    {conf : List (Unconf × Header)} (hp : process cfg o height now pending = some (pend, conf)) (x : Nat) :
    (pendIds pend).count x + (confIds conf).count x + (pending.flatMap (dropIds cfg o height now)).count x
      = (pendIds pending).count x := by
  induction pending generalizing pend conf with
  | nil =>
    simp only [process, Option.some.injEq, Prod.mk.injEq] at hp
    simp [← hp.1, ← hp.2, confIds]
  | cons pb rest ih =>
    obtain ⟨p, c, ps, cs, h1, h2, rfl, rfl⟩ := process_cons hp
    obtain ⟨canon, h, hm, hh, rfl, rfl⟩ := processBlock_some h1
    have ihr := ih h2
    have hs := count_filter_split (confirmedIn cfg h height now) pb.evs x
    simp only [pendIds_append, confIds_append, pendIds_cons, List.count_append, List.flatMap_cons]
    have hp1 : (pendIds (if (pb.evs.filter fun u => !confirmedIn cfg h height now u).isEmpty then []
        else [{ pb with hdr := some h, evs := pb.evs.filter fun u => !confirmedIn cfg h height now u }])).count x
        = (evIds (pb.evs.filter fun u => !confirmedIn cfg h height now u)).count x := by
      split
      · rename_i he; rw [List.isEmpty_iff] at he; simp [he, evIds]
      · simp
    have hc1 : (confIds (if canon then (pb.evs.filter (confirmedIn cfg h height now)).map (fun u => (u, h)) else [])).count x
        + (dropIds cfg o height now pb).count x = (evIds (pb.evs.filter (confirmedIn cfg h height now))).count x := by
      cases canon
      · simp [confIds, dropIds, hm, hh]
      · simp [confIds, evIds, dropIds, hm, hh, List.map_map, Function.comp_def]
    omega

/-- No event is duplicated by `process`. -/
theorem process_count {cfg : Cfg} {o : Oracle} {height now : Int} {pending pend : List PBlock}
    {conf : List (Unconf × Header)} (hp : process cfg o height now pending = some (pend, conf)) (x : Nat) :
    (pendIds pend).count x + (confIds conf).count x ≤ (pendIds pending).count x := by
  have := process_partition hp x
  omega

theorem addEvent_count (pend : List PBlock) (u : Unconf) (x : Nat) :
    (pendIds (addEvent pend u)).count x = (pendIds pend).count x + (if u.ev.id = x then 1 else 0) := by
  induction pend with
  | nil => simp [addEvent, evIds, List.count_cons]
  | cons pb rest ih =>
    simp only [addEvent]
    split
    · simp only [pendIds_cons, evIds, List.map_append, List.map_cons, List.map_nil, List.count_append, List.count_cons,
        List.count_nil, beq_iff_eq]
      omega
    · simp only [pendIds_cons, List.count_append, ih]; omega

theorem addBatch_count (pend : List PBlock) (us : List Unconf) (x : Nat) :
    (pendIds (addBatch pend us)).count x = (pendIds pend).count x + (evIds us).count x := by
  induction us generalizing pend with
  | nil => simp [addBatch, evIds]
  | cons u rest ih =>
    simp only [addBatch, List.foldl_cons] at ih ⊢
    rw [ih, addEvent_count]
    simp only [evIds, List.map_cons, List.count_cons, beq_iff_eq]
    omega

theorem handleConfirmed_sublist (cfg : Cfg) (conf : List (Unconf × Header)) :
    (handleConfirmed cfg conf).1.Sublist conf := by
  induction conf with
  | nil => simp [handleConfirmed]
  | cons c rest ih =>
    obtain ⟨u, h⟩ := c
    simp only [handleConfirmed]
    split
    · split
      · exact ih.cons_cons _
      · exact ih.cons _
    · exact List.nil_sublist _

/-- What `handleConfirmedEvents` forwards when no event index is unknown: exactly the token-bridge entries. -/
theorem handleConfirmed_of_idx0 (cfg : Cfg) (conf : List (Unconf × Header)) (h0 : ∀ c ∈ conf, c.1.ev.idx = 0) :
    handleConfirmed cfg conf = (conf.filter fun c => c.1.msg.sender = cfg.bridge, false) := by
  induction conf with
  | nil => simp [handleConfirmed]
  | cons c rest ih =>
    obtain ⟨u, h⟩ := c
    have hu : u.ev.idx = 0 := h0 (u, h) (by simp)
    have ihr := ih fun c hc => h0 c (by simp [hc])
    simp only [handleConfirmed, hu, if_true, ihr, List.filter_cons]
    by_cases hs : u.msg.sender = cfg.bridge <;> simp [hs]

theorem handleConfirmed_mem (cfg : Cfg) (conf : List (Unconf × Header)) (c : Unconf × Header)
    (hc : c ∈ (handleConfirmed cfg conf).1) : c ∈ conf ∧ c.1.ev.idx = 0 ∧ c.1.msg.sender = cfg.bridge := by
  induction conf with
  | nil => simp [handleConfirmed] at hc
  | cons d rest ih =>
    obtain ⟨u, h⟩ := d
    simp only [handleConfirmed] at hc
    split at hc
    · rename_i hi
      split at hc
      · rename_i hs
        rcases List.mem_cons.1 hc with rfl | hin
        · exact ⟨by simp, hi, hs⟩
        · have := ih hin; exact ⟨by simp [this.1], this.2⟩
      · have := ih hc; exact ⟨by simp [this.1], this.2⟩
    · simp at hc

/-! ## `stepHeight` in terms of `process` and `handleConfirmed` -/

theorem stepHeight_none {cfg : Cfg} {o : Oracle} {height now : Int} {s : WState}
    (hp : process cfg o height now s.pending = none) :
    stepHeight cfg o height now s = ({ s with alive := false }, []) := by
  simp [stepHeight, hp]

theorem stepHeight_some {cfg : Cfg} {o : Oracle} {height now : Int} {s : WState} {pend : List PBlock}
    {conf : List (Unconf × Header)} (hp : process cfg o height now s.pending = some (pend, conf)) :
    (stepHeight cfg o height now s).1.pending = pend ∧ (stepHeight cfg o height now s).2 = (handleConfirmed cfg conf).1 ∧
    (stepHeight cfg o height now s).1.alive = (s.alive && !(handleConfirmed cfg conf).2) ∧
    (stepHeight cfg o height now s).1.fromIndex = s.fromIndex := by
  unfold stepHeight
  rw [hp]
  simp only
  split
  · rename_i he
    rw [List.isEmpty_iff] at he
    subst he
    simp [handleConfirmed]
  · simp

/-! ## `handleUnconfirmed` -/

theorem acceptEv_some {ans : Bytes → TiAns} {e : Event} {u : Unconf} (h : acceptEv ans e = some u) :
    u.ev = e ∧ e.idx = 0 ∧ e.conv = some u.msg ∧ (isAttest u.msg = true → validateAttest ans u.msg = true) := by
  unfold acceptEv toUnconfirmed at h
  split at h
  · cases h
  · rename_i u' hu
    split at hu
    · cases hu
    · rename_i hidx
      have hidx : e.idx = 0 := by
        rcases Decidable.em (e.idx = 0) with h0 | h0
        · exact h0
        · exact absurd h0 hidx
      cases hc : e.conv with
      | none => simp [hc] at hu
      | some m =>
        simp only [hc, Option.map_some, Option.some.injEq] at hu
        subst hu
        split at h
        · split at h
          · rename_i hv
            cases h
            exact ⟨rfl, hidx, rfl, fun _ => hv⟩
          · cases h
        · rename_i hna
          cases h
          exact ⟨rfl, hidx, rfl, fun ha => absurd ha hna⟩

/-! ## the page loop -/

/-- A node that serves one append-only event log consistently: the `k`-th page request of a tick, asked with
`start ≤ vis k`, returns the events `[start, min (start + size k) (vis k))` and that bound as `nextStart`. -/
structure Consistent (log : List Event) (vis size : Nat → Nat) (page : Nat → Int → Option Page) : Prop where
  size_pos : ∀ k, 0 < size k
  vis_mono : ∀ k, vis k ≤ vis (k + 1)
  vis_le : ∀ k, vis k ≤ log.length
  answer : ∀ k (s : Nat), s ≤ vis k →
    page k s = some ⟨(log.drop s).take (min (s + size k) (vis k) - s), (min (s + size k) (vis k) : Nat)⟩

theorem drop_take_append (l : List Event) (a b c : Nat) (hab : a ≤ b) (hbc : b ≤ c) :
    (l.drop a).take (b - a) ++ (l.drop b).take (c - b) = (l.drop a).take (c - a) := by
  have e : c - a = (b - a) + (c - b) := by omega
  rw [e, List.take_add, List.drop_drop]
  congr 3
  omega

end Whv.Alph
