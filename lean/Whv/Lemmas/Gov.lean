import Whv.Model.Gov
/-!
Helper lemmas for C15: hex decoding, slices of explicit concatenations, record chunking, inversion ("accepted ⇒ explicit
form of the payload") of the nine request → payload conversions of `Whv.Model.Gov`.
-/
namespace Whv.Gov
open Whv

/-! ## hex -/

theorem hexDecode_length (s : Str) : ∀ (b : Bytes), hexDecode s = some b → b.length * 2 = s.length := by
  induction s using hexDecode.induct with
  | case1 => intro b h; simp [hexDecode] at h; subst h; rfl
  | case2 x => intro b h; simp [hexDecode] at h
  | case3 a b rest x y r e hy hx ih =>
    intro r' h
    simp [hexDecode, e, hy, hx] at h
    subst h
    have := ih r e
    simp; omega
  | case4 a b rest hn ih =>
    intro r' h
    unfold hexDecode at h
    split at h
    · rename_i x y r hx hy e
      exact (hn x y r hx hy e).elim
    · cases h

theorem hexAddr?_length {s : Str} {a : Bytes} (h : hexAddr? s = some a) : a.length = 20 := by
  unfold hexAddr? at h
  generalize (if has0x s = true then List.drop 2 s else s) = t at h
  by_cases h40 : t.length = 40
  · simp only [h40, if_true] at h
    have := hexDecode_length _ _ h
    omega
  · simp only [h40, if_false] at h
    cases h

/-! ## modules -/

theorem coreModule_length : coreModule.length = 32 := by decide
theorem tokenBridgeModule_length : tokenBridgeModule.length = 32 := by decide
theorem unbe_coreModule : unbe coreModule = Gen.C15.coreModule := by decide
theorem unbe_tokenBridgeModule : unbe tokenBridgeModule = Gen.C15.tokenBridgeModule := by decide

theorem padModule_length {m : Str} (h : m.length ≤ 32) : (padModule m).length = 32 := by
  simp [padModule]; omega

theorem unbe_zeros_append (k : Nat) (m : Bytes) : unbe (List.replicate k 0 ++ m) = unbe m := by
  induction k with
  | zero => simp
  | succ k ih =>
    rw [List.replicate_succ, List.cons_append]
    simpa [unbe] using ih

/-- The contract compares the module as a U256: left padding does not change it. -/
theorem unbe_padModule (m : Str) : unbe (padModule m) = unbe m := unbe_zeros_append _ _

/-! ## slices -/

theorem slice_mid (pre mid post : Bytes) (a b : Nat) (ha : pre.length = a) (hb : a + mid.length = b) :
    Ral.slice (pre ++ (mid ++ post)) (a, b) = some mid := by
  subst ha hb
  simp [Ral.slice]

theorem slice_last (pre mid : Bytes) (a b : Nat) (ha : pre.length = a) (hb : a + mid.length = b) :
    Ral.slice (pre ++ mid) (a, b) = some mid := by
  have := slice_mid pre mid [] a b ha hb
  simpa using this

theorem slice_3of3 (A B C : Bytes) (a b : Nat) (ha : A.length + B.length = a) (hb : a + C.length = b) :
    Ral.slice (A ++ (B ++ C)) (a, b) = some C := by
  have := slice_mid (A ++ B) C [] a b (by simp [ha]) hb
  simpa using this

theorem slice_3of4 (A B C D : Bytes) (a b : Nat) (ha : A.length + B.length = a) (hb : a + C.length = b) :
    Ral.slice (A ++ (B ++ (C ++ D))) (a, b) = some C := by
  have := slice_mid (A ++ B) C D a b (by simp [ha]) hb
  simpa using this

theorem slice_4of4 (A B C D : Bytes) (a b : Nat) (ha : A.length + B.length + C.length = a) (hb : a + D.length = b) :
    Ral.slice (A ++ (B ++ (C ++ D))) (a, b) = some D := by
  have := slice_mid (A ++ (B ++ C)) D [] a b (by simp; omega) hb
  simpa using this

theorem slice_4of5 (A B C D E : Bytes) (a b : Nat) (ha : A.length + B.length + C.length = a) (hb : a + D.length = b) :
    Ral.slice (A ++ (B ++ (C ++ (D ++ E)))) (a, b) = some D := by
  have := slice_mid (A ++ (B ++ C)) D E a b (by simp; omega) hb
  simpa using this

theorem slice_5of5 (A B C D E : Bytes) (a b : Nat) (ha : A.length + B.length + C.length + D.length = a) (hb : a + E.length = b) :
    Ral.slice (A ++ (B ++ (C ++ (D ++ E)))) (a, b) = some E := by
  have := slice_mid (A ++ (B ++ (C ++ D))) E [] a b (by simp; omega) hb
  simpa using this

/-- The generic header assertions accept `module ‖ action ‖ rest` for the module's U256 value. -/
theorem header_ok (m : Bytes) (act : Nat) (rest : Bytes) (hm : m.length = 32) :
    Ral.header (unbe m) act (m ++ (be 1 act ++ rest)) = true := by
  have h1 : Ral.slice (m ++ (be 1 act ++ rest)) Gen.C15.moduleSlice = some m := by
    have := slice_mid [] m (be 1 act ++ rest) 0 32 rfl (by simp [hm])
    simpa [Gen.C15.moduleSlice] using this
  have h2 : Ral.slice (m ++ (be 1 act ++ rest)) Gen.C15.actionSlice = some (be 1 act) := by
    have := slice_mid m (be 1 act) rest 32 33 hm (by simp)
    simpa [Gen.C15.actionSlice] using this
  simp [Ral.header, h1, h2]

/-! ## chunking -/

theorem chunks_flatten (w : Nat) (ks : List Bytes) (h : ∀ k ∈ ks, k.length = w) (rest : Bytes) :
    Ral.chunks w w ks.length (ks.flatten ++ rest) = ks := by
  induction ks with
  | nil => simp [Ral.chunks]
  | cons k ks ih =>
    have hk : k.length = w := h k (by simp)
    have ih' := ih (fun x hx => h x (by simp [hx]))
    simp only [List.length_cons, Ral.chunks, List.flatten_cons, List.append_assoc]
    have h1 : (k ++ (ks.flatten ++ rest)).take w = k := by subst hk; simp
    have h2 : (k ++ (ks.flatten ++ rest)).drop w = ks.flatten ++ rest := by subst hk; simp
    rw [h1, h2, ih']

theorem flatten_length_const (w : Nat) (ks : List Bytes) (h : ∀ k ∈ ks, k.length = w) : ks.flatten.length = ks.length * w := by
  induction ks with
  | nil => simp
  | cons k ks ih =>
    have hk : k.length = w := h k (by simp)
    have ih' := ih (fun x hx => h x (by simp [hx]))
    simp only [List.flatten_cons, List.length_append, List.length_cons, ih', hk, Nat.add_mul]
    omega

theorem map_unbe_be8 (seqs : List Nat) (h : ∀ s ∈ seqs, s < 2 ^ 64) : (seqs.map (be 8)).map unbe = seqs := by
  induction seqs with
  | nil => rfl
  | cons s ss ih =>
    have hs : s < 256 ^ 8 := by have := h s (by simp); omega
    simp only [List.map_cons, unbe_be_of_lt hs]
    rw [ih (fun x hx => h x (by simp [hx]))]

/-! ## the guardian loop -/

theorem gsLoop_ne_panic (gs : List Guardian) : ∀ done, gsLoop gs done ≠ .panic := by
  induction gs with
  | nil => intro done h; simp [gsLoop] at h
  | cons g gs ih =>
    intro done h
    unfold gsLoop at h
    split at h
    · cases h
    · split at h
      · cases h
      · exact ih _ h

theorem gsLoop_ok (gs : List Guardian) : ∀ (done addrs : List Bytes), gsLoop gs done = .ok addrs →
    ∃ keys, keysOf gs = some keys ∧ addrs = done ++ keys ∧ keys.length = gs.length ∧ ∀ k ∈ keys, k.length = 20 := by
  induction gs with
  | nil =>
    intro done addrs h
    simp [gsLoop] at h
    exact ⟨[], rfl, by simp [h], rfl, by simp⟩
  | cons g gs ih =>
    intro done addrs h
    unfold gsLoop at h
    split at h
    · cases h
    · rename_i a ha
      split at h
      · cases h
      · obtain ⟨keys, hk, he, hl, hw⟩ := ih _ _ h
        refine ⟨a :: keys, by simp [keysOf, ha, hk], by simp [he], by simp [hl], ?_⟩
        intro k hk'
        rcases List.mem_cons.1 hk' with rfl | hk'
        · exact hexAddr?_length ha
        · exact hw k hk'

/-! ## inversion of the nine conversions -/

theorem fee_ok {fee : Str} {p : Bytes} (h : updateMessageFeePayload fee = .ok p) :
    ∃ b, hexDecode fee = some b ∧ b.length = 32 ∧ p = coreModule ++ (be 1 3 ++ b) := by
  unfold updateMessageFeePayload at h
  split at h
  · cases h
  · rename_i hl
    split at h
    · cases h
    · rename_i b hb
      cases h
      have := hexDecode_length _ _ hb
      exact ⟨b, hb, by omega, rfl⟩

theorem transferFee_ok {amount recipient : Str} {p : Bytes} (h : transferFeePayload amount recipient = .ok p) :
    ∃ a r, hexDecode amount = some a ∧ hexDecode recipient = some r ∧ a.length = 32 ∧ r.length = 32 ∧
      p = coreModule ++ (be 1 4 ++ (a ++ r)) := by
  unfold transferFeePayload at h
  split at h
  · cases h
  · rename_i hl1
    split at h
    · cases h
    · rename_i hl2
      split at h
      · cases h
      · rename_i a ha
        split at h
        · cases h
        · rename_i r hr
          cases h
          have := hexDecode_length _ _ ha
          have := hexDecode_length _ _ hr
          exact ⟨a, r, ha, hr, by omega, by omega, rfl⟩

theorem guardianSet_ok {gs : List Guardian} {gsi : Nat} {p : Bytes} (h : guardianSetPayload gs gsi = .ok p) :
    ∃ keys, keysOf gs = some keys ∧ keys.length = gs.length ∧ (∀ k ∈ keys, k.length = 20) ∧
      0 < gs.length ∧ gs.length ≤ 19 ∧ gsi ≠ 2 ^ 32 - 1 ∧
      p = coreModule ++ (be 1 2 ++ (be 4 ((gsi + 1) % 2 ^ 32) ++ (be 1 keys.length ++ keys.flatten))) := by
  unfold guardianSetPayload at h
  split at h
  · cases h
  · rename_i h0
    split at h
    · cases h
    · rename_i h19
      split at h
      · cases h
      · rename_i hidx
        split at h
        · rename_i addrs ha
          cases h
          obtain ⟨keys, hk, he, hl, hw⟩ := gsLoop_ok _ _ _ ha
          simp only [List.nil_append] at he
          subst he
          refine ⟨addrs, hk, hl, hw, by omega, by simp [maxGuardianCount] at h19; omega, hidx, rfl⟩
        · cases h
        · cases h

theorem contractUpgrade_ok {s : Str} {p : Bytes} (h : contractUpgradePayload s = .ok p) :
    ∃ b, hexDecode s = some b ∧ p = coreModule ++ (be 1 1 ++ b) := by
  unfold contractUpgradePayload at h
  split at h
  · cases h
  · rename_i b hb
    cases h
    exact ⟨b, hb, rfl⟩

theorem registerChain_ok {m : Str} {c : Nat} {e : Str} {p : Bytes} (h : registerChainPayload m c e = .ok p) :
    ∃ b, hexDecode e = some b ∧ b.length = 32 ∧ m.length ≤ 32 ∧ c ≤ 65535 ∧
      p = padModule m ++ (be 1 1 ++ (be 2 c ++ b)) := by
  unfold registerChainPayload at h
  split at h
  · cases h
  · rename_i hm
    split at h
    · cases h
    · rename_i hc
      split at h
      · cases h
      · rename_i b hb
        split at h
        · cases h
        · rename_i hl
          unfold serRegisterChain at h
          rw [if_neg hm] at h
          cases h
          have hc' : c % 2 ^ 16 = c := Nat.mod_eq_of_lt (by omega)
          refine ⟨b, hb, by omega, by omega, by omega, by rw [hc']⟩

theorem bridgeUpgrade_ok {m s : Str} {p : Bytes} (h : bridgeUpgradePayload m s = .ok p) :
    ∃ b, hexDecode s = some b ∧ m.length ≤ 32 ∧ p = padModule m ++ (be 1 2 ++ b) := by
  unfold bridgeUpgradePayload at h
  split at h
  · cases h
  · rename_i hm
    split at h
    · cases h
    · rename_i b hb
      unfold serBridgeUpgrade at h
      rw [if_neg hm] at h
      cases h
      exact ⟨b, hb, by omega, rfl⟩

theorem destroy_ok {c : Nat} {seqs : List Nat} {p : Bytes} (h : destroyPayload c seqs = .ok p) :
    c ≤ 65535 ∧ seqs.length ≤ 65535 ∧
      p = tokenBridgeModule ++ (be 1 0xf0 ++ (be 2 c ++ (be 2 seqs.length ++ (seqs.map (be 8)).flatten))) := by
  unfold destroyPayload at h
  split at h
  · cases h
  · rename_i hc
    split at h
    · cases h
    · rename_i hl
      cases h
      have hc' : c % 2 ^ 16 = c := Nat.mod_eq_of_lt (by omega)
      refine ⟨by omega, by omega, by rw [hc']; rfl⟩

theorem minConsistency_ok {l : Nat} {p : Bytes} (h : minConsistencyPayload l = .ok p) :
    l ≤ 255 ∧ p = tokenBridgeModule ++ (be 1 0xf1 ++ be 1 l) := by
  unfold minConsistencyPayload at h
  split at h
  · cases h
  · rename_i hl
    cases h
    have hl' : l % 2 ^ 8 = l := Nat.mod_eq_of_lt (by omega)
    exact ⟨by omega, by rw [hl']; rfl⟩

theorem refundAddress_ok {s : Str} {p : Bytes} (h : refundAddressPayload s = .ok p) :
    ∃ b, hexDecode s = some b ∧ b.length ≤ 65535 ∧ p = tokenBridgeModule ++ (be 1 0xf2 ++ (be 2 b.length ++ b)) := by
  unfold refundAddressPayload at h
  split at h
  · cases h
  · rename_i b hb
    split at h
    · cases h
    · rename_i hl
      cases h
      exact ⟨b, hb, by omega, rfl⟩

/-! ## no conversion panics -/

theorem convert_ne_panic (gsi : Nat) (pl : Payload) : convert gsi pl ≠ .panic := by
  cases pl with
  | none => simp [convert]
  | updateMessageFee fee =>
    simp only [convert, updateMessageFeePayload]
    split
    · simp
    · split <;> simp
  | transferFee a r =>
    simp only [convert, transferFeePayload]
    split
    · simp
    · split
      · simp
      · split
        · simp
        · split <;> simp
  | guardianSet gs =>
    simp only [convert, guardianSetPayload]
    split
    · simp
    · split
      · simp
      · split
        · simp
        · split
          · simp
          · simp
          · rename_i h; exact (gsLoop_ne_panic _ _ h).elim
  | contractUpgrade p =>
    simp only [convert, contractUpgradePayload]
    split <;> simp
  | registerChain m c e =>
    simp only [convert, registerChainPayload]
    split
    · simp
    · rename_i hm
      split
      · simp
      · split
        · simp
        · split
          · simp
          · simp [serRegisterChain, hm]
  | bridgeUpgrade m p =>
    simp only [convert, bridgeUpgradePayload]
    split
    · simp
    · rename_i hm
      split
      · simp
      · simp [serBridgeUpgrade, hm]
  | destroy c s =>
    simp only [convert, destroyPayload]
    split
    · simp
    · split <;> simp
  | minConsistency l =>
    simp only [convert, minConsistencyPayload]
    split <;> simp
  | refundAddress a =>
    simp only [convert, refundAddressPayload]
    split
    · simp
    · split <;> simp

/-! ## the parsers with the facts as data (`RalF`), instantiated with the compiled-in facts, ARE the parsers `Ral`

(these hold as long as every `u256From<N>Byte!` width in `Whv.Gen.C15` equals the width of the slice it is applied to) -/

theorem slice_length {p s : Bytes} {r : Nat × Nat} (h : Ral.slice p r = some s) : s.length = r.2 - r.1 := by
  unfold Ral.slice at h
  split at h
  · rename_i hr
    cases h
    simp only [List.length_take, List.length_drop]
    omega
  · cases h

theorem conv_of_slice {p s : Bytes} {r : Nat × Nat} (w : Nat) (h : Ral.slice p r = some s) (hw : r.2 - r.1 = w) :
    RalF.conv w s = some (unbe s) := by
  simp [RalF.conv, slice_length h, hw]

theorem header_gen (module action : Nat) (p : Bytes) : RalF.header Facts.gen module action p = Ral.header module action p := by
  unfold RalF.header Ral.header
  cases h1 : Ral.slice p Facts.gen.moduleSlice with
  | none => have h1' : Ral.slice p Gen.C15.moduleSlice = none := h1
            simp only [h1']
  | some m =>
    have h1' : Ral.slice p Gen.C15.moduleSlice = some m := h1
    cases h2 : Ral.slice p Facts.gen.actionSlice with
    | none => have h2' : Ral.slice p Gen.C15.actionSlice = none := h2
              simp only [h1', h2']
    | some a =>
      have h2' : Ral.slice p Gen.C15.actionSlice = some a := h2
      simp only [h1', h2', conv_of_slice Facts.gen.moduleConv h1 rfl]
      simp

theorem parseMessageFee_gen (p : Bytes) : RalF.parseMessageFee Facts.gen p = Ral.parseMessageFee p := by
  unfold RalF.parseMessageFee Ral.parseMessageFee
  rw [header_gen]
  cases h : Ral.slice p Facts.gen.feeValue with
  | none => have h' : Ral.slice p Gen.C15.feeValue = none := h
            simp only [h']; rfl
  | some f =>
    have h' : Ral.slice p Gen.C15.feeValue = some f := h
    simp only [h', conv_of_slice Facts.gen.feeConv h rfl]; rfl

theorem parseTransferFee_gen (p : Bytes) : RalF.parseTransferFee Facts.gen p = Ral.parseTransferFee p := by
  unfold RalF.parseTransferFee Ral.parseTransferFee
  rw [header_gen]
  cases h : Ral.slice p Facts.gen.tfAmount with
  | none => have h' : Ral.slice p Gen.C15.tfAmount = none := h
            simp only [h']; rfl
  | some a =>
    have h' : Ral.slice p Gen.C15.tfAmount = some a := h
    cases h2 : Ral.slice p Facts.gen.tfRecipient with
    | none => have h2' : Ral.slice p Gen.C15.tfRecipient = none := h2
              simp only [h', h2']; rfl
    | some r =>
      have h2' : Ral.slice p Gen.C15.tfRecipient = some r := h2
      simp only [h', h2', conv_of_slice Facts.gen.tfAmountConv h rfl]; rfl

theorem parseGuardianSet_gen (p : Bytes) : RalF.parseGuardianSet Facts.gen p = Ral.parseGuardianSet p := by
  unfold RalF.parseGuardianSet Ral.parseGuardianSet
  rw [header_gen]
  cases h : Ral.slice p Facts.gen.gsIndex with
  | none => have h' : Ral.slice p Gen.C15.gsIndex = none := h
            simp only [h']; rfl
  | some i =>
    have h' : Ral.slice p Gen.C15.gsIndex = some i := h
    cases h2 : Ral.slice p Facts.gen.gsCount with
    | none => have h2' : Ral.slice p Gen.C15.gsCount = none := h2
              simp only [h', h2']; rfl
    | some c =>
      have h2' : Ral.slice p Gen.C15.gsCount = some c := h2
      simp only [h', h2', conv_of_slice Facts.gen.gsIndexConv h rfl, conv_of_slice Facts.gen.gsCountConv h2 rfl]; rfl

theorem parseUpgrade_gen (module action : Nat) (p : Bytes) :
    RalF.parseUpgrade Facts.gen module action p = Ral.parseUpgrade module action p := by
  unfold RalF.parseUpgrade Ral.parseUpgrade
  rw [header_gen]
  cases h : Ral.slice p Facts.gen.cuCodeLen with
  | none => rfl
  | some l => simp only [conv_of_slice Facts.gen.cuCodeLenConv h rfl, Option.isSome_some, if_true]; rfl

theorem parseRegisterChain_gen (module : Nat) (p : Bytes) :
    RalF.parseRegisterChain Facts.gen module p = Ral.parseRegisterChain module p := by
  unfold RalF.parseRegisterChain Ral.parseRegisterChain
  rw [header_gen]
  cases h : Ral.slice p Facts.gen.rcChain with
  | none => have h' : Ral.slice p Gen.C15.rcChain = none := h
            simp only [h']; rfl
  | some a =>
    have h' : Ral.slice p Gen.C15.rcChain = some a := h
    cases h2 : Ral.slice p Facts.gen.rcBridge with
    | none => have h2' : Ral.slice p Gen.C15.rcBridge = none := h2
              simp only [h', h2']; rfl
    | some r =>
      have h2' : Ral.slice p Gen.C15.rcBridge = some r := h2
      simp only [h', h2', conv_of_slice Facts.gen.rcChainConv h rfl]; rfl

theorem parseDestroy_gen (p : Bytes) : RalF.parseDestroy Facts.gen p = Ral.parseDestroy p := by
  unfold RalF.parseDestroy Ral.parseDestroy
  rw [header_gen]
  cases h : Ral.slice p Facts.gen.dsChain with
  | none => have h' : Ral.slice p Gen.C15.dsChain = none := h
            simp only [h']; rfl
  | some a =>
    have h' : Ral.slice p Gen.C15.dsChain = some a := h
    cases h2 : Ral.slice p Facts.gen.dsCount with
    | none => have h2' : Ral.slice p Gen.C15.dsCount = none := h2
              simp only [h', h2']; rfl
    | some r =>
      have h2' : Ral.slice p Gen.C15.dsCount = some r := h2
      simp only [h', h2', conv_of_slice Facts.gen.dsCountConv h2 rfl]; rfl

theorem parseMinConsistency_gen (p : Bytes) : RalF.parseMinConsistency Facts.gen p = Ral.parseMinConsistency p := by
  unfold RalF.parseMinConsistency Ral.parseMinConsistency
  rw [header_gen]
  cases h : Ral.slice p Facts.gen.clValue with
  | none => have h' : Ral.slice p Gen.C15.clValue = none := h
            simp only [h']; rfl
  | some c =>
    have h' : Ral.slice p Gen.C15.clValue = some c := h
    simp only [h', conv_of_slice Facts.gen.clConv h rfl]; rfl

theorem parseRefundAddress_gen (p : Bytes) : RalF.parseRefundAddress Facts.gen p = Ral.parseRefundAddress p := by
  unfold RalF.parseRefundAddress Ral.parseRefundAddress
  rw [header_gen]
  cases h : Ral.slice p Facts.gen.raLen with
  | none => have h' : Ral.slice p Gen.C15.raLen = none := h
            simp only [h']; rfl
  | some l =>
    have h' : Ral.slice p Gen.C15.raLen = some l := h
    simp only [h', conv_of_slice Facts.gen.raLenConv h rfl]; rfl

end Whv.Gov
