import Whv.Model.Db
import Whv.Lemmas.Vaa
/-! Helper lemmas for C12 (keys, store, histories). -/
namespace Whv.Db
open Whv

/-! ## decimal rendering -/

theorem decChars_eq (n : Nat) : decChars n = Nat.toDigits 10 n := by
  simp [decChars, Nat.toList_repr]

theorem decChars_isDigit {n : Nat} {c : Char} (h : c ∈ decChars n) : c.isDigit = true := by
  rw [decChars_eq] at h
  exact Nat.isDigit_of_mem_toDigits (by decide) (by decide) h

theorem slash_not_digit : ('/' : Char).isDigit = false := by decide

theorem decChars_no_slash (n : Nat) : '/' ∉ decChars n := by
  intro h
  have := decChars_isDigit h
  rw [slash_not_digit] at this
  cases this

theorem decChars_ne_nil (n : Nat) : decChars n ≠ [] := by
  rw [decChars_eq]; exact Nat.toDigits_ne_nil

theorem ofDigitChars_decChars (n : Nat) : Nat.ofDigitChars 10 (decChars n) 0 = n := by
  rw [decChars_eq]; exact Nat.ofDigitChars_ten_toDigits

theorem decChars_inj {a b : Nat} (h : decChars a = decChars b) : a = b := by
  rw [← ofDigitChars_decChars a, ← ofDigitChars_decChars b, h]

/-! ## hex rendering -/

theorem hexDigit_inj : ∀ m, m < 16 → ∀ n, n < 16 → hexDigit m = hexDigit n → m = n := by decide

theorem hexOfByte_inj {a b : UInt8} (h : hexOfByte a = hexOfByte b) : a = b := by
  simp only [hexOfByte, List.cons.injEq, and_true] at h
  have ha : a.toNat < 256 := a.toNat_lt
  have hb : b.toNat < 256 := b.toNat_lt
  have h1 := hexDigit_inj _ (by omega) _ (by omega) h.1
  have h2 := hexDigit_inj _ (by omega) _ (by omega) h.2
  apply UInt8.toNat.inj
  omega

theorem hexChars_cons (a : UInt8) (as : Bytes) : hexChars (a :: as) = hexOfByte a ++ hexChars as := by
  simp [hexChars]

theorem hexChars_length (b : Bytes) : (hexChars b).length = 2 * b.length := by
  induction b with
  | nil => rfl
  | cons a as ih => rw [hexChars_cons, List.length_append, ih]; simp [hexOfByte]; omega

theorem hexChars_inj : ∀ {a b : Bytes}, hexChars a = hexChars b → a = b := by
  intro a
  induction a with
  | nil =>
    intro b h
    cases b with
    | nil => rfl
    | cons x xs => have := congrArg List.length h; rw [hexChars_length, hexChars_length] at this; simp at this
  | cons x xs ih =>
    intro b h
    cases b with
    | nil => have := congrArg List.length h; rw [hexChars_length, hexChars_length] at this; simp at this
    | cons y ys =>
      rw [hexChars_cons, hexChars_cons] at h
      have hl : (hexOfByte x).length = (hexOfByte y).length := by simp [hexOfByte]
      obtain ⟨h1, h2⟩ := List.append_inj h hl
      rw [hexOfByte_inj h1, ih h2]

theorem hexVal_hexDigit : ∀ n, n < 16 → hexVal (hexDigit n) = some n := by decide

/-- The canonical rendering of an address is accepted by the hex decoder and gives the address back. -/
theorem unhexChars_hexChars (b : Bytes) : unhexChars (hexChars b) = some b := by
  induction b with
  | nil => rfl
  | cons a as ih =>
    have ha : a.toNat < 256 := a.toNat_lt
    rw [hexChars_cons]
    simp only [hexOfByte, List.cons_append, List.nil_append, unhexChars, ih,
      hexVal_hexDigit _ (show a.toNat / 16 < 16 by omega), hexVal_hexDigit _ (show a.toNat % 16 < 16 by omega)]
    have : a.toNat / 16 * 16 + a.toNat % 16 = a.toNat := by omega
    rw [this]
    simp

/-! ## splitting keys -/

/-- Two strings that agree, each cut at its first separator, have equal heads and equal tails. -/
theorem split_at_sep {sep : Char} : ∀ {a b x y : List Char}, sep ∉ a → sep ∉ b → a ++ sep :: x = b ++ sep :: y → a = b ∧ x = y := by
  intro a
  induction a with
  | nil =>
    intro b x y _ hb h
    cases b with
    | nil => simpa using h
    | cons c cs =>
      simp only [List.nil_append, List.cons_append, List.cons.injEq] at h
      exact absurd (by rw [h.1]; simp) hb
  | cons c cs ih =>
    intro b x y ha hb h
    cases b with
    | nil =>
      simp only [List.nil_append, List.cons_append, List.cons.injEq] at h
      exact absurd (by rw [← h.1]; simp) ha
    | cons d ds =>
      simp only [List.cons_append, List.cons.injEq] at h
      have ha' : sep ∉ cs := fun hm => ha (List.mem_cons_of_mem _ hm)
      have hb' : sep ∉ ds := fun hm => hb (List.mem_cons_of_mem _ hm)
      obtain ⟨e1, e2⟩ := ih ha' hb' h.2
      exact ⟨by rw [h.1, e1], e2⟩

/-- The common shape of a key and of the scan prefixes. -/
def keyParts (ec : Nat) (addr : Bytes) (tc : Nat) (rest : List Char) : Key :=
  signedPfx ++ (decChars ec ++ ('/' :: (hexChars addr ++ ('/' :: (decChars tc ++ ('/' :: rest))))))

theorem key_eq_keyParts (i : VaaId) : key i = keyParts i.emitterChain i.emitter i.targetChain (decChars i.sequence) := rfl

theorem gapPrefix_append (ec : Nat) (addr : Bytes) (tc : Nat) (t : List Char) :
    gapPrefix ec addr tc ++ t = keyParts ec addr tc t := by
  simp [gapPrefix, emitterPrefix, keyParts, List.append_assoc]

theorem keyParts_inj {ec ec' tc tc' : Nat} {addr addr' : Bytes} {r r' : List Char} (hl : addr.length = addr'.length)
    (h : keyParts ec addr tc r = keyParts ec' addr' tc' r') : ec = ec' ∧ addr = addr' ∧ tc = tc' ∧ r = r' := by
  unfold keyParts at h
  have h1 := List.append_cancel_left h
  obtain ⟨e1, h2⟩ := split_at_sep (decChars_no_slash _) (decChars_no_slash _) h1
  have hl' : (hexChars addr).length = (hexChars addr').length := by rw [hexChars_length, hexChars_length, hl]
  obtain ⟨e2, h3⟩ := List.append_inj h2 hl'
  have h4 : decChars tc ++ '/' :: r = decChars tc' ++ '/' :: r' := by simpa using h3
  obtain ⟨e3, e4⟩ := split_at_sep (decChars_no_slash _) (decChars_no_slash _) h4
  exact ⟨decChars_inj e1, hexChars_inj e2, decChars_inj e3, e4⟩

theorem key_inj {a b : VaaId} (hl : a.emitter.length = b.emitter.length) (h : key a = key b) : a = b := by
  rw [key_eq_keyParts, key_eq_keyParts] at h
  obtain ⟨e1, e2, e3, e4⟩ := keyParts_inj hl h
  have e5 := decChars_inj e4
  cases a; cases b; simp_all

theorem gapPrefix_prefix_iff (ec : Nat) (addr : Bytes) (tc : Nat) (i : VaaId) (hl : addr.length = i.emitter.length) :
    gapPrefix ec addr tc <+: key i ↔ i.emitterChain = ec ∧ i.emitter = addr ∧ i.targetChain = tc := by
  constructor
  · rintro ⟨t, ht⟩
    rw [gapPrefix_append, key_eq_keyParts] at ht
    obtain ⟨e1, e2, e3, _⟩ := keyParts_inj hl ht
    exact ⟨e1.symm, e2.symm, e3.symm⟩
  · rintro ⟨e1, e2, e3⟩
    refine ⟨decChars i.sequence, ?_⟩
    rw [gapPrefix_append, key_eq_keyParts, e1, e2, e3]

theorem govPrefix_prefix_iff (ec : Nat) (addr : Bytes) (i : VaaId) (hl : addr.length = i.emitter.length) :
    govPrefix ec addr <+: key i ↔ i.emitterChain = ec ∧ i.emitter = addr := by
  constructor
  · rintro ⟨t, ht⟩
    unfold govPrefix key at ht
    have h0 : signedPfx ++ (decChars ec ++ '/' :: (hexChars addr ++ t)) =
        signedPfx ++ (decChars i.emitterChain ++ '/' :: (hexChars i.emitter ++ '/' :: (decChars i.targetChain ++ '/' :: decChars i.sequence))) := by
      rw [← ht]; simp [List.append_assoc]
    have h1 := List.append_cancel_left h0
    obtain ⟨e1, h2⟩ := split_at_sep (decChars_no_slash _) (decChars_no_slash _) h1
    have hl' : (hexChars addr).length = (hexChars i.emitter).length := by rw [hexChars_length, hexChars_length, hl]
    obtain ⟨e2, _⟩ := List.append_inj h2 hl'
    exact ⟨(decChars_inj e1).symm, (hexChars_inj e2).symm⟩
  · rintro ⟨e1, e2⟩
    refine ⟨'/' :: (decChars i.targetChain ++ '/' :: decChars i.sequence), ?_⟩
    unfold govPrefix key
    rw [e1, e2]; simp [List.append_assoc]

/-! ## the store -/

theorem mem_put {st : Store} {k : Key} {v : Bytes} {e : Key × Bytes} :
    e ∈ st.put k v ↔ e = (k, v) ∨ (e ∈ st ∧ e.1 ≠ k) := by
  simp [Store.put, List.mem_filter]

theorem find?_filter_of_imp {α : Type} (p q : α → Bool) (h : ∀ a, p a = true → q a = true) :
    ∀ l : List α, (l.filter q).find? p = l.find? p := by
  intro l
  induction l with
  | nil => rfl
  | cons a l ih =>
    by_cases hq : q a = true
    · rw [List.filter_cons_of_pos hq, List.find?_cons, List.find?_cons, ih]
    · have hp : p a = false := by
        cases hpa : p a with
        | false => rfl
        | true => exact absurd (h a hpa) hq
      rw [List.filter_cons_of_neg hq, List.find?_cons, hp, ih]

theorem get_put (st : Store) (k k' : Key) (v : Bytes) :
    (st.put k v).get k' = if k' = k then some v else st.get k' := by
  unfold Store.put Store.get
  by_cases h : k' = k
  · subst h; simp
  · rw [if_neg h, List.find?_cons]
    have hk : ((k, v).1 == k') = false := by simpa using fun e : k = k' => h e.symm
    rw [hk]
    rw [find?_filter_of_imp]
    intro a ha
    have : a.1 = k' := by simpa using ha
    simpa [this] using h

theorem mem_scan {st : Store} {p : Key} {e : Key × Bytes} : e ∈ st.scan p ↔ e ∈ st ∧ p <+: e.1 := by
  simp [Store.scan, Store.iter, List.mem_filter]

/-! ## histories -/

theorem run_snoc (h : List Put) (p : Put) : run (h ++ [p]) = (run h).put (key p.1) p.2 := by
  simp [run, List.foldl_append]

theorem lastStored_snoc (h : List Put) (p : Put) (id : VaaId) :
    lastStored (h ++ [p]) id = if p.1 = id then some p.2 else lastStored h id := by
  unfold lastStored
  by_cases e : p.1 = id
  · simp [List.filter_append, e]
  · simp [List.filter_append, e]

theorem lastStored_nil (id : VaaId) : lastStored [] id = none := rfl

/-- Identifiers as the Go type can hold them: a 32-byte emitter address. -/
def IdOK (i : VaaId) : Prop := i.emitter.length = 32

instance (i : VaaId) : Decidable (IdOK i) := by unfold IdOK; exact inferInstance

theorem get_run (h : List Put) (hok : ∀ p ∈ h, IdOK p.1) (id : VaaId) (hid : IdOK id) :
    (run h).get (key id) = lastStored h id := by
  induction h using snoc_induction with
  | hnil => rfl
  | hsnoc h p ih =>
    have ih' := ih (fun q hq => hok q (by simp [hq]))
    have hp : IdOK p.1 := hok p (by simp)
    rw [run_snoc, get_put, lastStored_snoc, ih']
    by_cases e : p.1 = id
    · simp [e]
    · have : key id ≠ key p.1 := fun hk => e (key_inj (by rw [hp, hid]) hk).symm
      simp [e, this]

theorem mem_run (h : List Put) (hok : ∀ p ∈ h, IdOK p.1) (k : Key) (b : Bytes) :
    (k, b) ∈ run h ↔ ∃ id, IdOK id ∧ k = key id ∧ lastStored h id = some b := by
  induction h using snoc_induction with
  | hnil => simp [run, lastStored_nil]
  | hsnoc h p ih =>
    have ih' := ih (fun q hq => hok q (by simp [hq]))
    have hp : IdOK p.1 := hok p (by simp)
    rw [run_snoc, mem_put, ih']
    constructor
    · rintro (e | ⟨⟨id, hid, hk, hl⟩, hne⟩)
      · cases e
        exact ⟨p.1, hp, rfl, by rw [lastStored_snoc]; simp⟩
      · refine ⟨id, hid, hk, ?_⟩
        rw [lastStored_snoc]
        have : p.1 ≠ id := by
          intro e; apply hne; simp [hk, e]
        simp [this, hl]
    · rintro ⟨id, hid, hk, hl⟩
      rw [lastStored_snoc] at hl
      by_cases e : p.1 = id
      · left
        simp [e] at hl
        rw [hk, ← e, ← hl]
      · right
        simp [e] at hl
        refine ⟨⟨id, hid, hk, hl⟩, ?_⟩
        intro hk'
        exact e (key_inj (by rw [hp, hid]) (by rw [← hk', hk])).symm

theorem lastStored_some_mem {h : List Put} {id : VaaId} {b : Bytes} (hl : lastStored h id = some b) : (id, b) ∈ h := by
  unfold lastStored at hl
  cases hg : (h.filter fun p => p.1 == id).getLast? with
  | none => simp [hg] at hl
  | some q =>
    simp [hg] at hl
    have hm := List.mem_of_getLast? hg
    rw [List.mem_filter] at hm
    have : q.1 = id := by simpa using hm.2
    have e : q = (id, b) := by cases q; simp_all
    rw [← e]; exact hm.1

theorem lastStored_isSome_of_mem {h : List Put} {id : VaaId} (hm : id ∈ h.map (·.1)) : ∃ b, lastStored h id = some b := by
  unfold lastStored
  obtain ⟨q, hq, rfl⟩ := List.mem_map.1 hm
  have hne : (h.filter fun p => p.1 == q.1) ≠ [] := by
    intro e
    have : q ∈ h.filter fun p => p.1 == q.1 := by simp [List.mem_filter, hq]
    rw [e] at this; cases this
  cases hg : (h.filter fun p => p.1 == q.1).getLast? with
  | none => exact absurd (List.getLast?_eq_none_iff.1 hg) hne
  | some r => exact ⟨r.2, by simp⟩

/-! ## gap computation -/

theorem minMaxStep_false (m k : Nat) : minMaxStep ⟨false, 0, m⟩ k = ⟨false, 0, max m k⟩ := by
  unfold minMaxStep
  by_cases h : k > m
  · have : max m k = k := by omega
    simp [h, this]
  · have : max m k = m := by omega
    simp [h, this]

theorem minMax_fold (seqs : List Nat) (m : Nat) : seqs.foldl minMaxStep ⟨false, 0, m⟩ = ⟨false, 0, seqs.foldl max m⟩ := by
  induction seqs generalizing m with
  | nil => rfl
  | cons k ks ih => rw [List.foldl_cons, List.foldl_cons, minMaxStep_false, ih]

/-- The literal min/max loop of the Go code computes the specification (`first` never leaves its zero value). -/
theorem gapOfSeqs_eq_specGap (seqs : List Nat) : gapOfSeqs seqs = specGap seqs := by
  unfold gapOfSeqs specGap maxSeq
  rw [minMax_fold]
  simp [List.range_eq_range']

theorem foldl_max_spec (l : List Nat) (m : Nat) :
    m ≤ l.foldl max m ∧ (∀ x ∈ l, x ≤ l.foldl max m) ∧ (l.foldl max m = m ∨ l.foldl max m ∈ l) := by
  induction l generalizing m with
  | nil => simp
  | cons a l ih =>
    obtain ⟨h1, h2, h3⟩ := ih (max m a)
    rw [List.foldl_cons]
    refine ⟨by omega, ?_, ?_⟩
    · intro x hx
      rcases List.mem_cons.1 hx with rfl | hx
      · omega
      · exact h2 x hx
    · rcases h3 with h3 | h3
      · by_cases hm : m ≤ a
        · right; rw [h3]; have : max m a = a := by omega
          rw [this]; simp
        · left; rw [h3]; omega
      · right; exact List.mem_cons_of_mem _ h3

theorem maxSeq_spec (l : List Nat) : (∀ x ∈ l, x ≤ maxSeq l) ∧ (maxSeq l = 0 ∨ maxSeq l ∈ l) := by
  obtain ⟨_, h2, h3⟩ := foldl_max_spec l 0
  exact ⟨h2, h3⟩

theorem maxSeq_congr {l1 l2 : List Nat} (h : ∀ x, x ∈ l1 ↔ x ∈ l2) : maxSeq l1 = maxSeq l2 := by
  obtain ⟨a1, b1⟩ := maxSeq_spec l1
  obtain ⟨a2, b2⟩ := maxSeq_spec l2
  have h12 : maxSeq l1 ≤ maxSeq l2 := by
    rcases b1 with b1 | b1
    · omega
    · exact a2 _ ((h _).1 b1)
  have h21 : maxSeq l2 ≤ maxSeq l1 := by
    rcases b2 with b2 | b2
    · omega
    · exact a1 _ ((h _).2 b2)
  omega

theorem specGap_congr {l1 l2 : List Nat} (h : ∀ x, x ∈ l1 ↔ x ∈ l2) : specGap l1 = specGap l2 := by
  unfold specGap
  rw [maxSeq_congr h]
  congr 1
  apply List.filter_congr
  intro x _
  have : l1.contains x = l2.contains x := by
    rw [Bool.eq_iff_iff]; simp [h x]
  rw [this]

/-- Every scanned value is the encoding of an in-domain VAA ⇒ the decode loop succeeds and yields exactly those VAAs. -/
theorem decodeAll_of_marshal (C05_decode_encode : ∀ v : Vaa, v.WF → unmarshal (marshal v) = some v) :
    ∀ (l : List (Key × Bytes)), (∀ e ∈ l, ∃ v : Vaa, v.WF ∧ e.2 = marshal v) →
      ∃ vs, decodeAll l = some vs ∧ ∀ x, x ∈ vs ↔ (x.WF ∧ ∃ e ∈ l, e.2 = marshal x) := by
  intro l
  induction l with
  | nil => intro _; exact ⟨[], rfl, by simp⟩
  | cons e r ih =>
    intro h
    obtain ⟨v, hv, he⟩ := h e (by simp)
    obtain ⟨vs, hvs, hmem⟩ := ih (fun e' he' => h e' (by simp [he']))
    refine ⟨v :: vs, ?_, ?_⟩
    · simp [decodeAll, he, C05_decode_encode v hv, hvs]
    · intro x
      rw [List.mem_cons, hmem]
      constructor
      · rintro (rfl | ⟨hx, e', he', hm⟩)
        · exact ⟨hv, e, by simp, he⟩
        · exact ⟨hx, e', by simp [he'], hm⟩
      · rintro ⟨hx, e', he', hm⟩
        rcases List.mem_cons.1 he' with rfl | he'
        · left
          have h1 := C05_decode_encode x hx
          have h2 := C05_decode_encode v hv
          rw [← hm, he, h2] at h1
          exact (Option.some.inj h1).symm
        · right; exact ⟨hx, e', he', hm⟩

/-! ## governance batch: parsing keys back -/

theorem parseUint_decChars {bits n : Nat} (h : n < 2 ^ bits) : parseUint bits (decChars n) = some n := by
  unfold parseUint
  have h1 : (decChars n).isEmpty = false := by
    cases hd : decChars n with
    | nil => exact absurd hd (decChars_ne_nil n)
    | cons _ _ => rfl
  have h2 : (decChars n).all Char.isDigit = true := by
    rw [List.all_eq_true]; intro c hc; exact decChars_isDigit hc
  simp [h1, h2, ofDigitChars_decChars, h]

theorem splitLastSlash_append (a d : List Char) (hd : '/' ∉ d) : splitLastSlash (a ++ '/' :: d) = some (a, d) := by
  unfold splitLastSlash
  have hr : (a ++ '/' :: d).reverse = d.reverse ++ '/' :: a.reverse := by simp
  have hall : ∀ c ∈ d.reverse, (c != '/') = true := by
    intro c hc
    have : c ∈ d := by simpa using hc
    have : c ≠ '/' := fun e => hd (e ▸ this)
    simpa using this
  simp only [hr]
  rw [List.dropWhile_append_of_pos hall, List.takeWhile_append_of_pos hall]
  simp

theorem key_split (i : VaaId) :
    key i = emitterPrefix i.emitterChain i.emitter i.targetChain ++ '/' :: decChars i.sequence := by
  simp [key, emitterPrefix, List.append_assoc]

theorem emitterPrefix_split (ec : Nat) (addr : Bytes) (tc : Nat) :
    emitterPrefix ec addr tc = govPrefix ec addr ++ '/' :: decChars tc := by
  simp [govPrefix, emitterPrefix, List.append_assoc]

theorem govEntry_key (seqs : List Nat) (i : VaaId) (b : Bytes) (htc : i.targetChain < 2 ^ 16) (hsq : i.sequence < 2 ^ 64) :
    govEntry seqs (key i, b) =
      some (if i.sequence ∈ seqs then some ⟨i.targetChain, i.sequence, b⟩ else none) := by
  unfold govEntry
  simp only [key_split i, splitLastSlash_append _ _ (decChars_no_slash _), parseUint_decChars hsq]
  by_cases hc : i.sequence ∈ seqs
  · have hc' : seqs.contains i.sequence = true := by simpa using hc
    simp only [hc', Bool.not_true, emitterPrefix_split, splitLastSlash_append _ _ (decChars_no_slash _), parseUint_decChars htc]
    simp [hc]
  · simp [hc]

theorem govLoop_keys (seqs : List Nat) : ∀ (l : List (Key × Bytes)),
    (∀ e ∈ l, ∃ id : VaaId, IdOK id ∧ id.targetChain < 2 ^ 16 ∧ id.sequence < 2 ^ 64 ∧ e.1 = key id) →
    ∃ out, govLoop seqs l = some out ∧
      ∀ g, g ∈ out ↔ ∃ e ∈ l, ∃ id : VaaId, IdOK id ∧ e.1 = key id ∧ id.sequence ∈ seqs ∧ g = ⟨id.targetChain, id.sequence, e.2⟩ := by
  intro l
  induction l with
  | nil => intro _; exact ⟨[], rfl, by simp⟩
  | cons e r ih =>
    intro h
    obtain ⟨id, hok, htc, hsq, hk⟩ := h e (by simp)
    obtain ⟨out, hout, hmem⟩ := ih (fun e' he' => h e' (by simp [he']))
    have he : govEntry seqs e = some (if id.sequence ∈ seqs then some ⟨id.targetChain, id.sequence, e.2⟩ else none) := by
      have := govEntry_key seqs id e.2 htc hsq
      rw [← hk] at this
      exact this
    by_cases hc : id.sequence ∈ seqs
    · refine ⟨⟨id.targetChain, id.sequence, e.2⟩ :: out, ?_, ?_⟩
      · simp [govLoop, he, hc, hout]
      · intro g
        rw [List.mem_cons, hmem]
        constructor
        · rintro (rfl | ⟨e', he', x⟩)
          · exact ⟨e, by simp, id, hok, hk, hc, rfl⟩
          · exact ⟨e', by simp [he'], x⟩
        · rintro ⟨e', he', id', hok', hk', hs', hg⟩
          rcases List.mem_cons.1 he' with rfl | he'
          · left
            have : id' = id := key_inj (by rw [hok', hok]) (by rw [← hk', hk])
            rw [hg, this]
          · right; exact ⟨e', he', id', hok', hk', hs', hg⟩
    · refine ⟨out, ?_, ?_⟩
      · simp [govLoop, he, hc, hout]
      · intro g
        rw [hmem]
        constructor
        · rintro ⟨e', he', x⟩
          exact ⟨e', by simp [he'], x⟩
        · rintro ⟨e', he', id', hok', hk', hs', hg⟩
          rcases List.mem_cons.1 he' with rfl | he'
          · have : id' = id := key_inj (by rw [hok', hok]) (by rw [← hk', hk])
            rw [this] at hs'
            exact absurd hs' hc
          · exact ⟨e', he', id', hok', hk', hs', hg⟩

end Whv.Db
