import Whv.Lemmas.Confluence
/-!
# Frame lemmas for the processor model: traffic about other messages does not disturb a message's aggregation

`Same d k s s'`: the two states agree on everything the handlers consult for digest `d` and store key `k` — the current guardian
set, the aggregation entry of `d`, the store entry under `k`.
* *Locality*: an event about `d` (an observation with hash `d`; a chain message whose digest is `d` and whose id is `k`) acts alike
  on `Same` states: same outputs, `Same` results, same panics.
* *Frame*: an event about something else (an observation for another digest, a chain message / injection / inbound VAA with another
  digest and another id) leaves a state `Same` to what it was, provided no other entry holds a VAA filed under `k` (`Sep`), which
  such events preserve.
-/
namespace Whv.Proc
open Whv

structure Same (d : Bytes) (k : VaaId) (s s' : PState) : Prop where
  gs : s.gs = s'.gs
  ent : s.agg.lookup d = s'.agg.lookup d
  db : s.db.lookup k = s'.db.lookup k

theorem Same.refl (d : Bytes) (k : VaaId) (s : PState) : Same d k s s := ⟨rfl, rfl, rfl⟩
theorem Same.symm {d : Bytes} {k : VaaId} {s s' : PState} (h : Same d k s s') : Same d k s' s := ⟨h.gs.symm, h.ent.symm, h.db.symm⟩
theorem Same.trans {d : Bytes} {k : VaaId} {s s' s'' : PState} (h : Same d k s s') (h' : Same d k s' s'') : Same d k s s'' :=
  ⟨h.gs.trans h'.gs, h.ent.trans h'.ent, h.db.trans h'.db⟩

def RelRes (d : Bytes) (k : VaaId) : Res → Res → Prop
  | .ok s1 o1, .ok s2 o2 => o1 = o2 ∧ Same d k s1 s2
  | .panic a, .panic b => a = b
  | _, _ => False

theorem entryOrFresh_same {d : Bytes} {k : VaaId} {s s' : PState} (h : Same d k s s') (now : Int) :
    entryOrFresh s d now = entryOrFresh s' d now := by
  unfold entryOrFresh; rw [h.ent]

theorem gateSet_same {d : Bytes} {k : VaaId} {s s' : PState} (h : Same d k s s') : gateSet s d = gateSet s' d := by
  unfold gateSet; rw [h.ent, h.gs]

theorem same_insert {d : Bytes} {k : VaaId} {s s' : PState} (h : Same d k s s') (st : VState) :
    Same d k { s with agg := alInsert d st s.agg } { s' with agg := alInsert d st s'.agg } :=
  ⟨h.gs, by simp only [lookup_alInsert_self], h.db⟩

theorem storeSigned_same {d : Bytes} {k : VaaId} {s s' : PState} (h : Same d k s s') (v : Vaa) :
    match storeSigned s.db v, storeSigned s'.db v with
    | some a, some b => a.lookup k = b.lookup k
    | none, none => True
    | _, _ => False := by
  unfold storeSigned
  by_cases hl : v.sigs.length = 0
  · simp [hl]
  · simp only [if_neg hl]
    rw [lookup_alInsert, lookup_alInsert, h.db]

theorem obsFinish_same {d : Bytes} {k : VaaId} {s s' : PState} (h : Same d k s s') (g : GSet) (st1 : VState) :
    RelRes d k (obsFinish s d g st1) (obsFinish s' d g st1) := by
  unfold obsFinish
  by_cases hb : badSigLen g.keys st1.signatures = true
  · simp only [if_pos hb]; exact rfl
  · simp only [if_neg hb]
    cases hv : st1.ourVAA with
    | none => exact ⟨rfl, same_insert h st1⟩
    | some v =>
      simp only
      by_cases hq : (assemble g.keys st1.signatures).length ≥ quorum g.keys.length ∧ st1.submitted = false
      · simp only [if_pos hq]
        have hs := storeSigned_same h { v with sigs := assemble g.keys st1.signatures }
        cases h1 : storeSigned s.db { v with sigs := assemble g.keys st1.signatures } with
        | none =>
          cases h2 : storeSigned s'.db { v with sigs := assemble g.keys st1.signatures } with
          | none => exact rfl
          | some b => rw [h1, h2] at hs; exact hs.elim
        | some a =>
          cases h2 : storeSigned s'.db { v with sigs := assemble g.keys st1.signatures } with
          | none => rw [h1, h2] at hs; exact hs.elim
          | some b =>
            rw [h1, h2] at hs
            exact ⟨rfl, ⟨h.gs, by simp only [lookup_alInsert_self], hs⟩⟩
      · simp only [if_neg hq]
        exact ⟨rfl, same_insert h st1⟩

/-- **Locality, observation.** -/
theorem handleObservation_same (O : Oracle) {d : Bytes} {k : VaaId} {s s' : PState} (h : Same d k s s') (o : Obs) (now : Int)
    (ho : o.hash = d) : RelRes d k (handleObservation O s o now) (handleObservation O s' o now) := by
  unfold handleObservation
  cases O.recover o.hash o.sig with
  | none => exact ⟨rfl, h⟩
  | some signer =>
    simp only
    by_cases ha : bytesToAddress o.addr ≠ signer
    · simp only [if_pos ha]; exact ⟨rfl, h⟩
    · simp only [if_neg ha]
      rw [ho, ← gateSet_same h]
      cases gateSet s d with
      | none => exact ⟨rfl, h⟩
      | some gs =>
        simp only
        by_cases hm : gs.keys.contains (bytesToAddress o.addr) = false
        · simp only [if_pos hm]; exact ⟨rfl, h⟩
        · simp only [if_neg hm]
          rw [← entryOrFresh_same h]
          exact obsFinish_same h gs _

theorem broadcastSignature_same (cfg : Config) {d : Bytes} {k : VaaId} {s s' : PState} (h : Same d k s s') (v : Vaa)
    (sig tx : Bytes) (now : Int) :
    (broadcastSignature cfg s d v sig tx now).2 = (broadcastSignature cfg s' d v sig tx now).2 ∧
    Same d k (broadcastSignature cfg s d v sig tx now).1 (broadcastSignature cfg s' d v sig tx now).1 := by
  unfold broadcastSignature
  simp only
  rw [entryOrFresh_same h, h.gs]
  refine ⟨?_, ⟨?_, ?_, ?_⟩⟩
  · first | rfl | trivial
  · rfl
  · simp only [lookup_alInsert_self]
  · exact h.db

/-- **Locality, chain message** whose digest is `d` and whose store key is `k`. -/
theorem handleMessage_same (O : Oracle) (cfg : Config) {d : Bytes} {k : VaaId} {s s' : PState} (h : Same d k s s') (m : Msg)
    (now : Int) (hd : ∀ i, O.digestOf (vaaOfMsg i m).body = d) (hk : ∀ i, (vaaOfMsg i m).body.id = k) :
    RelRes d k (handleMessage O cfg s m now) (handleMessage O cfg s' m now) := by
  unfold handleMessage
  rw [← h.gs]
  cases s.gs with
  | none => exact ⟨rfl, h⟩
  | some g =>
    simp only
    by_cases hg : (vaaOfMsg g.index m).body.emitter = cfg.govEmitter ∧ (vaaOfMsg g.index m).body.emitterChain = cfg.govChain
    · simp only [if_pos hg]; exact ⟨rfl, h⟩
    · simp only [if_neg hg]
      rw [hk g.index, ← h.db, hd g.index]
      have hp : RelRes d k
          (match O.sign d with
            | none => Res.panic "sign"
            | some sig => Res.ok (broadcastSignature cfg s d (vaaOfMsg g.index m) sig m.txHash now).1
                (broadcastSignature cfg s d (vaaOfMsg g.index m) sig m.txHash now).2)
          (match O.sign d with
            | none => Res.panic "sign"
            | some sig => Res.ok (broadcastSignature cfg s' d (vaaOfMsg g.index m) sig m.txHash now).1
                (broadcastSignature cfg s' d (vaaOfMsg g.index m) sig m.txHash now).2) := by
        cases O.sign d with
        | none => exact rfl
        | some sig =>
          obtain ⟨a, b⟩ := broadcastSignature_same cfg h (vaaOfMsg g.index m) sig m.txHash now
          exact ⟨a, b⟩
      cases s.db.lookup k with
      | none => exact hp
      | some vb =>
        simp only
        cases unmarshal vb with
        | none => exact ⟨rfl, h⟩
        | some ex =>
          simp only
          by_cases ht : (m.tsSec * 1000000000 + m.tsNsec) - (ex.body.ts : Int) * 1000000000 > settlementTime
          · simp only [if_pos ht]; exact ⟨rfl, h⟩
          · simp only [if_neg ht]; exact hp

/-! ## Frame -/

/-- No aggregation entry other than `d`'s holds a VAA that would be stored under `k`. -/
def Sep (d : Bytes) (k : VaaId) (s : PState) : Prop :=
  ∀ d' st v, d' ≠ d → s.agg.lookup d' = some st → st.ourVAA = some v → v.body.id ≠ k

/-- Events that are about some other message: another digest, and nothing that could be filed under `k`. -/
inductive Foreign (O : Oracle) (d : Bytes) (k : VaaId) : Event → Prop
  | obs (o : Obs) (now : Int) : o.hash ≠ d → Foreign O d k (.observation o now)
  | msg (m : Msg) (now : Int) : (∀ i, O.digestOf (vaaOfMsg i m).body ≠ d) → (∀ i, (vaaOfMsg i m).body.id ≠ k) →
      Foreign O d k (.message m now)
  | inj (v : Vaa) (now : Int) : O.digestOf v.body ≠ d → v.body.id ≠ k → Foreign O d k (.injection v now)
  | inb (b : Bytes) : (∀ v, unmarshal b = some v → v.body.id ≠ k) → Foreign O d k (.inbound b)

theorem lookup_alInsert_other {α β : Type} [BEq α] [LawfulBEq α] {k k' : α} (hne : k' ≠ k) (v : β) (l : List (α × β)) :
    (alInsert k v l).lookup k' = l.lookup k' := by
  rw [lookup_alInsert]
  have : (k' == k) = false := by simpa using hne
  simp [this]

theorem sep_insert_same {d : Bytes} {k : VaaId} {s : PState} (h : Sep d k s) (st : VState) (db' : List (VaaId × Bytes)) :
    Sep d k { s with agg := alInsert d st s.agg, db := db' } := by
  intro d' st' v hne hl hv
  simp only at hl
  rw [lookup_alInsert_other hne] at hl
  exact h d' st' v hne hl hv

theorem sep_insert_other {d : Bytes} {k : VaaId} {s : PState} (h : Sep d k s) (d0 : Bytes) (st : VState)
    (db' : List (VaaId × Bytes)) (hst : ∀ v, st.ourVAA = some v → v.body.id ≠ k) :
    Sep d k { s with agg := alInsert d0 st s.agg, db := db' } := by
  intro d' st' v hne hl hv
  simp only at hl
  by_cases e : d' = d0
  · subst e
    rw [lookup_alInsert_self] at hl
    cases hl
    exact hst v hv
  · rw [lookup_alInsert_other e] at hl
    exact h d' st' v hne hl hv

theorem obsFinish_foreign {d : Bytes} {k : VaaId} {s : PState} (hsep : Sep d k s) (d0 : Bytes) (hne : d0 ≠ d) (g : GSet)
    (st1 : VState) (hst : ∀ v, st1.ourVAA = some v → v.body.id ≠ k) (s1 : PState) (o1 : List Out)
    (h : obsFinish s d0 g st1 = .ok s1 o1) : Same d k s1 s ∧ Sep d k s1 := by
  have hne' : d ≠ d0 := fun e => hne e.symm
  unfold obsFinish at h
  split at h
  · cases h
  · split at h
    · cases h
      exact ⟨⟨rfl, lookup_alInsert_other hne' _ _, rfl⟩, sep_insert_other hsep d0 st1 s.db hst⟩
    · rename_i v hv
      dsimp only at h
      by_cases hq : (assemble g.keys st1.signatures).length ≥ quorum g.keys.length ∧ st1.submitted = false
      · rw [if_pos hq] at h
        cases hs : storeSigned s.db { v with sigs := assemble g.keys st1.signatures } with
        | none => rw [hs] at h; cases h
        | some db' =>
          rw [hs] at h
          cases h
          unfold storeSigned at hs
          split at hs
          · cases hs
          · cases hs
            refine ⟨⟨rfl, lookup_alInsert_other hne' _ _, ?_⟩, ?_⟩
            · simp only
              have : (k : VaaId) ≠ v.body.id := fun e => hst v hv e.symm
              exact lookup_alInsert_other this _ _
            · exact sep_insert_other hsep d0 _ _ (by intro v' hv'; exact hst v' hv')
      · rw [if_neg hq] at h
        cases h
        exact ⟨⟨rfl, lookup_alInsert_other hne' _ _, rfl⟩, sep_insert_other hsep d0 st1 s.db hst⟩

/-- **Frame.** -/
theorem foreign_step (O : Oracle) (cfg : Config) {d : Bytes} {k : VaaId} {s : PState} (hsep : Sep d k s) {e : Event}
    (hf : Foreign O d k e) (s1 : PState) (o1 : List Out) (h : step O cfg s e = .ok s1 o1) : Same d k s1 s ∧ Sep d k s1 := by
  cases hf with
  | obs o now hne =>
    simp only [step] at h
    unfold handleObservation at h
    split at h
    · cases h; exact ⟨Same.refl .., hsep⟩
    · split at h
      · cases h; exact ⟨Same.refl .., hsep⟩
      · split at h
        · cases h; exact ⟨Same.refl .., hsep⟩
        · split at h
          · cases h; exact ⟨Same.refl .., hsep⟩
          · refine obsFinish_foreign hsep o.hash hne _ _ ?_ s1 o1 h
            intro v hv
            unfold recordSig entryOrFresh at hv
            simp only at hv
            cases hl : s.agg.lookup o.hash with
            | none => rw [hl] at hv; simp at hv
            | some st0 => rw [hl] at hv; exact hsep o.hash st0 v hne hl hv
  | msg m now hd hk =>
    simp only [step] at h
    unfold handleMessage at h
    split at h
    · cases h; exact ⟨Same.refl .., hsep⟩
    · rename_i g hg
      simp only at h
      split at h
      · cases h; exact ⟨Same.refl .., hsep⟩
      · have hne : d ≠ O.digestOf (vaaOfMsg g.index m).body := fun e => hd g.index e.symm
        have hp : ∀ (r : Res), (match O.sign (O.digestOf (vaaOfMsg g.index m).body) with
              | none => Res.panic "sign"
              | some sig =>
                Res.ok (broadcastSignature cfg s (O.digestOf (vaaOfMsg g.index m).body) (vaaOfMsg g.index m) sig m.txHash now).1
                  (broadcastSignature cfg s (O.digestOf (vaaOfMsg g.index m).body) (vaaOfMsg g.index m) sig m.txHash now).2) = r →
              r = .ok s1 o1 → Same d k s1 s ∧ Sep d k s1 := by
          intro r hr he
          subst he
          split at hr
          · cases hr
          · cases hr
            unfold broadcastSignature
            simp only
            exact ⟨⟨rfl, lookup_alInsert_other hne _ _, rfl⟩,
              sep_insert_other hsep _ _ s.db (by intro v hv; cases hv; exact hk g.index)⟩
        split at h
        · split at h
          · cases h; exact ⟨Same.refl .., hsep⟩
          · split at h
            · cases h; exact ⟨Same.refl .., hsep⟩
            · exact hp _ rfl h
        · exact hp _ rfl h
  | inj v now hd hk =>
    simp only [step] at h
    unfold handleInjection at h
    split at h
    · cases h; exact ⟨Same.refl .., hsep⟩
    · simp only at h
      split at h
      · cases h
      · cases h
        have hne : d ≠ O.digestOf v.body := fun e => hd e.symm
        unfold broadcastSignature
        simp only
        exact ⟨⟨rfl, lookup_alInsert_other hne _ _, rfl⟩,
          sep_insert_other hsep _ _ s.db (by intro v' hv'; cases hv'; exact hk)⟩
  | inb b hb =>
    simp only [step] at h
    unfold handleInbound at h
    split at h
    · cases h; exact ⟨Same.refl .., hsep⟩
    · rename_i v hv
      split at h
      · cases h; exact ⟨Same.refl .., hsep⟩
      · split at h
        · cases h; exact ⟨Same.refl .., hsep⟩
        · split at h
          · cases h; exact ⟨Same.refl .., hsep⟩
          · split at h
            · cases h; exact ⟨Same.refl .., hsep⟩
            · split at h
              · cases h; exact ⟨Same.refl .., hsep⟩
              · split at h
                · cases h; exact ⟨Same.refl .., hsep⟩
                · cases hs : storeSigned s.db v with
                  | none => rw [hs] at h; cases h
                  | some db' =>
                    rw [hs] at h
                    cases h
                    unfold storeSigned at hs
                    split at hs
                    · cases hs
                    · cases hs
                      have : (k : VaaId) ≠ v.body.id := fun e => hb v hv e.symm
                      refine ⟨⟨rfl, rfl, lookup_alInsert_other this _ _⟩, ?_⟩
                      intro d' st' v' hne hl hv'
                      exact hsep d' st' v' hne hl hv'

/-! ## events about `d` keep `Sep`; whole runs -/

theorem obsFinish_sep {d : Bytes} {k : VaaId} {s : PState} (hsep : Sep d k s) (g : GSet) (st1 : VState) (s1 : PState)
    (o1 : List Out) (h : obsFinish s d g st1 = .ok s1 o1) : Sep d k s1 := by
  unfold obsFinish at h
  split at h
  · cases h
  · split at h
    · cases h; exact sep_insert_same hsep _ _
    · dsimp only at h
      split at h
      · split at h
        · cases h
        · cases h; exact sep_insert_same hsep _ _
      · cases h; exact sep_insert_same hsep _ _

theorem window_step_sep (O : Oracle) (cfg : Config) {d : Bytes} {k : VaaId} {s : PState} (hsep : Sep d k s) (m : Msg)
    (hd : ∀ i, O.digestOf (vaaOfMsg i m).body = d) {e : Event}
    (hw : (∃ now, e = .message m now) ∨ (∃ o now, e = .observation o now ∧ o.hash = d))
    (s1 : PState) (o1 : List Out) (h : step O cfg s e = .ok s1 o1) : Sep d k s1 := by
  rcases hw with ⟨now, rfl⟩ | ⟨o, now, rfl, ho⟩
  · simp only [step] at h
    unfold handleMessage at h
    split at h
    · cases h; exact hsep
    · rename_i g hg
      simp only at h
      split at h
      · cases h; exact hsep
      · rw [hd g.index] at h
        have hp : ∀ (r : Res), (match O.sign d with
              | none => Res.panic "sign"
              | some sig => Res.ok (broadcastSignature cfg s d (vaaOfMsg g.index m) sig m.txHash now).1
                  (broadcastSignature cfg s d (vaaOfMsg g.index m) sig m.txHash now).2) = r →
              r = .ok s1 o1 → Sep d k s1 := by
          intro r hr he
          subst he
          split at hr
          · cases hr
          · cases hr
            unfold broadcastSignature
            simp only
            exact sep_insert_same hsep _ _
        split at h
        · split at h
          · cases h; exact hsep
          · split at h
            · cases h; exact hsep
            · exact hp _ rfl h
        · exact hp _ rfl h
  · simp only [step] at h
    unfold handleObservation at h
    split at h
    · cases h; exact hsep
    · split at h
      · cases h; exact hsep
      · split at h
        · cases h; exact hsep
        · split at h
          · cases h; exact hsep
          · rw [ho] at h
            exact obsFinish_sep hsep _ _ s1 o1 h

/-- Is the event about message `m` / its digest `d`? -/
def isWin (d : Bytes) (m : Msg) : Event → Bool
  | .message m' _ => decide (m' = m)
  | .observation o _ => decide (o.hash = d)
  | _ => false

theorem isWin_iff (d : Bytes) (m : Msg) (e : Event) :
    isWin d m e = true ↔ (∃ now, e = .message m now) ∨ (∃ o now, e = .observation o now ∧ o.hash = d) := by
  cases e <;> simp [isWin]

/-- The per-step outputs of the events about `m`, in order. -/
def pick (d : Bytes) (m : Msg) : List Event → List (List Out) → List (List Out)
  | e :: es, o :: os => if isWin d m e = true then o :: pick d m es os else pick d m es os
  | _, _ => []

/-- **Other traffic does not matter.** Take any event list in which every event is either about message `m` (the message itself,
observations for its digest `d`) or *foreign* (observations for other digests; chain messages, injections and inbound VAAs with
another digest and another store key). If the whole list runs without a panic from `s`, then the events about `m` alone run from
any `Same` state `s'`, produce step by step exactly the outputs they produced inside the interleaving, and end in a `Same` state:
the aggregation of `m` — whether and when its VAA is published, with which signatures — is a function of the events about `m` only. -/
theorem run_frame (O : Oracle) (cfg : Config) (d : Bytes) (k : VaaId) (m : Msg)
    (hd : ∀ i, O.digestOf (vaaOfMsg i m).body = d) (hk : ∀ i, (vaaOfMsg i m).body.id = k) :
    ∀ (es : List Event) (s s' : PState), (∀ e ∈ es, isWin d m e = true ∨ Foreign O d k e) → Same d k s s' → Sep d k s →
      ∀ sf outs, run O cfg s es = .ok (sf, outs) →
        ∃ sf' outs', run O cfg s' (es.filter (isWin d m)) = .ok (sf', outs') ∧ Same d k sf sf' ∧ outs' = pick d m es outs := by
  intro es
  induction es with
  | nil =>
    intro s s' _ hsame _ sf outs h
    simp only [run] at h
    cases h
    exact ⟨s', [], rfl, hsame, rfl⟩
  | cons e es ih =>
    intro s s' hall hsame hsep sf outs h
    unfold run at h
    cases hst : step O cfg s e with
    | panic site => rw [hst] at h; cases h
    | ok s1 o1 =>
      rw [hst] at h
      simp only at h
      cases hr : run O cfg s1 es with
      | error site => rw [hr] at h; cases h
      | ok p =>
        obtain ⟨sf1, os⟩ := p
        rw [hr] at h
        simp only at h
        cases h
        have hall' : ∀ e' ∈ es, isWin d m e' = true ∨ Foreign O d k e' := fun e' he' => hall e' (List.mem_cons_of_mem _ he')
        by_cases hw : isWin d m e = true
        · -- an event about m: acts alike on s and s'
          have hw' := (isWin_iff d m e).1 hw
          have hsep1 : Sep d k s1 := window_step_sep O cfg hsep m hd hw' s1 o1 hst
          have hrel : RelRes d k (step O cfg s e) (step O cfg s' e) := by
            rcases hw' with ⟨now, rfl⟩ | ⟨o, now, rfl, ho⟩
            · simp only [step]; exact handleMessage_same O cfg hsame m now hd hk
            · simp only [step]; exact handleObservation_same O hsame o now ho
          rw [hst] at hrel
          cases hst' : step O cfg s' e with
          | panic site => rw [hst'] at hrel; exact hrel.elim
          | ok s1' o1' =>
            rw [hst'] at hrel
            obtain ⟨ho, hsame1⟩ := hrel
            obtain ⟨sf', outs', hrun', hsamef, hpick⟩ := ih s1 s1' hall' hsame1 hsep1 sf os hr
            refine ⟨sf', o1' :: outs', ?_, hsamef, ?_⟩
            · rw [List.filter_cons_of_pos hw]
              unfold run
              rw [hst']
              simp only
              rw [hrun']
            · unfold pick
              rw [if_pos hw, hpick, ho]
        · -- a foreign event: s1 is Same to s, the filtered run skips it
          have hf : Foreign O d k e := by
            rcases hall e (List.mem_cons_self ..) with h1 | h1
            · exact absurd h1 hw
            · exact h1
          obtain ⟨hsame1, hsep1⟩ := foreign_step O cfg hsep hf s1 o1 hst
          obtain ⟨sf', outs', hrun', hsamef, hpick⟩ := ih s1 s' hall' (hsame1.trans hsame) hsep1 sf os hr
          refine ⟨sf', outs', ?_, hsamef, ?_⟩
          · rw [List.filter_cons_of_neg hw]; exact hrun'
          · unfold pick
            rw [if_neg hw, hpick]

end Whv.Proc
