import Whv.Model.Processor
import Whv.Lemmas.Verify
namespace Whv.Proc
open Whv

/-! ## association lists -/

theorem mem_alInsert {α β : Type} [BEq α] {k : α} {v : β} {l : List (α × β)} {p : α × β}
    (h : p ∈ alInsert k v l) : p = (k, v) ∨ p ∈ l := by
  induction l with
  | nil => simp [alInsert] at h; exact Or.inl h
  | cons hd tl ih =>
    obtain ⟨k', v'⟩ := hd
    unfold alInsert at h
    split at h
    · simp at h
      rcases h with h | h
      · exact Or.inl h
      · exact Or.inr (by simp [h])
    · simp at h
      rcases h with h | h
      · exact Or.inr (by simp [h])
      · rcases ih h with h | h
        · exact Or.inl h
        · exact Or.inr (by simp [h])

theorem alInsert_ne_nil {α β : Type} [BEq α] (k : α) (v : β) (l : List (α × β)) : alInsert k v l ≠ [] := by
  cases l with
  | nil => simp [alInsert]
  | cons hd tl => obtain ⟨k', v'⟩ := hd; unfold alInsert; split <;> simp

theorem mem_of_lookup {α β : Type} [BEq α] [LawfulBEq α] {k : α} {v : β} {l : List (α × β)}
    (h : l.lookup k = some v) : (k, v) ∈ l := by
  induction l with
  | nil => simp [List.lookup] at h
  | cons hd tl ih =>
    obtain ⟨k', v'⟩ := hd
    simp only [List.lookup] at h
    split at h
    · rename_i heq
      have : k = k' := by simpa using heq
      cases h; subst this; simp
    · exact List.mem_cons_of_mem _ (ih h)

theorem lookup_alInsert_ne {α β : Type} [BEq α] [LawfulBEq α] {k k' : α} {v v' : β} {l : List (α × β)}
    (hne : k' ≠ k) (h : l.lookup k' = some v') : (alInsert k v l).lookup k' = some v' := by
  induction l with
  | nil => simp [List.lookup] at h
  | cons hd tl ih =>
    obtain ⟨k0, v0⟩ := hd
    simp only [List.lookup] at h
    unfold alInsert
    split at h
    · rename_i heq
      have e : k' = k0 := by simpa using heq
      cases h
      split
      · rename_i h2
        have : k0 = k := by simpa using h2
        exact absurd (e.trans this) hne
      · simp [List.lookup, e]
    · rename_i hneq
      split
      · rename_i h2
        have : k0 = k := by simpa using h2
        simp only [List.lookup]
        have hk : (k' == k) = false := by simpa using hne
        rw [hk]; exact h
      · simp only [List.lookup, hneq]; exact ih h

theorem lookup_alInsert_self {α β : Type} [BEq α] [LawfulBEq α] (k : α) (v : β) (l : List (α × β)) :
    (alInsert k v l).lookup k = some v := by
  induction l with
  | nil => simp [alInsert]
  | cons hd tl ih =>
    obtain ⟨k0, v0⟩ := hd
    unfold alInsert
    split
    · simp [List.lookup]
    · rename_i hne
      simp only [List.lookup]
      have : (k == k0) = false := by
        cases hk : (k == k0) with
        | false => rfl
        | true =>
          have e : k = k0 := by simpa using hk
          subst e
          simp at hne
      rw [this]; exact ih

/-! ## the no-panic invariant (C13) -/

/-- Per-entry invariant: recorded signatures are 65 bytes long; an entry that carries the node's own
observation message also carries the node's own VAA. -/
def EntryOk (st : VState) : Prop :=
  (∀ p ∈ st.signatures, p.2.length = 65) ∧ (st.ourMsg.isSome → st.ourVAA.isSome)

/-- State invariant: every entry is `EntryOk`, and entries exist only once a guardian set is known. -/
def Inv (s : PState) : Prop :=
  (∀ p ∈ s.agg, EntryOk p.2) ∧ (s.agg ≠ [] → s.gs.isSome)

theorem inv_init : Inv {} := by
  constructor
  · intro p hp; simp at hp
  · intro h; simp at h

theorem entryOk_fresh (now : Int) : EntryOk { firstObserved := now } := by
  constructor
  · intro p hp; simp at hp
  · intro h; simp at h

theorem inv_insert {s : PState} {d : Bytes} {st : VState} (h : Inv s) (hst : EntryOk st) (hgs : s.gs.isSome) :
    Inv { s with agg := alInsert d st s.agg } := by
  constructor
  · intro p hp
    rcases mem_alInsert hp with rfl | hp
    · exact hst
    · exact h.1 p hp
  · intro _; exact hgs

/-- What is assumed of the crypto oracle (trusted base): the node's signer does not fail, and `ecrecover`
succeeds only on 65-byte signatures. -/
structure OracleOk (O : Oracle) : Prop where
  sign_ok : ∀ d, (O.sign d).isSome
  recover_len : ∀ h s a, O.recover h s = some a → s.length = 65

theorem quorum_pos (n : Nat) : 1 ≤ quorum n := by unfold quorum; omega

end Whv.Proc

namespace Whv.Proc
open Whv

def ResOk (r : Res) : Prop := ∃ s' outs, r = .ok s' outs ∧ Inv s'

theorem entryOrFresh_ok {s : PState} (h : Inv s) (d : Bytes) (now : Int) : EntryOk (entryOrFresh s d now) := by
  unfold entryOrFresh
  split
  · rename_i st hl; exact h.1 _ (mem_of_lookup hl)
  · exact entryOk_fresh now

theorem broadcastSignature_inv (cfg : Config) {s : PState} (h : Inv s) (hgs : s.gs.isSome)
    (d : Bytes) (v : Vaa) (sig tx : Bytes) (now : Int) :
    Inv (broadcastSignature cfg s d v sig tx now).1 := by
  unfold broadcastSignature
  simp only
  apply inv_insert h _ hgs
  constructor
  · intro p hp
    exact (entryOrFresh_ok h d now).1 p hp
  · intro _; simp

theorem handleMessage_ok {O : Oracle} (hO : OracleOk O) (cfg : Config) {s : PState} (h : Inv s) (m : Msg) (now : Int) :
    ResOk (handleMessage O cfg s m now) := by
  unfold handleMessage
  split
  · exact ⟨s, [], rfl, h⟩
  · rename_i g hg
    have hgs : s.gs.isSome := by simp [hg]
    have hproceed : ResOk (match O.sign (O.digestOf (vaaOfMsg g.index m).body) with
        | none => Res.panic "sign"
        | some sig =>
          let (s', outs) := broadcastSignature cfg s (O.digestOf (vaaOfMsg g.index m).body) (vaaOfMsg g.index m) sig m.txHash now
          Res.ok s' outs) := by
      have := hO.sign_ok (O.digestOf (vaaOfMsg g.index m).body)
      cases hs : O.sign (O.digestOf (vaaOfMsg g.index m).body) with
      | none => simp [hs] at this
      | some sig =>
        exact ⟨_, _, rfl, broadcastSignature_inv cfg h hgs _ _ _ _ _⟩
    simp only
    split
    · exact ⟨s, [], rfl, h⟩
    · split
      · split
        · exact ⟨s, [], rfl, h⟩
        · split
          · exact ⟨s, [], rfl, h⟩
          · exact hproceed
      · exact hproceed

theorem handleInjection_ok {O : Oracle} (hO : OracleOk O) (cfg : Config) {s : PState} (h : Inv s) (v : Vaa) (now : Int) :
    ResOk (handleInjection O cfg s v now) := by
  unfold handleInjection
  split
  · exact ⟨s, [], rfl, h⟩
  · rename_i g hg
    have hgs : s.gs.isSome := by simp [hg]
    have := hO.sign_ok (O.digestOf v.body)
    simp only
    cases hs : O.sign (O.digestOf v.body) with
    | none => simp [hs] at this
    | some sig => exact ⟨_, _, rfl, broadcastSignature_inv cfg h hgs _ _ _ _ _⟩

theorem storeSigned_some (db : List (VaaId × Bytes)) (v : Vaa) (h : v.sigs.length ≠ 0) :
    storeSigned db v = some (alInsert v.body.id (marshal v) db) := by
  unfold storeSigned; rw [if_neg h]

theorem handleInbound_ok (O : Oracle) {s : PState} (h : Inv s) (b : Bytes) : ResOk (handleInbound O s b) := by
  unfold handleInbound
  split
  · exact ⟨s, [], rfl, h⟩
  · split
    · exact ⟨s, [], rfl, h⟩
    · split
      · exact ⟨s, [], rfl, h⟩
      · split
        · exact ⟨s, [], rfl, h⟩
        · rename_i v _ _ _ _ hne
          split
          · exact ⟨s, [], rfl, h⟩
          · split
            · exact ⟨s, [], rfl, h⟩
            · split
              · exact ⟨s, [], rfl, h⟩
              · rw [storeSigned_some _ _ hne]
                exact ⟨_, [], rfl, ⟨h.1, h.2⟩⟩

end Whv.Proc

namespace Whv.Proc
open Whv

theorem assembleFrom_length_le (sigs : List (Addr × Bytes)) : ∀ (ks : List Addr) (i : Nat),
    (assembleFrom sigs ks i).length ≤ ks.length := by
  intro ks
  induction ks with
  | nil => intro i; simp [assembleFrom]
  | cons a ks ih =>
    intro i
    unfold assembleFrom
    split
    · simp only [List.length_cons]; have := ih (i + 1); omega
    · simp only [List.length_cons]; have := ih (i + 1); omega

theorem gateSet_some_gs {s : PState} (h : Inv s) {d : Bytes} {g : GSet} (hg : gateSet s d = some g) : s.gs.isSome := by
  unfold gateSet at hg
  split at hg
  · rename_i st hl
    exact h.2 (by intro e; rw [e] at hl; simp at hl)
  · simp [hg]

theorem recordSig_ok {st : VState} (h : EntryOk st) (a : Addr) (sig : Bytes) (hl : sig.length = 65) :
    EntryOk (recordSig st a sig) := by
  constructor
  · intro p hp
    rcases mem_alInsert hp with rfl | hp
    · exact hl
    · exact h.1 p hp
  · exact h.2

theorem badSigLen_false {keys : List Addr} {sigs : List (Addr × Bytes)} (h : ∀ p ∈ sigs, p.2.length = 65) :
    badSigLen keys sigs = false := by
  unfold badSigLen
  rw [List.any_eq_false]
  intro a _
  split
  · rename_i sg hl
    have := h _ (mem_of_lookup hl)
    simp [this]
  · simp

theorem obsFinish_ok {s : PState} (h : Inv s) (hgs : s.gs.isSome) (d : Bytes) (gs : GSet) {st1 : VState}
    (hst : EntryOk st1) : ResOk (obsFinish s d gs st1) := by
  unfold obsFinish
  rw [badSigLen_false hst.1]
  simp only [Bool.false_eq_true, if_false]
  split
  · exact ⟨_, [], rfl, inv_insert h hst hgs⟩
  · rename_i v hv
    split
    · rename_i hq
      have hne : (assemble gs.keys st1.signatures).length ≠ 0 := by
        have := quorum_pos gs.keys.length
        omega
      rw [storeSigned_some _ _ (by simpa using hne)]
      refine ⟨_, _, rfl, ?_⟩
      have : Inv { s with agg := alInsert d { st1 with submitted := true } s.agg } :=
        inv_insert h ⟨hst.1, hst.2⟩ hgs
      exact ⟨this.1, this.2⟩
    · exact ⟨_, [], rfl, inv_insert h hst hgs⟩

theorem handleObservation_ok {O : Oracle} (hO : OracleOk O) {s : PState} (h : Inv s) (o : Obs) (now : Int) :
    ResOk (handleObservation O s o now) := by
  unfold handleObservation
  split
  · exact ⟨s, [], rfl, h⟩
  · rename_i signer hrec
    have hlen : o.sig.length = 65 := hO.recover_len _ _ _ hrec
    split
    · exact ⟨s, [], rfl, h⟩
    · split
      · exact ⟨s, [], rfl, h⟩
      · rename_i gs hg
        split
        · exact ⟨s, [], rfl, h⟩
        · exact obsFinish_ok h (gateSet_some_gs h hg) _ _ (recordSig_ok (entryOrFresh_ok h _ _) _ _ hlen)

end Whv.Proc

namespace Whv.Proc
open Whv

/-- With a known guardian set and an `EntryOk` entry, one cleanup iteration never panics; a kept entry stays `EntryOk`. -/
theorem cleanupEntry_ok (g : GSet) (db : List (VaaId × Bytes)) (now : Int) (room : Bool) {st : VState} (h : EntryOk st) :
    (cleanupEntry (some g) db now room st = .delete) ∨
    (∃ st' outs, cleanupEntry (some g) db now room st = .keep st' outs ∧ EntryOk st') := by
  unfold cleanupEntry
  split
  · exact Or.inl rfl
  · split
    · right
      unfold settleAct settleGs
      cases st.gs <;> exact ⟨_, _, rfl, h.1, h.2⟩
    · split
      · exact Or.inl rfl
      · split
        · exact Or.inl rfl
        · split
          · unfold retryAct
            cases ho : st.ourMsg with
            | none => exact Or.inl rfl
            | some o =>
              cases hv : st.ourVAA with
              | none =>
                have := h.2 (by simp [ho])
                simp [hv] at this
              | some v => exact Or.inr ⟨_, _, rfl, h.1, fun _ => by simp⟩
          · exact Or.inr ⟨_, _, rfl, h⟩

theorem cleanupAll_ok (g : GSet) (db : List (VaaId × Bytes)) (now : Int) :
    ∀ (l : List (Bytes × VState)) (room : Nat), (∀ p ∈ l, EntryOk p.2) →
      ∃ l' outs, cleanupAll (some g) db now l room = .ok (l', outs) ∧ (∀ p ∈ l', EntryOk p.2) := by
  intro l
  induction l with
  | nil => intro room _; exact ⟨[], [], rfl, by simp⟩
  | cons hd tl ih =>
    intro room h
    obtain ⟨d, st⟩ := hd
    have hst : EntryOk st := h (d, st) (by simp)
    have htl : ∀ p ∈ tl, EntryOk p.2 := fun p hp => h p (by simp [hp])
    unfold cleanupAll
    rcases cleanupEntry_ok g db now (decide (room > 0)) hst with hdel | ⟨st', outs, hk, hok⟩
    · rw [hdel]; exact ih room htl
    · rw [hk]
      simp only
      obtain ⟨l', outs', he, hl'⟩ := ih (room - usedSlot outs) htl
      rw [he]
      refine ⟨_, _, rfl, ?_⟩
      intro p hp
      simp at hp
      rcases hp with rfl | hp
      · exact hok
      · exact hl' p hp

theorem handleCleanup_ok {s : PState} (h : Inv s) (now : Int) (room : Nat) : ResOk (handleCleanup s now room) := by
  unfold handleCleanup
  cases hagg : s.agg with
  | nil =>
    simp only [cleanupAll]
    refine ⟨_, [], rfl, ?_⟩
    constructor
    · intro p hp; simp at hp
    · intro hne; simp at hne
  | cons hd tl =>
    have hgs := h.2 (by rw [hagg]; simp)
    cases hg : s.gs with
    | none => rw [hg] at hgs; simp at hgs
    | some g =>
      obtain ⟨l', outs, he, hl'⟩ := cleanupAll_ok g s.db now (hd :: tl) room (by rw [← hagg]; exact h.1)
      rw [he]
      refine ⟨_, _, rfl, ?_⟩
      exact ⟨hl', fun _ => by simp⟩

/-- **One step never panics and preserves the invariant.** -/
theorem step_ok {O : Oracle} (hO : OracleOk O) (cfg : Config) {s : PState} (h : Inv s) (e : Event) :
    ResOk (step O cfg s e) := by
  cases e with
  | setUpdate g => exact ⟨_, [], rfl, h.1, fun _ => by simp⟩
  | message m now => exact handleMessage_ok hO cfg h m now
  | injection v now => exact handleInjection_ok hO cfg h v now
  | observation o now => exact handleObservation_ok hO h o now
  | inbound b => exact handleInbound_ok O h b
  | cleanup now room => exact handleCleanup_ok h now room

theorem run_ok {O : Oracle} (hO : OracleOk O) (cfg : Config) : ∀ (es : List Event) {s : PState}, Inv s →
    ∃ sf outs, run O cfg s es = .ok (sf, outs) ∧ Inv sf := by
  intro es
  induction es with
  | nil => intro s h; exact ⟨s, [], rfl, h⟩
  | cons e es ih =>
    intro s h
    obtain ⟨s', outs, he, hi⟩ := step_ok hO cfg h e
    obtain ⟨sf, os, hr, hf⟩ := ih hi
    refine ⟨sf, outs :: os, ?_, hf⟩
    unfold run
    rw [he]
    simp only [hr]

end Whv.Proc
