import Whv.Model.AlphUtil
/-!
# Lemmas about the `alphutil` model (numerals, hex, slices, NUL trimming, Go time arithmetic, base58)
-/
namespace Whv.AlphUtil
open Whv

/-! ## numerals -/

theorem isDigit_iff (c : UInt8) : isDigit c = true ↔ 48 ≤ c.toNat ∧ c.toNat ≤ 57 := by
  simp [isDigit]

theorem parseNat_of_digits {s : GoStr} (hne : s ≠ []) (hd : s.all isDigit = true) : parseNat s = some (digitsVal s) := by
  simp [parseNat, hne, hd]

theorem parseNat_some {s : GoStr} {n : Nat} (h : parseNat s = some n) : s ≠ [] ∧ s.all isDigit = true ∧ n = digitsVal s := by
  unfold parseNat at h
  split at h
  · rename_i hc; cases h; exact ⟨hc.1, hc.2, rfl⟩
  · cases h

/-- An unsigned digit string is read as the number it spells. -/
theorem parseInt_of_parseNat {s : GoStr} {n : Nat} (h : parseNat s = some n) : parseInt s = some (n : Int) := by
  obtain ⟨hne, hd, _⟩ := parseNat_some h
  cases s with
  | nil => exact absurd rfl hne
  | cons c rest =>
    have hc : isDigit c = true := by
      have := List.all_eq_true.mp hd c (by simp)
      exact this
    rw [isDigit_iff] at hc
    unfold parseInt
    have h1 : ¬ c.toNat = 45 := by omega
    have h2 : ¬ c.toNat = 43 := by omega
    simp [h1, h2, h]

/-- Whatever `SetString` accepts is a sign followed by a digit string, and the value is the signed number it spells. -/
theorem parseInt_some {s : GoStr} {v : Int} (h : parseInt s = some v) :
    (∃ n, parseNat s = some n ∧ v = n) ∨
    (∃ c rest n, s = c :: rest ∧ c.toNat = 43 ∧ parseNat rest = some n ∧ v = n) ∨
    (∃ c rest n, s = c :: rest ∧ c.toNat = 45 ∧ parseNat rest = some n ∧ v = -(n : Int)) := by
  unfold parseInt at h
  cases s with
  | nil => cases h
  | cons c rest =>
    simp only at h
    split at h
    · rename_i h45
      cases hp : parseNat rest with
      | none => simp [hp] at h
      | some n => simp [hp] at h; exact Or.inr (Or.inr ⟨c, rest, n, rfl, h45, hp, h.symm⟩)
    · split at h
      · rename_i h43
        cases hp : parseNat rest with
        | none => simp [hp] at h
        | some n => simp [hp] at h; exact Or.inr (Or.inl ⟨c, rest, n, rfl, h43, hp, h.symm⟩)
      · cases hp : parseNat (c :: rest) with
        | none => simp [hp] at h
        | some n => simp [hp] at h; exact Or.inl ⟨n, rfl, h.symm⟩

/-- A string with a byte that is neither a digit nor a leading sign is not a numeral. -/
theorem parseNat_none_of_nondigit {s : GoStr} {c : UInt8} (hc : c ∈ s) (hn : isDigit c = false) : parseNat s = none := by
  unfold parseNat
  have : ¬ (s.all isDigit = true) := by
    intro h
    have := List.all_eq_true.mp h c hc
    rw [hn] at this; cases this
  simp [this]

theorem digitsVal_append_singleton (ds : Bytes) (c : UInt8) : digitsVal (ds ++ [c]) = digitsVal ds * 10 + (c.toNat - 48) := by
  simp [digitsVal, List.foldl_append]

private theorem digit_toNat {d : Nat} (h : d < 10) : (UInt8.ofNat (48 + d)).toNat = 48 + d := by
  rw [UInt8.toNat_ofNat']; omega

private theorem decDigits_spec : ∀ (fuel n : Nat), n < fuel →
    decDigits fuel n ≠ [] ∧ (decDigits fuel n).all isDigit = true ∧ digitsVal (decDigits fuel n) = n
  | 0, n, h => by omega
  | fuel + 1, n, hlt => by
    rw [decDigits]
    split
    · rename_i h
      refine ⟨by simp, ?_, ?_⟩
      · simp [isDigit]; omega
      · simp [digitsVal]; omega
    · rename_i h
      obtain ⟨h1, h2, h3⟩ := decDigits_spec fuel (n / 10) (by omega)
      have hd : n % 10 < 10 := Nat.mod_lt _ (by omega)
      refine ⟨by simp, ?_, ?_⟩
      · simp [List.all_append, h2, isDigit]; omega
      · rw [digitsVal_append_singleton, h3, digit_toNat hd]; omega

theorem decBytes_spec (n : Nat) : decBytes n ≠ [] ∧ (decBytes n).all isDigit = true ∧ digitsVal (decBytes n) = n :=
  decDigits_spec (n + 1) n (by omega)

private theorem decDigits_head : ∀ (fuel n : Nat), n < fuel → 0 < n → (decDigits fuel n).head? ≠ some 48
  | 0, n, h, _ => by omega
  | fuel + 1, n, hlt, hpos => by
    rw [decDigits]
    split
    · rename_i h
      simp only [List.head?_cons, ne_eq, Option.some.injEq]
      intro hc
      have := congrArg UInt8.toNat hc
      rw [digit_toNat h] at this
      simp at this; omega
    · rename_i h
      have hne := (decDigits_spec fuel (n / 10) (by omega)).1
      have hh : (decDigits fuel (n / 10) ++ [UInt8.ofNat (48 + n % 10)]).head? = (decDigits fuel (n / 10)).head? := by
        cases hx : decDigits fuel (n / 10) with
        | nil => exact absurd hx hne
        | cons a t => rfl
      rw [hh]
      exact decDigits_head fuel (n / 10) (by omega) (by omega)

/-- The node's rendering is canonical: digits only, no leading zero. -/
theorem isCanonicalNumeral_decBytes (n : Nat) : isCanonicalNumeral (decBytes n) = true := by
  obtain ⟨h1, h2, _⟩ := decBytes_spec n
  unfold isCanonicalNumeral
  have he : (decBytes n).isEmpty = false := by
    cases h : decBytes n with
    | nil => exact absurd h h1
    | cons => rfl
  rw [he, h2]
  by_cases hz : n = 0
  · subst hz; decide
  · have := decDigits_head (n + 1) n (by omega) (by omega)
    have : ((decBytes n).head? != some 48) = true := by
      simp only [bne_iff_ne, ne_eq]; exact this
    simp [this]

/-- `hex.EncodeToString` yields lower-case hex only. -/
theorem isLowerHex_encodeHex (bs : Bytes) : isLowerHex (encodeHex bs) = true := by
  have hd : ∀ n, n < 16 → ((hexVal (hexDigit n)).isSome && !(decide (65 ≤ (hexDigit n).toNat) && decide ((hexDigit n).toNat ≤ 70))) = true := by
    decide
  unfold isLowerHex encodeHex
  rw [List.all_flatMap]
  apply List.all_eq_true.mpr
  intro b _
  have hb : b.toNat < 256 := b.toNat_lt
  simp only [List.all_cons, List.all_nil, Bool.and_true]
  rw [hd _ (by omega), hd _ (by omega)]
  rfl

/-- The node's canonical decimal rendering of `n` is read back as `n`. -/
theorem parseNat_decBytes (n : Nat) : parseNat (decBytes n) = some n := by
  obtain ⟨h1, h2, h3⟩ := decBytes_spec n
  rw [parseNat_of_digits h1 h2, h3]

theorem parseInt_decBytes (n : Nat) : parseInt (decBytes n) = some (n : Int) :=
  parseInt_of_parseNat (parseNat_decBytes n)

/-! ## hex -/

theorem hexVal_lt {c : UInt8} {x : Nat} (h : hexVal c = some x) : x < 16 := by
  unfold hexVal at h
  simp only at h
  split at h
  · cases h; omega
  · split at h
    · cases h; omega
    · split at h
      · cases h; omega
      · cases h

theorem hexVal_hexDigit {n : Nat} (h : n < 16) : hexVal (hexDigit n) = some n := by
  have : ∀ n, n < 16 → hexVal (hexDigit n) = some n := by decide
  exact this n h

private theorem byte_recompose (b : UInt8) : UInt8.ofNat (b.toNat / 16 * 16 + b.toNat % 16) = b := by
  have : b.toNat / 16 * 16 + b.toNat % 16 = b.toNat := by omega
  rw [this, UInt8.ofNat_toNat]

/-- `hex.DecodeString(hex.EncodeToString(bs)) = bs, nil`. -/
theorem decodeHex_encodeHex (bs : Bytes) : decodeHex (encodeHex bs) = (bs, none) := by
  induction bs with
  | nil => rfl
  | cons b bs ih =>
    have hb : b.toNat < 256 := b.toNat_lt
    have e : encodeHex (b :: bs) = hexDigit (b.toNat / 16) :: hexDigit (b.toNat % 16) :: encodeHex bs := by
      simp [encodeHex]
    rw [e, decodeHex, hexVal_hexDigit (by omega), hexVal_hexDigit (by omega)]
    simp only [ih, byte_recompose]

theorem encodeHex_length (bs : Bytes) : (encodeHex bs).length = 2 * bs.length := by
  induction bs with
  | nil => rfl
  | cons b bs ih =>
    have e : encodeHex (b :: bs) = hexDigit (b.toNat / 16) :: hexDigit (b.toNat % 16) :: encodeHex bs := by
      simp [encodeHex]
    rw [e]; simp [ih]; omega

private theorem hexDigit_hexVal {c : UInt8} {x : Nat} (h : hexVal c = some x) :
    hexDigit x = (if 65 ≤ c.toNat ∧ c.toNat ≤ 70 then UInt8.ofNat (c.toNat + 32) else c) := by
  have hc : c.toNat < 256 := c.toNat_lt
  unfold hexVal at h
  simp only at h
  split at h
  · rename_i h1; cases h
    have : ¬ (65 ≤ c.toNat ∧ c.toNat ≤ 70) := by omega
    have e : 48 + (c.toNat - 48) = c.toNat := by omega
    simp only [hexDigit, this, if_false]
    rw [if_pos (by omega), e, UInt8.ofNat_toNat]
  · split at h
    · rename_i h1 h2; cases h
      have : ¬ (65 ≤ c.toNat ∧ c.toNat ≤ 70) := by omega
      have e : 87 + (c.toNat - 87) = c.toNat := by omega
      simp only [hexDigit, this, if_false]
      rw [if_neg (by omega), e, UInt8.ofNat_toNat]
    · split at h
      · rename_i h1 h2 h3; cases h
        have e : 87 + (c.toNat - 55) = c.toNat + 32 := by omega
        simp only [hexDigit, h3, and_self, if_true]
        rw [if_neg (by omega), e]
      · cases h

/-- Whatever `hex.DecodeString` accepts re-encodes to the (lower-cased) input: nothing is dropped or altered. -/
theorem encodeHex_of_decodeHex : ∀ (s : GoStr) (bs : Bytes), decodeHex s = (bs, none) → encodeHex bs = lowerHex s
  | [], bs, h => by
    simp [decodeHex] at h; subst h; rfl
  | [c], bs, h => by
    simp only [decodeHex] at h
    split at h <;> cases h
  | a :: b :: rest, bs, h => by
    simp only [decodeHex] at h
    split at h
    · rename_i x y hx hy
      have hxl := hexVal_lt hx
      have hyl := hexVal_lt hy
      cases hr : decodeHex rest with
      | mk r e =>
        rw [hr] at h
        simp only [Prod.mk.injEq] at h
        obtain ⟨h1, h2⟩ := h
        subst h1; subst h2
        have ih := encodeHex_of_decodeHex rest r hr
        have hv : (UInt8.ofNat (x * 16 + y)).toNat = x * 16 + y := by rw [UInt8.toNat_ofNat']; omega
        have e : encodeHex (UInt8.ofNat (x * 16 + y) :: r) =
            hexDigit ((UInt8.ofNat (x * 16 + y)).toNat / 16) :: hexDigit ((UInt8.ofNat (x * 16 + y)).toNat % 16) :: encodeHex r := by
          simp [encodeHex]
        rw [e, hv, ih]
        have d1 : (x * 16 + y) / 16 = x := by omega
        have d2 : (x * 16 + y) % 16 = y := by omega
        rw [d1, d2, hexDigit_hexVal hx, hexDigit_hexVal hy]
        simp [lowerHex]
    · cases h

theorem decodeHex_length : ∀ (s : GoStr) (bs : Bytes), decodeHex s = (bs, none) → s.length = 2 * bs.length
  | [], bs, h => by simp [decodeHex] at h; subst h; rfl
  | [c], bs, h => by
    simp only [decodeHex] at h
    split at h <;> cases h
  | a :: b :: rest, bs, h => by
    simp only [decodeHex] at h
    split at h
    · cases hr : decodeHex rest with
      | mk r e =>
        rw [hr] at h
        simp only [Prod.mk.injEq] at h
        obtain ⟨h1, h2⟩ := h
        subst h1; subst h2
        have := decodeHex_length rest r hr
        simp; omega
    · cases h

/-! ## slices and NUL trimming -/

theorem slice_mid (pre mid post : Bytes) (a b : Nat) (ha : pre.length = a) (hb : mid.length = b - a) :
    slice (pre ++ (mid ++ post)) a b = mid := by
  subst ha
  simp [slice, ← hb]

private theorem dropWhile_zeros_append (a : Nat) (s : Bytes) (h : ∀ c, s.head? = some c → c ≠ 0) :
    (List.replicate a (0 : UInt8) ++ s).dropWhile (· == 0) = s := by
  induction a with
  | zero =>
    cases s with
    | nil => rfl
    | cons c t =>
      have := h c rfl
      simp [this]
  | succ a ih => simpa [List.replicate_succ, List.dropWhile] using ih

/-- A string without NUL at either end, NUL-padded on the left and/or right, is recovered exactly by `bytes.Trim`. -/
theorem trimNul_padded (a b : Nat) (s : Bytes) (hh : ∀ c, s.head? = some c → c ≠ 0) (hl : ∀ c, s.getLast? = some c → c ≠ 0) :
    trimNul (List.replicate a 0 ++ s ++ List.replicate b 0) = s := by
  cases s with
  | nil =>
    simp [trimNul]
  | cons d t =>
    unfold trimNul
    rw [List.append_assoc, dropWhile_zeros_append a (d :: t ++ List.replicate b 0)]
    · have hr : (d :: t ++ List.replicate b (0 : UInt8)).reverse = List.replicate b 0 ++ (d :: t).reverse := by simp
      rw [hr, dropWhile_zeros_append b (d :: t).reverse]
      · simp
      · intro c hc; apply hl c; rw [List.head?_reverse] at hc; exact hc
    · intro c hc
      simp at hc; exact hh c (by simp [hc])

/-! ## Go integer division / `time.Unix` -/

theorem goUnix_milli (ts : Int) :
    let p := goUnix (Int.tdiv ts 1000) (Int.tmod ts 1000 * 1000000)
    p.1 * 1000 + p.2 / 1000000 = ts ∧ 0 ≤ p.2 ∧ p.2 < 1000000000 ∧ p.2 % 1000000 = 0 := by
  have hq : Int.tdiv ts 1000 = ts / 1000 + if 0 ≤ ts ∨ (1000 : Int) ∣ ts then 0 else Int.sign 1000 := Int.tdiv_eq_ediv
  have hr : Int.tmod ts 1000 = ts % 1000 - ((if 0 ≤ ts ∨ (1000 : Int) ∣ ts then 0 else (1000 : Int).natAbs : Nat) : Int) := Int.tmod_eq_emod
  have hs : Int.sign 1000 = 1 := by decide
  have hn : (1000 : Int).natAbs = 1000 := by decide
  rw [hs] at hq; rw [hn] at hr
  generalize Int.tdiv ts 1000 = q at *
  generalize Int.tmod ts 1000 = r at *
  have hbound : -1000 < r ∧ r < 1000 ∧ 1000 * q + r = ts ∧ (0 ≤ ts → 0 ≤ r) ∧ (ts < 0 → r ≤ 0) := by
    by_cases hc : 0 ≤ ts ∨ (1000 : Int) ∣ ts
    · simp only [hc, if_true] at hq hr
      cases hc <;> omega
    · simp only [hc, if_false] at hq hr
      omega
  obtain ⟨b1, b2, b3, b4, b5⟩ := hbound
  unfold goUnix
  by_cases hneg : r < 0
  · have c1 : r * 1000000 < 0 ∨ r * 1000000 ≥ 1000000000 := Or.inl (by omega)
    have hz : Int.tdiv (r * 1000000) 1000000000 = 0 := by
      have : Int.tdiv (-(r * 1000000)) 1000000000 = 0 := Int.tdiv_eq_zero_of_lt (by omega) (by omega)
      rw [Int.neg_tdiv] at this; omega
    simp only [c1, if_true, hz]
    have c2 : r * 1000000 - 0 * 1000000000 < 0 := by omega
    simp only [c2, if_true]
    refine ⟨by omega, by omega, by omega, by omega⟩
  · have c1 : ¬ (r * 1000000 < 0 ∨ r * 1000000 ≥ 1000000000) := by omega
    simp only [c1, if_false]
    refine ⟨by omega, by omega, by omega, by omega⟩

end Whv.AlphUtil
