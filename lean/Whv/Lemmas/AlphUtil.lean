import Whv.Model.AlphUtil
/-!
# Lemmas about the `alphutil` model (numerals, hex, slices, NUL trimming, Go time arithmetic, base58)
-/
namespace Whv.AlphUtil
open Whv

/-! ## numerals -/

theorem isDigit_iff (c : UInt8) : isDigit c = true ↔ 48 ≤ c.toNat ∧ c.toNat ≤ 57 := by
  simp [isDigit]

theorem parseNat_of_digits {s : GoStr} (hne : s ≠ []) (hd : s.all isDigit = true) : parseNat s = some (digitsVal s) := by
  simp [parseNat, hne, hd]

theorem parseNat_some {s : GoStr} {n : Nat} (h : parseNat s = some n) : s ≠ [] ∧ s.all isDigit = true ∧ n = digitsVal s := by
  unfold parseNat at h
  split at h
  · rename_i hc; cases h; exact ⟨hc.1, hc.2, rfl⟩
  · cases h

/-- An unsigned digit string is read as the number it spells. -/
theorem parseInt_of_parseNat {s : GoStr} {n : Nat} (h : parseNat s = some n) : parseInt s = some (n : Int) := by
  obtain ⟨hne, hd, _⟩ := parseNat_some h
  cases s with
  | nil => exact absurd rfl hne
  | cons c rest =>
    have hc : isDigit c = true := by
      have := List.all_eq_true.mp hd c (by simp)
      exact this
    rw [isDigit_iff] at hc
    unfold parseInt
    have h1 : ¬ c.toNat = 45 := by omega
    have h2 : ¬ c.toNat = 43 := by omega
    simp [h1, h2, h]

/-- Whatever `SetString` accepts is a sign followed by a digit string, and the value is the signed number it spells. -/
theorem parseInt_some {s : GoStr} {v : Int} (h : parseInt s = some v) :
    (∃ n, parseNat s = some n ∧ v = n) ∨
    (∃ c rest n, s = c :: rest ∧ c.toNat = 43 ∧ parseNat rest = some n ∧ v = n) ∨
    (∃ c rest n, s = c :: rest ∧ c.toNat = 45 ∧ parseNat rest = some n ∧ v = -(n : Int)) := by
  unfold parseInt at h
  cases s with
  | nil => cases h
  | cons c rest =>
    simp only at h
    split at h
    · rename_i h45
      cases hp : parseNat rest with
      | none => simp [hp] at h
      | some n => simp [hp] at h; exact Or.inr (Or.inr ⟨c, rest, n, rfl, h45, hp, h.symm⟩)
    · split at h
      · rename_i h43
        cases hp : parseNat rest with
        | none => simp [hp] at h
        | some n => simp [hp] at h; exact Or.inr (Or.inl ⟨c, rest, n, rfl, h43, hp, h.symm⟩)
      · cases hp : parseNat (c :: rest) with
        | none => simp [hp] at h
        | some n => simp [hp] at h; exact Or.inl ⟨n, rfl, h.symm⟩

/-- A string with a byte that is neither a digit nor a leading sign is not a numeral. -/
theorem parseNat_none_of_nondigit {s : GoStr} {c : UInt8} (hc : c ∈ s) (hn : isDigit c = false) : parseNat s = none := by
  unfold parseNat
  have : ¬ (s.all isDigit = true) := by
    intro h
    have := List.all_eq_true.mp h c hc
    rw [hn] at this; cases this
  simp [this]

theorem digitsVal_append_singleton (ds : Bytes) (c : UInt8) : digitsVal (ds ++ [c]) = digitsVal ds * 10 + (c.toNat - 48) := by
  simp [digitsVal, List.foldl_append]

private theorem digit_toNat {d : Nat} (h : d < 10) : (UInt8.ofNat (48 + d)).toNat = 48 + d := by
  rw [UInt8.toNat_ofNat']; omega

private theorem decDigits_spec : ∀ (fuel n : Nat), n < fuel →
    decDigits fuel n ≠ [] ∧ (decDigits fuel n).all isDigit = true ∧ digitsVal (decDigits fuel n) = n
  | 0, n, h => by omega
  | fuel + 1, n, hlt => by
    rw [decDigits]
    split
    · rename_i h
      refine ⟨by simp, ?_, ?_⟩
      · simp [isDigit]; omega
      · simp [digitsVal]; omega
    · rename_i h
      obtain ⟨h1, h2, h3⟩ := decDigits_spec fuel (n / 10) (by omega)
      have hd : n % 10 < 10 := Nat.mod_lt _ (by omega)
      refine ⟨by simp, ?_, ?_⟩
      · simp [List.all_append, h2, isDigit]; omega
      · rw [digitsVal_append_singleton, h3, digit_toNat hd]; omega

theorem decBytes_spec (n : Nat) : decBytes n ≠ [] ∧ (decBytes n).all isDigit = true ∧ digitsVal (decBytes n) = n :=
  decDigits_spec (n + 1) n (by omega)

private theorem decDigits_head : ∀ (fuel n : Nat), n < fuel → 0 < n → (decDigits fuel n).head? ≠ some 48
  | 0, n, h, _ => by omega
  | fuel + 1, n, hlt, hpos => by
    rw [decDigits]
    split
    · rename_i h
      simp only [List.head?_cons, ne_eq, Option.some.injEq]
      intro hc
      have := congrArg UInt8.toNat hc
      rw [digit_toNat h] at this
      simp at this; omega
    · rename_i h
      have hne := (decDigits_spec fuel (n / 10) (by omega)).1
      have hh : (decDigits fuel (n / 10) ++ [UInt8.ofNat (48 + n % 10)]).head? = (decDigits fuel (n / 10)).head? := by
        cases hx : decDigits fuel (n / 10) with
        | nil => exact absurd hx hne
        | cons a t => rfl
      rw [hh]
      exact decDigits_head fuel (n / 10) (by omega) (by omega)

/-- The node's rendering is canonical: digits only, no leading zero. -/
theorem isCanonicalNumeral_decBytes (n : Nat) : isCanonicalNumeral (decBytes n) = true := by
  obtain ⟨h1, h2, _⟩ := decBytes_spec n
  unfold isCanonicalNumeral
  have he : (decBytes n).isEmpty = false := by
    cases h : decBytes n with
    | nil => exact absurd h h1
    | cons => rfl
  rw [he, h2]
  by_cases hz : n = 0
  · subst hz; decide
  · have := decDigits_head (n + 1) n (by omega) (by omega)
    have : ((decBytes n).head? != some 48) = true := by
      simp only [bne_iff_ne, ne_eq]; exact this
    simp [this]

/-- `hex.EncodeToString` yields lower-case hex only. -/
theorem isLowerHex_encodeHex (bs : Bytes) : isLowerHex (encodeHex bs) = true := by
  have hd : ∀ n, n < 16 → ((hexVal (hexDigit n)).isSome && !(decide (65 ≤ (hexDigit n).toNat) && decide ((hexDigit n).toNat ≤ 70))) = true := by
    decide
  unfold isLowerHex encodeHex
  rw [List.all_flatMap]
  apply List.all_eq_true.mpr
  intro b _
  have hb : b.toNat < 256 := b.toNat_lt
  simp only [List.all_cons, List.all_nil, Bool.and_true]
  rw [hd _ (by omega), hd _ (by omega)]
  rfl

/-- The node's canonical decimal rendering of `n` is read back as `n`. -/
theorem parseNat_decBytes (n : Nat) : parseNat (decBytes n) = some n := by
  obtain ⟨h1, h2, h3⟩ := decBytes_spec n
  rw [parseNat_of_digits h1 h2, h3]

theorem parseInt_decBytes (n : Nat) : parseInt (decBytes n) = some (n : Int) :=
  parseInt_of_parseNat (parseNat_decBytes n)

/-! ## hex -/

theorem hexVal_lt {c : UInt8} {x : Nat} (h : hexVal c = some x) : x < 16 := by
  unfold hexVal at h
  simp only at h
  split at h
  · cases h; omega
  · split at h
    · cases h; omega
    · split at h
      · cases h; omega
      · cases h

theorem hexVal_hexDigit {n : Nat} (h : n < 16) : hexVal (hexDigit n) = some n := by
  have : ∀ n, n < 16 → hexVal (hexDigit n) = some n := by decide
  exact this n h

private theorem byte_recompose (b : UInt8) : UInt8.ofNat (b.toNat / 16 * 16 + b.toNat % 16) = b := by
  have : b.toNat / 16 * 16 + b.toNat % 16 = b.toNat := by omega
  rw [this, UInt8.ofNat_toNat]

/-- `hex.DecodeString(hex.EncodeToString(bs)) = bs, nil`. -/
theorem decodeHex_encodeHex (bs : Bytes) : decodeHex (encodeHex bs) = (bs, none) := by
  induction bs with
  | nil => rfl
  | cons b bs ih =>
    have hb : b.toNat < 256 := b.toNat_lt
    have e : encodeHex (b :: bs) = hexDigit (b.toNat / 16) :: hexDigit (b.toNat % 16) :: encodeHex bs := by
      simp [encodeHex]
    rw [e, decodeHex, hexVal_hexDigit (by omega), hexVal_hexDigit (by omega)]
    simp only [ih, byte_recompose]

theorem encodeHex_length (bs : Bytes) : (encodeHex bs).length = 2 * bs.length := by
  induction bs with
  | nil => rfl
  | cons b bs ih =>
    have e : encodeHex (b :: bs) = hexDigit (b.toNat / 16) :: hexDigit (b.toNat % 16) :: encodeHex bs := by
      simp [encodeHex]
    rw [e]; simp [ih]; omega

private theorem hexDigit_hexVal {c : UInt8} {x : Nat} (h : hexVal c = some x) :
    hexDigit x = (if 65 ≤ c.toNat ∧ c.toNat ≤ 70 then UInt8.ofNat (c.toNat + 32) else c) := by
  have hc : c.toNat < 256 := c.toNat_lt
  unfold hexVal at h
  simp only at h
  split at h
  · rename_i h1; cases h
    have : ¬ (65 ≤ c.toNat ∧ c.toNat ≤ 70) := by omega
    have e : 48 + (c.toNat - 48) = c.toNat := by omega
    simp only [hexDigit, this, if_false]
    rw [if_pos (by omega), e, UInt8.ofNat_toNat]
  · split at h
    · rename_i h1 h2; cases h
      have : ¬ (65 ≤ c.toNat ∧ c.toNat ≤ 70) := by omega
      have e : 87 + (c.toNat - 87) = c.toNat := by omega
      simp only [hexDigit, this, if_false]
      rw [if_neg (by omega), e, UInt8.ofNat_toNat]
    · split at h
      · rename_i h1 h2 h3; cases h
        have e : 87 + (c.toNat - 55) = c.toNat + 32 := by omega
        simp only [hexDigit, h3, and_self, if_true]
        rw [if_neg (by omega), e]
      · cases h

/-- Whatever `hex.DecodeString` accepts re-encodes to the (lower-cased) input: nothing is dropped or altered. -/
theorem encodeHex_of_decodeHex : ∀ (s : GoStr) (bs : Bytes), decodeHex s = (bs, none) → encodeHex bs = lowerHex s
  | [], bs, h => by
    simp [decodeHex] at h; subst h; rfl
  | [c], bs, h => by
    simp only [decodeHex] at h
    split at h <;> cases h
  | a :: b :: rest, bs, h => by
    simp only [decodeHex] at h
    split at h
    · rename_i x y hx hy
      have hxl := hexVal_lt hx
      have hyl := hexVal_lt hy
      cases hr : decodeHex rest with
      | mk r e =>
        rw [hr] at h
        simp only [Prod.mk.injEq] at h
        obtain ⟨h1, h2⟩ := h
        subst h1; subst h2
        have ih := encodeHex_of_decodeHex rest r hr
        have hv : (UInt8.ofNat (x * 16 + y)).toNat = x * 16 + y := by rw [UInt8.toNat_ofNat']; omega
        have e : encodeHex (UInt8.ofNat (x * 16 + y) :: r) =
            hexDigit ((UInt8.ofNat (x * 16 + y)).toNat / 16) :: hexDigit ((UInt8.ofNat (x * 16 + y)).toNat % 16) :: encodeHex r := by
          simp [encodeHex]
        rw [e, hv, ih]
        have d1 : (x * 16 + y) / 16 = x := by omega
        have d2 : (x * 16 + y) % 16 = y := by omega
        rw [d1, d2, hexDigit_hexVal hx, hexDigit_hexVal hy]
        simp [lowerHex]
    · cases h

theorem decodeHex_length : ∀ (s : GoStr) (bs : Bytes), decodeHex s = (bs, none) → s.length = 2 * bs.length
  | [], bs, h => by simp [decodeHex] at h; subst h; rfl
  | [c], bs, h => by
    simp only [decodeHex] at h
    split at h <;> cases h
  | a :: b :: rest, bs, h => by
    simp only [decodeHex] at h
    split at h
    · cases hr : decodeHex rest with
      | mk r e =>
        rw [hr] at h
        simp only [Prod.mk.injEq] at h
        obtain ⟨h1, h2⟩ := h
        subst h1; subst h2
        have := decodeHex_length rest r hr
        simp; omega
    · cases h

/-! ## slices and NUL trimming -/

theorem slice_mid (pre mid post : Bytes) (a b : Nat) (ha : pre.length = a) (hb : mid.length = b - a) :
    slice (pre ++ (mid ++ post)) a b = mid := by
  subst ha
  simp [slice, ← hb]

private theorem dropWhile_zeros_append (a : Nat) (s : Bytes) (h : ∀ c, s.head? = some c → c ≠ 0) :
    (List.replicate a (0 : UInt8) ++ s).dropWhile (· == 0) = s := by
  induction a with
  | zero =>
    cases s with
    | nil => rfl
    | cons c t =>
      have := h c rfl
      simp [this]
  | succ a ih => simpa [List.replicate_succ, List.dropWhile] using ih

/-- A string without NUL at either end, NUL-padded on the left and/or right, is recovered exactly by `bytes.Trim`. -/
theorem trimNul_padded (a b : Nat) (s : Bytes) (hh : ∀ c, s.head? = some c → c ≠ 0) (hl : ∀ c, s.getLast? = some c → c ≠ 0) :
    trimNul (List.replicate a 0 ++ s ++ List.replicate b 0) = s := by
  cases s with
  | nil =>
    simp [trimNul]
  | cons d t =>
    unfold trimNul
    rw [List.append_assoc, dropWhile_zeros_append a (d :: t ++ List.replicate b 0)]
    · have hr : (d :: t ++ List.replicate b (0 : UInt8)).reverse = List.replicate b 0 ++ (d :: t).reverse := by simp
      rw [hr, dropWhile_zeros_append b (d :: t).reverse]
      · simp
      · intro c hc; apply hl c; rw [List.head?_reverse] at hc; exact hc
    · intro c hc
      simp at hc; exact hh c (by simp [hc])

/-! ## Go integer division / `time.Unix` -/

theorem goUnix_milli (ts : Int) :
    let p := goUnix (Int.tdiv ts 1000) (Int.tmod ts 1000 * 1000000)
    p.1 * 1000 + p.2 / 1000000 = ts ∧ 0 ≤ p.2 ∧ p.2 < 1000000000 ∧ p.2 % 1000000 = 0 := by
  have hq : Int.tdiv ts 1000 = ts / 1000 + if 0 ≤ ts ∨ (1000 : Int) ∣ ts then 0 else Int.sign 1000 := Int.tdiv_eq_ediv
  have hr : Int.tmod ts 1000 = ts % 1000 - ((if 0 ≤ ts ∨ (1000 : Int) ∣ ts then 0 else (1000 : Int).natAbs : Nat) : Int) := Int.tmod_eq_emod
  have hs : Int.sign 1000 = 1 := by decide
  have hn : (1000 : Int).natAbs = 1000 := by decide
  rw [hs] at hq; rw [hn] at hr
  generalize Int.tdiv ts 1000 = q at *
  generalize Int.tmod ts 1000 = r at *
  have hbound : -1000 < r ∧ r < 1000 ∧ 1000 * q + r = ts ∧ (0 ≤ ts → 0 ≤ r) ∧ (ts < 0 → r ≤ 0) := by
    by_cases hc : 0 ≤ ts ∨ (1000 : Int) ∣ ts
    · simp only [hc, if_true] at hq hr
      cases hc <;> omega
    · simp only [hc, if_false] at hq hr
      omega
  obtain ⟨b1, b2, b3, b4, b5⟩ := hbound
  unfold goUnix
  by_cases hneg : r < 0
  · have c1 : r * 1000000 < 0 ∨ r * 1000000 ≥ 1000000000 := Or.inl (by omega)
    have hz : Int.tdiv (r * 1000000) 1000000000 = 0 := by
      have : Int.tdiv (-(r * 1000000)) 1000000000 = 0 := Int.tdiv_eq_zero_of_lt (by omega) (by omega)
      rw [Int.neg_tdiv] at this; omega
    simp only [c1, if_true, hz]
    have c2 : r * 1000000 - 0 * 1000000000 < 0 := by omega
    simp only [c2, if_true]
    refine ⟨by omega, by omega, by omega, by omega⟩
  · have c1 : ¬ (r * 1000000 < 0 ∨ r * 1000000 ≥ 1000000000) := by omega
    simp only [c1, if_false]
    refine ⟨by omega, by omega, by omega, by omega⟩

/-! ## base58 round trip -/

def b58Step (a : Nat) (c : UInt8) : Nat := a * 58 + b58Alphabet.idxOf c

theorem b58Char_facts : ∀ d, d < 58 → (b58Char d).toNat < 128 ∧ b58Index (b58Char d) = some d ∧ b58Alphabet.idxOf (b58Char d) = d ∧
    (0 < d → b58Char d ≠ 49) := by decide

def B58Valid (s : Bytes) : Prop := ∀ c ∈ s, ∃ d, d < 58 ∧ c = b58Char d

theorem b58Chunk_valid : ∀ (cs : Bytes) (acc : Nat), B58Valid cs → b58Chunk cs acc = some (some (cs.foldl b58Step acc))
  | [], acc, _ => rfl
  | c :: cs, acc, hv => by
    obtain ⟨d, hd, rfl⟩ := hv c (by simp)
    obtain ⟨h1, h2, h3, _⟩ := b58Char_facts d hd
    have hv' : B58Valid cs := fun x hx => hv x (List.mem_cons_of_mem _ hx)
    simp only [b58Chunk, h1, if_true, h2, List.foldl_cons, b58Step, h3]
    exact b58Chunk_valid cs (acc * 58 + d) hv'

theorem foldl_b58Step_shift : ∀ (cs : Bytes) (acc : Nat), cs.foldl b58Step acc = acc * 58 ^ cs.length + cs.foldl b58Step 0
  | [], acc => by simp
  | c :: cs, acc => by
    simp only [List.foldl_cons, List.length_cons]
    rw [foldl_b58Step_shift cs (b58Step acc c), foldl_b58Step_shift cs (b58Step 0 c)]
    simp only [b58Step, Nat.pow_succ]
    grind


theorem B58Valid.take {s : Bytes} (h : B58Valid s) (k : Nat) : B58Valid (s.take k) :=
  fun c hc => h c (List.mem_of_mem_take hc)
theorem B58Valid.drop {s : Bytes} (h : B58Valid s) (k : Nat) : B58Valid (s.drop k) :=
  fun c hc => h c (List.mem_of_mem_drop hc)

theorem b58Chunks_valid : ∀ (fuel : Nat) (t : Bytes) (acc : Nat), t.length < fuel → B58Valid t →
    b58Chunks fuel t acc = some (some (t.foldl b58Step acc))
  | 0, t, acc, h, _ => by omega
  | fuel + 1, t, acc, hlen, hv => by
    unfold b58Chunks
    by_cases ht : t = []
    · subst ht; simp
    · rw [if_neg ht, b58Chunk_valid _ 0 (hv.take 10)]
      simp only
      have hdl : (t.drop 10).length < fuel := by
        have : 0 < t.length := List.length_pos_iff.mpr ht
        simp only [List.length_drop]; omega
      rw [b58Chunks_valid fuel (t.drop 10) _ hdl (hv.drop 10), ← foldl_b58Step_shift]
      rw [← List.foldl_append, List.take_append_drop]


/-- value of a least-significant-first base-58 digit list -/
def valLSB (ds : List Nat) : Nat := ds.foldr (fun d a => d + 58 * a) 0

theorem digits58F_zero (fuel : Nat) : digits58F fuel 0 = [] := by
  cases fuel <;> simp [digits58F]

theorem digits58F_spec : ∀ (fuel n : Nat), n ≤ fuel →
    valLSB (digits58F fuel n) = n ∧ (∀ d ∈ digits58F fuel n, d < 58) ∧ (∀ d, (digits58F fuel n).getLast? = some d → d ≠ 0)
  | 0, n, h => by
    have : n = 0 := by omega
    subst this; simp [digits58F, valLSB]
  | fuel + 1, n, h => by
    rw [digits58F]
    split
    · rename_i hz; subst hz; simp [valLSB]
    · rename_i hz
      obtain ⟨h1, h2, h3⟩ := digits58F_spec fuel (n / 58) (by omega)
      refine ⟨?_, ?_, ?_⟩
      · simp only [valLSB, List.foldr_cons] at h1 ⊢; rw [h1]; omega
      · intro d hd
        simp only [List.mem_cons] at hd
        rcases hd with rfl | hd
        · exact Nat.mod_lt _ (by omega)
        · exact h2 d hd
      · intro d hd
        cases hr : digits58F fuel (n / 58) with
        | nil =>
          rw [hr] at hd; simp at hd
          have : n / 58 = 0 := by
            have := h1; rw [hr] at this; simp [valLSB] at this; omega
          omega
        | cons a t =>
          rw [hr] at hd h3
          rw [List.getLast?_cons_cons] at hd
          exact h3 d hd

theorem foldl_b58Step_digits : ∀ (ds : List Nat), (∀ d ∈ ds, d < 58) →
    (ds.reverse.map b58Char).foldl b58Step 0 = valLSB ds
  | [], _ => rfl
  | d :: ds, h => by
    have hd := (b58Char_facts d (h d (by simp))).2.2.1
    have ih := foldl_b58Step_digits ds (fun x hx => h x (List.mem_cons_of_mem _ hx))
    simp only [List.reverse_cons, List.map_append, List.map_cons, List.map_nil, List.foldl_append, List.foldl_cons, List.foldl_nil, ih]
    simp only [b58Step, hd, valLSB, List.foldr_cons]
    omega

theorem foldl_b58Step_ones (z : Nat) (rest : Bytes) :
    (List.replicate z (49 : UInt8) ++ rest).foldl b58Step 0 = rest.foldl b58Step 0 := by
  induction z with
  | zero => simp
  | succ z ih =>
    have : b58Step 0 49 = 0 := by decide
    simp only [List.replicate_succ, List.cons_append, List.foldl_cons, this]
    exact ih

theorem takeWhile_ones (z : Nat) (rest : Bytes) (h : ∀ c, rest.head? = some c → c ≠ 49) :
    (List.replicate z (49 : UInt8) ++ rest).takeWhile (· == 49) = List.replicate z 49 := by
  induction z with
  | zero =>
    cases rest with
    | nil => rfl
    | cons c t =>
      have := h c rfl
      simp [this]
  | succ z ih => simp [List.replicate_succ, ih]


theorem natBytesF_zero (fuel : Nat) : natBytesF fuel 0 = [] := by
  cases fuel <;> simp [natBytesF]

theorem unbe_cons_zero (bs : Bytes) : unbe ((0 : UInt8) :: bs) = unbe bs := by
  simp [unbe]

theorem unbe_pos_of_head : ∀ (bs : Bytes), (∃ c t, bs = c :: t ∧ c ≠ 0) → 0 < unbe bs := by
  intro bs
  induction bs using snoc_induction with
  | hnil => rintro ⟨c, t, h, _⟩; cases h
  | hsnoc bs x ih =>
    rintro ⟨c, t, h, hc⟩
    rw [unbe_append_singleton]
    cases bs with
    | nil =>
      have hxc : x = c := by simp at h; exact h.1
      subst hxc
      have : x.toNat ≠ 0 := by
        intro h0; apply hc; exact UInt8.toNat_inj.mp (by simpa using h0)
      simp [unbe]; omega
    | cons a r =>
      have : 0 < unbe (a :: r) := ih ⟨a, r, rfl, by simp at h; rw [h.1]; exact hc⟩
      omega

/-- `big.Int.Bytes` of the value of a byte string without leading zero is that byte string. -/
theorem natBytesF_unbe : ∀ (bs : Bytes) (fuel : Nat), (∀ c, bs.head? = some c → c ≠ 0) → unbe bs ≤ fuel →
    natBytesF fuel (unbe bs) = bs := by
  intro bs
  induction bs using snoc_induction with
  | hnil => intro fuel _ _; simp [natBytesF_zero]
  | hsnoc bs x ih =>
    intro fuel hh hf
    have hx : x.toNat < 256 := x.toNat_lt
    rw [unbe_append_singleton] at hf ⊢
    have hpos : 0 < unbe bs * 256 + x.toNat := by
      cases bs with
      | nil =>
        have hx0 := hh x (by simp)
        have : x.toNat ≠ 0 := by
          intro h0; apply hx0; exact UInt8.toNat_inj.mp (by simpa using h0)
        simp [unbe]; omega
      | cons a r =>
        have : 0 < unbe (a :: r) := unbe_pos_of_head _ ⟨a, r, rfl, hh a (by simp)⟩
        omega
    cases fuel with
    | zero => omega
    | succ fuel =>
      rw [natBytesF, if_neg (by omega)]
      have d1 : (unbe bs * 256 + x.toNat) / 256 = unbe bs := by omega
      have d2 : (unbe bs * 256 + x.toNat) % 256 = x.toNat := by omega
      rw [d1, d2, UInt8.ofNat_toNat]
      rw [ih fuel ?_ (by omega)]
      intro c hc
      cases bs with
      | nil => simp at hc
      | cons a r => exact hh c (by simpa using hc)

theorem takeWhile_zero_eq_replicate (b : Bytes) : b.takeWhile (· == 0) = List.replicate (leadingZeros b) 0 := by
  unfold leadingZeros
  induction b with
  | nil => rfl
  | cons c t ih =>
    by_cases hc : c = 0
    · subst hc; simp [List.takeWhile, List.replicate_succ]; exact ih
    · have hb : (c == 0) = false := beq_eq_false_iff_ne.mpr hc
      simp [List.takeWhile, hb]

theorem unbe_dropWhile_zero (b : Bytes) : unbe (b.dropWhile (· == 0)) = unbe b := by
  induction b with
  | nil => rfl
  | cons c t ih =>
    by_cases hc : c = 0
    · subst hc; simp [List.dropWhile, unbe_cons_zero]; exact ih
    · have hb : (c == 0) = false := beq_eq_false_iff_ne.mpr hc
      simp [List.dropWhile, hb]

theorem head_dropWhile_zero (b : Bytes) : ∀ c, (b.dropWhile (· == 0)).head? = some c → c ≠ 0 := by
  induction b with
  | nil => intro c h; simp at h
  | cons x t ih =>
    intro c h
    by_cases hx : x = 0
    · subst hx; simp [List.dropWhile] at h; exact ih c h
    · have hb : (x == 0) = false := beq_eq_false_iff_ne.mpr hx
      simp [List.dropWhile, hb] at h; rw [← h]; exact hx

/-- **base58 round trip** (btcutil model): `Decode(Encode(b)) = b` for every byte string. -/
theorem b58Decode_b58Encode (b : Bytes) : b58Decode (b58Encode b) = .ok b := by
  obtain ⟨hval, hlt, hlast⟩ := digits58F_spec (unbe b) (unbe b) (Nat.le_refl _)
  have hvalid : B58Valid (b58Encode b) := by
    intro c hc
    simp only [b58Encode, List.mem_append, List.mem_replicate, List.mem_map, List.mem_reverse] at hc
    rcases hc with ⟨_, rfl⟩ | ⟨d, hd, rfl⟩
    · exact ⟨0, by omega, by decide⟩
    · exact ⟨d, hlt d hd, rfl⟩
  have hfold : (b58Encode b).foldl b58Step 0 = unbe b := by
    unfold b58Encode
    rw [foldl_b58Step_ones, digits58, foldl_b58Step_digits _ hlt, hval]
  have hones : (b58Encode b).takeWhile (· == 49) = List.replicate (leadingZeros b) 49 := by
    unfold b58Encode
    apply takeWhile_ones
    intro c hc
    rw [digits58, List.head?_map, List.head?_reverse] at hc
    cases hl : (digits58F (unbe b) (unbe b)).getLast? with
    | none => rw [hl] at hc; simp at hc
    | some d =>
      rw [hl] at hc; simp at hc
      have hd0 := hlast d hl
      have hdm : d ∈ digits58F (unbe b) (unbe b) := List.mem_of_getLast? hl
      rw [← hc]
      exact (b58Char_facts d (hlt d hdm)).2.2.2 (by omega)
  unfold b58Decode
  rw [b58Chunks_valid _ _ 0 (by omega) hvalid, hfold, hones]
  simp only [List.length_replicate]
  have hsplit : b = List.replicate (leadingZeros b) 0 ++ b.dropWhile (· == 0) := by
    rw [← takeWhile_zero_eq_replicate, List.takeWhile_append_dropWhile]
  have hnb : natBytes (unbe b) = b.dropWhile (· == 0) := by
    unfold natBytes
    have := natBytesF_unbe (b.dropWhile (· == 0)) (unbe b) (head_dropWhile_zero b) (by rw [unbe_dropWhile_zero]; exact Nat.le_refl _)
    rwa [unbe_dropWhile_zero] at this
  rw [hnb, ← hsplit]

end Whv.AlphUtil
