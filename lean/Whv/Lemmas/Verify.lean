import Whv.Model.Verify
namespace Whv

/-- Per-signature validity: index in range and the signature recovers to the address at that index. -/
def SigOk (recover : Bytes → Option Addr) (addrs : List Addr) (s : Sig) : Prop :=
  s.idx < addrs.length ∧ recover s.sig = addrs[s.idx]?

/-- Strictly ascending indices, all above `last`. -/
def Ascending : List Sig → Int → Prop
  | [], _ => True
  | s :: rest, last => last < (s.idx : Int) ∧ Ascending rest s.idx

/-- No address is recovered twice (and none that is already in `seen`). -/
def Fresh (recover : Bytes → Option Addr) : List Sig → List Addr → Prop
  | [], _ => True
  | s :: rest, seen => (∀ a, recover s.sig = some a → a ∉ seen ∧ Fresh recover rest (seen ++ [a]))

theorem verifyLoop_iff (recover : Bytes → Option Addr) (addrs : List Addr) :
    ∀ (sigs : List Sig) (last : Int) (seen : List Addr),
      verifyLoop recover addrs sigs last seen = true ↔
        (∀ s ∈ sigs, SigOk recover addrs s) ∧ Ascending sigs last ∧ Fresh recover sigs seen := by
  intro sigs
  induction sigs with
  | nil => intro last seen; simp [verifyLoop, Ascending, Fresh]
  | cons s rest ih =>
    intro last seen
    unfold verifyLoop
    by_cases h1 : (s.idx : Int) ≥ addrs.length
    · simp only [h1, if_true, Bool.false_eq_true, false_iff]
      intro ⟨h, _, _⟩
      have := (h s (by simp)).1
      omega
    · have h1' : s.idx < addrs.length := by omega
      simp only [h1, if_false]
      by_cases h2 : (s.idx : Int) ≤ last
      · simp only [h2, if_true, Bool.false_eq_true, false_iff]
        intro ⟨_, h, _⟩
        have := h.1
        omega
      · simp only [h2, if_false]
        cases hr : recover s.sig with
        | none =>
          simp only [Bool.false_eq_true, false_iff]
          intro ⟨h, _, _⟩
          have := (h s (by simp)).2
          rw [hr] at this
          rw [List.getElem?_eq_getElem h1'] at this
          cases this
        | some a =>
          simp only
          by_cases h3 : some a ≠ addrs[s.idx]?
          · rw [if_pos h3]
            simp only [Bool.false_eq_true, false_iff]
            intro ⟨h, _, _⟩
            have := (h s (by simp)).2
            rw [hr] at this
            exact h3 this
          · rw [if_neg h3]
            have h3' : some a = addrs[s.idx]? := by simpa using h3
            by_cases h4 : seen.contains a = true
            · rw [if_pos h4]
              simp only [Bool.false_eq_true, false_iff]
              intro ⟨_, _, h⟩
              exact (h a hr).1 (List.contains_iff_mem.mp h4)
            · rw [if_neg h4, ih]
              have h4' : a ∉ seen := fun hm => h4 (List.contains_iff_mem.mpr hm)
              constructor
              · intro ⟨ha, hb, hc⟩
                refine ⟨?_, ⟨by omega, hb⟩, ?_⟩
                · intro x hx
                  simp at hx
                  rcases hx with rfl | hx
                  · exact ⟨h1', by rw [hr]; exact h3'⟩
                  · exact ha x hx
                · intro b hb'
                  rw [hr] at hb'
                  cases hb'
                  exact ⟨h4', hc⟩
              · intro ⟨ha, hb, hc⟩
                refine ⟨fun x hx => ha x (by simp [hx]), hb.2, (hc a hr).2⟩

/-- Pigeonhole for ascending indices: `k` strictly increasing naturals in `(last, n)` satisfy `k + last + 1 ≤ n`. -/
theorem ascending_length_le (n : Nat) : ∀ (sigs : List Sig) (last : Int), -1 ≤ last →
    Ascending sigs last → (∀ s ∈ sigs, s.idx < n) → (sigs.length : Int) + last + 1 ≤ n ∨ sigs = [] := by
  intro sigs
  induction sigs with
  | nil => intro last _ _ _; exact Or.inr rfl
  | cons s rest ih =>
    intro last hl ha hb
    have h1 := ha.1
    have h3 := hb s (by simp)
    left
    rcases ih s.idx (by omega) ha.2 (fun x hx => hb x (by simp [hx])) with h2 | h2
    · simp only [List.length_cons]; omega
    · subst h2; simp only [List.length_cons, List.length_nil]; omega

end Whv
