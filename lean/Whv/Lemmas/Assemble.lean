import Whv.Lemmas.Processor
import Whv.Props.C06
/-!
Signatures assembled by walking the guardian set in key order (`Whv.Proc.assemble`) form a `C06.Valid` list:
the heart of C01 for locally assembled VAAs.
-/
namespace Whv.Proc
open Whv

/-- A guardian set as the chain delivers it: distinct keys, at most 256 of them (the wire format's one-byte index). -/
def GSetOk (g : GSet) : Prop := g.keys.Nodup ∧ g.keys.length ≤ 256

/-- Everything `assembleFrom` emits for the suffix `ks` (starting at position `i`) of a key list `pre ++ ks`. -/
theorem assembleFrom_spec (recover : Bytes → Option Addr) (sigs : List (Addr × Bytes))
    (hrec : ∀ a sg, sigs.lookup a = some sg → recover sg = some a) :
    ∀ (ks pre : List Addr) (i : Nat), pre.length = i → i + ks.length ≤ 256 → (pre ++ ks).Nodup →
      (∀ s ∈ assembleFrom sigs ks i, i ≤ s.idx ∧ s.idx < (pre ++ ks).length ∧ recover s.sig = (pre ++ ks)[s.idx]?) ∧
      (assembleFrom sigs ks i).Pairwise (fun a b => a.idx < b.idx) ∧
      (assembleFrom sigs ks i).Pairwise (fun a b => recover a.sig ≠ recover b.sig) := by
  intro ks
  induction ks with
  | nil => intro pre i _ _ _; simp [assembleFrom]
  | cons a ks ih =>
    intro pre i hpre hlen hnd
    have hlen' : (i + 1) + ks.length ≤ 256 := by simp at hlen; omega
    have hassoc : pre ++ a :: ks = (pre ++ [a]) ++ ks := by simp
    have ih' := ih (pre ++ [a]) (i + 1) (by simp [hpre]) hlen' (by rw [← hassoc]; exact hnd)
    rw [← hassoc] at ih'
    obtain ⟨h1, h2, h3⟩ := ih'
    have hi : i % 256 = i := Nat.mod_eq_of_lt (by simp at hlen; omega)
    have hget : (pre ++ a :: ks)[i]? = some a := by
      rw [List.getElem?_append_right (by omega)]; simp [hpre]
    unfold assembleFrom
    split
    · rename_i sg hl
      refine ⟨?_, ?_, ?_⟩
      · intro s hs
        simp at hs
        rcases hs with rfl | hs
        · simp only [hi]
          refine ⟨Nat.le_refl _, by simp; omega, ?_⟩
          rw [hget]; exact hrec a sg hl
        · obtain ⟨x, y, z⟩ := h1 s hs
          exact ⟨by omega, y, z⟩
      · rw [List.pairwise_cons]
        refine ⟨fun s hs => ?_, h2⟩
        have := (h1 s hs).1
        simp only [hi]; omega
      · rw [List.pairwise_cons]
        refine ⟨fun s hs => ?_, h3⟩
        obtain ⟨x, y, z⟩ := h1 s hs
        simp only
        rw [hrec a sg hl, z]
        intro e
        have e' : (pre ++ a :: ks)[i]? = (pre ++ a :: ks)[s.idx]? := by rw [hget]; exact e
        have := (List.getElem?_inj (by simp; omega) hnd).1 e'
        omega
    · refine ⟨fun s hs => ?_, h2, h3⟩
      obtain ⟨x, y, z⟩ := h1 s hs
      exact ⟨by omega, y, z⟩

/-- The assembled list is `Valid` for the set it was assembled from. -/
theorem assemble_valid (recover : Bytes → Option Addr) (g : GSet) (hg : GSetOk g) (sigs : List (Addr × Bytes))
    (hrec : ∀ p ∈ sigs, recover p.2 = some p.1) :
    C06.Valid recover (assemble g.keys sigs) g.keys := by
  have h := assembleFrom_spec recover sigs (fun a sg hl => hrec (a, sg) (mem_of_lookup hl)) g.keys [] 0 rfl
    (by have := hg.2; omega) (by simpa using hg.1)
  simp only [List.nil_append] at h
  exact ⟨fun s hs => ⟨(h.1 s hs).2.1, (h.1 s hs).2.2⟩, h.2.1, h.2.2⟩

theorem assemble_verifies (recover : Bytes → Option Addr) (g : GSet) (hg : GSetOk g) (sigs : List (Addr × Bytes))
    (hrec : ∀ p ∈ sigs, recover p.2 = some p.1) :
    verifySignatures recover (assemble g.keys sigs) g.keys = true :=
  (C06.verify_iff _ _ _).2 (assemble_valid recover g hg sigs hrec)

end Whv.Proc
