import Whv.Model.Supervisor
/-!
# Lemmas about the supervisor model (used by `Whv.Props.C18`)

The central object is the token count `tok s dn`: the number of goroutines of `dn` that are running or whose
schedule / died request is still travelling to the processor.  `Inv` says there is at most one token per dn, a
token implies the node exists and is not marked `exited`, and `DEAD`/`CANCELED` nodes are marked `exited`.
`inv_step` shows every transition preserves `Inv`, given — at GC steps only — that the `DONE` nodes of the
subtrees about to be restarted are marked `exited` (`DoneReturned`).  The repaired GC guarantees that by itself.
-/
namespace Whv.Sup

/-! ## generic list facts -/

theorem countP_erase_of_mem {α} [BEq α] [LawfulBEq α] {l : List α} {a : α} (p : α → Bool) (h : a ∈ l) :
    l.countP p = (l.erase a).countP p + (if p a = true then 1 else 0) := by
  rw [(List.perm_cons_erase h).countP_eq p, List.countP_cons]

theorem eq_of_nodup_map {α β} (f : α → β) : ∀ {l : List α}, (l.map f).Nodup → ∀ {a b}, a ∈ l → b ∈ l → f a = f b → a = b
  | [], _, _, _, ha, _, _ => by cases ha
  | x :: l, h, a, b, ha, hb, hab => by
    rw [List.map_cons, List.nodup_cons] at h
    rcases List.mem_cons.1 ha with ha' | ha' <;> rcases List.mem_cons.1 hb with hb' | hb'
    · rw [ha', hb']
    · subst ha'; exact absurd (by rw [hab]; exact List.mem_map.2 ⟨b, hb', rfl⟩) h.1
    · subst hb'; exact absurd (by rw [← hab]; exact List.mem_map.2 ⟨a, ha', rfl⟩) h.1
    · exact eq_of_nodup_map f h.2 ha' hb' hab

theorem countP_le_one_of_nodup_map {α β} [DecidableEq β] (f : α → β) {l : List α} (h : (l.map f).Nodup) (d : β) :
    l.countP (fun x => f x = d) ≤ 1 := by
  have h1 := (List.nodup_iff_count.1 h) d
  rw [List.count_eq_countP, List.countP_map] at h1
  exact h1

theorem filterMap_map_sublist {α β} (f : α → β) (h : α → Option α) (hh : ∀ a b, h a = some b → f b = f a) :
    ∀ l : List α, ((l.filterMap h).map f).Sublist (l.map f)
  | [] => by simp
  | a :: l => by
    have ih := filterMap_map_sublist f h hh l
    rw [List.filterMap_cons]
    cases hb : h a with
    | none => simpa using ih.cons _
    | some b => simpa [hh a b hb] using ih.cons_cons (f a)

/-! ## tree facts -/

theorem find_some {t : Tree} {dn : DN} {n : Node} (h : find t dn = some n) : n ∈ t ∧ n.dn = dn := by
  unfold find at h
  exact ⟨List.mem_of_find?_eq_some h, by simpa using List.find?_some h⟩

theorem find_none {t : Tree} {dn : DN} (h : find t dn = none) : ∀ n ∈ t, n.dn ≠ dn := by
  unfold find at h
  intro n hn
  simpa using (List.find?_eq_none.1 h) n hn

theorem find_isSome_of_mem {t : Tree} {n : Node} (h : n ∈ t) : (find t n.dn).isSome = true := by
  cases hf : find t n.dn with
  | some _ => rfl
  | none => exact absurd rfl (find_none hf n h)

theorem find_eq_of_nodup {t : Tree} (hnd : (t.map (·.dn)).Nodup) {n : Node} (h : n ∈ t) : find t n.dn = some n := by
  cases hf : find t n.dn with
  | none => exact absurd rfl (find_none hf n h)
  | some m =>
    obtain ⟨hm, hdn⟩ := find_some hf
    rw [eq_of_nodup_map (·.dn) hnd hm h hdn]

theorem above_under {p d : DN} (h : above p d = true) : under p d = true := by
  unfold above at h; unfold under
  simp only [Bool.and_eq_true] at h; exact h.1

theorem under_refl (d : DN) : under d d = true := by
  unfold under; exact List.isPrefixOf_iff_prefix.2 (List.prefix_refl d)

theorem not_above_self (d : DN) : above d d = false := by
  unfold above; simp

/-- Maps that only touch the `cancelled` flag. -/
def CancelOnly (g : Node → Node) : Prop := ∀ n, g n = n ∨ g n = { n with cancelled := true }

theorem CancelOnly.dn {g} (h : CancelOnly g) (n : Node) : (g n).dn = n.dn := by rcases h n with e | e <;> rw [e]
theorem CancelOnly.state {g} (h : CancelOnly g) (n : Node) : (g n).state = n.state := by rcases h n with e | e <;> rw [e]
theorem CancelOnly.exited {g} (h : CancelOnly g) (n : Node) : (g n).exited = n.exited := by rcases h n with e | e <;> rw [e]
theorem CancelOnly.groups {g} (h : CancelOnly g) (n : Node) : (g n).groups = n.groups := by rcases h n with e | e <;> rw [e]
theorem CancelOnly.bo {g} (h : CancelOnly g) (n : Node) : (g n).bo = n.bo := by rcases h n with e | e <;> rw [e]
theorem CancelOnly.mono {g} (h : CancelOnly g) (n : Node) (hc : n.cancelled = true) : (g n).cancelled = true := by
  rcases h n with e | e <;> rw [e] <;> simp [hc]

theorem CancelOnly.comp {g₁ g₂} (h₁ : CancelOnly g₁) (h₂ : CancelOnly g₂) : CancelOnly (g₂ ∘ g₁) := by
  intro n
  simp only [Function.comp]
  rcases h₁ n with e₁ | e₁ <;> rcases h₂ (g₁ n) with e₂ | e₂ <;> rw [e₂, e₁] <;> simp

def cancelFn (dn : DN) (n : Node) : Node := if under dn n.dn then { n with cancelled := true } else n

theorem cancelSub_eq (t : Tree) (dn : DN) : cancelSub t dn = t.map (cancelFn dn) := rfl

theorem cancelFn_cancelOnly (dn : DN) : CancelOnly (cancelFn dn) := by
  intro n; unfold cancelFn; split <;> simp

theorem foldl_cancelSub (par : DN) : ∀ (sibs : List String) (t : Tree),
    ∃ g : Node → Node, CancelOnly g ∧
      (∀ n, (g n).cancelled = true ↔ n.cancelled = true ∨ ∃ s ∈ sibs, under (par ++ [s]) n.dn = true) ∧
      sibs.foldl (fun t s => cancelSub t (par ++ [s])) t = t.map g
  | [], t => ⟨id, fun n => Or.inl rfl, by simp, by simp⟩
  | x :: sibs, t => by
    obtain ⟨g, hg, hc, he⟩ := foldl_cancelSub par sibs (cancelSub t (par ++ [x]))
    refine ⟨g ∘ cancelFn (par ++ [x]), (cancelFn_cancelOnly _).comp hg, ?_, ?_⟩
    · intro n
      simp only [Function.comp, hc, List.mem_cons, exists_eq_or_imp]
      have hdn : (cancelFn (par ++ [x]) n).dn = n.dn := (cancelFn_cancelOnly _).dn n
      rw [hdn]
      unfold cancelFn
      by_cases hu : under (par ++ [x]) n.dn = true
      · simp [hu]
      · simp [hu]
    · rw [List.foldl_cons, he, cancelSub_eq, List.map_map]

/-! ## tokens -/

def tokL (s : Sys) (dn : DN) : Nat := s.live.countP (fun i => i.dn = dn)
def tokP (s : Sys) (dn : DN) : Nat := s.pend.countP (fun r => r.dn = dn)
/-- goroutines of `dn` running or announced: live instances plus requests on their way to the processor -/
def tok (s : Sys) (dn : DN) : Nat := tokL s dn + tokP s dn

theorem liveCount_eq (s : Sys) (dn : DN) : liveCount s dn = tokL s dn := by
  unfold liveCount tokL; rw [List.countP_eq_length_filter]

structure Inv (s : Sys) : Prop where
  nodup : (s.tree.map (·.dn)).Nodup
  tok_le : ∀ dn, tok s dn ≤ 1
  tok_node : ∀ dn, 0 < tok s dn → ∃ n ∈ s.tree, n.dn = dn ∧ n.exited = false
  dead_exited : ∀ n ∈ s.tree, (n.state = .dead ∨ n.state = .canceled) → n.exited = true

/-- "A Done runnable has returned (and the processor has seen it) before an ancestor — or the node itself as part
of a larger restart — is rescheduled": every `DONE` node inside a subtree the GC is about to restart is `exited`. -/
def DoneReturned (fixed : Bool) (s : Sys) : Prop :=
  ∀ r ∈ can fixed s.tree, ∀ n ∈ s.tree, under r.dn n.dn = true → n.state = .done → n.exited = true

theorem mem_can {fixed : Bool} {t : Tree} {n : Node} : n ∈ can fixed t ↔ n ∈ t ∧ inCan fixed t n = true := by
  unfold can; exact List.mem_filter

theorem inCan_ready {fixed : Bool} {t : Tree} {n : Node} (h : inCan fixed t n = true) : ready fixed t n.dn = true := by
  unfold inCan eligible at h
  simp only [Bool.and_eq_true] at h
  exact h.1.1.2

theorem inCan_want {fixed : Bool} {t : Tree} {n : Node} (h : inCan fixed t n = true) : want n = true := by
  unfold inCan eligible at h
  simp only [Bool.and_eq_true] at h
  exact h.1.1.1

theorem inCan_parentLive {fixed : Bool} {t : Tree} {n : Node} (h : inCan fixed t n = true) : parentLive t n.dn = true := by
  unfold inCan eligible at h
  simp only [Bool.and_eq_true] at h
  exact h.1.2

theorem ready_under {fixed : Bool} {t : Tree} {r : DN} {n : Node} (h : ready fixed t r = true) (hn : n ∈ t)
    (hu : under r n.dn = true) : readySelf fixed n = true := by
  unfold ready at h
  have := (List.all_eq_true.1 h) n hn
  simpa [hu] using this

theorem readySelf_states {fixed : Bool} {n : Node} (h : readySelf fixed n = true) :
    n.state = .done ∨ n.state = .canceled ∨ n.state = .dead := by
  unfold readySelf at h
  cases hs : n.state <;> simp [hs] at h ⊢

/-- The repaired readiness test makes the hypothesis a consequence of the GC's own check. -/
theorem doneReturned_fixed (s : Sys) : DoneReturned true s := by
  intro r hr n hn hu hd
  have h := ready_under (inCan_ready (mem_can.1 hr).2) hn hu
  unfold readySelf at h
  simpa [hd] using h

/-- Under `Inv` and `DoneReturned`, nothing inside a subtree in `can` holds a token. -/
theorem can_subtree_exited {fixed : Bool} {s : Sys} (hI : Inv s) (hD : DoneReturned fixed s)
    {r n : Node} (hr : r ∈ can fixed s.tree) (hn : n ∈ s.tree) (hu : under r.dn n.dn = true) : n.exited = true := by
  have h := ready_under (inCan_ready (mem_can.1 hr).2) hn hu
  rcases readySelf_states h with hd | hc | hd
  · exact hD r hr n hn hu hd
  · exact hI.dead_exited n hn (Or.inr hc)
  · exact hI.dead_exited n hn (Or.inl hd)

theorem tok_zero_of_exited {s : Sys} (hI : Inv s) {n : Node} (hn : n ∈ s.tree) (he : n.exited = true) : tok s n.dn = 0 := by
  cases h : tok s n.dn with
  | zero => rfl
  | succ k =>
    obtain ⟨m, hm, hdn, hex⟩ := hI.tok_node n.dn (by omega)
    have := eq_of_nodup_map (·.dn) hI.nodup hm hn hdn
    subst this
    rw [he] at hex; cases hex

/-! ## characterisation of the processor functions as maps -/

theorem modify_eq (t : Tree) (dn : DN) (f : Node → Node) : modify t dn f = t.map (fun n => if n.dn = dn then f n else n) := rfl

/-- `processDied` rewrites the tree node-wise: the dead node is marked `exited`, other nodes keep state and mark. -/
theorem processDied_spec {t t' : Tree} {dn : DN} {e : ErrKind} (h : processDied t dn e = .ok t') :
    ∃ g : Node → Node, t' = t.map g ∧ (∀ n, (g n).dn = n.dn) ∧
      (∀ n, n.dn ≠ dn → (g n).exited = n.exited ∧ (g n).state = n.state) ∧
      (∀ n, n.dn = dn → (g n).exited = true) ∧
      (∀ n, (g n).bo = n.bo ∧ (n.cancelled = true → (g n).cancelled = true)) := by
  unfold processDied at h
  split at h
  · cases h
  · rename_i n hf
    simp only at h
    split at h
    · -- DONE and nil: nothing but the mark
      cases h
      refine ⟨fun m => if m.dn = dn then { m with exited := true } else m, rfl, ?_, ?_, ?_, ?_⟩
      · intro m; dsimp only; split <;> rfl
      · intro m hm; simp [hm]
      · intro m hm; simp [hm]
      · intro m; dsimp only; split <;> exact ⟨rfl, id⟩
    · split at h
      · -- cancelled
        cases h
        refine ⟨fun m => if m.dn = dn then { m with exited := true, state := .canceled } else m, ?_, ?_, ?_, ?_, ?_⟩
        · simp only [modify_eq, List.map_map]
          congr 1; funext m; simp only [Function.comp]; split <;> simp_all
        · intro m; dsimp only; split <;> rfl
        · intro m hm; simp [hm]
        · intro m hm; simp [hm]
        · intro m; dsimp only; split <;> exact ⟨rfl, id⟩
      · -- dead: mark, cancel the subtree, cancel the group siblings
        let g₀ : Node → Node := fun m => cancelFn dn (if m.dn = dn then { m with exited := true, state := .dead } else m)
        have hg₀ : cancelSub (modify (modify t dn fun n => { n with exited := true }) dn fun n => { n with state := .dead }) dn = t.map g₀ := by
          simp only [modify_eq, cancelSub_eq, List.map_map]
          congr 1; funext m; simp only [Function.comp, g₀]; split <;> simp_all
        have p₀ : (∀ n, (g₀ n).dn = n.dn) ∧ (∀ n, n.dn ≠ dn → (g₀ n).exited = n.exited ∧ (g₀ n).state = n.state) ∧
            (∀ n, n.dn = dn → (g₀ n).exited = true) ∧
            (∀ n, (g₀ n).bo = n.bo ∧ (n.cancelled = true → (g₀ n).cancelled = true)) := by
          refine ⟨fun m => ?_, fun m hm => ?_, fun m hm => ?_, fun m => ⟨?_, fun hc => ?_⟩⟩
          · simp only [g₀]; rw [(cancelFn_cancelOnly dn).dn]; split <;> rfl
          · simp only [g₀]; rw [(cancelFn_cancelOnly dn).exited, (cancelFn_cancelOnly dn).state]; simp [hm]
          · simp only [g₀]; rw [(cancelFn_cancelOnly dn).exited]; simp [hm]
          · simp only [g₀]; rw [(cancelFn_cancelOnly dn).bo]; split <;> rfl
          · simp only [g₀]; apply (cancelFn_cancelOnly dn).mono; split <;> exact hc
        rw [hg₀] at h
        split at h
        · cases h; exact ⟨g₀, rfl, p₀⟩
        · split at h
          · cases h
          · split at h
            · cases h
            · rename_i name _ _ p _ _
              cases h
              obtain ⟨g, hg, _, he⟩ := foldl_cancelSub dn.dropLast ((groupOf p.groups name).filter (· ≠ name)) (t.map g₀)
              refine ⟨g ∘ g₀, ?_, ?_, ?_, ?_, ?_⟩
              · rw [he, List.map_map]
              · intro m; simp only [Function.comp]; rw [hg.dn, p₀.1]
              · intro m hm; simp only [Function.comp]; rw [hg.exited, hg.state]; exact p₀.2.1 m hm
              · intro m hm; simp only [Function.comp]; rw [hg.exited]; exact p₀.2.2.1 m hm
              · intro m; simp only [Function.comp]; rw [hg.bo]
                exact ⟨(p₀.2.2.2 m).1, fun hc => hg.mono _ ((p₀.2.2.2 m).2 hc)⟩

/-! ## token bookkeeping -/

theorem countP_singleton_dn {α} (f : α → DN) (a : α) (d : DN) :
    [a].countP (fun x => f x = d) = if f a = d then 1 else 0 := by
  simp [List.countP_cons]

/-- a pending request becomes a running goroutine of the same dn -/
theorem tok_pend_to_live (s : Sys) (r : Req) (hr : r ∈ s.pend) (i : Inst) (hi : i.dn = r.dn) (d : DN) :
    (s.live ++ [i]).countP (fun i => i.dn = d) + (s.pend.erase r).countP (fun r => r.dn = d) = tok s d := by
  unfold tok tokL tokP
  rw [List.countP_append, countP_erase_of_mem (fun r => decide (r.dn = d)) hr, countP_singleton_dn, hi]
  simp only [decide_eq_true_eq]
  omega

/-- a running goroutine ends: its died request is on its way -/
theorem tok_live_to_pend (s : Sys) (i : Inst) (hi : i ∈ s.live) (r : Req) (hr : r.dn = i.dn) (d : DN) :
    (s.live.erase i).countP (fun i => i.dn = d) + (s.pend ++ [r]).countP (fun r => r.dn = d) = tok s d := by
  unfold tok tokL tokP
  rw [List.countP_append, countP_erase_of_mem (fun i => decide (i.dn = d)) hi, countP_singleton_dn, hr]
  simp only [decide_eq_true_eq]
  omega

theorem Inv.of_same {s s' : Sys} (hI : Inv s) (ht : s'.tree = s.tree) (hk : ∀ d, tok s' d = tok s d) : Inv s' where
  nodup := by rw [ht]; exact hI.nodup
  tok_le := fun d => by rw [hk]; exact hI.tok_le d
  tok_node := fun d h => by rw [hk] at h; rw [ht]; exact hI.tok_node d h
  dead_exited := by rw [ht]; exact hI.dead_exited

theorem Inv.of_map {s s' : Sys} (hI : Inv s) (g : Node → Node) (ht : s'.tree = s.tree.map g)
    (hdn : ∀ n, (g n).dn = n.dn) (hk : ∀ d, tok s' d ≤ tok s d)
    (hex : ∀ n ∈ s.tree, 0 < tok s' n.dn → (g n).exited = n.exited)
    (hde : ∀ n ∈ s.tree, ((g n).state = .dead ∨ (g n).state = .canceled) → (g n).exited = true) : Inv s' where
  nodup := by
    rw [ht, List.map_map]
    have : ((fun n : Node => n.dn) ∘ g) = fun n => n.dn := by funext n; exact hdn n
    rw [this]; exact hI.nodup
  tok_le := fun d => Nat.le_trans (hk d) (hI.tok_le d)
  tok_node := fun d h => by
    obtain ⟨n, hn, hd, he⟩ := hI.tok_node d (Nat.lt_of_lt_of_le h (hk d))
    refine ⟨g n, by rw [ht]; exact List.mem_map.2 ⟨n, hn, rfl⟩, by rw [hdn, hd], ?_⟩
    rw [hex n hn (by rw [hd]; exact h), he]
  dead_exited := fun m hm h => by
    rw [ht] at hm
    obtain ⟨n, hn, rfl⟩ := List.mem_map.1 hm
    exact hde n hn h

/-! ## runGroup -/

theorem runGroup_spec {P : Params} {t t' : Tree} {dn : DN} {names : List String} {inc : Nat}
    (h : runGroup P t dn names inc = .ok (some t')) :
    ∃ n, find t dn = some n ∧ n.state = .new ∧ (∀ nm ∈ names, validName nm = true ∧ find t (dn ++ [nm]) = none) ∧
      t' = modify t dn (fun n => { n with groups := n.groups ++ [names] }) ++ names.map (newChild P n inc) := by
  unfold runGroup at h
  split at h
  · cases h
  · rename_i n hf
    split at h
    · cases h
    · rename_i hst
      split at h
      · cases h
      · rename_i hany
        simp only [Except.ok.injEq, Option.some.injEq] at h
        refine ⟨n, hf, by simpa using hst, ?_, h.symm⟩
        intro nm hnm
        have := hany
        simp only [List.any_eq_true, not_exists, not_and, Bool.or_eq_true, Bool.not_eq_true', not_or] at this
        have h2 := this nm hnm
        constructor
        · simpa using h2.1
        · cases hf2 : find t (dn ++ [nm]) with
          | none => rfl
          | some _ => simp [hf2] at h2

theorem nodup_map_append_singleton (dn : DN) {names : List String} (h : names.Nodup) :
    (names.map fun nm => dn ++ [nm]).Nodup := by
  unfold List.Nodup at *
  exact List.Pairwise.map _ (fun a b hab e => hab (by simpa using e)) h

/-! ## GC -/

def gcMap (P : Params) (fixed : Bool) (t : Tree) (inc : Nat) (n : Node) : Option Node :=
  if inCan fixed t n then some (resetNode P t inc n)
  else if (can fixed t).any (fun r => above r.dn n.dn) then none
  else some n

theorem processGC_tree (P : Params) (fixed : Bool) (t : Tree) (inc : Nat) :
    (processGC P fixed t inc).1 = t.filterMap (gcMap P fixed t inc) := rfl

theorem processGC_reqs (P : Params) (fixed : Bool) (t : Tree) (inc : Nat) :
    (processGC P fixed t inc).2 = (can fixed t).map (fun n => (n.dn, backoffOf n)) := rfl

theorem gcMap_dn {P : Params} {fixed : Bool} {t : Tree} {inc : Nat} {n m : Node} (h : gcMap P fixed t inc n = some m) : m.dn = n.dn := by
  unfold gcMap at h
  split at h
  · cases h; rfl
  · split at h
    · cases h
    · cases h; rfl

theorem tok_erase_pend (s : Sys) (r : Req) (hr : r ∈ s.pend) (d : DN) :
    s.live.countP (fun i => i.dn = d) + (s.pend.erase r).countP (fun r => r.dn = d) + (if r.dn = d then 1 else 0) = tok s d := by
  unfold tok tokL tokP
  rw [countP_erase_of_mem (fun r => decide (r.dn = d)) hr]
  simp only [decide_eq_true_eq]
  omega

theorem signal_spec {P : Params} {t t' : Tree} {dn : DN} {sg : Signal} (h : signal P t dn sg = .ok t') :
    ∃ f : Node → Node, t' = modify t dn f ∧
      ∀ n, (f n).dn = n.dn ∧ (f n).exited = n.exited ∧ ((f n).state = .healthy ∨ (f n).state = .done) ∧
        (f n).cancelled = n.cancelled := by
  unfold signal at h
  split at h
  · cases h
  · cases sg with
    | healthy =>
      simp only at h
      split at h
      · cases h
      · cases h; exact ⟨_, rfl, fun n => ⟨rfl, rfl, Or.inl rfl, rfl⟩⟩
    | done =>
      simp only at h
      split at h
      · cases h
      · cases h; exact ⟨_, rfl, fun n => ⟨rfl, rfl, Or.inr rfl, rfl⟩⟩

theorem inv_init (P : Params) : Inv (init P) where
  nodup := by simp [init, rootNode]
  tok_le := fun d => by
    simp only [tok, tokL, tokP, init, List.countP_nil, List.countP_cons, Req.dn]
    split <;> omega
  tok_node := fun d h => by
    refine ⟨rootNode P, by simp [init], ?_, rfl⟩
    simp only [tok, tokL, tokP, init, List.countP_nil, List.countP_cons, Req.dn] at h
    split at h
    · rename_i e; simpa [rootNode] using e
    · omega
  dead_exited := fun n hn h => by
    simp only [init, List.mem_singleton] at hn
    subst hn
    simp [rootNode] at h

/-- Every transition preserves `Inv`; GC steps need the `DONE` nodes of the restarted subtrees to have returned. -/
theorem inv_step {P : Params} {fixed : Bool} {s s' : Sys} {a : Act} (hI : Inv s)
    (hgc : a = .gc → DoneReturned fixed s) (h : step P fixed s a = some s') : Inv s' := by
  cases a with
  | sched dn =>
    simp only [step] at h
    split at h
    · cases h
    · split at h
      · cases h
      · rename_i hp
        have hp : Req.sched dn ∈ s.pend := Decidable.not_not.1 hp
        split at h
        · cases h
        · cases h
          exact hI.of_same rfl fun d => tok_pend_to_live s (.sched dn) hp _ rfl d
  | died dn e =>
    simp only [step] at h
    split at h
    · cases h
    · split at h
      · cases h
      · rename_i hp
        have hp : Req.died dn e ∈ s.pend := Decidable.not_not.1 hp
        split at h
        · cases h
        · rename_i t hpd
          cases h
          obtain ⟨g, rfl, hdn, hoth, hself, _⟩ := processDied_spec hpd
          have hk := fun d => tok_erase_pend s (.died dn e) hp d
          have hdn0 : s.live.countP (fun i => i.dn = dn) + (s.pend.erase (.died dn e)).countP (fun r => r.dn = dn) = 0 := by
            have := hk dn; have := hI.tok_le dn; simp only [Req.dn, if_true] at *; omega
          refine hI.of_map g rfl hdn (fun d => ?_) (fun n hn hpos => ?_) (fun n hn hst => ?_)
          · have := hk d; simp only [tok, tokL, tokP] at *; omega
          · by_cases hnd : n.dn = dn
            · rw [hnd] at hpos; simp only [tok, tokL, tokP] at hpos; omega
            · exact (hoth n hnd).1
          · by_cases hnd : n.dn = dn
            · exact hself n hnd
            · rw [(hoth n hnd).1]; rw [(hoth n hnd).2] at hst; exact hI.dead_exited n hn hst
  | gc =>
    simp only [step] at h
    split at h
    · cases h
    · cases h
      have hD := hgc rfl
      have hsub : ∀ r ∈ can fixed s.tree, ∀ n ∈ s.tree, under r.dn n.dn = true → n.exited = true :=
        fun r hr n hn hu => can_subtree_exited hI hD hr hn hu
      have hcnd : ((can fixed s.tree).map (·.dn)).Nodup :=
        List.Nodup.sublist (List.Sublist.map _ (List.filter_sublist)) hI.nodup
      -- tokens: old ones plus one per restarted node
      have hk : ∀ d, tok { s with tree := (processGC P fixed s.tree s.nextInc).1,
                                   pend := s.pend ++ ((processGC P fixed s.tree s.nextInc).2.map fun r => Req.sched r.1),
                                   nextInc := s.nextInc + 1 } d
                    = tok s d + (can fixed s.tree).countP (fun r => r.dn = d) := by
        intro d
        simp only [tok, tokL, tokP, processGC_reqs, List.countP_append, List.map_map, List.countP_map]
        have : ((fun r : Req => decide (r.dn = d)) ∘ ((fun r : DN × Nat => Req.sched r.1) ∘ fun n : Node => (n.dn, backoffOf n)))
            = fun r : Node => decide (r.dn = d) := by funext r; simp only [Function.comp, Req.dn]; first | rfl | congr
        rw [this]; omega
      have hc1 : ∀ d, (can fixed s.tree).countP (fun r => r.dn = d) ≤ 1 := fun d => countP_le_one_of_nodup_map (fun n : Node => n.dn) hcnd d
      have hzero : ∀ r ∈ can fixed s.tree, tok s r.dn = 0 := fun r hr =>
        tok_zero_of_exited hI (mem_can.1 hr).1 (hsub r hr r (mem_can.1 hr).1 (under_refl _))
      constructor
      · exact List.Nodup.sublist (filterMap_map_sublist (·.dn) _ (fun a b hab => gcMap_dn hab) s.tree) hI.nodup
      · intro d
        rw [hk]
        by_cases hpos : 0 < (can fixed s.tree).countP (fun r => r.dn = d)
        · obtain ⟨r, hr, hrd⟩ := List.countP_pos_iff.1 hpos
          have hrd : r.dn = d := by simpa using hrd
          have := hzero r hr; rw [hrd] at this
          have := hc1 d; omega
        · have := hI.tok_le d; omega
      · intro d hd
        rw [hk] at hd
        by_cases hpos : 0 < (can fixed s.tree).countP (fun r => r.dn = d)
        · obtain ⟨r, hr, hrd⟩ := List.countP_pos_iff.1 hpos
          have hrd : r.dn = d := by simpa using hrd
          refine ⟨resetNode P s.tree s.nextInc r, ?_, hrd, rfl⟩
          show _ ∈ (processGC P fixed s.tree s.nextInc).1
          rw [processGC_tree]
          exact List.mem_filterMap.2 ⟨r, (mem_can.1 hr).1, by simp [gcMap, (mem_can.1 hr).2]⟩
        · obtain ⟨n, hn, hnd, hne⟩ := hI.tok_node d (by omega)
          refine ⟨n, ?_, hnd, hne⟩
          show _ ∈ (processGC P fixed s.tree s.nextInc).1
          rw [processGC_tree]
          refine List.mem_filterMap.2 ⟨n, hn, ?_⟩
          unfold gcMap
          have h1 : inCan fixed s.tree n = false := by
            cases hc : inCan fixed s.tree n with
            | false => rfl
            | true =>
              exact absurd (List.countP_pos_iff.2 ⟨n, mem_can.2 ⟨hn, hc⟩, by simpa using hnd⟩) hpos
          have h2 : ((can fixed s.tree).any fun r => above r.dn n.dn) = false := by
            cases hc : (can fixed s.tree).any fun r => above r.dn n.dn with
            | false => rfl
            | true =>
              obtain ⟨r, hr, hab⟩ := List.any_eq_true.1 hc
              have := hsub r hr n hn (above_under hab)
              rw [hne] at this; cases this
          simp [h1, h2]
      · intro m hm hst
        have hm : m ∈ (processGC P fixed s.tree s.nextInc).1 := hm
        rw [processGC_tree] at hm
        obtain ⟨n, hn, hg⟩ := List.mem_filterMap.1 hm
        unfold gcMap at hg
        split at hg
        · cases hg; simp [resetNode] at hst
        · split at hg
          · cases hg
          · cases hg; exact hI.dead_exited m hn hst
  | kill =>
    simp only [step] at h
    split at h
    · cases h
    · cases h
      refine hI.of_map (fun n => { n with cancelled := true }) rfl (fun _ => rfl) (fun d => Nat.le_refl _)
        (fun _ _ _ => rfl) (fun n hn hst => hI.dead_exited n hn hst)
  | sig iid sg =>
    simp only [step] at h
    split at h
    · cases h
    · rename_i i hfi
      have hi : i ∈ s.live := List.mem_of_find?_eq_some hfi
      split at h
      · rename_i t hs
        cases h
        obtain ⟨f, rfl, hf⟩ := signal_spec hs
        refine hI.of_map (fun n => if n.dn = i.dn then f n else n) (modify_eq _ _ _) (fun n => ?_) (fun d => Nat.le_refl _)
          (fun n _ _ => ?_) (fun n hn hst => ?_)
        · show (if n.dn = i.dn then f n else n).dn = n.dn
          split
          · exact (hf n).1
          · rfl
        · show (if n.dn = i.dn then f n else n).exited = n.exited
          split
          · exact (hf n).2.1
          · rfl
        · change ((if n.dn = i.dn then f n else n).state = .dead ∨ (if n.dn = i.dn then f n else n).state = .canceled) at hst
          show (if n.dn = i.dn then f n else n).exited = true
          split at hst
          · rcases (hf n).2.2.1 with e | e <;> rw [e] at hst <;> simp at hst
          · rename_i hne; simp only [hne, if_false]; exact hI.dead_exited n hn hst
      · cases h
        exact hI.of_same rfl fun d => tok_live_to_pend s i hi (.died i.dn .other) rfl d
  | run iid names =>
    simp only [step] at h
    split at h
    · cases h
    · rename_i i hfi
      have hi : i ∈ s.live := List.mem_of_find?_eq_some hfi
      split at h
      · cases h
      · rename_i hnd
        have hnd : names.Nodup := Decidable.not_not.1 hnd
        split at h
        · rename_i t hr
          cases h
          obtain ⟨n, hfn, _, hfree, rfl⟩ := runGroup_spec hr
          obtain ⟨hn, hndn⟩ := find_some hfn
          have hnames : (names.map fun nm => i.dn ++ [nm]).Nodup := nodup_map_append_singleton i.dn hnd
          have hk : ∀ d, tok { s with tree := modify s.tree i.dn (fun n => { n with groups := n.groups ++ [names] }) ++ names.map (newChild P n s.nextInc),
                                       pend := s.pend ++ names.map (fun nm => Req.sched (i.dn ++ [nm])),
                                       nextInc := s.nextInc + 1 } d
                        = tok s d + names.countP (fun nm => i.dn ++ [nm] = d) := by
            intro d
            simp only [tok, tokL, tokP, List.countP_append, List.countP_map]
            have : ((fun r : Req => decide (r.dn = d)) ∘ fun nm => Req.sched (i.dn ++ [nm])) = fun nm => decide (i.dn ++ [nm] = d) := by
              funext nm; simp only [Function.comp, Req.dn]; first | rfl | congr
            rw [this]; omega
          have hc1 : ∀ d, names.countP (fun nm => i.dn ++ [nm] = d) ≤ 1 := fun d =>
            countP_le_one_of_nodup_map (fun nm => i.dn ++ [nm]) hnames d
          have hzero : ∀ nm ∈ names, tok s (i.dn ++ [nm]) = 0 := by
            intro nm hnm
            cases ht : tok s (i.dn ++ [nm]) with
            | zero => rfl
            | succ k =>
              obtain ⟨m, hm, hmd, _⟩ := hI.tok_node (i.dn ++ [nm]) (by omega)
              exact absurd hmd (find_none (hfree nm hnm).2 m hm)
          have hmodmem : ∀ m ∈ s.tree, ∃ m' ∈ modify s.tree i.dn (fun n => { n with groups := n.groups ++ [names] }),
              m'.dn = m.dn ∧ m'.exited = m.exited ∧ m'.state = m.state := by
            intro m hm
            refine ⟨if m.dn = i.dn then { m with groups := m.groups ++ [names] } else m, ?_, ?_, ?_, ?_⟩
            · rw [modify_eq]; exact List.mem_map.2 ⟨m, hm, rfl⟩
            all_goals split <;> rfl
          constructor
          · show ((modify s.tree i.dn _ ++ names.map (newChild P n s.nextInc)).map (·.dn)).Nodup
            rw [List.map_append, List.nodup_append]
            refine ⟨?_, ?_, ?_⟩
            · rw [modify_eq, List.map_map]
              have : ((fun n : Node => n.dn) ∘ fun n : Node => if n.dn = i.dn then { n with groups := n.groups ++ [names] } else n)
                  = fun n => n.dn := by funext m; simp only [Function.comp]; split <;> rfl
              rw [this]; exact hI.nodup
            · rw [List.map_map]
              have : ((fun n : Node => n.dn) ∘ newChild P n s.nextInc) = fun nm => i.dn ++ [nm] := by
                funext nm; simp [newChild, hndn]
              rw [this]; exact hnames
            · intro a ha b hb hab
              obtain ⟨m', hm', rfl⟩ := List.mem_map.1 ha
              obtain ⟨c, hc, rfl⟩ := List.mem_map.1 hb
              obtain ⟨nm, hnm, rfl⟩ := List.mem_map.1 hc
              rw [modify_eq] at hm'
              obtain ⟨m, hm, rfl⟩ := List.mem_map.1 hm'
              have hmdn : (if m.dn = i.dn then { m with groups := m.groups ++ [names] } else m).dn = m.dn := by split <;> rfl
              rw [hmdn] at hab
              simp only [newChild, hndn] at hab
              exact find_none (hfree nm hnm).2 m hm hab
          · intro d
            rw [hk]
            by_cases hpos : 0 < names.countP (fun nm => i.dn ++ [nm] = d)
            · obtain ⟨nm, hnm, hd⟩ := List.countP_pos_iff.1 hpos
              have hd : i.dn ++ [nm] = d := by simpa using hd
              have := hzero nm hnm; rw [hd] at this
              have := hc1 d; omega
            · have := hI.tok_le d; omega
          · intro d hd
            rw [hk] at hd
            by_cases hpos : 0 < names.countP (fun nm => i.dn ++ [nm] = d)
            · obtain ⟨nm, hnm, hdd⟩ := List.countP_pos_iff.1 hpos
              have hdd : i.dn ++ [nm] = d := by simpa using hdd
              refine ⟨newChild P n s.nextInc nm, ?_, by simp [newChild, hndn, hdd], rfl⟩
              exact List.mem_append.2 (Or.inr (List.mem_map.2 ⟨nm, hnm, rfl⟩))
            · obtain ⟨m, hm, hmd, hme⟩ := hI.tok_node d (by omega)
              obtain ⟨m', hm', h1, h2, _⟩ := hmodmem m hm
              exact ⟨m', List.mem_append.2 (Or.inl hm'), by rw [h1, hmd], by rw [h2, hme]⟩
          · intro m hm hst
            rcases List.mem_append.1 hm with hm | hm
            · rw [modify_eq] at hm
              obtain ⟨m0, hm0, rfl⟩ := List.mem_map.1 hm
              have e1 : (if m0.dn = i.dn then { m0 with groups := m0.groups ++ [names] } else m0).state = m0.state := by split <;> rfl
              have e2 : (if m0.dn = i.dn then { m0 with groups := m0.groups ++ [names] } else m0).exited = m0.exited := by split <;> rfl
              rw [e1] at hst; rw [e2]; exact hI.dead_exited m0 hm0 hst
            · obtain ⟨nm, _, rfl⟩ := List.mem_map.1 hm
              simp [newChild] at hst
        · cases h; exact hI
        · cases h
          exact hI.of_same rfl fun d => tok_live_to_pend s i hi (.died i.dn .other) rfl d
  | ret iid e =>
    simp only [step] at h
    split at h
    · cases h
    · rename_i i hfi
      have hi : i ∈ s.live := List.mem_of_find?_eq_some hfi
      cases h
      exact hI.of_same rfl fun d => tok_live_to_pend s i hi (.died i.dn e) rfl d

/-! ## reachability -/

/-- States reachable from `supervisor.New`; `H` is what is assumed whenever the GC runs. -/
inductive Reach (P : Params) (fixed : Bool) (H : Sys → Prop) : Sys → Prop
  | init : Reach P fixed H (init P)
  | step {s s' : Sys} {a : Act} : Reach P fixed H s → (a = .gc → H s) → step P fixed s a = some s' → Reach P fixed H s'

theorem Reach.inv {P : Params} {fixed : Bool} {H : Sys → Prop} (hH : ∀ s, Inv s → H s → DoneReturned fixed s) {s : Sys}
    (h : Reach P fixed H s) : Inv s := by
  induction h with
  | init => exact inv_init P
  | step _ hg hs ih => exact inv_step ih (fun e => hH _ ih (hg e)) hs

theorem Reach.of_run {P : Params} {fixed : Bool} : ∀ (acts : List Act) {s s' : Sys},
    Reach P fixed (fun _ => True) s → run P fixed s acts = some s' → Reach P fixed (fun _ => True) s'
  | [], s, s', hs, h => by simp only [run, Option.some.injEq] at h; exact h ▸ hs
  | a :: as, s, s', hs, h => by
    simp only [run] at h
    split at h
    · rename_i s₁ hs₁; exact Reach.of_run as (Reach.step hs (fun _ => trivial) hs₁) h
    · cases h

theorem mutex_of_inv {s : Sys} (hI : Inv s) (dn : DN) : liveCount s dn ≤ 1 := by
  rw [liveCount_eq]
  have := hI.tok_le dn
  unfold tok at this; omega

/-! ## prefixes -/

theorem under_trans {a b c : DN} (h1 : under a b = true) (h2 : under b c = true) : under a c = true := by
  unfold under at *
  rw [List.isPrefixOf_iff_prefix] at *
  exact List.IsPrefix.trans h1 h2

theorem above_length {a b : DN} (h : above a b = true) : a.length < b.length := by
  unfold above at h
  simp only [Bool.and_eq_true, decide_eq_true_eq] at h
  exact h.2

theorem above_of_above_under {a b c : DN} (h1 : above a b = true) (h2 : under b c = true) : above a c = true := by
  have hl := above_length h1
  have hu := under_trans (above_under h1) h2
  unfold above
  have : b.length ≤ c.length := by
    unfold under at h2; rw [List.isPrefixOf_iff_prefix] at h2; exact h2.length_le
  simp only [Bool.and_eq_true, decide_eq_true_eq]
  exact ⟨hu, by omega⟩

/-- A node that is eligible for restart is restarted itself, or inside the restart of an eligible ancestor. -/
theorem exists_can_above {fixed : Bool} {t : Tree} : ∀ (k : Nat) (n : Node), n ∈ t → n.dn.length ≤ k →
    eligible fixed t n = true → ∃ r ∈ can fixed t, under r.dn n.dn = true
  | k, n, hn, hk, he => by
    cases hb : blocked fixed t n.dn with
    | false =>
      exact ⟨n, mem_can.2 ⟨hn, by unfold inCan; simp [he, hb]⟩, under_refl _⟩
    | true =>
      unfold blocked at hb
      obtain ⟨m, hm, hab⟩ := List.any_eq_true.1 hb
      simp only [Bool.and_eq_true] at hab
      have hl := above_length hab.1
      match k with
      | 0 => omega
      | k + 1 =>
        obtain ⟨r, hr, hu⟩ := exists_can_above k m hm (by omega) hab.2
        exact ⟨r, hr, under_trans hu (above_under hab.1)⟩

/-! ## back-off interval stays below the cap -/

theorem next_le_max (P : Params) (c : Nat) : P.next c ≤ P.max := by
  unfold Params.next
  split
  · exact Nat.le_refl _
  · omega

/-! ## more about `processDied`: the death branch in detail -/

theorem find_map {g : Node → Node} (hg : ∀ n, (g n).dn = n.dn) (dn : DN) : ∀ t : Tree, find (t.map g) dn = (find t dn).map g
  | [] => rfl
  | n :: t => by
    unfold find
    rw [List.map_cons, List.find?_cons, List.find?_cons, hg n]
    by_cases h : n.dn = dn
    · simp [h]
    · simp only [h, decide_false]
      exact find_map hg dn t

/-- An unexpected exit: the node becomes `DEAD`, its context and everything derived from it is cancelled, and so
is every other member of its supervision group (with everything below). -/
theorem processDied_dead {t t' : Tree} {dn : DN} {e : ErrKind} {n : Node} (hf : find t dn = some n)
    (h1 : ¬(n.state = .done ∧ e = .nil)) (h2 : ¬(n.cancelled = true ∧ e = .ctx))
    (h : processDied t dn e = .ok t') :
    ∃ g : Node → Node, t' = t.map g ∧ (∀ m, (g m).dn = m.dn ∧ (g m).groups = m.groups) ∧
      (∀ m, m.dn = dn → (g m).state = .dead ∧ (g m).exited = true) ∧
      (∀ m, m.dn ≠ dn → (g m).state = m.state) ∧
      (∀ m, under dn m.dn = true → (g m).cancelled = true) ∧
      (∀ name, dn.getLast? = some name → ∀ p, find t dn.dropLast = some p →
        ∀ sib ∈ groupOf p.groups name, sib ≠ name → ∀ m, under (dn.dropLast ++ [sib]) m.dn = true → (g m).cancelled = true) := by
  unfold processDied at h
  rw [hf] at h
  simp only [h1, h2, if_false] at h
  let g₀ : Node → Node := fun m => cancelFn dn (if m.dn = dn then { m with exited := true, state := .dead } else m)
  have hg₀ : cancelSub (modify (modify t dn fun n => { n with exited := true }) dn fun n => { n with state := .dead }) dn = t.map g₀ := by
    simp only [modify_eq, cancelSub_eq, List.map_map]
    congr 1; funext m; simp only [Function.comp, g₀]; split <;> simp_all
  have hdn₀ : ∀ m, (g₀ m).dn = m.dn := fun m => by
    simp only [g₀]; rw [(cancelFn_cancelOnly dn).dn]; split <;> rfl
  have hgr₀ : ∀ m, (g₀ m).groups = m.groups := fun m => by
    simp only [g₀]; rw [(cancelFn_cancelOnly dn).groups]; split <;> rfl
  have hst₀ : ∀ m, m.dn = dn → (g₀ m).state = .dead ∧ (g₀ m).exited = true := fun m hm => by
    simp only [g₀]; rw [(cancelFn_cancelOnly dn).state, (cancelFn_cancelOnly dn).exited]; simp [hm]
  have hso₀ : ∀ m, m.dn ≠ dn → (g₀ m).state = m.state := fun m hm => by
    simp only [g₀]; rw [(cancelFn_cancelOnly dn).state]; simp [hm]
  have hc₀ : ∀ m, under dn m.dn = true → (g₀ m).cancelled = true := fun m hm => by
    have e : (if m.dn = dn then { m with exited := true, state := .dead } else m).dn = m.dn := by split <;> rfl
    simp only [g₀, cancelFn, e, hm, if_true]
  rw [hg₀] at h
  split at h
  · rename_i hlast
    cases h
    exact ⟨g₀, rfl, fun m => ⟨hdn₀ m, hgr₀ m⟩, hst₀, hso₀, hc₀, fun name hn => by rw [hlast] at hn; cases hn⟩
  · rename_i name hlast
    rw [find_map hdn₀] at h
    split at h
    · cases h
    · rename_i p' hp'
      split at h
      · cases h
      · cases h
        obtain ⟨g, hg, hcg, he⟩ := foldl_cancelSub dn.dropLast ((groupOf p'.groups name).filter (· ≠ name)) (t.map g₀)
        refine ⟨g ∘ g₀, by rw [he, List.map_map], fun m => ?_, fun m hm => ?_, fun m hm => ?_, fun m hm => ?_, ?_⟩
        · simp only [Function.comp]; rw [hg.dn, hg.groups]; exact ⟨hdn₀ m, hgr₀ m⟩
        · simp only [Function.comp]; rw [hg.state, hg.exited]; exact hst₀ m hm
        · simp only [Function.comp]; rw [hg.state]; exact hso₀ m hm
        · exact hg.mono _ (hc₀ m hm)
        · intro name' hn' p hp sib hsib hne m hm
          rw [hlast] at hn'; cases hn'
          rw [hp] at hp'
          simp only [Option.map_some, Option.some.injEq] at hp'
          subst hp'
          rw [hgr₀] at hcg
          simp only [Function.comp]
          rw [hcg]
          refine Or.inr ⟨sib, ?_, by rw [hdn₀]; exact hm⟩
          simp [hsib, hne]

/-! ## the back-off interval is bounded -/

def BoInv (P : Params) (s : Sys) : Prop := ∀ n ∈ s.tree, n.bo ≤ max P.initial P.max

theorem bo_step {P : Params} {fixed : Bool} {s s' : Sys} {a : Act} (hB : BoInv P s) (h : step P fixed s a = some s') : BoInv P s' := by
  have hi : P.initial ≤ max P.initial P.max := Nat.le_max_left _ _
  have hm : P.max ≤ max P.initial P.max := Nat.le_max_right _ _
  cases a with
  | sched dn =>
    simp only [step] at h
    split at h; · cases h
    split at h; · cases h
    split at h
    · cases h
    · cases h; exact hB
  | died dn e =>
    simp only [step] at h
    split at h; · cases h
    split at h; · cases h
    split at h
    · cases h
    · rename_i t hpd
      cases h
      obtain ⟨g, rfl, _, _, _, hbo⟩ := processDied_spec hpd
      intro m hm'
      obtain ⟨n, hn, rfl⟩ := List.mem_map.1 hm'
      rw [(hbo n).1]; exact hB n hn
  | gc =>
    simp only [step] at h
    split at h
    · cases h
    · cases h
      intro m hm'
      have hm' : m ∈ (processGC P fixed s.tree s.nextInc).1 := hm'
      rw [processGC_tree] at hm'
      obtain ⟨n, hn, hg⟩ := List.mem_filterMap.1 hm'
      unfold gcMap at hg
      split at hg
      · cases hg
        simp only [resetNode]
        split
        · exact Nat.le_trans (next_le_max P _) hm
        · exact hB n hn
      · split at hg
        · cases hg
        · cases hg; exact hB m hn
  | kill =>
    simp only [step] at h
    split at h
    · cases h
    · cases h
      intro m hm'
      obtain ⟨n, hn, rfl⟩ := List.mem_map.1 hm'
      exact hB n hn
  | sig iid sg =>
    simp only [step] at h
    split at h
    · cases h
    · split at h
      · rename_i i _ t hs
        cases h
        intro m hm'
        unfold signal at hs
        split at hs
        · cases hs
        · cases sg with
          | healthy =>
            simp only at hs
            split at hs
            · cases hs
            · cases hs
              rw [modify_eq] at hm'
              obtain ⟨n, hn, rfl⟩ := List.mem_map.1 hm'
              split
              · exact hi
              · exact hB n hn
          | done =>
            simp only at hs
            split at hs
            · cases hs
            · cases hs
              rw [modify_eq] at hm'
              obtain ⟨n, hn, rfl⟩ := List.mem_map.1 hm'
              split
              · exact hi
              · exact hB n hn
      · cases h; exact hB
  | run iid names =>
    simp only [step] at h
    split at h
    · cases h
    · rename_i i _
      split at h
      · cases h
      · split at h
        · rename_i t hr
          cases h
          obtain ⟨n, _, _, _, rfl⟩ := runGroup_spec hr
          intro m hm'
          rcases List.mem_append.1 hm' with hm' | hm'
          · rw [modify_eq] at hm'
            obtain ⟨n0, hn0, rfl⟩ := List.mem_map.1 hm'
            have : (if n0.dn = i.dn then { n0 with groups := n0.groups ++ [names] } else n0).bo = n0.bo := by split <;> rfl
            rw [this]; exact hB n0 hn0
          · obtain ⟨nm, _, rfl⟩ := List.mem_map.1 hm'
            exact hi
        · cases h; exact hB
        · cases h; exact hB
  | ret iid e =>
    simp only [step] at h
    split at h
    · cases h
    · cases h; exact hB

theorem Reach.bo {P : Params} {fixed : Bool} {H : Sys → Prop} {s : Sys} (h : Reach P fixed H s) : BoInv P s := by
  induction h with
  | init =>
    intro n hn
    simp only [Whv.Sup.init, List.mem_singleton] at hn
    subst hn
    exact Nat.le_max_left _ _
  | step _ _ hs ih => exact bo_step ih hs

/-! ## after the kill -/

theorem killed_step {P : Params} {fixed : Bool} {s s' : Sys} {a : Act} (hk : s.killed = true)
    (hc : ∀ n ∈ s.tree, n.cancelled = true) (h : step P fixed s a = some s') :
    s'.killed = true ∧ (∀ n ∈ s'.tree, n.cancelled = true) ∧ s'.nextIid = s.nextIid ∧ s'.live.length ≤ s.live.length := by
  cases a with
  | sched dn => simp [step, hk] at h
  | died dn e => simp [step, hk] at h
  | gc => simp [step, hk] at h
  | kill => simp [step, hk] at h
  | sig iid sg =>
    simp only [step] at h
    split at h
    · cases h
    · split at h
      · rename_i i _ t hs
        cases h
        obtain ⟨f, rfl, hf⟩ := signal_spec hs
        refine ⟨hk, fun m hm => ?_, rfl, Nat.le_refl _⟩
        rw [modify_eq] at hm
        obtain ⟨n, hn, rfl⟩ := List.mem_map.1 hm
        split
        · rw [(hf n).2.2.2]; exact hc n hn
        · exact hc n hn
      · cases h
        exact ⟨hk, hc, rfl, by simp only; exact List.length_erase_le⟩
  | run iid names =>
    simp only [step] at h
    split at h
    · cases h
    · rename_i i _
      split at h
      · cases h
      · split at h
        · rename_i t hr
          cases h
          obtain ⟨n, hfn, _, _, rfl⟩ := runGroup_spec hr
          refine ⟨hk, fun m hm => ?_, rfl, Nat.le_refl _⟩
          rcases List.mem_append.1 hm with hm | hm
          · rw [modify_eq] at hm
            obtain ⟨n0, hn0, rfl⟩ := List.mem_map.1 hm
            have : (if n0.dn = i.dn then { n0 with groups := n0.groups ++ [names] } else n0).cancelled = n0.cancelled := by split <;> rfl
            rw [this]; exact hc n0 hn0
          · obtain ⟨nm, _, rfl⟩ := List.mem_map.1 hm
            exact hc n (find_some hfn).1
        · cases h; exact ⟨hk, hc, rfl, Nat.le_refl _⟩
        · cases h; exact ⟨hk, hc, rfl, by simp only; exact List.length_erase_le⟩
  | ret iid e =>
    simp only [step] at h
    split at h
    · cases h
    · cases h; exact ⟨hk, hc, rfl, by simp only; exact List.length_erase_le⟩

/-! ## executable reachability with a checked GC hypothesis (for concrete examples) -/

instance (fixed : Bool) (s : Sys) : Decidable (DoneReturned fixed s) := by
  unfold DoneReturned; infer_instance

/-- `run`, but a GC step is only taken when `Hb` holds of the state before it. -/
def runH (P : Params) (fixed : Bool) (Hb : Sys → Bool) : Sys → List Act → Option Sys
  | s, [] => some s
  | s, a :: as =>
    if a = .gc ∧ Hb s = false then none
    else match step P fixed s a with
      | some s' => runH P fixed Hb s' as
      | none => none

theorem Reach.of_runH {P : Params} {fixed : Bool} {H : Sys → Prop} {Hb : Sys → Bool} (hH : ∀ s, Hb s = true → H s) :
    ∀ (acts : List Act) {s s' : Sys}, Reach P fixed H s → runH P fixed Hb s acts = some s' → Reach P fixed H s'
  | [], s, s', hs, h => by simp only [runH, Option.some.injEq] at h; exact h ▸ hs
  | a :: as, s, s', hs, h => by
    simp only [runH] at h
    split at h
    · cases h
    · rename_i hn
      split at h
      · rename_i s₁ hs₁
        refine Reach.of_runH hH as (Reach.step hs (fun e => hH s ?_) hs₁) h
        cases hb : Hb s with
        | true => rfl
        | false => exact absurd ⟨e, hb⟩ hn
      · cases h

/-! ## the option `WithPropagatePanic` (`stepO`) -/

/-- for concrete examples: `∃ s, o = .next s ∧ p s` is decided by looking at `o` -/
instance (o : Outcome) (p : Sys → Prop) [∀ s, Decidable (p s)] : Decidable (∃ s, o = .next s ∧ p s) :=
  match o with
  | .next s => if h : p s then isTrue ⟨s, rfl, h⟩ else isFalse (fun ⟨_, he, hp⟩ => by cases he; exact h hp)
  | .crashed => isFalse (fun ⟨_, he, _⟩ => by cases he)
  | .disabled => isFalse (fun ⟨_, he, _⟩ => by cases he)

/-- With the option off the configured system IS the base system (a panic being the death `other`). -/
theorem stepO_false (P : Params) (fixed : Bool) (s : Sys) (a : OAct) :
    stepO false P fixed s a = Outcome.ofOption (step P fixed s a.toAct) := by
  cases a with
  | panic iid =>
    simp only [stepO, OAct.toAct, step]
    cases s.live.find? (fun i => i.iid = iid) <;> rfl
  | act a =>
    cases a with
    | sched dn => rfl
    | died dn e => rfl
    | gc => rfl
    | kill => rfl
    | sig iid sg =>
      simp only [stepO, OAct.toAct, step]
      cases s.live.find? (fun i => i.iid = iid) with
      | none => rfl
      | some i => simp only; cases signal P s.tree i.dn sg <;> rfl
    | run iid names =>
      simp only [stepO, OAct.toAct, step]
      cases s.live.find? (fun i => i.iid = iid) with
      | none => rfl
      | some i =>
        simp only
        split
        · rfl
        · cases runGroup P s.tree i.dn names s.nextInc with
          | error _ => rfl
          | ok o => cases o <;> rfl
    | ret iid e =>
      simp only [stepO, OAct.toAct, step]
      cases s.live.find? (fun i => i.iid = iid) <;> rfl

/-- An action that makes no runnable panic has the same outcome whatever the option says. -/
theorem stepO_of_not_raises (pp : Bool) (P : Params) (fixed : Bool) (s : Sys) (a : OAct) (h : raises P s a = false) :
    stepO pp P fixed s a = stepO false P fixed s a := by
  cases a with
  | panic iid =>
    simp only [raises] at h
    simp only [stepO]
    cases hf : s.live.find? (fun i => i.iid = iid) with
    | none => rfl
    | some i => rw [hf] at h; cases h
  | act a =>
    cases a with
    | sched dn => rfl
    | died dn e => rfl
    | gc => rfl
    | kill => rfl
    | sig iid sg =>
      simp only [raises] at h
      simp only [stepO]
      cases hf : s.live.find? (fun i => i.iid = iid) with
      | none => rfl
      | some i =>
        rw [hf] at h
        simp only at h ⊢
        cases hs : signal P s.tree i.dn sg with
        | ok t => rfl
        | error p => rw [hs] at h; cases h
    | run iid names =>
      simp only [raises] at h
      simp only [stepO]
      cases hf : s.live.find? (fun i => i.iid = iid) with
      | none => rfl
      | some i =>
        rw [hf] at h
        simp only at h ⊢
        split
        · rfl
        · rename_i hnd
          have hnd' : names.Nodup := Classical.not_not.1 hnd
          cases hr : runGroup P s.tree i.dn names s.nextInc with
          | ok o => cases o <;> rfl
          | error p => rw [hr] at h; simp [hnd'] at h
    | ret iid e =>
      simp only [stepO]
      cases s.live.find? (fun i => i.iid = iid) <;> rfl

/-- With the option on, the process ends exactly when an action makes a runnable panic. -/
theorem stepO_true_crashed_iff (P : Params) (fixed : Bool) (s : Sys) (a : OAct) :
    stepO true P fixed s a = .crashed ↔ raises P s a = true := by
  cases a with
  | panic iid =>
    simp only [stepO, raises]
    cases s.live.find? (fun i => i.iid = iid) with
    | none => simp
    | some i => simp [endInst, reportOf]
  | act a =>
    cases a with
    | sched dn => simp only [stepO, raises]; cases step P fixed s (.sched dn) <;> simp [Outcome.ofOption]
    | died dn e => simp only [stepO, raises]; cases step P fixed s (.died dn e) <;> simp [Outcome.ofOption]
    | gc => simp only [stepO, raises]; cases step P fixed s .gc <;> simp [Outcome.ofOption]
    | kill => simp only [stepO, raises]; cases step P fixed s .kill <;> simp [Outcome.ofOption]
    | sig iid sg =>
      simp only [stepO, raises]
      cases s.live.find? (fun i => i.iid = iid) with
      | none => simp
      | some i => simp only; cases signal P s.tree i.dn sg <;> simp [endInst, reportOf]
    | run iid names =>
      simp only [stepO, raises]
      cases s.live.find? (fun i => i.iid = iid) with
      | none => simp
      | some i =>
        simp only
        by_cases hnd : names.Nodup
        · simp only [hnd, not_true_eq_false, if_false, decide_true, Bool.true_and]
          cases runGroup P s.tree i.dn names s.nextInc with
          | error _ => simp [endInst, reportOf]
          | ok o => cases o <;> simp
        · simp [hnd]
    | ret iid e =>
      simp only [stepO, raises]
      cases s.live.find? (fun i => i.iid = iid) with
      | none => simp
      | some i => simp [endInst, reportOf]

theorem stepO_false_ne_crashed (P : Params) (fixed : Bool) (s : Sys) (a : OAct) : stepO false P fixed s a ≠ .crashed := by
  rw [stepO_false]
  cases step P fixed s a.toAct <;> simp [Outcome.ofOption]

/-- A transition of the configured system that goes on is a transition of the base system. -/
theorem stepO_next {pp : Bool} {P : Params} {fixed : Bool} {s s' : Sys} {a : OAct} (h : stepO pp P fixed s a = .next s') :
    step P fixed s a.toAct = some s' := by
  have h0 : stepO false P fixed s a = .next s' := by
    cases pp with
    | false => exact h
    | true =>
      cases hr : raises P s a with
      | false => rw [← stepO_of_not_raises true P fixed s a hr]; exact h
      | true => rw [(stepO_true_crashed_iff P fixed s a).2 hr] at h; cases h
  rw [stepO_false] at h0
  cases hs : step P fixed s a.toAct with
  | none => rw [hs] at h0; cases h0
  | some s1 => rw [hs] at h0; simp only [Outcome.ofOption, Outcome.next.injEq] at h0; rw [h0]

theorem runO_false (P : Params) (fixed : Bool) : ∀ (acts : List OAct) (s : Sys),
    runO false P fixed s acts = Outcome.ofOption (run P fixed s (acts.map OAct.toAct))
  | [], s => rfl
  | a :: as, s => by
    simp only [runO, List.map_cons, run]
    rw [stepO_false]
    cases step P fixed s a.toAct with
    | none => rfl
    | some s1 => simp only [Outcome.ofOption]; exact runO_false P fixed as s1

theorem runO_panicFree (pp : Bool) (P : Params) (fixed : Bool) : ∀ (acts : List OAct) (s : Sys),
    panicFree P fixed s acts = true → runO pp P fixed s acts = runO false P fixed s acts
  | [], s, _ => rfl
  | a :: as, s, h => by
    simp only [panicFree, Bool.and_eq_true, Bool.not_eq_true'] at h
    simp only [runO]
    rw [stepO_of_not_raises pp P fixed s a h.1, stepO_false]
    cases hs : step P fixed s a.toAct with
    | none => rfl
    | some s1 =>
      simp only [Outcome.ofOption]
      have h2 := h.2
      rw [hs] at h2
      exact runO_panicFree pp P fixed as s1 h2

theorem runO_next {pp : Bool} {P : Params} {fixed : Bool} : ∀ (acts : List OAct) {s s' : Sys},
    runO pp P fixed s acts = .next s' → run P fixed s (acts.map OAct.toAct) = some s'
  | [], s, s', h => by simp only [runO, Outcome.next.injEq] at h; simp [run, h]
  | a :: as, s, s', h => by
    simp only [runO] at h
    cases hs : stepO pp P fixed s a with
    | next s1 =>
      rw [hs] at h
      simp only [List.map_cons, run, stepO_next hs]
      exact runO_next as h
    | crashed => rw [hs] at h; cases h
    | disabled => rw [hs] at h; cases h

end Whv.Sup
