import Whv.Model.Evm
/-!
Event sequences over the EVM watcher model and the helper lemmas used by `Whv/Props/C10.lean`.

`Ev` is what can happen to the watcher's pending set: the chain emits a log (the node hands it over iff it matches the
subscription filter the watcher sent — the honest-node assumption of the primary path), or a head is processed with
whatever the node answers for receipts at that moment.  Heads are arbitrary naturals: nothing relates one head to the
next, so every statement about `run` holds "however far the observed head advances between two polls".
-/
namespace Whv.Evm
open Whv

/-- A log on the chain, with what the ABI decoder makes of it and the timestamp of its block. -/
structure ChainLog where
  addr : Bytes
  topics : List Bytes
  ev : Event
  bt : Nat

/-- The `eth_subscribe` filter sent by `WatchLogMessagePublished` (contract address, topic0); the tie checks it (`sub-filter`). -/
def nodeMatches (cfg : Cfg) (topic : Bytes) (l : ChainLog) : Bool :=
  l.addr == cfg.contract && l.topics.head? == some topic

inductive Ev
  | log (l : ChainLog)
  | head (H : Nat) (safe : Bool) (rc : Bytes → RcAns)

/-- One event: new pending set and the entries handed to the signing pipeline. -/
def stepEv (cfg : Cfg) (topic : Bytes) (s : List Pend) : Ev → List Pend × List Pend
  | .log l => if nodeMatches cfg topic l then (insertPend (mkPend cfg l.ev l.bt) s, []) else (s, [])
  | .head H safe rc => ((processHead cfg safe H rc s).pending, (processHead cfg safe H rc s).forwarded)

/-- Final pending set and, per event, what was forwarded. -/
def run (cfg : Cfg) (topic : Bytes) (s : List Pend) : List Ev → List Pend × List (List Pend)
  | [] => (s, [])
  | e :: es => ((run cfg topic (stepEv cfg topic s e).1 es).1, (stepEv cfg topic s e).2 :: (run cfg topic (stepEv cfg topic s e).1 es).2)

/-- How often an entry with key `k` was handed over. -/
def fwdCount (k : Key) (fs : List (List Pend)) : Nat := (fs.flatten.filter (fun q => q.key = k)).length

/-- uint64 sums that the loop computes for this entry do not wrap. -/
def NoOverflow (cfg : Cfg) (p : Pend) : Prop := p.height + p.msg.cl + cfg.maxWait < U64

/-- The answer "successful receipt in the block the log was seen in". -/
def goodRc (p : Pend) : RcAns := ⟨some ⟨1, p.key.bh⟩, .none⟩

/-- The event does not deliver a log with `p`'s key again. -/
def NoRelog (cfg : Cfg) (topic : Bytes) (p : Pend) : Ev → Prop
  | .log l => nodeMatches cfg topic l = true → (mkPend cfg l.ev l.bt).key ≠ p.key
  | .head _ _ _ => True

/-- The event does not deliver `p`'s key again, and whenever a head is processed the receipt still points to `p`'s block and the lookup succeeds. -/
def Stable (cfg : Cfg) (topic : Bytes) (p : Pend) : Ev → Prop
  | .log l => nodeMatches cfg topic l = true → (mkPend cfg l.ev l.bt).key ≠ p.key
  | .head _ _ rc => rc p.msg.tx = goodRc p

/-- The event is a processed head that has reached `p`'s depth. -/
def readyAt (cfg : Cfg) (p : Pend) : Ev → Bool
  | .log _ => false
  | .head H safe _ => decide (p.height + expConf cfg safe p ≤ H % U64)

theorem expConf_le (cfg : Cfg) (safe : Bool) (p : Pend) : expConf cfg safe p ≤ p.msg.cl := by
  unfold expConf; split <;> omega

theorem add64_conf (cfg : Cfg) (safe : Bool) (p : Pend) (h : NoOverflow cfg p) :
    add64 p.height (expConf cfg safe p) = p.height + expConf cfg safe p := by
  have := expConf_le cfg safe p
  unfold NoOverflow at h
  unfold add64
  exact Nat.mod_eq_of_lt (by omega)

theorem add64_window (cfg : Cfg) (safe : Bool) (p : Pend) (h : NoOverflow cfg p) :
    add64 (p.height + expConf cfg safe p) cfg.maxWait = p.height + expConf cfg safe p + cfg.maxWait := by
  have := expConf_le cfg safe p
  unfold NoOverflow at h
  unfold add64
  exact Nat.mod_eq_of_lt (by omega)

theorem classify_not_ready (cfg : Cfg) (safe : Bool) (H : Nat) (a : RcAns) (p : Pend) (hno : NoOverflow cfg p)
    (h : ¬ p.height + expConf cfg safe p ≤ H) : classify cfg safe H a p = .wait := by
  unfold classify
  simp only [add64_conf cfg safe p hno]
  simp [h]

theorem classify_good (cfg : Cfg) (safe : Bool) (H : Nat) (p : Pend) (hno : NoOverflow cfg p)
    (h : p.height + expConf cfg safe p ≤ H) : classify cfg safe H (goodRc p) p = .confirmed := by
  unfold classify goodRc
  simp only [add64_conf cfg safe p hno]
  simp [h]

/-- Full case analysis of the repaired loop body for an entry whose sums do not wrap. -/
theorem classify_cases (cfg : Cfg) (safe : Bool) (H : Nat) (a : RcAns) (p : Pend) (hno : NoOverflow cfg p) :
    (classify cfg safe H a p = .wait ∧ ¬ p.height + expConf cfg safe p ≤ H) ∨
    (p.height + expConf cfg safe p ≤ H ∧
      ((classify cfg safe H a p = .orphaned ∧ ((a.tx = none ∧ a.err = .none) ∨ a.err = .noResult ∨ a.err = .notFound)) ∨
       (classify cfg safe H a p = .timeout ∧ a.err = .other ∧ p.height + expConf cfg safe p + cfg.maxWait ≤ H) ∨
       (classify cfg safe H a p = .retry ∧ a.err = .other ∧ ¬ p.height + expConf cfg safe p + cfg.maxWait ≤ H) ∨
       (∃ r, a.tx = some r ∧ a.err = .none ∧
          ((classify cfg safe H a p = .failed ∧ r.status ≠ 1) ∨
           (classify cfg safe H a p = .mismatch ∧ r.status = 1 ∧ r.bh ≠ p.key.bh) ∨
           (classify cfg safe H a p = .confirmed ∧ r.status = 1 ∧ r.bh = p.key.bh))))) := by
  by_cases hr : p.height + expConf cfg safe p ≤ H
  · right
    refine ⟨hr, ?_⟩
    unfold classify
    simp only [add64_conf cfg safe p hno, add64_window cfg safe p hno, hr, if_true]
    obtain ⟨tx, err⟩ := a
    cases err <;> cases tx <;> simp
    · rename_i r
      by_cases h1 : r.status = 1 <;> by_cases h2 : r.bh = p.key.bh <;> simp [h1, h2]
    · by_cases hw : p.height + expConf cfg safe p + cfg.maxWait ≤ H <;> simp [hw] <;> omega
    · by_cases hw : p.height + expConf cfg safe p + cfg.maxWait ≤ H <;> simp [hw] <;> omega
  · left
    exact ⟨classify_not_ready cfg safe H a p hno hr, hr⟩

/-! ### pending sets with unique keys -/

def UniqueKeys (s : List Pend) : Prop := (s.map (·.key)).Nodup

theorem uniqueKeys_filter {s : List Pend} (f : Pend → Bool) (h : UniqueKeys s) : UniqueKeys (s.filter f) := by
  unfold UniqueKeys at *
  exact List.Nodup.sublist (List.Sublist.map _ List.filter_sublist) h

theorem uniqueKeys_insert {s : List Pend} (p : Pend) (h : UniqueKeys s) : UniqueKeys (insertPend p s) := by
  unfold UniqueKeys insertPend at *
  simp only [List.map_cons, List.nodup_cons]
  refine ⟨?_, List.Nodup.sublist (List.Sublist.map _ List.filter_sublist) h⟩
  intro hm
  rw [List.mem_map] at hm
  obtain ⟨q, hq, hk⟩ := hm
  rw [List.mem_filter] at hq
  simp [hk] at hq

theorem mem_insert_of_ne {s : List Pend} {p q : Pend} (hk : q.key ≠ p.key) (h : p ∈ s) : p ∈ insertPend q s := by
  unfold insertPend
  simp only [List.mem_cons, List.mem_filter]
  right
  exact ⟨h, by simp [Ne.symm hk]⟩

theorem mem_of_mem_insert_ne {s : List Pend} {p q : Pend} (hk : q.key ≠ p.key) (h : p ∈ insertPend q s) : p ∈ s := by
  unfold insertPend at h
  simp only [List.mem_cons, List.mem_filter] at h
  rcases h with h | h
  · subst h; exact absurd rfl hk
  · exact h.1

/-- In a set with unique keys, `p` is the only entry with its key. -/
theorem eq_of_key_eq {s : List Pend} (h : UniqueKeys s) {p q : Pend} (hp : p ∈ s) (hq : q ∈ s) (hk : q.key = p.key) : q = p := by
  unfold UniqueKeys at h
  induction s with
  | nil => cases hp
  | cons a t ih =>
    simp only [List.map_cons, List.nodup_cons] at h
    simp only [List.mem_cons] at hp hq
    rcases hp with hp | hp <;> rcases hq with hq | hq
    · rw [hp, hq]
    · subst hp
      exact absurd (List.mem_map.2 ⟨q, hq, hk⟩) h.1
    · subst hq
      exact absurd (List.mem_map.2 ⟨p, hp, hk.symm⟩) h.1
    · exact ih h.2 hp hq

theorem stepEv_log_match (cfg : Cfg) (topic : Bytes) (s : List Pend) (l : ChainLog) (h : nodeMatches cfg topic l = true) :
    stepEv cfg topic s (.log l) = (insertPend (mkPend cfg l.ev l.bt) s, []) := by
  simp [stepEv, h]

theorem stepEv_log_nomatch (cfg : Cfg) (topic : Bytes) (s : List Pend) (l : ChainLog) (h : ¬ nodeMatches cfg topic l = true) :
    stepEv cfg topic s (.log l) = (s, []) := by
  simp [stepEv, h]

theorem stepEv_head (cfg : Cfg) (topic : Bytes) (s : List Pend) (H : Nat) (safe : Bool) (rc : Bytes → RcAns) :
    stepEv cfg topic s (.head H safe rc) =
      (s.filter (fun p => (classify cfg safe (H % U64) (rc p.msg.tx) p).keeps),
       s.filter (fun p => classify cfg safe (H % U64) (rc p.msg.tx) p = .confirmed)) := rfl

theorem stepEv_unique (cfg : Cfg) (topic : Bytes) (s : List Pend) (e : Ev) (h : UniqueKeys s) : UniqueKeys (stepEv cfg topic s e).1 := by
  cases e with
  | log l =>
    by_cases hm : nodeMatches cfg topic l = true
    · rw [stepEv_log_match cfg topic s l hm]; exact uniqueKeys_insert _ h
    · rw [stepEv_log_nomatch cfg topic s l hm]; exact h
  | head H safe rc =>
    rw [stepEv_head]
    exact uniqueKeys_filter _ h

/-- Nothing enters the pending set except through a delivered log. -/
theorem mem_stepEv (cfg : Cfg) (topic : Bytes) (s : List Pend) (e : Ev) (q : Pend) (h : q ∈ (stepEv cfg topic s e).1) :
    q ∈ s ∨ ∃ l, e = .log l ∧ nodeMatches cfg topic l = true ∧ q = mkPend cfg l.ev l.bt := by
  cases e with
  | log l =>
    by_cases hm : nodeMatches cfg topic l = true
    · rw [stepEv_log_match cfg topic s l hm] at h
      unfold insertPend at h
      simp only [List.mem_cons, List.mem_filter] at h
      rcases h with h | h
      · exact Or.inr ⟨l, rfl, hm, h⟩
      · exact Or.inl h.1
    · rw [stepEv_log_nomatch cfg topic s l hm] at h
      exact Or.inl h
  | head H safe rc =>
    rw [stepEv_head] at h
    exact Or.inl (List.mem_filter.1 h).1

/-- What is forwarded at an event was pending before it. -/
theorem fwd_stepEv (cfg : Cfg) (topic : Bytes) (s : List Pend) (e : Ev) (q : Pend) (h : q ∈ (stepEv cfg topic s e).2) :
    q ∈ s ∧ ∃ H safe rc, e = .head H safe rc ∧ classify cfg safe (H % U64) (rc q.msg.tx) q = .confirmed := by
  cases e with
  | log l =>
    by_cases hm : nodeMatches cfg topic l = true
    · rw [stepEv_log_match cfg topic s l hm] at h; simp at h
    · rw [stepEv_log_nomatch cfg topic s l hm] at h; simp at h
  | head H safe rc =>
    rw [stepEv_head] at h
    simp only [List.mem_filter, decide_eq_true_eq] at h
    exact ⟨h.1, H, safe, rc, rfl, h.2⟩

theorem fwdCount_cons (k : Key) (f : List Pend) (fs : List (List Pend)) :
    fwdCount k (f :: fs) = (f.filter (fun q => q.key = k)).length + fwdCount k fs := by
  unfold fwdCount
  simp [List.filter_append]

/-- While no entry with key `k` is pending and none is delivered, nothing with key `k` is ever forwarded. -/
theorem absent_run (cfg : Cfg) (topic : Bytes) (k : Key) (evs : List Ev) :
    ∀ s : List Pend, (∀ q ∈ s, q.key ≠ k) →
    (∀ e ∈ evs, ∀ l, e = .log l → nodeMatches cfg topic l = true → (mkPend cfg l.ev l.bt).key ≠ k) →
    fwdCount k (run cfg topic s evs).2 = 0 ∧ ∀ q ∈ (run cfg topic s evs).1, q.key ≠ k := by
  induction evs with
  | nil => intro s hs _; exact ⟨rfl, hs⟩
  | cons e es ih =>
    intro s hs hl
    have hs' : ∀ q ∈ (stepEv cfg topic s e).1, q.key ≠ k := by
      intro q hq
      rcases mem_stepEv cfg topic s e q hq with h | ⟨l, he, hm, hq⟩
      · exact hs q h
      · rw [hq]; exact hl e (by simp) l he hm
    have hf : ((stepEv cfg topic s e).2.filter (fun q => q.key = k)).length = 0 := by
      rw [List.length_eq_zero_iff, List.filter_eq_nil_iff]
      intro q hq
      have := hs q (fwd_stepEv cfg topic s e q hq).1
      simp [this]
    obtain ⟨h1, h2⟩ := ih _ hs' (fun e' he' => hl e' (by simp [he']))
    unfold run
    refine ⟨?_, h2⟩
    rw [fwdCount_cons, hf, h1]

/-- `settle` keeps the keys of the pending set unique (it either leaves the set alone or filters it). -/
theorem uniqueKeys_settle (cfg : Cfg) (st : St) (W : Nat) (rc : Bytes → RcAns) (h : UniqueKeys st.pending) :
    UniqueKeys (settle cfg st W rc).1.pending := by
  unfold settle settleWith
  by_cases hc : (st.enabled && decide (W > st.last)) = true
  · simp only [hc, if_true]
    unfold processHeadWith
    exact uniqueKeys_filter _ h
  · simp only [hc]
    exact h

theorem mem_insertPend_self (p : Pend) (s : List Pend) : p ∈ insertPend p s := by
  unfold insertPend
  simp

/-- `restart` changes neither the pending set nor, therefore, the uniqueness of its keys. -/
theorem uniqueKeys_restart (st : St) (W : Nat) (h : UniqueKeys st.pending) : UniqueKeys (restart st W).pending := h

/-- Whatever `fetchAndUpdateGuardianSet` sends to the processor is the index and the key list the chain returned, unchanged
(used by the `gsf` op of the driver; the clause `guardian-set-altered-before-processor` is C07's). -/
theorem gsFetch_hands_on_chain_set (cur : Option Nat) (chain : Option (Nat × List Bytes)) (s : Nat × List Bytes)
    (h : (gsFetch cur chain).2.1 = some s) : chain = some s ∧ cur ≠ some s.1 ∧ (gsFetch cur chain).1 = some s.1 := by
  unfold gsFetch at h ⊢
  cases chain with
  | none => simp at h
  | some c =>
    obtain ⟨idx, keys⟩ := c
    by_cases hc : cur = some idx
    · simp [hc] at h
    · simp only [hc, if_false, Option.some.injEq] at h ⊢
      subst h
      exact ⟨rfl, hc, rfl⟩

end Whv.Evm
