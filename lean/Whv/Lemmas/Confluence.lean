import Whv.Lemmas.ProcC01
/-!
Order independence of the aggregation of one chain message (C02, "confluence").

Setting: a fixed guardian set `g`, a fixed chain message `m` with digest `d`, and event lists made only of
`message m _` and `observation o _` with `o.hash = d`. The run is split in two phases: before the publication
(`Pre`, which ties the entry for `d` to the events handled so far) and after it (`Post`, `submitted = true`).
The step that goes from the first to the second phase is exactly the first `Trigger`.
-/
namespace Whv.Proc
open Whv

/-! ## association lists -/

theorem lookup_alInsert {α β : Type} [BEq α] [LawfulBEq α] (k k' : α) (v : β) (l : List (α × β)) :
    (alInsert k v l).lookup k' = if (k' == k) = true then some v else l.lookup k' := by
  induction l with
  | nil =>
    simp only [alInsert, List.lookup]
    cases h : k' == k <;> simp
  | cons hd tl ih =>
    obtain ⟨k0, v0⟩ := hd
    unfold alInsert
    by_cases h0 : (k0 == k) = true
    · rw [if_pos h0]
      have e : k0 = k := by simpa using h0
      subst e
      simp only [List.lookup]
      cases h : k' == k0 <;> simp
    · rw [if_neg h0]
      simp only [List.lookup]
      cases h : k' == k0 with
      | false => simp only; exact ih
      | true =>
        have e : k' = k0 := by simpa using h
        subst e
        simp only
        rw [if_neg h0]

theorem assembleFrom_length (sigs : List (Addr × Bytes)) : ∀ (ks : List Addr) (i : Nat),
    (assembleFrom sigs ks i).length = (ks.filter (fun a => (sigs.lookup a).isSome)).length := by
  intro ks
  induction ks with
  | nil => intro i; simp [assembleFrom]
  | cons a ks ih =>
    intro i
    unfold assembleFrom
    cases h : sigs.lookup a with
    | none => simp [List.filter, h, ih]
    | some sg => simp [List.filter, h, ih]

theorem assemble_length (keys : List Addr) (sigs : List (Addr × Bytes)) :
    (assemble keys sigs).length = (keys.filter (fun a => (sigs.lookup a).isSome)).length :=
  assembleFrom_length sigs keys 0

/-! ## the events of one aggregation window -/

/-- The observation passes the gate of set `g` for digest `d`: the signature recovers to the address it claims, and that
address is a member. -/
def isAcc (O : Oracle) (g : GSet) (d : Bytes) (o : Obs) : Bool :=
  decide (O.recover d o.sig = some (bytesToAddress o.addr)) && g.keys.contains (bytesToAddress o.addr)

/-- The signer an event contributes: the claimed address of an accepted observation, nothing otherwise. -/
def accAddr (O : Oracle) (g : GSet) (d : Bytes) : Event → Option Addr
  | .observation o _ => if isAcc O g d o = true then some (bytesToAddress o.addr) else none
  | _ => none

/-- Signers of the accepted observations of `es`, in arrival order, with repetitions. -/
def accAddrs (O : Oracle) (g : GSet) (d : Bytes) (es : List Event) : List Addr := es.filterMap (accAddr O g d)

/-- The distinct members of `g` of which `es` contains an accepted observation (listed in guardian-set order). -/
def acceptedSigners (O : Oracle) (g : GSet) (d : Bytes) (es : List Event) : List Addr :=
  g.keys.filter (fun a => (accAddrs O g d es).contains a)

def isMsg : Event → Bool
  | .message _ _ => true
  | _ => false

def hasMsg (es : List Event) : Bool := es.any isMsg

def isVaaOut : Out → Bool
  | .vaa _ => true
  | _ => false

/-- The events considered: the chain message `m` (any time), and observations for its digest `d`. -/
def EvOk (m : Msg) (d : Bytes) (e : Event) : Prop :=
  (∃ now, e = .message m now) ∨ (∃ o now, e = .observation o now ∧ o.hash = d)

/-- `e`, delivered after the events `pre`, is the delivery that completes the quorum: it is an accepted observation,
the message has been seen before it, and with it at least `quorum` distinct members have signed. -/
def Trigger (O : Oracle) (g : GSet) (d : Bytes) (pre : List Event) (e : Event) : Prop :=
  (accAddr O g d e).isSome = true ∧ hasMsg pre = true ∧
    quorum g.keys.length ≤ (acceptedSigners O g d (pre ++ [e])).length

/-- No event of `es`, delivered after `pre`, is a `Trigger`. -/
def NoTrig (O : Oracle) (g : GSet) (d : Bytes) : List Event → List Event → Prop
  | _, [] => True
  | pre, e :: es => ¬ Trigger O g d pre e ∧ NoTrig O g d (pre ++ [e]) es

theorem isAcc_iff (O : Oracle) (g : GSet) (d : Bytes) (o : Obs) :
    isAcc O g d o = true ↔ O.recover d o.sig = some (bytesToAddress o.addr) ∧ bytesToAddress o.addr ∈ g.keys := by
  simp [isAcc]

theorem accAddrs_append (O : Oracle) (g : GSet) (d : Bytes) (es es' : List Event) :
    accAddrs O g d (es ++ es') = accAddrs O g d es ++ accAddrs O g d es' := by
  simp [accAddrs, List.filterMap_append]

theorem accAddrs_single_none {O : Oracle} {g : GSet} {d : Bytes} {e : Event} (h : accAddr O g d e = none)
    (es : List Event) : accAddrs O g d (es ++ [e]) = accAddrs O g d es := by
  rw [accAddrs_append]; simp [accAddrs, List.filterMap, h]

theorem accAddrs_single_some {O : Oracle} {g : GSet} {d : Bytes} {e : Event} {a : Addr} (h : accAddr O g d e = some a)
    (es : List Event) : accAddrs O g d (es ++ [e]) = accAddrs O g d es ++ [a] := by
  rw [accAddrs_append]; simp [accAddrs, List.filterMap, h]

theorem mem_accAddrs {O : Oracle} {g : GSet} {d : Bytes} {es : List Event} {a : Addr} :
    a ∈ accAddrs O g d es ↔ ∃ o now, Event.observation o now ∈ es ∧ isAcc O g d o = true ∧ bytesToAddress o.addr = a := by
  unfold accAddrs
  rw [List.mem_filterMap]
  constructor
  · rintro ⟨e, he, h⟩
    cases e with
    | observation o now =>
      simp only [accAddr] at h
      by_cases hacc : isAcc O g d o = true
      · rw [if_pos hacc] at h
        exact ⟨o, now, he, hacc, Option.some.inj h⟩
      · rw [if_neg hacc] at h; cases h
    | _ => simp [accAddr] at h
  · rintro ⟨o, now, he, hacc, rfl⟩
    exact ⟨_, he, by simp [accAddr, hacc]⟩

theorem acceptedSigners_congr {O : Oracle} {g : GSet} {d : Bytes} {es es' : List Event}
    (h : ∀ a, a ∈ accAddrs O g d es ↔ a ∈ accAddrs O g d es') :
    acceptedSigners O g d es = acceptedSigners O g d es' := by
  unfold acceptedSigners
  apply List.filter_congr
  intro a _
  have := h a
  cases h1 : (accAddrs O g d es).contains a <;> cases h2 : (accAddrs O g d es').contains a <;> simp_all

theorem hasMsg_append (es es' : List Event) : hasMsg (es ++ es') = (hasMsg es || hasMsg es') := by
  simp [hasMsg]

/-! ## the two phases -/

/-- Before the publication: the entry for `d` (or the fresh one, if there is none yet) reflects exactly the events
`pre` handled so far. -/
structure Pre (O : Oracle) (g : GSet) (m : Msg) (d : Bytes) (pre : List Event) (s : PState) : Prop where
  gs : s.gs = some g
  db : s.db.lookup (vaaOfMsg g.index m).body.id = none
  sub : ∀ now, (entryOrFresh s d now).submitted = false
  recv : ∀ now, ∀ p ∈ (entryOrFresh s d now).signatures, O.recover d p.2 = some p.1
  keys : ∀ now a, ((entryOrFresh s d now).signatures.lookup a).isSome = true ↔ a ∈ accAddrs O g d pre
  our : ∀ now, (entryOrFresh s d now).ourVAA = if hasMsg pre = true then some (vaaOfMsg g.index m) else none
  snap : ∀ now, (entryOrFresh s d now).gs = if hasMsg pre = true then some g else none

/-- After the publication: the entry for `d` is marked submitted. -/
def Post (d : Bytes) (s : PState) : Prop :=
  ∃ st, s.agg.lookup d = some st ∧ st.submitted = true ∧ ∀ p ∈ st.signatures, p.2.length = 65

theorem entryOrFresh_insert (s : PState) (d : Bytes) (st : VState) (now : Int) :
    entryOrFresh { s with agg := alInsert d st s.agg } d now = st := by
  unfold entryOrFresh
  simp only
  rw [lookup_alInsert_self]

theorem pre_init {O : Oracle} {g : GSet} {m : Msg} {d : Bytes} {s : PState} (hgs : s.gs = some g)
    (hagg : s.agg.lookup d = none) (hdb : s.db.lookup (vaaOfMsg g.index m).body.id = none) :
    Pre O g m d [] s := by
  have he : ∀ now, entryOrFresh s d now = { firstObserved := now } := by
    intro now; unfold entryOrFresh; rw [hagg]
  refine ⟨hgs, hdb, ?_, ?_, ?_, ?_, ?_⟩
  · intro now; rw [he]
  · intro now p hp; rw [he] at hp; simp at hp
  · intro now a; rw [he]; simp [accAddrs]
  · intro now; rw [he]; simp [hasMsg]
  · intro now; rw [he]; simp [hasMsg]

theorem pre_insert {O : Oracle} {g : GSet} {m : Msg} {d : Bytes} {pre' : List Event} {s : PState}
    (hgs : s.gs = some g) (hdb : s.db.lookup (vaaOfMsg g.index m).body.id = none) (st : VState)
    (h1 : st.submitted = false) (h2 : ∀ p ∈ st.signatures, O.recover d p.2 = some p.1)
    (h3 : ∀ a, (st.signatures.lookup a).isSome = true ↔ a ∈ accAddrs O g d pre')
    (h4 : st.ourVAA = if hasMsg pre' = true then some (vaaOfMsg g.index m) else none)
    (h5 : st.gs = if hasMsg pre' = true then some g else none) :
    Pre O g m d pre' { s with agg := alInsert d st s.agg } := by
  refine ⟨hgs, hdb, ?_, ?_, ?_, ?_, ?_⟩
  · intro now; rw [entryOrFresh_insert]; exact h1
  · intro now; rw [entryOrFresh_insert]; exact h2
  · intro now; rw [entryOrFresh_insert]; exact h3
  · intro now; rw [entryOrFresh_insert]; exact h4
  · intro now; rw [entryOrFresh_insert]; exact h5

theorem pre_gate {O : Oracle} {g : GSet} {m : Msg} {d : Bytes} {pre : List Event} {s : PState}
    (hP : Pre O g m d pre s) : gateSet s d = some g := by
  unfold gateSet
  cases hl : s.agg.lookup d with
  | none => exact hP.gs
  | some st =>
    have h := hP.snap 0
    unfold entryOrFresh at h
    rw [hl] at h
    simp only at h ⊢
    rw [h]
    cases hasMsg pre
    · simp [hP.gs]
    · simp

/-- A chain message before the publication: signs, files the own VAA with the current set as snapshot, keeps the
parked signatures, publishes nothing. -/
theorem pre_message {O : Oracle} (hO : OracleOk O) (cfg : Config) {g : GSet} {m : Msg} {d : Bytes}
    (hd : d = O.digestOf (vaaOfMsg g.index m).body)
    (hng : ¬ (m.emitter = cfg.govEmitter ∧ m.emitterChain = cfg.govChain))
    {pre : List Event} {s : PState} (hP : Pre O g m d pre s) (now : Int) :
    ∃ s' outs, step O cfg s (.message m now) = .ok s' outs ∧ (∀ b, Out.vaa b ∉ outs) ∧
      Pre O g m d (pre ++ [.message m now]) s' := by
  subst hd
  have hs := hO.sign_ok (O.digestOf (vaaOfMsg g.index m).body)
  cases hsig : O.sign (O.digestOf (vaaOfMsg g.index m).body) with
  | none => rw [hsig] at hs; simp at hs
  | some sig =>
    refine ⟨(broadcastSignature cfg s (O.digestOf (vaaOfMsg g.index m).body) (vaaOfMsg g.index m) sig m.txHash now).1,
      (broadcastSignature cfg s (O.digestOf (vaaOfMsg g.index m).body) (vaaOfMsg g.index m) sig m.txHash now).2, ?_, ?_, ?_⟩
    · unfold step handleMessage
      simp only [hP.gs]
      rw [if_neg (by simpa [vaaOfMsg] using hng)]
      simp only [hP.db, hsig]
    · intro b hb; simp [broadcastSignature] at hb
    · unfold broadcastSignature
      simp only
      have hm : hasMsg (pre ++ [Event.message m now]) = true := by simp [hasMsg, isMsg]
      apply pre_insert hP.gs hP.db
      · exact hP.sub now
      · exact hP.recv now
      · intro a
        rw [accAddrs_single_none (by rfl)]
        exact hP.keys now a
      · rw [hm]; simp
      · rw [hm]; simp [hP.gs]

/-- With gate set `g`, the observation handler is: rejected → nothing; accepted → record and evaluate quorum. -/
theorem handleObservation_eq (O : Oracle) {s : PState} {o : Obs} {g : GSet} (hg : gateSet s o.hash = some g) (now : Int) :
    handleObservation O s o now =
      if isAcc O g o.hash o = true then
        obsFinish s o.hash g (recordSig (entryOrFresh s o.hash now) (bytesToAddress o.addr) o.sig)
      else .ok s [] := by
  unfold handleObservation isAcc
  cases hrec : O.recover o.hash o.sig with
  | none => simp
  | some signer =>
    simp only
    by_cases haddr : bytesToAddress o.addr = signer
    · rw [if_neg (by simpa using haddr), hg]
      simp only
      cases hm : g.keys.contains (bytesToAddress o.addr) with
      | false => simp
      | true => simp [haddr]
    · rw [if_pos (by simpa using haddr)]
      have : ¬ (some signer = some (bytesToAddress o.addr)) := by
        intro e; exact haddr (Option.some.inj e).symm
      simp [this]

/-- An observation for `d` before the publication. Not a trigger: at most recorded, nothing emitted. Trigger: this very
step publishes the VAA built from `m` with the signatures recorded at this moment, which form a `Valid` list with one
signature per distinct accepted signer so far. -/
theorem pre_obs {O : Oracle} (hO : OracleOk O) (cfg : Config) {g : GSet} (hgok : GSetOk g) {m : Msg} {d : Bytes}
    {pre : List Event} {s : PState} (hP : Pre O g m d pre s) (o : Obs) (now : Int) (ho : o.hash = d) :
    (¬ Trigger O g d pre (.observation o now) →
      ∃ s', step O cfg s (.observation o now) = .ok s' [] ∧ Pre O g m d (pre ++ [.observation o now]) s') ∧
    (Trigger O g d pre (.observation o now) →
      ∃ s', step O cfg s (.observation o now) = .ok s' [Out.vaa (marshal { vaaOfMsg g.index m with
          sigs := assemble g.keys (recordSig (entryOrFresh s d now) (bytesToAddress o.addr) o.sig).signatures })] ∧
        Post d s' ∧
        C06.Valid (O.recover d)
          (assemble g.keys (recordSig (entryOrFresh s d now) (bytesToAddress o.addr) o.sig).signatures) g.keys ∧
        (assemble g.keys (recordSig (entryOrFresh s d now) (bytesToAddress o.addr) o.sig).signatures).length =
          (acceptedSigners O g d (pre ++ [.observation o now])).length) := by
  subst ho
  have hgate := pre_gate hP
  have hstep : step O cfg s (.observation o now) = handleObservation O s o now := rfl
  rw [hstep, handleObservation_eq O hgate now]
  by_cases hacc : isAcc O g o.hash o = true
  · -- accepted
    rw [if_pos hacc]
    have haddr : accAddr O g o.hash (.observation o now) = some (bytesToAddress o.addr) := by
      simp [accAddr, hacc]
    have hrec : O.recover o.hash o.sig = some (bytesToAddress o.addr) := ((isAcc_iff _ _ _ _).1 hacc).1
    have hrecv1 : ∀ p ∈ (recordSig (entryOrFresh s o.hash now) (bytesToAddress o.addr) o.sig).signatures,
        O.recover o.hash p.2 = some p.1 := by
      intro p hp
      rcases mem_alInsert hp with rfl | hp
      · exact hrec
      · exact hP.recv now p hp
    have hkeys1 : ∀ a, ((recordSig (entryOrFresh s o.hash now) (bytesToAddress o.addr) o.sig).signatures.lookup a).isSome = true ↔
        a ∈ accAddrs O g o.hash (pre ++ [.observation o now]) := by
      intro a
      rw [accAddrs_single_some haddr]
      unfold recordSig
      simp only
      rw [lookup_alInsert]
      by_cases ha : (a == bytesToAddress o.addr) = true
      · rw [if_pos ha]
        have : a = bytesToAddress o.addr := by simpa using ha
        simp [this]
      · rw [if_neg ha]
        have hne : a ≠ bytesToAddress o.addr := by simpa using ha
        rw [hP.keys now a]
        simp [hne]
    have hlen1 : (assemble g.keys (recordSig (entryOrFresh s o.hash now) (bytesToAddress o.addr) o.sig).signatures).length =
        (acceptedSigners O g o.hash (pre ++ [.observation o now])).length := by
      rw [assemble_length]
      unfold acceptedSigners
      congr 1
      apply List.filter_congr
      intro a _
      have := hkeys1 a
      cases h1 : ((recordSig (entryOrFresh s o.hash now) (bytesToAddress o.addr) o.sig).signatures.lookup a).isSome <;>
        cases h2 : (accAddrs O g o.hash (pre ++ [.observation o now])).contains a <;> simp_all
    have hbad : badSigLen g.keys (recordSig (entryOrFresh s o.hash now) (bytesToAddress o.addr) o.sig).signatures = false :=
      badSigLen_false (fun p hp => hO.recover_len _ _ _ (hrecv1 p hp))
    have hsub1 : (recordSig (entryOrFresh s o.hash now) (bytesToAddress o.addr) o.sig).submitted = false := hP.sub now
    have hmsg1 : hasMsg (pre ++ [.observation o now]) = hasMsg pre := by simp [hasMsg, isMsg]
    have hpre' : Pre O g m o.hash (pre ++ [.observation o now])
        { s with agg := alInsert o.hash (recordSig (entryOrFresh s o.hash now) (bytesToAddress o.addr) o.sig) s.agg } := by
      apply pre_insert hP.gs hP.db _ hsub1 hrecv1 hkeys1
      · rw [hmsg1]; exact hP.our now
      · rw [hmsg1]; exact hP.snap now
    unfold obsFinish
    rw [hbad]
    simp only [Bool.false_eq_true, if_false]
    have hour1 : (recordSig (entryOrFresh s o.hash now) (bytesToAddress o.addr) o.sig).ourVAA =
        if hasMsg pre = true then some (vaaOfMsg g.index m) else none := hP.our now
    cases hm : hasMsg pre with
    | false =>
      rw [hm] at hour1
      simp only [Bool.false_eq_true, if_false] at hour1
      rw [hour1]
      simp only
      constructor
      · intro _; exact ⟨_, rfl, hpre'⟩
      · intro ht; rw [ht.2.1] at hm; cases hm
    | true =>
      rw [hm] at hour1
      simp only [if_true] at hour1
      rw [hour1]
      simp only
      by_cases hq : quorum g.keys.length ≤
          (assemble g.keys (recordSig (entryOrFresh s o.hash now) (bytesToAddress o.addr) o.sig).signatures).length
      · have hne : (assemble g.keys (recordSig (entryOrFresh s o.hash now) (bytesToAddress o.addr) o.sig).signatures).length ≠ 0 := by
          have := quorum_pos g.keys.length; omega
        rw [if_pos ⟨hq, hsub1⟩, storeSigned_some _ _ (by simpa using hne)]
        constructor
        · intro hnt
          exfalso
          exact hnt ⟨by simp [haddr], hm, by rw [← hlen1]; exact hq⟩
        · intro _
          refine ⟨_, rfl, ?_, assemble_valid _ g hgok _ hrecv1, hlen1⟩
          refine ⟨_, lookup_alInsert_self _ _ _, rfl, ?_⟩
          intro p hp
          exact hO.recover_len _ _ _ (hrecv1 p hp)
      · rw [if_neg (fun h => hq h.1)]
        constructor
        · intro _; exact ⟨_, rfl, hpre'⟩
        · intro ht; exfalso; apply hq; rw [hlen1]; exact ht.2.2
  · -- rejected
    rw [if_neg hacc]
    have haddr : accAddr O g o.hash (.observation o now) = none := by
      simp [accAddr, hacc]
    constructor
    · intro _
      refine ⟨s, rfl, hP.gs, hP.db, hP.sub, hP.recv, ?_, ?_, ?_⟩
      · intro now' a; rw [accAddrs_single_none haddr]; exact hP.keys now' a
      · intro now'
        have : hasMsg (pre ++ [.observation o now]) = hasMsg pre := by simp [hasMsg, isMsg]
        rw [this]; exact hP.our now'
      · intro now'
        have : hasMsg (pre ++ [.observation o now]) = hasMsg pre := by simp [hasMsg, isMsg]
        rw [this]; exact hP.snap now'
    · intro ht
      have := ht.1
      rw [haddr] at this
      cases this

/-! ## after the publication -/

theorem post_broadcast (cfg : Config) {d : Bytes} {s : PState} (hP : Post d s) (d' : Bytes) (v : Vaa) (sig tx : Bytes)
    (now : Int) : Post d (broadcastSignature cfg s d' v sig tx now).1 := by
  obtain ⟨st, hl, hsub, hlen⟩ := hP
  unfold broadcastSignature
  simp only
  unfold Post
  simp only
  rw [lookup_alInsert]
  by_cases hd : (d == d') = true
  · rw [if_pos hd]
    have e : d = d' := by simpa using hd
    subst e
    unfold entryOrFresh
    rw [hl]
    exact ⟨_, rfl, hsub, hlen⟩
  · rw [if_neg hd]
    exact ⟨st, hl, hsub, hlen⟩

theorem post_message {O : Oracle} (hO : OracleOk O) (cfg : Config) {d : Bytes} {s : PState} (hP : Post d s)
    (m : Msg) (now : Int) :
    ∃ s' outs, step O cfg s (.message m now) = .ok s' outs ∧ (∀ b, Out.vaa b ∉ outs) ∧ Post d s' := by
  have hstep : step O cfg s (.message m now) = handleMessage O cfg s m now := rfl
  rw [hstep]
  have same : ∃ s' outs, Res.ok s [] = .ok s' outs ∧ (∀ b, Out.vaa b ∉ outs) ∧ Post d s' :=
    ⟨s, [], rfl, by intro b hb; simp at hb, hP⟩
  unfold handleMessage
  split
  · exact same
  · rename_i g hg
    have hproceed : ∃ s' outs, (match O.sign (O.digestOf (vaaOfMsg g.index m).body) with
        | none => Res.panic "sign"
        | some sig =>
          let (s', outs) := broadcastSignature cfg s (O.digestOf (vaaOfMsg g.index m).body) (vaaOfMsg g.index m) sig m.txHash now
          Res.ok s' outs) = .ok s' outs ∧ (∀ b, Out.vaa b ∉ outs) ∧ Post d s' := by
      have := hO.sign_ok (O.digestOf (vaaOfMsg g.index m).body)
      cases hs : O.sign (O.digestOf (vaaOfMsg g.index m).body) with
      | none => simp [hs] at this
      | some sig =>
        exact ⟨_, _, rfl, by intro b hb; simp at hb, post_broadcast cfg hP _ _ _ _ _⟩
    simp only
    split
    · exact same
    · split
      · split
        · exact same
        · split
          · exact same
          · exact hproceed
      · exact hproceed

theorem post_obs {O : Oracle} (hO : OracleOk O) (cfg : Config) {d : Bytes} {s : PState} (hP : Post d s)
    (o : Obs) (now : Int) (ho : o.hash = d) :
    ∃ s', step O cfg s (.observation o now) = .ok s' [] ∧ Post d s' := by
  subst ho
  have hstep : step O cfg s (.observation o now) = handleObservation O s o now := rfl
  rw [hstep]
  obtain ⟨st, hl, hsub, hlen⟩ := hP
  have same : ∃ s', Res.ok s [] = .ok s' [] ∧ Post o.hash s' := ⟨s, rfl, st, hl, hsub, hlen⟩
  unfold handleObservation
  split
  · exact same
  · rename_i signer hrec
    split
    · exact same
    · split
      · exact same
      · rename_i gs hg
        split
        · exact same
        · have he : entryOrFresh s o.hash now = st := by unfold entryOrFresh; rw [hl]
          rw [he]
          have hlen1 : ∀ p ∈ (recordSig st (bytesToAddress o.addr) o.sig).signatures, p.2.length = 65 := by
            intro p hp
            rcases mem_alInsert hp with rfl | hp
            · exact hO.recover_len _ _ _ hrec
            · exact hlen p hp
          have hsub1 : (recordSig st (bytesToAddress o.addr) o.sig).submitted = true := hsub
          unfold obsFinish
          rw [badSigLen_false hlen1]
          simp only [Bool.false_eq_true, if_false]
          split
          · exact ⟨_, rfl, _, lookup_alInsert_self _ _ _, hsub1, hlen1⟩
          · rw [if_neg (by rw [hsub1]; simp)]
            exact ⟨_, rfl, _, lookup_alInsert_self _ _ _, hsub1, hlen1⟩

/-! ## runs -/

def NoVaa (outs : List (List Out)) : Prop := ∀ os ∈ outs, ∀ b, Out.vaa b ∉ os

theorem run_cons_ok {O : Oracle} {cfg : Config} {s s' sf : PState} {e : Event} {es : List Event} {o : List Out}
    {os : List (List Out)} (h1 : step O cfg s e = .ok s' o) (h2 : run O cfg s' es = .ok (sf, os)) :
    run O cfg s (e :: es) = .ok (sf, o :: os) := by
  unfold run
  rw [h1]
  simp only [h2]

theorem run_append {O : Oracle} {cfg : Config} : ∀ (es1 : List Event) {s s1 sf : PState} {es2 : List Event}
    {o1 o2 : List (List Out)}, run O cfg s es1 = .ok (s1, o1) → run O cfg s1 es2 = .ok (sf, o2) →
    run O cfg s (es1 ++ es2) = .ok (sf, o1 ++ o2) := by
  intro es1
  induction es1 with
  | nil =>
    intro s s1 sf es2 o1 o2 h1 h2
    simp [run] at h1
    obtain ⟨rfl, rfl⟩ := h1
    simpa using h2
  | cons e es ih =>
    intro s s1 sf es2 o1 o2 h1 h2
    unfold run at h1
    split at h1
    · cases h1
    · rename_i s' o hs
      split at h1
      · cases h1
      · rename_i sf' os hrest
        simp only [Except.ok.injEq, Prod.mk.injEq] at h1
        obtain ⟨rfl, rfl⟩ := h1
        exact run_cons_ok hs (ih hrest h2)

theorem noVaa_cons {o : List Out} {os : List (List Out)} (h1 : ∀ b, Out.vaa b ∉ o) (h2 : NoVaa os) : NoVaa (o :: os) := by
  intro x hx b
  simp at hx
  rcases hx with rfl | hx
  · exact h1 b
  · exact h2 x hx b

theorem run_post {O : Oracle} (hO : OracleOk O) (cfg : Config) {m : Msg} {d : Bytes} : ∀ (es : List Event) {s : PState},
    Post d s → (∀ e ∈ es, EvOk m d e) →
    ∃ sf outs, run O cfg s es = .ok (sf, outs) ∧ Post d sf ∧ NoVaa outs := by
  intro es
  induction es with
  | nil => intro s hP _; exact ⟨s, [], rfl, hP, by intro x hx; simp at hx⟩
  | cons e es ih =>
    intro s hP hev
    have hes : ∀ e ∈ es, EvOk m d e := fun x hx => hev x (by simp [hx])
    rcases hev e (by simp) with ⟨now, rfl⟩ | ⟨o, now, rfl, ho⟩
    · obtain ⟨s', outs, h1, h2, h3⟩ := post_message hO cfg hP m now
      obtain ⟨sf, os, h4, h5, h6⟩ := ih h3 hes
      exact ⟨sf, _, run_cons_ok h1 h4, h5, noVaa_cons h2 h6⟩
    · obtain ⟨s', h1, h3⟩ := post_obs hO cfg hP o now ho
      obtain ⟨sf, os, h4, h5, h6⟩ := ih h3 hes
      exact ⟨sf, _, run_cons_ok h1 h4, h5, noVaa_cons (by intro b hb; simp at hb) h6⟩

theorem run_pre {O : Oracle} (hO : OracleOk O) (cfg : Config) {g : GSet} (hgok : GSetOk g) {m : Msg} {d : Bytes}
    (hd : d = O.digestOf (vaaOfMsg g.index m).body)
    (hng : ¬ (m.emitter = cfg.govEmitter ∧ m.emitterChain = cfg.govChain)) :
    ∀ (es pre : List Event) {s : PState}, Pre O g m d pre s → (∀ e ∈ es, EvOk m d e) → NoTrig O g d pre es →
    ∃ sf outs, run O cfg s es = .ok (sf, outs) ∧ Pre O g m d (pre ++ es) sf ∧ NoVaa outs := by
  intro es
  induction es with
  | nil => intro pre s hP _ _; exact ⟨s, [], rfl, by simpa using hP, by intro x hx; simp at hx⟩
  | cons e es ih =>
    intro pre s hP hev hnt
    have hes : ∀ e ∈ es, EvOk m d e := fun x hx => hev x (by simp [hx])
    have happ : pre ++ e :: es = (pre ++ [e]) ++ es := by simp
    rw [happ]
    rcases hev e (by simp) with ⟨now, rfl⟩ | ⟨o, now, rfl, ho⟩
    · obtain ⟨s', outs, h1, h2, h3⟩ := pre_message hO cfg hd hng hP now
      obtain ⟨sf, os, h4, h5, h6⟩ := ih _ h3 hes hnt.2
      exact ⟨sf, _, run_cons_ok h1 h4, h5, noVaa_cons h2 h6⟩
    · obtain ⟨s', h1, h3⟩ := (pre_obs hO cfg hgok hP o now ho).1 hnt.1
      obtain ⟨sf, os, h4, h5, h6⟩ := ih _ h3 hes hnt.2
      exact ⟨sf, _, run_cons_ok h1 h4, h5, noVaa_cons (by intro b hb; simp at hb) h6⟩

/-- Either no event is a trigger, or there is a first one. -/
theorem first_trigger (O : Oracle) (g : GSet) (d : Bytes) : ∀ (es pre : List Event),
    NoTrig O g d pre es ∨
    ∃ es1 e es2, es = es1 ++ e :: es2 ∧ NoTrig O g d pre es1 ∧ Trigger O g d (pre ++ es1) e := by
  intro es
  induction es with
  | nil => intro pre; exact Or.inl trivial
  | cons e es ih =>
    intro pre
    by_cases ht : Trigger O g d pre e
    · exact Or.inr ⟨[], e, es, rfl, trivial, by simpa using ht⟩
    · rcases ih (pre ++ [e]) with h | ⟨es1, e', es2, rfl, hn, ht'⟩
      · exact Or.inl ⟨ht, h⟩
      · exact Or.inr ⟨e :: es1, e', es2, rfl, ⟨ht, hn⟩, by simpa using ht'⟩

theorem noTrig_iff (O : Oracle) (g : GSet) (d : Bytes) : ∀ (es pre : List Event),
    NoTrig O g d pre es ↔ ∀ es1 e es2, es = es1 ++ e :: es2 → ¬ Trigger O g d (pre ++ es1) e := by
  intro es
  induction es with
  | nil =>
    intro pre
    constructor
    · intro _ es1 e es2 h; simp at h
    · intro _; trivial
  | cons x xs ih =>
    intro pre
    constructor
    · intro ⟨h1, h2⟩ es1 e es2 h
      cases es1 with
      | nil =>
        simp at h
        obtain ⟨rfl, rfl⟩ := h
        simpa using h1
      | cons y ys =>
        simp at h
        obtain ⟨rfl, rfl⟩ := h
        have := (ih (pre ++ [x])).1 h2 ys e es2 rfl
        simpa using this
    · intro h
      refine ⟨by simpa using h [] x xs rfl, (ih (pre ++ [x])).2 ?_⟩
      intro es1 e es2 he
      have := h (x :: es1) e es2 (by simp [he])
      simpa using this

/-- **The whole run, described.** From a state with no entry for `d`: either no delivery is a trigger, the run ends
before the publication and emits no VAA; or the first trigger publishes, and nothing before or after it does. -/
theorem run_describe {O : Oracle} (hO : OracleOk O) (cfg : Config) {g : GSet} (hgok : GSetOk g) {m : Msg} {d : Bytes}
    (hd : d = O.digestOf (vaaOfMsg g.index m).body)
    (hng : ¬ (m.emitter = cfg.govEmitter ∧ m.emitterChain = cfg.govChain))
    {s0 : PState} (hP : Pre O g m d [] s0) (es : List Event) (hev : ∀ e ∈ es, EvOk m d e) :
    (NoTrig O g d [] es ∧ ∃ sf outs, run O cfg s0 es = .ok (sf, outs) ∧ Pre O g m d es sf ∧ NoVaa outs) ∨
    (∃ es1 o now es2 s1 outs1 sf outs2,
      es = es1 ++ Event.observation o now :: es2 ∧ NoTrig O g d [] es1 ∧ Trigger O g d es1 (.observation o now) ∧
      run O cfg s0 es1 = .ok (s1, outs1) ∧ NoVaa outs1 ∧
      run O cfg s0 es = .ok (sf, outs1 ++ [Out.vaa (marshal { vaaOfMsg g.index m with
          sigs := assemble g.keys (recordSig (entryOrFresh s1 d now) (bytesToAddress o.addr) o.sig).signatures })] :: outs2) ∧
      NoVaa outs2 ∧ Post d sf ∧
      C06.Valid (O.recover d)
        (assemble g.keys (recordSig (entryOrFresh s1 d now) (bytesToAddress o.addr) o.sig).signatures) g.keys ∧
      (assemble g.keys (recordSig (entryOrFresh s1 d now) (bytesToAddress o.addr) o.sig).signatures).length =
        (acceptedSigners O g d (es1 ++ [.observation o now])).length) := by
  rcases first_trigger O g d es [] with h | ⟨es1, e, es2, rfl, hn, ht⟩
  · left
    obtain ⟨sf, outs, h1, h2, h3⟩ := run_pre hO cfg hgok hd hng es [] hP hev h
    exact ⟨h, sf, outs, h1, by simpa using h2, h3⟩
  · right
    have hev1 : ∀ x ∈ es1, EvOk m d x := fun x hx => hev x (by simp [hx])
    have hev2 : ∀ x ∈ es2, EvOk m d x := fun x hx => hev x (by simp [hx])
    simp only [List.nil_append] at ht
    rcases hev e (by simp) with ⟨now, rfl⟩ | ⟨o, now, rfl, ho⟩
    · have := ht.1; simp [accAddr] at this
    · obtain ⟨s1, outs1, r1, p1, n1⟩ := run_pre hO cfg hgok hd hng es1 [] hP hev1 hn
      simp only [List.nil_append] at p1
      obtain ⟨s2, st2, post2, hval, hlen⟩ := (pre_obs hO cfg hgok p1 o now ho).2 ht
      obtain ⟨sf, outs2, r2, post, n2⟩ := run_post hO cfg es2 post2 hev2
      exact ⟨es1, o, now, es2, s1, outs1, sf, outs2, rfl, hn, ht, r1, n1, run_append es1 r1 (run_cons_ok st2 r2), n2, post,
        hval, hlen⟩

/-! ## counting and permutations -/

theorem acceptedSigners_length_mono {O : Oracle} {g : GSet} {d : Bytes} {es es' : List Event}
    (h : ∀ a, a ∈ accAddrs O g d es → a ∈ accAddrs O g d es') :
    (acceptedSigners O g d es).length ≤ (acceptedSigners O g d es').length := by
  unfold acceptedSigners
  rw [← List.countP_eq_length_filter, ← List.countP_eq_length_filter]
  apply List.countP_mono_left
  intro a _ ha
  simp only [List.contains_iff_mem] at ha ⊢
  exact h a ha

theorem acceptedSigners_nodup {O : Oracle} {g : GSet} (hgok : GSetOk g) (d : Bytes) (es : List Event) :
    (acceptedSigners O g d es).Nodup := by
  unfold acceptedSigners
  exact List.Nodup.sublist List.filter_sublist hgok.1

theorem acceptedSigners_perm {O : Oracle} {g : GSet} {d : Bytes} {es es' : List Event} (h : es.Perm es') :
    acceptedSigners O g d es = acceptedSigners O g d es' := by
  apply acceptedSigners_congr
  intro a
  exact (List.Perm.filterMap (accAddr O g d) h).mem_iff

theorem hasMsg_iff {es : List Event} : hasMsg es = true ↔ ∃ e ∈ es, isMsg e = true := by
  simp [hasMsg]

theorem hasMsg_perm {es es' : List Event} (h : es.Perm es') : hasMsg es = hasMsg es' := by
  rw [Bool.eq_iff_iff, hasMsg_iff, hasMsg_iff]
  constructor
  · rintro ⟨e, he, hm⟩; exact ⟨e, h.mem_iff.1 he, hm⟩
  · rintro ⟨e, he, hm⟩; exact ⟨e, h.mem_iff.2 he, hm⟩

/-- Some accepted observation is delivered after some message event. -/
def AfterMsg (O : Oracle) (g : GSet) (d : Bytes) (es : List Event) : Prop :=
  ∃ es1 e es2, es = es1 ++ e :: es2 ∧ hasMsg es1 = true ∧ (accAddr O g d e).isSome = true

theorem last_acc (O : Oracle) (g : GSet) (d : Bytes) : ∀ (es : List Event),
    (∃ e ∈ es, (accAddr O g d e).isSome = true) →
    ∃ es1 e es2, es = es1 ++ e :: es2 ∧ (accAddr O g d e).isSome = true ∧ ∀ x ∈ es2, accAddr O g d x = none := by
  intro es
  induction es with
  | nil => rintro ⟨e, he, _⟩; simp at he
  | cons y ys ih =>
    intro hex
    by_cases hys : ∃ e ∈ ys, (accAddr O g d e).isSome = true
    · obtain ⟨es1, e, es2, rfl, h1, h2⟩ := ih hys
      exact ⟨y :: es1, e, es2, rfl, h1, h2⟩
    · obtain ⟨e, he, hacc⟩ := hex
      simp only [List.mem_cons] at he
      rcases he with rfl | he
      · refine ⟨[], e, ys, rfl, hacc, ?_⟩
        intro x hx
        cases hx' : accAddr O g d x with
        | none => rfl
        | some a => exact absurd ⟨x, hx, by simp [hx']⟩ hys
      · exact absurd ⟨e, he, hacc⟩ hys

theorem afterMsg_last (O : Oracle) (g : GSet) (d : Bytes) : ∀ (es : List Event), AfterMsg O g d es →
    ∃ es1 e es2, es = es1 ++ e :: es2 ∧ hasMsg es1 = true ∧ (accAddr O g d e).isSome = true ∧
      ∀ x ∈ es2, accAddr O g d x = none := by
  intro es
  induction es with
  | nil => rintro ⟨es1, e, es2, h, _⟩; simp at h
  | cons y ys ih =>
    intro h
    by_cases hys : AfterMsg O g d ys
    · obtain ⟨es1, e, es2, rfl, h1, h2, h3⟩ := ih hys
      refine ⟨y :: es1, e, es2, rfl, ?_, h2, h3⟩
      have : hasMsg (y :: es1) = (isMsg y || hasMsg es1) := by simp [hasMsg]
      rw [this, h1]; simp
    · obtain ⟨a, x, b, hsplit, hm, hacc⟩ := h
      cases a with
      | nil => simp [hasMsg] at hm
      | cons y' a' =>
        simp only [List.cons_append, List.cons.injEq] at hsplit
        obtain ⟨rfl, rfl⟩ := hsplit
        have hy : isMsg y = true := by
          have : hasMsg (y :: a') = (isMsg y || hasMsg a') := by simp [hasMsg]
          rw [this] at hm
          cases hy : isMsg y with
          | true => rfl
          | false =>
            rw [hy] at hm
            simp only [Bool.false_or] at hm
            exact absurd ⟨a', x, b, rfl, hm, hacc⟩ hys
        obtain ⟨es1, e, es2, he, h1, h2⟩ := last_acc O g d (a' ++ x :: b) ⟨x, by simp, hacc⟩
        refine ⟨y :: es1, e, es2, by rw [he]; rfl, ?_, h1, h2⟩
        simp [hasMsg, hy]

theorem accAddrs_eq_nil {O : Oracle} {g : GSet} {d : Bytes} {es : List Event} (h : ∀ x ∈ es, accAddr O g d x = none) :
    accAddrs O g d es = [] := by
  unfold accAddrs
  rw [List.filterMap_eq_nil_iff]
  exact h

/-- A trigger somewhere in `es` implies: a message is in `es` and quorum many distinct accepted signers are in `es`. -/
theorem trigger_quorum {O : Oracle} {g : GSet} {d : Bytes} {es1 es2 : List Event} {e : Event}
    (ht : Trigger O g d es1 e) :
    hasMsg (es1 ++ e :: es2) = true ∧ quorum g.keys.length ≤ (acceptedSigners O g d (es1 ++ e :: es2)).length := by
  constructor
  · rw [hasMsg_append, ht.2.1]; simp
  · refine Nat.le_trans ht.2.2 (acceptedSigners_length_mono ?_)
    intro a ha
    have : es1 ++ e :: es2 = (es1 ++ [e]) ++ es2 := by simp
    rw [this, accAddrs_append]
    exact List.mem_append_left _ ha

/-- Conversely, when some accepted observation comes after the message, the last accepted observation is a trigger as
soon as `es` holds quorum many distinct accepted signers. -/
theorem quorum_trigger {O : Oracle} {g : GSet} {d : Bytes} {es : List Event} (hafter : AfterMsg O g d es)
    (hq : quorum g.keys.length ≤ (acceptedSigners O g d es).length) :
    ∃ es1 e es2, es = es1 ++ e :: es2 ∧ Trigger O g d es1 e := by
  obtain ⟨es1, e, es2, rfl, h1, h2, h3⟩ := afterMsg_last O g d es hafter
  refine ⟨es1, e, es2, rfl, h2, h1, ?_⟩
  have : acceptedSigners O g d (es1 ++ e :: es2) = acceptedSigners O g d (es1 ++ [e]) := by
    apply acceptedSigners_congr
    intro a
    have e1 : es1 ++ e :: es2 = (es1 ++ [e]) ++ es2 := by simp
    rw [e1, accAddrs_append, accAddrs_eq_nil h3, List.append_nil]
  rw [← this]; exact hq

/-! ## counting the published VAAs of a run -/

/-- Number of `SignedVAAWithQuorum` broadcasts in the outputs of a run. -/
def vaaCount (outs : List (List Out)) : Nat := (outs.flatten.filter isVaaOut).length

theorem vaaCount_noVaa {outs : List (List Out)} (h : NoVaa outs) : vaaCount outs = 0 := by
  unfold vaaCount
  rw [List.length_eq_zero_iff, List.filter_eq_nil_iff]
  intro x hx
  rw [List.mem_flatten] at hx
  obtain ⟨os, hos, hx⟩ := hx
  cases x with
  | vaa b => exact absurd hx (h os hos b)
  | _ => simp [isVaaOut]

theorem vaaCount_shape {o1 o2 : List (List Out)} (b : Bytes) (h1 : NoVaa o1) (h2 : NoVaa o2) :
    vaaCount (o1 ++ [Out.vaa b] :: o2) = 1 := by
  have a1 := vaaCount_noVaa h1
  have a2 := vaaCount_noVaa h2
  unfold vaaCount at *
  simp only [List.flatten_append, List.flatten_cons, List.filter_append, List.length_append]
  rw [a1, a2]
  simp [List.filter, isVaaOut]

theorem mem_shape {o1 o2 : List (List Out)} {b b' : Bytes} {os : List Out} (h1 : NoVaa o1) (h2 : NoVaa o2)
    (hos : os ∈ o1 ++ [Out.vaa b] :: o2) (hb : Out.vaa b' ∈ os) : os = [Out.vaa b] ∧ b' = b := by
  simp only [List.mem_append, List.mem_cons] at hos
  rcases hos with hos | rfl | hos
  · exact absurd hb (h1 os hos b')
  · simp at hb; exact ⟨rfl, hb⟩
  · exact absurd hb (h2 os hos b')

end Whv.Proc
