import Whv.Lemmas.ProcC01
/-!
Order independence of the aggregation of one chain message (C02, "confluence").

Setting: a fixed guardian set `g`, a fixed chain message `m` with digest `d`, and event lists made only of
`message m _` and `observation o _` with `o.hash = d`. The run is split in two phases: before the publication
(`Pre`, which ties the entry for `d` to the events handled so far) and after it (`Post`, `submitted = true`).
The step that goes from the first to the second phase is exactly the first `Trigger`.
-/
namespace Whv.Proc
open Whv

/-! ## association lists -/

theorem lookup_alInsert {α β : Type} [BEq α] [LawfulBEq α] (k k' : α) (v : β) (l : List (α × β)) :
    (alInsert k v l).lookup k' = if (k' == k) = true then some v else l.lookup k' := by
  induction l with
  | nil =>
    simp only [alInsert, List.lookup]
    cases h : k' == k <;> simp
  | cons hd tl ih =>
    obtain ⟨k0, v0⟩ := hd
    unfold alInsert
    by_cases h0 : (k0 == k) = true
    · rw [if_pos h0]
      have e : k0 = k := by simpa using h0
      subst e
      simp only [List.lookup]
      cases h : k' == k0 <;> simp
    · rw [if_neg h0]
      simp only [List.lookup]
      cases h : k' == k0 with
      | false => simp only; exact ih
      | true =>
        have e : k' = k0 := by simpa using h
        subst e
        simp only
        rw [if_neg h0]

theorem assembleFrom_length (sigs : List (Addr × Bytes)) : ∀ (ks : List Addr) (i : Nat),
    (assembleFrom sigs ks i).length = (ks.filter (fun a => (sigs.lookup a).isSome)).length := by
  intro ks
  induction ks with
  | nil => intro i; simp [assembleFrom]
  | cons a ks ih =>
    intro i
    unfold assembleFrom
    cases h : sigs.lookup a with
    | none => simp [List.filter, h, ih]
    | some sg => simp [List.filter, h, ih]

theorem assemble_length (keys : List Addr) (sigs : List (Addr × Bytes)) :
    (assemble keys sigs).length = (keys.filter (fun a => (sigs.lookup a).isSome)).length :=
  assembleFrom_length sigs keys 0

/-! ## the events of one aggregation window -/

/-- The observation passes the gate of set `g` for digest `d`: the signature recovers to the address it claims, and that
address is a member. -/
def isAcc (O : Oracle) (g : GSet) (d : Bytes) (o : Obs) : Bool :=
  decide (O.recover d o.sig = some (bytesToAddress o.addr)) && g.keys.contains (bytesToAddress o.addr)

/-- The signer an event contributes: the claimed address of an accepted observation, nothing otherwise. -/
def accAddr (O : Oracle) (g : GSet) (d : Bytes) : Event → Option Addr
  | .observation o _ => if isAcc O g d o = true then some (bytesToAddress o.addr) else none
  | _ => none

/-- Signers of the accepted observations of `es`, in arrival order, with repetitions. -/
def accAddrs (O : Oracle) (g : GSet) (d : Bytes) (es : List Event) : List Addr := es.filterMap (accAddr O g d)

/-- The distinct members of `g` of which `es` contains an accepted observation (listed in guardian-set order). -/
def acceptedSigners (O : Oracle) (g : GSet) (d : Bytes) (es : List Event) : List Addr :=
  g.keys.filter (fun a => (accAddrs O g d es).contains a)

def isMsg : Event → Bool
  | .message _ _ => true
  | _ => false

def hasMsg (es : List Event) : Bool := es.any isMsg

def isVaaOut : Out → Bool
  | .vaa _ => true
  | _ => false

/-- The events considered: the chain message `m` (any time), and observations for its digest `d`. -/
def EvOk (m : Msg) (d : Bytes) (e : Event) : Prop :=
  (∃ now, e = .message m now) ∨ (∃ o now, e = .observation o now ∧ o.hash = d)

/-- `e`, delivered after the events `pre`, is the delivery that completes the quorum: it is an accepted observation,
the message has been seen before it, and with it at least `quorum` distinct members have signed. -/
def Trigger (O : Oracle) (g : GSet) (d : Bytes) (pre : List Event) (e : Event) : Prop :=
  (accAddr O g d e).isSome = true ∧ hasMsg pre = true ∧
    quorum g.keys.length ≤ (acceptedSigners O g d (pre ++ [e])).length

/-- No event of `es`, delivered after `pre`, is a `Trigger`. -/
def NoTrig (O : Oracle) (g : GSet) (d : Bytes) : List Event → List Event → Prop
  | _, [] => True
  | pre, e :: es => ¬ Trigger O g d pre e ∧ NoTrig O g d (pre ++ [e]) es

theorem isAcc_iff (O : Oracle) (g : GSet) (d : Bytes) (o : Obs) :
    isAcc O g d o = true ↔ O.recover d o.sig = some (bytesToAddress o.addr) ∧ bytesToAddress o.addr ∈ g.keys := by
  simp [isAcc]

theorem accAddrs_append (O : Oracle) (g : GSet) (d : Bytes) (es es' : List Event) :
    accAddrs O g d (es ++ es') = accAddrs O g d es ++ accAddrs O g d es' := by
  simp [accAddrs, List.filterMap_append]

theorem accAddrs_single_none {O : Oracle} {g : GSet} {d : Bytes} {e : Event} (h : accAddr O g d e = none)
    (es : List Event) : accAddrs O g d (es ++ [e]) = accAddrs O g d es := by
  rw [accAddrs_append]; simp [accAddrs, List.filterMap, h]

theorem accAddrs_single_some {O : Oracle} {g : GSet} {d : Bytes} {e : Event} {a : Addr} (h : accAddr O g d e = some a)
    (es : List Event) : accAddrs O g d (es ++ [e]) = accAddrs O g d es ++ [a] := by
  rw [accAddrs_append]; simp [accAddrs, List.filterMap, h]

theorem mem_accAddrs {O : Oracle} {g : GSet} {d : Bytes} {es : List Event} {a : Addr} :
    a ∈ accAddrs O g d es ↔ ∃ o now, Event.observation o now ∈ es ∧ isAcc O g d o = true ∧ bytesToAddress o.addr = a := by
  unfold accAddrs
  rw [List.mem_filterMap]
  constructor
  · rintro ⟨e, he, h⟩
    cases e with
    | observation o now =>
      simp only [accAddr] at h
      by_cases hacc : isAcc O g d o = true
      · rw [if_pos hacc] at h
        exact ⟨o, now, he, hacc, Option.some.inj h⟩
      · rw [if_neg hacc] at h; cases h
    | _ => simp [accAddr] at h
  · rintro ⟨o, now, he, hacc, rfl⟩
    exact ⟨_, he, by simp [accAddr, hacc]⟩

theorem acceptedSigners_congr {O : Oracle} {g : GSet} {d : Bytes} {es es' : List Event}
    (h : ∀ a, a ∈ accAddrs O g d es ↔ a ∈ accAddrs O g d es') :
    acceptedSigners O g d es = acceptedSigners O g d es' := by
  unfold acceptedSigners
  apply List.filter_congr
  intro a _
  have := h a
  cases h1 : (accAddrs O g d es).contains a <;> cases h2 : (accAddrs O g d es').contains a <;> simp_all

theorem hasMsg_append (es es' : List Event) : hasMsg (es ++ es') = (hasMsg es || hasMsg es') := by
  simp [hasMsg]

end Whv.Proc
