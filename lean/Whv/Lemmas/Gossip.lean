import Whv.Model.Gossip
/-!
# Helper lemmas for the gossip model (C03): envelope address, membership lookup, association lists, the table
-/
namespace Whv.Gossip

theorem bytesToAddress_length (b : Bytes) : (bytesToAddress b).length = 20 := by
  unfold bytesToAddress
  split
  · simp only [List.length_drop]; omega
  · simp only [List.length_append, List.length_replicate]; omega

theorem bytesToAddress_of_length {b : Bytes} (h : b.length = 20) : bytesToAddress b = b := by
  unfold bytesToAddress
  simp [h]

/-- Left truncation: only the last 20 bytes of a longer envelope address count. -/
theorem bytesToAddress_append {junk a : Bytes} (h : a.length = 20) : bytesToAddress (junk ++ a) = a := by
  unfold bytesToAddress
  by_cases hj : junk.length = 0
  · have : junk = [] := List.eq_nil_of_length_eq_zero hj
    subst this; simp [h]
  · have : (junk ++ a).length > 20 := by simp only [List.length_append]; omega
    simp [h]

theorem keyOf_some {gs : List Addr} {a k : Addr} (h : keyOf gs a = some k) : k = a ∧ a ∈ gs := by
  unfold keyOf at h
  have h1 := List.find?_some h
  have h2 := List.mem_of_find?_eq_some h
  have : k = a := by simpa using h1
  subst this
  exact ⟨rfl, h2⟩

theorem keyOf_none {gs : List Addr} {a : Addr} (h : keyOf gs a = none) : a ∉ gs := by
  unfold keyOf at h
  intro hm
  have := List.find?_eq_none.1 h a hm
  simp at this

theorem keyOf_of_mem {gs : List Addr} {a : Addr} (h : a ∈ gs) : keyOf gs a = some a := by
  cases hk : keyOf gs a with
  | none => exact absurd h (keyOf_none hk)
  | some k => rw [(keyOf_some hk).1]

theorem envelopeKey_false_none {gs : List Addr} {a : Addr} (h : envelopeKey false gs a = none) : a ∉ gs := by
  unfold envelopeKey at h
  cases hk : keyOf gs a with
  | none => exact keyOf_none hk
  | some k => rw [hk] at h; cases h

theorem envelopeKey_false_some {gs : List Addr} {a k : Addr} (h : envelopeKey false gs a = some k) : k = a ∧ a ∈ gs := by
  unfold envelopeKey at h
  cases hk : keyOf gs a with
  | none => rw [hk] at h; simp at h
  | some k' => rw [hk] at h; injection h with h; subst h; exact keyOf_some hk

theorem envelopeKey_of_mem {gs : List Addr} {a : Addr} (dv : Bool) (h : a ∈ gs) : envelopeKey dv gs a = some a := by
  unfold envelopeKey
  rw [keyOf_of_mem h]

/-! ## association lists -/

theorem assocSet_length_le {κ ν : Type} [BEq κ] (l : List (κ × ν)) (k : κ) (v : ν) :
    (assocSet l k v).length ≤ l.length + 1 := by
  unfold assocSet
  simp only [List.length_cons]
  have := List.length_filter_le (fun e : κ × ν => !(e.1 == k)) l
  omega

theorem assocSet_lookup_self {κ ν : Type} [BEq κ] [LawfulBEq κ] (l : List (κ × ν)) (k : κ) (v : ν) :
    (assocSet l k v).lookup k = some v := by
  simp [assocSet]

theorem lookup_filter_ne {κ ν : Type} [BEq κ] [LawfulBEq κ] (l : List (κ × ν)) {k k' : κ} (hne : k' ≠ k) :
    (l.filter (fun e => !(e.1 == k))).lookup k' = l.lookup k' := by
  induction l with
  | nil => rfl
  | cons e l ih =>
    obtain ⟨a, b⟩ := e
    by_cases ha : a = k
    · subst ha
      have h1 : (k' == a) = false := by simpa using hne
      simp [List.lookup_cons, h1, ih]
    · have h2 : (!(a == k)) = true := by simpa using ha
      simp only [List.filter_cons, h2, if_true, List.lookup_cons, ih]

theorem assocSet_lookup_ne {κ ν : Type} [BEq κ] [LawfulBEq κ] (l : List (κ × ν)) {k k' : κ} (v : ν) (hne : k' ≠ k) :
    (assocSet l k v).lookup k' = l.lookup k' := by
  have h1 : (k' == k) = false := by simpa using hne
  simp only [assocSet, List.lookup_cons, h1]
  exact lookup_filter_ne l hne

theorem mem_assocSet {κ ν : Type} [BEq κ] {l : List (κ × ν)} {k : κ} {v : ν} {e : κ × ν} (h : e ∈ assocSet l k v) :
    e = (k, v) ∨ e ∈ l := by
  unfold assocSet at h
  rcases List.mem_cons.1 h with h | h
  · exact Or.inl h
  · exact Or.inr (List.mem_filter.1 h).1

theorem lookup_mem {κ ν : Type} [BEq κ] [LawfulBEq κ] {l : List (κ × ν)} {k : κ} {v : ν} (h : l.lookup k = some v) :
    (k, v) ∈ l := by
  induction l with
  | nil => cases h
  | cons e l ih =>
    obtain ⟨a, b⟩ := e
    simp only [List.lookup_cons] at h
    by_cases hc : k = a
    · subst hc; simp at h; subst h; exact List.mem_cons_self
    · have : (k == a) = false := by simpa using hc
      rw [this] at h
      exact List.mem_cons_of_mem _ (ih h)

/-! ## the table -/

/-- "The table has room" — exactly when `SetHeartbeat` succeeds. -/
def hasRoom (cap : Nat) (t : Table) (a : Addr) : Bool :=
  match t.get a with
  | none => true
  | some v => decide (v.length < cap)

/-- The table `SetHeartbeat` leaves behind when it succeeds. -/
def stored (t : Table) (a : Addr) (p : Peer) (hb : Hb) : Table :=
  assocSet t a (assocSet ((t.get a).getD []) p hb)

theorem setHeartbeat_eq (cap : Nat) (t : Table) (a : Addr) (p : Peer) (hb : Hb) :
    setHeartbeat cap t a p hb = if hasRoom cap t a then some (stored t a p hb) else none := by
  unfold setHeartbeat hasRoom stored
  cases h : t.get a with
  | none => simp [assocSet]
  | some v =>
    by_cases hc : v.length ≥ cap
    · have : ¬ v.length < cap := by omega
      simp [hc, this]
    · have : v.length < cap := by omega
      simp [hc, this]

theorem setHeartbeat_some_iff (cap : Nat) (t t' : Table) (a : Addr) (p : Peer) (hb : Hb) :
    setHeartbeat cap t a p hb = some t' ↔ hasRoom cap t a = true ∧ t' = stored t a p hb := by
  rw [setHeartbeat_eq]
  cases h : hasRoom cap t a
  · simp
  · simp [eq_comm]

/-- every guardian's entry count is within `cap` -/
def CapOk (cap : Nat) (t : Table) : Prop := ∀ e ∈ t, e.2.length ≤ cap

theorem capOk_stored {cap : Nat} {t : Table} {a : Addr} {p : Peer} {hb : Hb} (hc : 1 ≤ cap) (h : CapOk cap t)
    (hr : hasRoom cap t a = true) : CapOk cap (stored t a p hb) := by
  intro e he
  rcases mem_assocSet he with he | he
  · subst he
    simp only
    unfold hasRoom at hr
    cases hg : t.get a with
    | none => simp [assocSet]; exact hc
    | some v =>
      rw [hg] at hr
      have := assocSet_length_le v p hb
      simp only [Option.getD_some]
      simp only [decide_eq_true_eq] at hr
      omega
  · exact h e he

theorem capOk_setHeartbeat {cap : Nat} {t t' : Table} {a : Addr} {p : Peer} {hb : Hb} (hc : 1 ≤ cap) (h : CapOk cap t)
    (hs : setHeartbeat cap t a p hb = some t') : CapOk cap t' := by
  obtain ⟨hr, rfl⟩ := (setHeartbeat_some_iff ..).1 hs
  exact capOk_stored hc h hr

theorem capOk_cleanup {cap maxAge : Nat} {now : Int} {t : Table} (h : CapOk cap t) : CapOk cap (cleanup maxAge now t) := by
  intro e he
  unfold cleanup at he
  obtain ⟨⟨a, v⟩, hm, rfl⟩ := List.mem_map.1 he
  have := h _ hm
  have hl := List.length_filter_le (fun (x : Peer × Hb) => !(decide (now - x.2.ts > (maxAge : Int)))) v
  simp only at this ⊢
  omega

/-- addresses that have an entry (an inner map) in the table -/
def keys (t : Table) : List Addr := t.map (·.1)

theorem keys_stored {t : Table} {a x : Addr} {p : Peer} {hb : Hb} (h : x ∈ keys (stored t a p hb)) : x = a ∨ x ∈ keys t := by
  unfold keys at *
  obtain ⟨e, he, rfl⟩ := List.mem_map.1 h
  rcases mem_assocSet he with he | he
  · subst he; exact Or.inl rfl
  · exact Or.inr (List.mem_map.2 ⟨e, he, rfl⟩)

theorem keys_cleanup (maxAge : Nat) (now : Int) (t : Table) : keys (cleanup maxAge now t) = keys t := by
  unfold keys cleanup
  simp [List.map_map, Function.comp_def]

end Whv.Gossip
