import Whv.Lemmas.Db
import Whv.Props.C05
/-!
# C12 — stored VAAs come back byte-exact and emitter queries never mix streams

Model: `Whv/Model/Db.lean` (keys of `structs.go`, `db.go` with the REPAIRED gap scan prefix, the lookup RPCs, `FindMissingMessages`),
tied to the Go code by the correspondence runs of `checks/c12.py`. Badger's ordered prefix iteration is assumed (the store is an
association list, a scan sorts by key and filters by prefix). Histories are chronological lists of successful stores.

Domain: identifiers with a 32-byte emitter address (`IdOK`, what the Go type can hold); for the scans, VAAs in the C05 domain (`Vaa.WF`).
-/
namespace Whv.C12
open Whv Whv.Db

/-! ## identifiers ↔ keys -/

/-- Two identifiers have the same store key only if they are the same identifier (decimal renderings contain no `/`,
the address rendering has fixed width). -/
theorem key_injective (a b : VaaId) (ha : IdOK a) (hb : IdOK b) (h : key a = key b) : a = b :=
  key_inj (by rw [ha, hb]) h

/-- A key lies under the (repaired) gap-scan prefix of stream `s` iff its identifier is in stream `s`. -/
theorem prefix_iff_stream (s : Stream) (hs : s.addr.length = 32) (i : VaaId) (hi : IdOK i) :
    gapPrefix s.ec s.addr s.tc <+: key i ↔ inStream s i = true := by
  rw [gapPrefix_prefix_iff _ _ _ _ (by rw [hs, hi])]
  simp [inStream, and_assoc]

/-- A key lies under `GovernanceEmitterPrefixBytes` of `(ec, addr)` iff the identifier has that emitter
(the prefix ends in the fixed-width address, so no separator is needed there). -/
theorem gov_prefix_iff_emitter (ec : Nat) (addr : Bytes) (ha : addr.length = 32) (i : VaaId) (hi : IdOK i) :
    govPrefix ec addr <+: key i ↔ (i.emitterChain = ec ∧ i.emitter = addr) :=
  govPrefix_prefix_iff _ _ _ (by rw [ha, hi])

private def addrA : Bytes := List.replicate 32 7

/-- Why the repair is needed: `EmitterPrefixBytes` itself (no trailing separator) of target chain 2 is a prefix of a key of
target chain 25 — scanning with it mixes streams. -/
theorem emitterPrefix_mixes_streams :
    ∃ i : VaaId, IdOK i ∧ i.targetChain ≠ 2 ∧ emitterPrefix 13 addrA 2 <+: key i :=
  ⟨⟨13, addrA, 25, 9⟩, by decide, by decide, ['5', '/', '9'], by decide⟩

example : IdOK ⟨13, addrA, 2, 0⟩ ∧ IdOK ⟨13, addrA, 25, 0⟩ ∧ key ⟨13, addrA, 2, 0⟩ ≠ key ⟨13, addrA, 25, 0⟩ := by decide
example : ¬ gapPrefix 13 addrA 2 <+: key ⟨13, addrA, 25, 9⟩ := by
  rw [prefix_iff_stream ⟨13, addrA, 2⟩ (by decide) _ (by decide)]; decide

/-! ## store / lookup -/

/-- Storing signed VAAs one after the other never panics and reaches the store of the put history. -/
theorem store_history (vs : List Vaa) (hs : ∀ v ∈ vs, v.sigs ≠ []) (st : Store) :
    storeAll st vs = .ok ((putsOf vs).foldl (fun st p => st.put (key p.1) p.2) st) := by
  induction vs generalizing st with
  | nil => rfl
  | cons v vs ih =>
    have hv : ¬ v.sigs.length = 0 := by
      have := hs v (by simp); simpa using this
    simp only [storeAll, storeSignedVAA, if_neg hv, putsOf, List.map_cons, List.foldl_cons]
    exact ih (fun w hw => hs w (by simp [hw])) _

/-- An unsigned VAA makes `StoreSignedVAA` panic and nothing is written. -/
theorem store_unsigned_panics (st : Store) (v : Vaa) (h : v.sigs = []) : storeSignedVAA st v = .panic := by
  simp [storeSignedVAA, h]

/-- `StoreSignedVAA` reports success only with the entry written: key of the VAA's identifier, value `Marshal(v)` (what C16's
acknowledgement refers to). -/
theorem store_ok_written (st st' : Store) (v : Vaa) (h : storeSignedVAA st v = .ok st') :
    v.sigs ≠ [] ∧ getSignedVAABytes st' v.body.id = some (marshal v) := by
  unfold storeSignedVAA at h
  split at h
  · cases h
  · rename_i hs
    cases h
    exact ⟨by intro e; apply hs; simp [e], by simp [getSignedVAABytes, get_put]⟩

/-- After ANY history of stores, a lookup returns exactly the bytes stored last under that identifier, and not-found
if nothing was ever stored under it. -/
theorem get_exact (h : List Put) (hok : ∀ p ∈ h, IdOK p.1) (id : VaaId) (hid : IdOK id) :
    getSignedVAABytes (run h) id = lastStored h id :=
  get_run h hok id hid

/-- …in particular an identifier that never occurred is not found, whatever else the store holds. -/
theorem get_absent (h : List Put) (hok : ∀ p ∈ h, IdOK p.1) (id : VaaId) (hid : IdOK id) (habs : ∀ p ∈ h, p.1 ≠ id) :
    getSignedVAABytes (run h) id = none := by
  rw [get_exact h hok id hid]
  cases hl : lastStored h id with
  | none => rfl
  | some b => exact absurd rfl (habs _ (lastStored_some_mem hl))

/-- …and a store under any other identifier does not change what a lookup of `id` returns. -/
theorem get_other_unaffected (h : List Put) (hok : ∀ p ∈ h, IdOK p.1) (p : Put) (hp : IdOK p.1) (id : VaaId) (hid : IdOK id)
    (hne : p.1 ≠ id) : getSignedVAABytes (run (h ++ [p])) id = getSignedVAABytes (run h) id := by
  rw [get_exact _ (by intro q hq; rcases List.mem_append.1 hq with hq | hq; exact hok q hq; simp at hq; rw [hq]; exact hp) id hid,
    get_exact h hok id hid, lastStored_snoc, if_neg hne]

/-- The bytes of a stored VAA are its encoding, which decodes back to the VAA (C05): a lookup hands back the VAA intact. -/
theorem get_stored_vaa (vs : List Vaa) (hwf : ∀ v ∈ vs, v.WF) (id : VaaId) (hid : IdOK id) (b : Bytes)
    (hg : getSignedVAABytes (run (putsOf vs)) id = some b) : ∃ v ∈ vs, v.body.id = id ∧ b = marshal v ∧ unmarshal b = some v := by
  have hok : ∀ p ∈ putsOf vs, IdOK p.1 := by
    intro p hp
    obtain ⟨v, hv, rfl⟩ := List.mem_map.1 hp
    exact (hwf v hv).2.2.2.2.1.2.2.2.2.1
  rw [get_exact _ hok id hid] at hg
  have hm := lastStored_some_mem hg
  obtain ⟨v, hv, he⟩ := List.mem_map.1 hm
  have e1 : v.body.id = id := congrArg Prod.fst he
  have e2 : marshal v = b := congrArg Prod.snd he
  exact ⟨v, hv, e1, e2.symm, by rw [← e2]; exact C05.decode_encode v (hwf v hv)⟩

/-! ## gap detection -/

private theorem wf_idOK {v : Vaa} (h : v.WF) : IdOK v.body.id := h.2.2.2.2.1.2.2.2.2.1

private theorem putsOf_ok {vs : List Vaa} (hwf : ∀ v ∈ vs, v.WF) : ∀ p ∈ putsOf vs, IdOK p.1 := by
  intro p hp
  obtain ⟨v, hv, rfl⟩ := List.mem_map.1 hp
  exact wf_idOK (hwf v hv)

private theorem marshal_inj {v w : Vaa} (hv : v.WF) (hw : w.WF) (h : marshal v = marshal w) : v = w := by
  have h1 := C05.decode_encode v hv
  rw [h, C05.decode_encode w hw] at h1
  exact (Option.some.inj h1).symm

private theorem inStream_iff (s : Stream) (i : VaaId) :
    inStream s i = true ↔ i.emitterChain = s.ec ∧ i.emitter = s.addr ∧ i.targetChain = s.tc := by
  simp [inStream, and_assoc]

/-- what the store of a VAA history holds: exactly one entry per identifier ever stored, with the last VAA stored under it -/
private theorem mem_run_vaas {vs : List Vaa} (hwf : ∀ v ∈ vs, v.WF) {e : Key × Bytes} (he : e ∈ run (putsOf vs)) :
    ∃ v ∈ vs, e.1 = key v.body.id ∧ e.2 = marshal v ∧ lastStored (putsOf vs) v.body.id = some (marshal v) := by
  obtain ⟨id, _, hk, hl⟩ := (mem_run _ (putsOf_ok hwf) e.1 e.2).1 he
  obtain ⟨v, hv, hp⟩ := List.mem_map.1 (lastStored_some_mem hl)
  have e1 : v.body.id = id := congrArg Prod.fst hp
  have e2 : marshal v = e.2 := congrArg Prod.snd hp
  exact ⟨v, hv, by rw [hk, e1], e2.symm, by rw [e1, e2]; exact hl⟩

/-- The gap query on the store reached by ANY history of stored VAAs answers exactly from the sequences of the queried
stream: `first = 0`, `last` = greatest stored sequence of that stream, `missing` = the sequences up to `last` not stored in
that stream — no entry of any other emitter chain, emitter address or target chain has any influence. -/
theorem gap_spec (vs : List Vaa) (hwf : ∀ v ∈ vs, v.WF) (s : Stream) (hs : s.addr.length = 32) :
    findGap (run (putsOf vs)) s.ec s.addr s.tc = specGap (streamSeqs (putsOf vs) s) := by
  have hok := putsOf_ok hwf
  have hscan : ∀ e ∈ (run (putsOf vs)).scan (gapPrefix s.ec s.addr s.tc), ∃ v : Vaa, v.WF ∧ e.2 = marshal v := by
    intro e he
    obtain ⟨v, hv, _, h2, _⟩ := mem_run_vaas hwf (mem_scan.1 he).1
    exact ⟨v, hwf v hv, h2⟩
  obtain ⟨ds, hds, hmem⟩ := decodeAll_of_marshal C05.decode_encode _ hscan
  unfold findGap
  rw [hds]
  simp only []
  rw [gapOfSeqs_eq_specGap]
  apply specGap_congr
  intro n
  constructor
  · intro hn
    obtain ⟨x, hx, rfl⟩ := List.mem_map.1 hn
    obtain ⟨hxwf, e, he, hex⟩ := (hmem x).1 hx
    obtain ⟨hest, hpre⟩ := mem_scan.1 he
    obtain ⟨v, hv, hk, hb, _⟩ := mem_run_vaas hwf hest
    have hvx : v = x := marshal_inj (hwf v hv) hxwf (by rw [← hb, hex])
    subst hvx
    rw [hk, prefix_iff_stream s hs _ (wf_idOK hxwf)] at hpre
    unfold streamSeqs
    refine List.mem_map.2 ⟨(v.body.id, marshal v), ?_, rfl⟩
    rw [List.mem_filter]
    exact ⟨List.mem_map.2 ⟨v, hv, rfl⟩, hpre⟩
  · intro hn
    unfold streamSeqs at hn
    obtain ⟨p, hp, rfl⟩ := List.mem_map.1 hn
    obtain ⟨hpH, hin⟩ := List.mem_filter.1 hp
    obtain ⟨b, hb⟩ := lastStored_isSome_of_mem (List.mem_map.2 ⟨p, hpH, rfl⟩)
    have hpok : IdOK p.1 := hok p hpH
    have hst : (key p.1, b) ∈ run (putsOf vs) := (mem_run _ hok _ _).2 ⟨p.1, hpok, rfl, hb⟩
    obtain ⟨v, hv, hk, hbv, _⟩ := mem_run_vaas hwf hst
    have hid : p.1 = v.body.id := key_injective _ _ hpok (wf_idOK (hwf v hv)) hk
    have hsc : (key p.1, b) ∈ (run (putsOf vs)).scan (gapPrefix s.ec s.addr s.tc) :=
      mem_scan.2 ⟨hst, (prefix_iff_stream s hs _ hpok).2 hin⟩
    have hvds : v ∈ ds := (hmem v).2 ⟨hwf v hv, _, hsc, hbv⟩
    exact List.mem_map.2 ⟨v, hvds, by rw [hid]; rfl⟩

/-- What `specGap` says, in the statement's words. -/
theorem specGap_meaning (seqs : List Nat) :
    ∃ m l, specGap seqs = .ok m 0 l ∧ (∀ i, i ∈ m ↔ i ≤ l ∧ i ∉ seqs) ∧ (∀ x ∈ seqs, x ≤ l) ∧ (l = 0 ∨ l ∈ seqs) ∧
      m.Pairwise (· < ·) := by
  refine ⟨_, _, rfl, ?_, (maxSeq_spec seqs).1, (maxSeq_spec seqs).2, ?_⟩
  · intro i
    simp [List.mem_filter, List.mem_range]
    omega
  · exact List.Pairwise.filter _ List.pairwise_lt_range

/-- Two histories that agree on the VAAs of stream `s` get the same gap answer, whatever else they contain. -/
theorem gap_unaffected (vs ws : List Vaa) (hv : ∀ v ∈ vs, v.WF) (hw : ∀ v ∈ ws, v.WF) (s : Stream) (hs : s.addr.length = 32)
    (h : vs.filter (fun v => inStream s v.body.id) = ws.filter (fun v => inStream s v.body.id)) :
    findGap (run (putsOf vs)) s.ec s.addr s.tc = findGap (run (putsOf ws)) s.ec s.addr s.tc := by
  rw [gap_spec vs hv s hs, gap_spec ws hw s hs]
  have key : ∀ us : List Vaa, streamSeqs (putsOf us) s = (us.filter (fun v => inStream s v.body.id)).map (·.body.sequence) := by
    intro us
    induction us with
    | nil => rfl
    | cons u us ih =>
      unfold streamSeqs putsOf at *
      by_cases hu : inStream s u.body.id = true
      · simp [hu]; exact ⟨rfl, by simpa using ih⟩
      · simp [hu]; simpa using ih
  rw [key vs, key ws, h]

/-! ## governance batches -/

/-- The governance batch on the store reached by ANY history of stored VAAs returns exactly the entries
`(target chain, sequence, last stored bytes)` of the identifiers of the governance emitter whose sequence was asked for —
nothing of any other emitter chain or address, never an error. -/
theorem gov_batch_spec (vs : List Vaa) (hwf : ∀ v ∈ vs, v.WF) (ec : Nat) (addr : Bytes) (ha : addr.length = 32) (seqs : List Nat) :
    ∃ out, govBatch (run (putsOf vs)) ec addr seqs = some out ∧ ∀ g, g ∈ out ↔ govWanted (putsOf vs) ec addr seqs g := by
  have hok := putsOf_ok hwf
  have hkeys : ∀ e ∈ (run (putsOf vs)).scan (govPrefix ec addr),
      ∃ id : VaaId, IdOK id ∧ id.targetChain < 2 ^ 16 ∧ id.sequence < 2 ^ 64 ∧ e.1 = key id := by
    intro e he
    obtain ⟨v, hv, hk, _, _⟩ := mem_run_vaas hwf (mem_scan.1 he).1
    have hb := (hwf v hv).2.2.2.2.1
    exact ⟨v.body.id, wf_idOK (hwf v hv), hb.2.2.2.1, hb.2.2.2.2.2.1, hk⟩
  obtain ⟨out, hout, hmem⟩ := govLoop_keys seqs _ hkeys
  refine ⟨out, hout, ?_⟩
  intro g
  rw [hmem]
  constructor
  · rintro ⟨e, he, id, hid, hk, hsq, hg⟩
    obtain ⟨hest, hpre⟩ := mem_scan.1 he
    rw [hk, gov_prefix_iff_emitter ec addr ha id hid] at hpre
    obtain ⟨id', hid', hk', hl⟩ := (mem_run _ hok e.1 e.2).1 hest
    have : id' = id := key_injective _ _ hid' hid (by rw [← hk', hk])
    subst this
    exact ⟨id', hpre.1, hpre.2, by rw [hg], by rw [hg], by rw [hg]; exact hsq, by rw [hg]; exact hl⟩
  · rintro ⟨id, h1, h2, h3, h4, h5, h6⟩
    obtain ⟨v, hv, hp⟩ := List.mem_map.1 (lastStored_some_mem h6)
    have hid : IdOK id := by
      have : v.body.id = id := congrArg Prod.fst hp
      rw [← this]; exact wf_idOK (hwf v hv)
    have hst : (key id, g.bytes) ∈ run (putsOf vs) := (mem_run _ hok _ _).2 ⟨id, hid, rfl, h6⟩
    refine ⟨(key id, g.bytes), mem_scan.2 ⟨hst, (gov_prefix_iff_emitter ec addr ha id hid).2 ⟨h1, h2⟩⟩, id, hid, rfl, by rw [h4]; exact h5, ?_⟩
    cases g; simp_all

/-- The executable reference used by the driver lists exactly the wanted entries. -/
theorem specGov_iff (h : List Put) (ec : Nat) (addr : Bytes) (seqs : List Nat) (g : GovEntry) :
    g ∈ specGov h ec addr seqs ↔ govWanted h ec addr seqs g := by
  unfold specGov govWanted
  simp only [List.mem_filterMap, List.mem_filter, List.mem_eraseDups, List.mem_map, Option.map_eq_some_iff]
  constructor
  · rintro ⟨id, ⟨_, hc⟩, b, hl, rfl⟩
    simp only [Bool.and_eq_true, beq_iff_eq, List.contains_eq_mem, decide_eq_true_eq] at hc
    exact ⟨id, hc.1.1, hc.1.2, rfl, rfl, hc.2, hl⟩
  · rintro ⟨id, h1, h2, h3, h4, h5, h6⟩
    refine ⟨id, ⟨⟨(id, g.bytes), lastStored_some_mem h6, rfl⟩, ?_⟩, g.bytes, h6, ?_⟩
    · simp only [Bool.and_eq_true, beq_iff_eq, List.contains_eq_mem, decide_eq_true_eq]
      exact ⟨⟨h1, h2⟩, by rw [h4]; exact h5⟩
    · cases g; simp_all

/-- A VAA of another emitter chain or address added anywhere in the history does not change which entries a governance batch holds. -/
theorem gov_unaffected (vs : List Vaa) (w : Vaa) (ec : Nat) (addr : Bytes)
    (hne : ¬ (w.body.emitterChain = ec ∧ w.body.emitter = addr)) (seqs : List Nat) (g : GovEntry) :
    govWanted (putsOf (vs ++ [w])) ec addr seqs g ↔ govWanted (putsOf vs) ec addr seqs g := by
  unfold govWanted
  have hp : putsOf (vs ++ [w]) = putsOf vs ++ [(w.body.id, marshal w)] := by simp [putsOf]
  constructor
  · rintro ⟨id, h1, h2, h3, h4, h5, h6⟩
    refine ⟨id, h1, h2, h3, h4, h5, ?_⟩
    rw [hp, lastStored_snoc] at h6
    have : ¬ (w.body.id = id) := by
      intro e; apply hne; rw [← h1, ← h2, ← e]; exact ⟨rfl, rfl⟩
    simpa [this] using h6
  · rintro ⟨id, h1, h2, h3, h4, h5, h6⟩
    refine ⟨id, h1, h2, h3, h4, h5, ?_⟩
    rw [hp, lastStored_snoc]
    have : ¬ (w.body.id = id) := by
      intro e; apply hne; rw [← h1, ← h2, ← e]; exact ⟨rfl, rfl⟩
    simpa [this] using h6

/-! ## the RPC wrappers -/

private theorem narrow16_of_lt {n : Nat} (h : n < 65536) : narrow16 (n : Int) = n := by
  unfold narrow16; omega

/-- `GetSignedVAA` with an in-range identifier and a 64-hex-digit address answers exactly like the local lookup:
the last bytes stored under that identifier, `NotFound` if none. -/
theorem rpc_get_exact (h : List Put) (hok : ∀ p ∈ h, IdOK p.1) (ec tc seq : Nat) (hec : ec < 65536) (htc : tc < 65536)
    (s : List Char) (a : Bytes) (hs : unhexChars s = some a) (ha : a.length = 32) :
    rpcGetSignedVAA (run h) true ec s tc seq =
      match lastStored h ⟨ec, a, tc, seq⟩ with
      | some b => .ok b
      | none => .error .notFound := by
  have hg := get_exact h hok ⟨ec, a, tc, seq⟩ ha
  unfold rpcGetSignedVAA decodeEmitterAddress
  simp only [hs, ha, narrow16_of_lt hec, narrow16_of_lt htc]
  simp only [Bool.not_true, Bool.false_eq_true, if_false, ne_eq, not_true_eq_false, hg]
  cases lastStored h ⟨ec, a, tc, seq⟩ <;> rfl

/-- `GetNonGovernanceVAABatch` returns, in request order, exactly the requested sequences that are stored in the named stream, each with the last bytes stored. -/
theorem rpc_batch_exact (h : List Put) (hok : ∀ p ∈ h, IdOK p.1) (ec tc : Nat) (hec : ec < 65536) (htc : tc < 65536)
    (s : List Char) (a : Bytes) (hs : unhexChars s = some a) (ha : a.length = 32) (seqs : List Nat) (hn : seqs.length ≤ 20) :
    rpcNonGovBatch (run h) ec s tc seqs =
      .ok (seqs.filterMap fun q => (lastStored h ⟨ec, a, tc, q⟩).map fun b => (q, b)) := by
  have hf : (fun q => (getSignedVAABytes (run h) ⟨ec, a, tc, q⟩).map fun b => (q, b)) =
      (fun q => (lastStored h ⟨ec, a, tc, q⟩).map fun b => (q, b)) := by
    funext q; rw [get_exact h hok ⟨ec, a, tc, q⟩ ha]
  unfold rpcNonGovBatch decodeEmitterAddress
  have : ¬ seqs.length > 20 := by omega
  simp only [this, hs, ha, narrow16_of_lt hec, narrow16_of_lt htc]
  simp only [if_false, ne_eq, not_true_eq_false, hf]

/-- The batch-size guard: more than 20 sequences are refused before anything is looked up. -/
theorem rpc_batch_size_guard (st : Store) (ec tc : Int) (s : List Char) (seqs : List Nat) (hn : seqs.length > 20) :
    rpcNonGovBatch st ec s tc seqs = .error .batchSize ∧ ∀ gc ga, rpcGovBatch st gc ga seqs = .error .batchSize := by
  simp [rpcNonGovBatch, rpcGovBatch, hn]

/-- `PublicrpcServer.GetGovernanceVAABatch` hands back exactly the wanted governance entries. -/
theorem rpc_gov_exact (vs : List Vaa) (hwf : ∀ v ∈ vs, v.WF) (gc : Nat) (ga : Bytes) (ha : ga.length = 32) (seqs : List Nat) (hn : seqs.length ≤ 20) :
    ∃ out, rpcGovBatch (run (putsOf vs)) gc ga seqs = .ok out ∧ ∀ g, g ∈ out ↔ govWanted (putsOf vs) gc ga seqs g := by
  obtain ⟨out, ho, hm⟩ := gov_batch_spec vs hwf gc ga ha seqs
  refine ⟨out, ?_, hm⟩
  have : ¬ seqs.length > 20 := by omega
  simp [rpcGovBatch, this, ho]

/-- `FindMissingMessages` for an in-range stream given by a 64-hex-digit address reports exactly the missing sequences of that stream (rendered as message ids). -/
theorem fmm_spec (vs : List Vaa) (hwf : ∀ v ∈ vs, v.WF) (ec tc : Nat) (hec : ec < 65536) (htc : tc < 65536)
    (s : List Char) (a : Bytes) (hs : unhexChars s = some a) (ha : a.length = 32) :
    findMissingMessages (run (putsOf vs)) ec s tc =
      match specGap (streamSeqs (putsOf vs) ⟨ec, a, tc⟩) with
      | .ok m f l => .ok ⟨m.map fun v => decChars ec ++ ('/' :: (hexChars a ++ ('/' :: (decChars tc ++ ('/' :: decChars v))))), f, l⟩
      | .err => .error .internal := by
  unfold findMissingMessages
  have hc : copyTo32 a = a := by
    unfold copyTo32
    rw [← ha, List.take_left']
    rfl
  simp only [hs, hc, Nat.mod_eq_of_lt hec, Nat.mod_eq_of_lt htc]
  rw [gap_spec vs hwf ⟨ec, a, tc⟩ ha]
  rfl

/-- The canonical 64-hex-digit rendering of a 32-byte address satisfies the address hypotheses of the RPC theorems. -/
theorem rpc_address_canonical (a : Bytes) (ha : a.length = 32) :
    decodeEmitterAddress (hexChars a) = .ok a := by
  simp [decodeEmitterAddress, unhexChars_hexChars, ha]

/-! ## backfill (`RpcBackfill = true`) -/

/-- What the loop over the missing ids computes, in closed form: as long as no node fails, exactly the served byte strings are
forwarded (in id order, nothing else, nothing twice) and exactly the ids nobody served are reported back. -/
theorem backfill_loop_spec (answer : Nat → NodeAnswer) :
    ∀ (ids : List Nat) (fwd : List Bytes) (unf : List Nat), (∀ i ∈ ids, answer i ≠ .failed) →
      backfillLoop answer ids fwd unf =
        (fwd ++ ids.filterMap (fun i => match answer i with | .served b => some b | _ => none),
         some (unf ++ ids.filter (fun i => answer i = .absent))) := by
  intro ids
  induction ids with
  | nil => intro fwd unf _; simp [backfillLoop]
  | cons i rest ih =>
    intro fwd unf h
    have hi := h i (List.mem_cons_self ..)
    have hr : ∀ j ∈ rest, answer j ≠ .failed := fun j hj => h j (List.mem_cons_of_mem _ hj)
    unfold backfillLoop
    cases ha : answer i with
    | served b =>
      simp only
      rw [ih _ _ hr]
      simp [ha]
    | absent =>
      simp only
      rw [ih _ _ hr]
      simp [ha]
    | failed => exact absurd ha hi

/-- Whatever the nodes answer (failures included): every forwarded byte string was served by a node for one of the ids asked
for; the admin service forwards nothing of its own making. -/
theorem backfill_forwards_only_served (answer : Nat → NodeAnswer) :
    ∀ (ids : List Nat) (fwd : List Bytes) (unf : List Nat) (b : Bytes),
      b ∈ (backfillLoop answer ids fwd unf).1 → b ∈ fwd ∨ ∃ i ∈ ids, answer i = .served b := by
  intro ids
  induction ids with
  | nil => intro fwd unf b h; left; simpa [backfillLoop] using h
  | cons i rest ih =>
    intro fwd unf b h
    unfold backfillLoop at h
    cases ha : answer i with
    | served b' =>
      rw [ha] at h
      rcases ih _ _ b h with h1 | ⟨j, hj, hs⟩
      · rcases List.mem_append.1 h1 with h2 | h2
        · exact .inl h2
        · right
          refine ⟨i, List.mem_cons_self .., ?_⟩
          have : b = b' := by simpa using h2
          rw [ha, this]
      · exact .inr ⟨j, List.mem_cons_of_mem _ hj, hs⟩
    | absent =>
      rw [ha] at h
      rcases ih _ _ b h with h1 | ⟨j, hj, hs⟩
      · exact .inl h1
      · exact .inr ⟨j, List.mem_cons_of_mem _ hj, hs⟩
    | failed =>
      rw [ha] at h
      exact .inl h

/-- **Backfill for an in-range stream.** The ids requested are exactly the missing sequences of that stream (`specGap`), every
forwarded VAA was served for one of them, and — when no node fails — the reply lists exactly the missing sequences nobody
served. The store is not an output of the call: the admin service only forwards (to the processor's verified inbound path). -/
theorem fmm_backfill_spec (vs : List Vaa) (hwf : ∀ v ∈ vs, v.WF) (ec tc : Nat) (hec : ec < 65536) (htc : tc < 65536)
    (s : List Char) (a : Bytes) (hs : unhexChars s = some a) (ha : a.length = 32) (answer : Nat → NodeAnswer) :
    match specGap (streamSeqs (putsOf vs) ⟨ec, a, tc⟩) with
    | .ok m f l =>
      (∀ b ∈ (findMissingBackfill (run (putsOf vs)) ec s tc answer).forwarded, ∃ i ∈ m, answer i = .served b) ∧
      ((∀ i ∈ m, answer i ≠ .failed) →
        (findMissingBackfill (run (putsOf vs)) ec s tc answer).forwarded =
            m.filterMap (fun i => match answer i with | .served b => some b | _ => none) ∧
        (findMissingBackfill (run (putsOf vs)) ec s tc answer).result =
          .ok ⟨(m.filter (fun i => answer i = .absent)).map fun v =>
            decChars ec ++ ('/' :: (hexChars a ++ ('/' :: (decChars tc ++ ('/' :: decChars v))))), f, l⟩)
    | .err => (findMissingBackfill (run (putsOf vs)) ec s tc answer).forwarded = [] := by
  have hc : copyTo32 a = a := by
    unfold copyTo32
    rw [← ha, List.take_left']
    rfl
  unfold findMissingBackfill
  simp only [hs, hc, Nat.mod_eq_of_lt hec, Nat.mod_eq_of_lt htc]
  rw [gap_spec vs hwf ⟨ec, a, tc⟩ ha]
  cases hg : specGap (streamSeqs (putsOf vs) ⟨ec, a, tc⟩) with
  | err => rfl
  | ok m f l =>
    simp only
    constructor
    · intro b hb
      have key := backfill_forwards_only_served answer m [] [] b
      cases hl : backfillLoop answer m [] [] with
      | mk fwd r =>
        rw [hl] at hb key
        have hb' : b ∈ fwd := by cases r <;> simpa using hb
        rcases key hb' with h1 | h2
        · cases h1
        · exact h2
    · intro hnf
      rw [backfill_loop_spec answer m [] [] hnf]
      simp

/-- With no node able to serve anything the call degenerates to the plain gap report. -/
theorem backfill_nothing_served (st : Store) (ec tc : Nat) (s : List Char) :
    (findMissingBackfill st ec s tc (fun _ => .absent)).forwarded = [] ∧
    (findMissingBackfill st ec s tc (fun _ => .absent)).result = findMissingMessages st ec s tc := by
  unfold findMissingBackfill findMissingMessages
  cases unhexChars s with
  | none => exact ⟨rfl, rfl⟩
  | some b =>
    simp only
    cases findGap st (ec % 65536) (copyTo32 b) (tc % 65536) with
    | err => exact ⟨rfl, rfl⟩
    | ok ids f l =>
      simp only
      rw [backfill_loop_spec _ ids [] [] (by intro i _ h; cases h)]
      have hf : ∀ l : List Nat, l.filter (fun _ => true) = l := by
        intro l; induction l with
        | nil => rfl
        | cons x xs ih => simp [List.filter, ih]
      simp [hf]

/-! ## what a *successful* answer commits to (error paths in the middle of a scan / a batch) -/

private theorem decodeAll_none_of_mem : ∀ (l : List (Key × Bytes)) (e : Key × Bytes), e ∈ l → unmarshal e.2 = none → decodeAll l = none := by
  intro l
  induction l with
  | nil => intro e he; cases he
  | cons x xs ih =>
    intro e he hu
    unfold decodeAll
    rcases List.mem_cons.1 he with rfl | h
    · rw [hu]
    · cases unmarshal x.2 with
      | none => rfl
      | some v => simp [ih e h hu]

private theorem decodeAll_some_all : ∀ (l : List (Key × Bytes)) (vs : List Vaa), decodeAll l = some vs → ∀ e ∈ l, (unmarshal e.2).isSome := by
  intro l vs h e he
  cases hu : unmarshal e.2 with
  | some _ => rfl
  | none => rw [decodeAll_none_of_mem l e he hu] at h; cases h

/-- A stored value of the scanned stream that `vaa.Unmarshal` rejects (an empty payload, a version other than 1) makes the gap
query fail as a whole: the pinned code makes no statement about such a stream - in particular no wrong one. -/
theorem gap_err_of_undecodable (st : Store) (ec : Nat) (addr : Bytes) (tc : Nat) (e : Key × Bytes)
    (he : e ∈ st.scan (gapPrefix ec addr tc)) (hu : unmarshal e.2 = none) : findGap st ec addr tc = .err := by
  unfold findGap
  rw [decodeAll_none_of_mem _ e he hu]

/-- Conversely a gap query that answers has decoded EVERY stored value of the stream (so none was skipped: the sequences it
reports on are those of all the scanned records). -/
theorem gap_ok_all_decode (st : Store) (ec : Nat) (addr : Bytes) (tc : Nat) (m : List Nat) (f l : Nat)
    (h : findGap st ec addr tc = .ok m f l) :
    (∀ e ∈ st.scan (gapPrefix ec addr tc), (unmarshal e.2).isSome) ∧
    ∃ vs, decodeAll (st.scan (gapPrefix ec addr tc)) = some vs ∧ vs.length = (st.scan (gapPrefix ec addr tc)).length ∧
      GapRes.ok m f l = specGap (vs.map (·.body.sequence)) := by
  unfold findGap at h
  cases hd : decodeAll (st.scan (gapPrefix ec addr tc)) with
  | none => rw [hd] at h; cases h
  | some vs =>
    rw [hd] at h
    refine ⟨decodeAll_some_all _ vs hd, vs, rfl, ?_, ?_⟩
    · clear h
      generalize st.scan (gapPrefix ec addr tc) = sc at hd
      induction sc generalizing vs with
      | nil => unfold decodeAll at hd; cases hd; rfl
      | cons x xs ih =>
        unfold decodeAll at hd
        cases hx : unmarshal x.2 with
        | none => rw [hx] at hd; cases hd
        | some v =>
          rw [hx] at hd
          cases hr : decodeAll xs with
          | none => rw [hr] at hd; cases hd
          | some ws =>
            rw [hr] at hd
            cases hd
            simp [ih ws hr]
    · have h' : gapOfSeqs (vs.map (·.body.sequence)) = .ok m f l := h
      rw [← h', gapOfSeqs_eq_specGap]

/-- **A backfill call that succeeds reports every missing sequence nobody served.** If the loop over the missing ids ends
with a report (`some r`), no node failed for any id, every served byte string was forwarded, and the report is exactly the
ids that were not served - none of them can have vanished. Contrapositive: a node failing for one id in the middle of a batch
fails the call (`backfill_failure_aborts`). -/
theorem backfill_ok_reports_every_unserved (answer : Nat → NodeAnswer) :
    ∀ (ids : List Nat) (fwd : List Bytes) (unf : List Nat) (f : List Bytes) (r : List Nat),
      backfillLoop answer ids fwd unf = (f, some r) →
        (∀ i ∈ ids, answer i ≠ .failed) ∧
        r = unf ++ ids.filter (fun i => match answer i with | .served _ => false | _ => true) ∧
        f = fwd ++ ids.filterMap (fun i => match answer i with | .served b => some b | _ => none) := by
  intro ids
  induction ids with
  | nil =>
    intro fwd unf f r h
    simp [backfillLoop] at h
    obtain ⟨rfl, rfl⟩ := h
    simp
  | cons i rest ih =>
    intro fwd unf f r h
    unfold backfillLoop at h
    cases ha : answer i with
    | served b =>
      rw [ha] at h
      obtain ⟨h1, h2, h3⟩ := ih _ _ _ _ h
      refine ⟨?_, ?_, ?_⟩
      · intro j hj
        rcases List.mem_cons.1 hj with rfl | hj
        · rw [ha]; intro hc; cases hc
        · exact h1 j hj
      · rw [h2]; simp [List.filter, ha]
      · rw [h3]; simp [List.filterMap, ha]
    | absent =>
      rw [ha] at h
      obtain ⟨h1, h2, h3⟩ := ih _ _ _ _ h
      refine ⟨?_, ?_, ?_⟩
      · intro j hj
        rcases List.mem_cons.1 hj with rfl | hj
        · rw [ha]; intro hc; cases hc
        · exact h1 j hj
      · rw [h2]; simp [List.filter, ha]
      · rw [h3]; simp [List.filterMap, ha]
    | failed =>
      rw [ha] at h
      cases h

/-- A node answering with a status other than 200 / 404 for one of the ids fails the whole call: no report is given (and what
was served for the ids before it has been forwarded). -/
theorem backfill_failure_aborts (answer : Nat → NodeAnswer) (ids : List Nat) (fwd : List Bytes) (unf : List Nat)
    (h : ∃ i ∈ ids, answer i = .failed) : (backfillLoop answer ids fwd unf).2 = none := by
  cases hl : backfillLoop answer ids fwd unf with
  | mk f r =>
    cases r with
    | none => rfl
    | some r =>
      obtain ⟨i, hi, hf⟩ := h
      exact absurd hf ((backfill_ok_reports_every_unserved answer ids fwd unf f r hl).1 i hi)

/-- The same at the level of the admin call: whenever `FindMissingMessages` with backfill answers, its report lists (as message
ids) exactly the sequences `FindEmitterSequenceGap` found missing that no node served. -/
theorem fmm_backfill_ok_report (st : Store) (ec tc : Nat) (s : List Char) (answer : Nat → NodeAnswer) (rep : FmmRes)
    (h : (findMissingBackfill st ec s tc answer).result = .ok rep) :
    ∃ a ids f l, unhexChars s = some a ∧ findGap st (ec % 65536) (copyTo32 a) (tc % 65536) = .ok ids f l ∧
      (∀ i ∈ ids, answer i ≠ .failed) ∧ rep.first = f ∧ rep.last = l ∧
      rep.missing = (ids.filter (fun i => match answer i with | .served _ => false | _ => true)).map fun v =>
        decChars ec ++ ('/' :: (hexChars (copyTo32 a) ++ ('/' :: (decChars tc ++ ('/' :: decChars v))))) := by
  unfold findMissingBackfill at h
  cases hs : unhexChars s with
  | none => rw [hs] at h; cases h
  | some a =>
    rw [hs] at h
    simp only at h
    cases hg : findGap st (ec % 65536) (copyTo32 a) (tc % 65536) with
    | err => rw [hg] at h; cases h
    | ok ids f l =>
      rw [hg] at h
      simp only at h
      cases hl : backfillLoop answer ids [] [] with
      | mk fw r =>
        rw [hl] at h
        cases r with
        | none => cases h
        | some r =>
          obtain ⟨h1, h2, _⟩ := backfill_ok_reports_every_unserved answer ids [] [] fw r hl
          simp only at h
          cases h
          exact ⟨a, ids, f, l, rfl, hg, h1, rfl, rfl, by rw [h2]; simp⟩

/-- The batch lookup entry by entry: every entry carries the bytes stored last under the identifier it names (never bytes of
another identifier, never bytes for an identifier nothing was stored under), and every requested stored identifier has an entry. -/
theorem rpc_batch_entrywise (h : List Put) (hok : ∀ p ∈ h, IdOK p.1) (ec tc : Nat) (hec : ec < 65536) (htc : tc < 65536)
    (s : List Char) (a : Bytes) (hs : unhexChars s = some a) (ha : a.length = 32) (seqs : List Nat) (hn : seqs.length ≤ 20) :
    ∃ out, rpcNonGovBatch (run h) ec s tc seqs = .ok out ∧
      (∀ e ∈ out, e.1 ∈ seqs ∧ lastStored h ⟨ec, a, tc, e.1⟩ = some e.2) ∧
      (∀ q ∈ seqs, ∀ b, lastStored h ⟨ec, a, tc, q⟩ = some b → (q, b) ∈ out) := by
  refine ⟨_, rpc_batch_exact h hok ec tc hec htc s a hs ha seqs hn, ?_, ?_⟩
  · intro e he
    obtain ⟨q, hq, hm⟩ := List.mem_filterMap.1 he
    cases hl : lastStored h ⟨ec, a, tc, q⟩ with
    | none => rw [hl] at hm; cases hm
    | some b =>
      rw [hl] at hm
      cases hm
      exact ⟨hq, hl⟩
  · intro q hq b hb
    exact List.mem_filterMap.2 ⟨q, hq, by rw [hb]; rfl⟩

/-! ## reads that fail under the running server (closed handle, unreadable record) -/

private theorem batchLoopAt_all_readable (rd : Readable) (st : Store) (mk : Nat → VaaId) :
    ∀ seqs : List Nat, (∀ q ∈ seqs, rd (mk q) = true) →
      batchLoopAt rd st mk seqs = .ok (seqs.filterMap fun s => (getSignedVAABytes st (mk s)).map fun b => (s, b)) := by
  intro seqs
  induction seqs with
  | nil => intro _; rfl
  | cons s r ih =>
    intro h
    have hs : rd (mk s) = true := h s (by simp)
    have hr := ih (fun q hq => h q (by simp [hq]))
    cases hg : getSignedVAABytes st (mk s) with
    | none => simp [batchLoopAt, getAt, hs, hg, hr]
    | some b => simp [batchLoopAt, getAt, hs, hg, hr]

private theorem batchLoopAt_ok_readable (rd : Readable) (st : Store) (mk : Nat → VaaId) :
    ∀ (seqs : List Nat) (out : List (Nat × Bytes)), batchLoopAt rd st mk seqs = .ok out → ∀ q ∈ seqs, rd (mk q) = true := by
  intro seqs
  induction seqs with
  | nil => intro _ _ q hq; cases hq
  | cons s r ih =>
    intro out h q hq
    cases hs : rd (mk s) with
    | false => simp [batchLoopAt, getAt, hs] at h
    | true =>
      have hrest : ∃ o, batchLoopAt rd st mk r = .ok o := by
        cases hg : getSignedVAABytes st (mk s) with
        | none => simp [batchLoopAt, getAt, hs, hg] at h; exact ⟨_, h⟩
        | some b =>
          cases hr : batchLoopAt rd st mk r with
          | error e => simp [batchLoopAt, getAt, hs, hg, hr] at h
          | ok o => exact ⟨o, rfl⟩
      obtain ⟨o, ho⟩ := hrest
      rcases List.mem_cons.1 hq with rfl | hq
      · exact hs
      · exact ih o ho q hq

/-- With every read succeeding the fallible handlers ARE the handlers of the theorems above. -/
theorem rpc_at_all_readable (rd : Readable) (hrd : ∀ id, rd id = true) (st : Store) (ec tc : Int) (s : List Char) (seq : Nat) (seqs : List Nat) (hasId : Bool) :
    rpcGetSignedVAAAt rd st hasId ec s tc seq = rpcGetSignedVAA st hasId ec s tc seq ∧
    rpcNonGovBatchAt rd st ec s tc seqs = rpcNonGovBatch st ec s tc seqs := by
  constructor
  · unfold rpcGetSignedVAAAt rpcGetSignedVAA getAt
    cases hasId <;> simp only [Bool.not_true, Bool.not_false, Bool.false_eq_true, if_false, if_true]
    cases decodeEmitterAddress s with
    | error e => rfl
    | ok a => simp only [hrd, if_true]; cases getSignedVAABytes st _ <;> rfl
  · unfold rpcNonGovBatchAt rpcNonGovBatch
    by_cases hn : seqs.length > 20
    · simp [hn]
    · simp only [hn, if_false]
      cases decodeEmitterAddress s with
      | error e => rfl
      | ok a => exact batchLoopAt_all_readable rd st _ seqs (fun q _ => hrd _)

/-- "A call that answers OK is stream-exact", whatever reads failed: a batch that is answered without an error was answered from
reads that all succeeded, and is the answer of the readable store — `rpc_batch_exact` / `rpc_batch_entrywise` apply to it. An
unreadable record can only turn the answer into an error, never into a shorter list. -/
theorem rpc_batch_at_ok_exact (rd : Readable) (st : Store) (ec tc : Int) (s : List Char) (seqs : List Nat) (out : List (Nat × Bytes))
    (h : rpcNonGovBatchAt rd st ec s tc seqs = .ok out) :
    rpcNonGovBatch st ec s tc seqs = .ok out ∧
    ∃ a, decodeEmitterAddress s = .ok a ∧ ∀ q ∈ seqs, rd ⟨narrow16 ec, a, narrow16 tc, q⟩ = true := by
  unfold rpcNonGovBatchAt at h
  unfold rpcNonGovBatch
  by_cases hn : seqs.length > 20
  · simp [hn] at h
  · simp only [hn, if_false] at h ⊢
    cases hd : decodeEmitterAddress s with
    | error e => rw [hd] at h; cases h
    | ok a =>
      rw [hd] at h
      have hr := batchLoopAt_ok_readable rd st _ seqs out h
      refine ⟨?_, a, rfl, hr⟩
      rw [← h]
      exact (batchLoopAt_all_readable rd st _ seqs hr).symm

/-- A well-formed batch that names an identifier whose read fails is answered with `Internal` (the pinned behaviour: an error makes
no statement about the stream). -/
theorem rpc_batch_at_unreadable_fails (rd : Readable) (st : Store) (ec tc : Int) (s : List Char) (a : Bytes) (seqs : List Nat)
    (hn : seqs.length ≤ 20) (hd : decodeEmitterAddress s = .ok a) (q : Nat) (hq : q ∈ seqs) (hu : rd ⟨narrow16 ec, a, narrow16 tc, q⟩ = false) :
    rpcNonGovBatchAt rd st ec s tc seqs = .error .internal := by
  have hn' : ¬ seqs.length > 20 := by omega
  unfold rpcNonGovBatchAt
  simp only [hn', if_false, hd]
  generalize hmk : (fun s => (⟨narrow16 ec, a, narrow16 tc, s⟩ : VaaId)) = mk
  have hu' : rd (mk q) = false := by rw [← hmk]; exact hu
  clear hn hn' hd hu hmk
  induction seqs with
  | nil => cases hq
  | cons x r ih =>
    rcases List.mem_cons.1 hq with rfl | hq
    · simp [batchLoopAt, getAt, hu']
    · have := ih hq
      cases hx : rd (mk x) with
      | false => simp [batchLoopAt, getAt, hx]
      | true =>
        cases hg : getSignedVAABytes st (mk x) with
        | none => simp [batchLoopAt, getAt, hx, hg, this]
        | some b => simp [batchLoopAt, getAt, hx, hg, this]

/-- The single lookup: an OK answer is the readable store's answer, and so is `NotFound`; a failing read gives `Internal`. -/
theorem rpc_get_at_exact (rd : Readable) (st : Store) (ec tc : Int) (s : List Char) (seq : Nat) (hasId : Bool) :
    (∀ b, rpcGetSignedVAAAt rd st hasId ec s tc seq = .ok b → rpcGetSignedVAA st hasId ec s tc seq = .ok b) ∧
    (rpcGetSignedVAAAt rd st hasId ec s tc seq = .error .notFound → rpcGetSignedVAA st hasId ec s tc seq = .error .notFound) := by
  unfold rpcGetSignedVAAAt rpcGetSignedVAA getAt
  cases hasId
  · simp
  · simp only [Bool.not_true, Bool.false_eq_true, if_false]
    cases decodeEmitterAddress s with
    | error e => simp
    | ok a =>
      simp only
      cases rd ⟨narrow16 ec, a, narrow16 tc, seq⟩
      · simp
      · simp only [if_true]
        cases getSignedVAABytes st ⟨narrow16 ec, a, narrow16 tc, seq⟩ <;> simp

/-- Why every lookup error but not-found has to fail the batch: the variant that skips them all answers a stream that holds
sequences 7 and 9 with the empty list once the store cannot be read — an OK answer that is not the stream's. -/
theorem rpc_batch_skip_errors_witness :
    ∃ (st : Store) (mk : Nat → VaaId), batchLoopAt (fun _ => true) st mk [7, 8, 9] = .ok [(7, [1]), (9, [2])] ∧
      batchLoopSkip (fun _ => false) st mk [7, 8, 9] = [] ∧ batchLoopAt (fun _ => false) st mk [7, 8, 9] = .error .internal :=
  ⟨[(key ⟨2, [], 4, 7⟩, [1]), (key ⟨2, [], 4, 9⟩, [2])], fun q => ⟨2, [], 4, q⟩, by rfl, by decide, by rfl⟩

-- non-vacuity of the fallible handlers: the store of the witness, sequence 8 unreadable
private def tinyStore : Store := [(key ⟨2, List.replicate 32 0, 4, 7⟩, [1]), (key ⟨2, List.replicate 32 0, 4, 9⟩, [2])]
private def zeroHex : List Char := List.replicate 64 '0'
example : decodeEmitterAddress zeroHex = .ok (List.replicate 32 0) := by rfl
example : rpcNonGovBatchAt (fun id => id.sequence != 8) tinyStore 2 zeroHex 4 [7, 9] = .ok [(7, [1]), (9, [2])] := by rfl
example : rpcNonGovBatch tinyStore 2 zeroHex 4 [7, 9] = .ok [(7, [1]), (9, [2])] :=
  (rpc_batch_at_ok_exact (fun id => id.sequence != 8) tinyStore 2 4 zeroHex [7, 9] _ (by rfl)).1
example : rpcNonGovBatchAt (fun id => id.sequence != 8) tinyStore 2 zeroHex 4 [7, 8, 9] = .error .internal :=
  rpc_batch_at_unreadable_fails _ tinyStore 2 4 zeroHex (List.replicate 32 0) [7, 8, 9] (by decide) (by rfl) 8 (by decide) (by rfl)
example : rpcGetSignedVAAAt (fun _ => false) tinyStore true 2 zeroHex 4 7 = .error .internal := by rfl
example : rpcGetSignedVAAAt (fun id => id.sequence != 8) tinyStore true 2 zeroHex 4 7 = .ok [1] ∧
    rpcGetSignedVAA tinyStore true 2 zeroHex 4 7 = .ok [1] :=
  ⟨by rfl, (rpc_get_at_exact (fun id => id.sequence != 8) tinyStore 2 4 zeroHex 7 true).1 _ (by rfl)⟩
example : (rpcGetSignedVAAAt (fun _ => true) tinyStore true 2 zeroHex 4 8 = rpcGetSignedVAA tinyStore true 2 zeroHex 4 8) :=
  (rpc_at_all_readable (fun _ => true) (fun _ => rfl) tinyStore 2 4 zeroHex 8 [] true).1

/-! ## non-vacuity: a concrete store with look-alike target chains 2 / 25 and an overwrite -/

private def mk (tc seq : Nat) (pl : Bytes) : Vaa :=
  { version := 1, gsIndex := 0, sigs := [⟨0, List.replicate 65 3⟩],
    body := { ts := 1, nonce := 2, emitterChain := 13, targetChain := tc, emitter := addrA, sequence := seq, consistency := 1, payload := pl } }

private def hist : List Vaa := [mk 2 0 [1], mk 25 7 [2], mk 2 3 [3], mk 255 9 [4], mk 2 3 [5]]

example : ∀ v ∈ hist, v.WF := by decide
example : ∀ v ∈ hist, v.sigs ≠ [] := by decide
example : ∀ p ∈ putsOf hist, IdOK p.1 := by decide
example : streamSeqs (putsOf hist) ⟨13, addrA, 2⟩ = [0, 3, 3] := by decide
example : findGap (run (putsOf hist)) 13 addrA 2 = .ok [1, 2] 0 3 := by
  rw [gap_spec hist (by decide) ⟨13, addrA, 2⟩ (by decide)]; decide
example : getSignedVAABytes (run (putsOf hist)) ⟨13, addrA, 2, 3⟩ = some (marshal (mk 2 3 [5])) := by
  rw [get_exact _ (by decide) _ (by decide)]; decide
example : getSignedVAABytes (run (putsOf hist)) ⟨13, addrA, 25, 3⟩ = none :=
  get_absent _ (by decide) _ (by decide) (by decide)
example : govWanted (putsOf hist) 13 addrA [3, 9] ⟨255, 9, marshal (mk 255 9 [4])⟩ :=
  ⟨⟨13, addrA, 255, 9⟩, rfl, rfl, rfl, rfl, by decide, by decide⟩
example : unhexChars (hexChars addrA) = some addrA ∧ addrA.length = 32 := ⟨unhexChars_hexChars _, by decide⟩
example : storeAll [] hist = .ok (run (putsOf hist)) := store_history hist (by decide) []
example : ∃ out, govBatch (run (putsOf hist)) 13 addrA [3, 9] = some out ∧ ∀ g, g ∈ out ↔ govWanted (putsOf hist) 13 addrA [3, 9] g :=
  gov_batch_spec hist (by decide) 13 addrA (by decide) [3, 9]
example : rpcGetSignedVAA (run (putsOf hist)) true ((13 : Nat) : Int) (hexChars addrA) ((25 : Nat) : Int) 7 = .ok (marshal (mk 25 7 [2])) := by
  rw [rpc_get_exact _ (by decide) 13 25 7 (by decide) (by decide) _ addrA (unhexChars_hexChars _) (by decide)]; rfl
example : (findMissingMessages (run (putsOf hist)) 13 (hexChars addrA) 2).toOption.map (fun r => (r.missing.length, r.first, r.last)) = some (2, 0, 3) := by
  rw [fmm_spec hist (by decide) 13 2 (by decide) (by decide) _ addrA (unhexChars_hexChars _) (by decide)]; decide
example : findGap (run (putsOf hist)) 13 addrA 2 = findGap (run (putsOf [mk 2 0 [1], mk 2 3 [3], mk 2 3 [5]])) 13 addrA 2 :=
  gap_unaffected _ _ (by decide) (by decide) ⟨13, addrA, 2⟩ (by decide) (by decide)
example : backfillLoop (fun i => if i = 1 then .served [9, 9] else .absent) [1, 2] [] [] = ([[9, 9]], some [2]) := by decide
example : backfillLoop (fun i => if i = 1 then .served [9, 9] else .failed) [1, 2, 3] [] [] = ([[9, 9]], none) := by decide
-- a node failing for the middle one of three missing ids: no report; failing for none: ids 2 and 3 (declined) are both reported
example : ∃ i ∈ [1, 2, 3], (fun i => if i = 2 then NodeAnswer.failed else .absent) i = .failed := ⟨2, by decide, rfl⟩
example : backfillLoop (fun i => if i = 1 then .served [9, 9] else .absent) [1, 2, 3] [] [] = ([[9, 9]], some [2, 3]) := by decide
-- a stream whose highest sequence (3) is an empty-payload VAA: Marshal writes it, Unmarshal rejects it, the gap query fails
private def emptyTop : List Put := putsOf [mk 2 0 [1], mk 2 3 []]
set_option maxRecDepth 100000 in
private theorem emptyTop_undecodable : unmarshal (marshal (mk 2 3 [])) = none := by decide
private theorem emptyTop_scanned : (key ⟨13, addrA, 2, 3⟩, marshal (mk 2 3 [])) ∈ (run emptyTop).scan (gapPrefix 13 addrA 2) :=
  mem_scan.2 ⟨(mem_run emptyTop (by decide) _ _).2 ⟨⟨13, addrA, 2, 3⟩, by decide, rfl, by decide⟩,
    (prefix_iff_stream ⟨13, addrA, 2⟩ (by decide) _ (by decide)).2 (by decide)⟩
example : findGap (run emptyTop) 13 addrA 2 = .err :=
  gap_err_of_undecodable _ 13 addrA 2 (key ⟨13, addrA, 2, 3⟩, marshal (mk 2 3 [])) emptyTop_scanned emptyTop_undecodable
example : findGap (run (putsOf hist)) 13 addrA 2 = .ok [1, 2] 0 3 := by
  rw [gap_spec hist (by decide) ⟨13, addrA, 2⟩ (by decide)]; decide
example : ∃ out, rpcNonGovBatch (run (putsOf hist)) ((13 : Nat) : Int) (hexChars addrA) ((2 : Nat) : Int) [3, 1, 0] = .ok out ∧
    (∀ e ∈ out, e.1 ∈ [3, 1, 0] ∧ lastStored (putsOf hist) ⟨13, addrA, 2, e.1⟩ = some e.2) ∧
    (∀ q ∈ [3, 1, 0], ∀ b, lastStored (putsOf hist) ⟨13, addrA, 2, q⟩ = some b → (q, b) ∈ out) :=
  rpc_batch_entrywise _ (by decide) 13 2 (by decide) (by decide) _ addrA (unhexChars_hexChars _) (by decide) [3, 1, 0] (by decide)

end Whv.C12
