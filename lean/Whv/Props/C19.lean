import Whv.Lemmas.Explorer
import Whv.Props.C06
/-!
# C19 — the explorer ingests only VAAs verified against the guardian set they name

Model: `Whv/Model/Explorer.lean` (atomic operations `update`, `getGuardianSet`, `push`; fine-grained
interleaving model `Fine.step`).  The statement has four parts:

1. a gossiped VAA is queued only if it carries valid signatures of a quorum of the set whose index it names
   (`c19_queued_verified`);
2. the set returned for index `i` is the set with index `i` (`c19_index_invariant`, `c19_get_returns_named`) …
3. … also while newer sets are appended concurrently (`c19_interleaving_safe` for the repaired code,
   `c19_interleaving_witness` for the pinned code, which violates it);
4. a VAA whose hand-off to the queue failed is not marked as seen, so a later copy can still be ingested
   (`c19_failed_not_marked`, `c19_marked_iff_queued`, `c19_retry_ingested`).

Right after a guardian-set change the named set is fetched on demand; when that lookup fails nothing stands in for it
(`c19_lookup_failed_no_effect`), a fetched set is the chain's answer for the very index asked for
(`c19_fetched_set_is_chain_answer`), and a later copy is judged against that answer (`c19_failed_lookup_then_recovered`).
-/
namespace Whv.C19
open Whv Whv.Explorer

/-- What both callers of `updateGuardianSets` feed it (`getGuardianSetsFromChain` from `current+1` read
earlier, so possibly below the present `current+1`): a contiguous range of `uint32` indexes starting at or
below `current + 1`. -/
def Fed (cur : Int) (sets : List GSet) : Prop :=
  ∃ start : Nat, Contig start sets ∧ (start : Int) ≤ cur + 1 ∧ ∀ x ∈ sets, x.index < two32

/-- **Index invariant.** `∀ i < list.length, list[i].index = i` (with `current = len-1`) is preserved by every
update fed with such a range, and the update then returns no error. -/
theorem c19_index_invariant (g : GS) (sets : List GSet) (hinv : Inv g.cur g.list) (hfed : Fed g.cur sets) :
    Inv (update g sets).1.cur (update g sets).1.list ∧ (update g sets).2 = .nil ∧
    ∃ tail, (update g sets).1.list = g.list ++ tail := by
  unfold update
  cases hp : plan g.cur sets with
  | none => exact ⟨hinv, rfl, [], by simp⟩
  | some p =>
    obtain ⟨nc, tail⟩ := p
    obtain ⟨a, hc, hlow, hb⟩ := hfed
    have := (plan_inv hinv hc hlow hb hp).1
    refine ⟨this, ?_, tail, rfl⟩
    have hl := this.len
    simp only [hl, ne_eq, not_true_eq_false, if_false]

/-- The invariant in the words of the statement. -/
theorem c19_invariant_pointwise (cur : Int) (list : List GSet) (hinv : Inv cur list) :
    ∀ i (h : i < list.length), list[i].index = i := by
  intro i h
  have := contig_get hinv.idx i h
  omega

/-- What the chain fetch of `GetGuardianSet` returns is a range `updateGuardianSets` is `Fed` with. -/
private theorem fetch_fed {g : GS} {index : Int} (hinv : Inv g.cur g.list) (hgt : ¬ index ≤ g.cur)
    (hlt : index < (two32 : Int)) {chain : Chain} {sets : List GSet}
    (hf : fetchRange chain (u32 (g.cur + 1)) (u32 index) = some sets) : Fed g.cur sets := by
  have hlen := hinv.len
  have hpos : 0 < g.list.length := List.length_pos_iff.mpr hinv.ne
  have h1 : (u32 (g.cur + 1) : Int) = g.cur + 1 := u32_of_nonneg (by omega) (by omega)
  have h2 : (u32 index : Int) = index := u32_of_nonneg (by omega) hlt
  obtain ⟨hc, hl⟩ := fetchLoop_contig chain _ _ sets hf
  exact ⟨u32 (g.cur + 1), hc, by omega, contig_bound hc (by rw [hl]; omega)⟩

/-- **Lookup returns the named set.** In a state satisfying the invariant, `GetGuardianSet(i)` for a `uint32`
index never panics, keeps the invariant (whatever the chain answers — RPC failures included), only appends,
and a returned set has index `i`. -/
theorem c19_get_returns_named (g : GS) (index : Int) (dial : Bool) (chain : Chain)
    (hinv : Inv g.cur g.list) (h0 : 0 ≤ index) (hlt : index < (two32 : Int))
    (o : GetOut) (ho : o = getGuardianSet g index dial chain) :
    Inv o.st.cur o.st.list ∧ o.res ≠ .panic ∧ (∀ s, o.res = .ok s → (s.index : Int) = index ∧ listAt o.st.list index = some s ∧ index ≤ o.st.cur) ∧
    ∃ tail, o.st.list = g.list ++ tail := by
  unfold getGuardianSet at ho
  by_cases hle : index ≤ g.cur
  · obtain ⟨s, hs, hi⟩ := inv_listAt hinv h0 hle
    simp only [hle, if_true, hs] at ho
    subst ho
    exact ⟨hinv, by simp, (fun s' e => by cases e; exact ⟨hi, hs, hle⟩), [], by simp⟩
  · simp only [hle, if_false] at ho
    cases dial with
    | false =>
      simp at ho
      subst ho
      exact ⟨hinv, by simp, (fun s' e => by cases e), [], by simp⟩
    | true =>
      simp only [Bool.not_true, Bool.false_eq_true, if_false] at ho
      cases hf : fetchRange chain (u32 (g.cur + 1)) (u32 index) with
      | none =>
        simp only [hf] at ho
        subst ho
        exact ⟨hinv, by simp, (fun s' e => by cases e), [], by simp⟩
      | some sets =>
        simp only [hf] at ho
        obtain ⟨hinv', _, tail, htail⟩ := c19_index_invariant g sets hinv (fetch_fed hinv hle hlt hf)
        have hpos : 0 < (update g sets).1.list.length := List.length_pos_iff.mpr hinv'.ne
        have hlen' := hinv'.len
        obtain ⟨c, hc, _⟩ := inv_listAt hinv' (i := (update g sets).1.cur) (by omega) (Int.le_refl _)
        simp only [hc] at ho
        by_cases hgt : index > (update g sets).1.cur
        · simp only [hgt, if_true] at ho
          subst ho
          exact ⟨hinv', by simp, (fun s' e => by cases e), tail, htail⟩
        · simp only [hgt, if_false] at ho
          obtain ⟨s, hs, hi⟩ := inv_listAt hinv' h0 (by omega : index ≤ (update g sets).1.cur)
          simp only [hs] at ho
          subst ho
          exact ⟨hinv', by simp, (fun s' e => by cases e; exact ⟨hi, hs, Int.not_lt.mp hgt⟩), tail, htail⟩

/-! ### Overlapping, repeated and far-ahead fetches; the start-up fetch -/

/-- With `current` read in the present state the overtaken lookup is the atomic one. -/
theorem c19_stale_self (g : GS) (index : Int) (dial : Bool) (chain : Chain) :
    getGuardianSetStale g g.cur index dial chain = getGuardianSet g index dial chain := by
  unfold getGuardianSetStale
  by_cases h : index ≤ g.cur
  · simp only [h, if_true]
  · simp only [h, if_false]
    unfold getGuardianSet
    simp only [h, if_false]

/-- What an overtaken lookup fetched is still a range `updateGuardianSets` is `Fed` with: it starts at the `current+1` read
earlier, i.e. at or below the present `current+1`. -/
private theorem stale_fetch_fed {g : GS} {cur0 index : Int} (h0 : 0 ≤ cur0) (hle0 : cur0 ≤ g.cur)
    (hgt : ¬ index ≤ cur0) (hlt : index < (two32 : Int)) {chain : Chain} {sets : List GSet}
    (hf : fetchRange chain (u32 (cur0 + 1)) (u32 index) = some sets) : Fed g.cur sets := by
  have h1 : (u32 (cur0 + 1) : Int) = cur0 + 1 := u32_of_nonneg (by omega) (by omega)
  have h2 : (u32 index : Int) = index := u32_of_nonneg (by omega) hlt
  obtain ⟨hc, hl⟩ := fetchLoop_contig chain _ _ sets hf
  exact ⟨u32 (cur0 + 1), hc, by omega, contig_bound hc (by rw [hl]; omega)⟩

/-- **Overlapping fetches keep positions and indexes together.** A lookup that read `current = cur0`, fetched
`[cur0+1 .. i]` and was overtaken — the periodic updater or other lookups appended any number of sets in between, so its batch
overlaps what is stored by now, partially or completely — still never panics, keeps the invariant, only appends, and returns
the set with index `i`. (`cur0 = g.cur` is `c19_get_returns_named`; every far-ahead index `i < 2^32` is included.) -/
theorem c19_overlapping_fetch_returns_named (g : GS) (cur0 index : Int) (dial : Bool) (chain : Chain)
    (hinv : Inv g.cur g.list) (hc0 : 0 ≤ cur0) (hle0 : cur0 ≤ g.cur) (h0 : 0 ≤ index) (hlt : index < (two32 : Int))
    (o : GetOut) (ho : o = getGuardianSetStale g cur0 index dial chain) :
    Inv o.st.cur o.st.list ∧ o.res ≠ .panic ∧ (∀ s, o.res = .ok s → (s.index : Int) = index ∧ listAt o.st.list index = some s ∧ index ≤ o.st.cur) ∧
    ∃ tail, o.st.list = g.list ++ tail := by
  unfold getGuardianSetStale at ho
  by_cases hle : index ≤ cur0
  · simp only [hle, if_true] at ho
    exact c19_get_returns_named g index dial chain hinv h0 hlt o ho
  · simp only [hle, if_false] at ho
    cases dial with
    | false =>
      simp at ho
      subst ho
      exact ⟨hinv, by simp, (fun s' e => by cases e), [], by simp⟩
    | true =>
      simp only [Bool.not_true, Bool.false_eq_true, if_false] at ho
      cases hf : fetchRange chain (u32 (cur0 + 1)) (u32 index) with
      | none =>
        simp only [hf] at ho
        subst ho
        exact ⟨hinv, by simp, (fun s' e => by cases e), [], by simp⟩
      | some sets =>
        simp only [hf] at ho
        obtain ⟨hinv', _, tail, htail⟩ := c19_index_invariant g sets hinv (stale_fetch_fed hc0 hle0 hle hlt hf)
        have hpos : 0 < (update g sets).1.list.length := List.length_pos_iff.mpr hinv'.ne
        have hlen' := hinv'.len
        obtain ⟨c, hc, _⟩ := inv_listAt hinv' (i := (update g sets).1.cur) (by omega) (Int.le_refl _)
        simp only [hc] at ho
        by_cases hgt : index > (update g sets).1.cur
        · simp only [hgt, if_true] at ho
          subst ho
          exact ⟨hinv', by simp, (fun s' e => by cases e), tail, htail⟩
        · simp only [hgt, if_false] at ho
          obtain ⟨s, hs, hi⟩ := inv_listAt hinv' h0 (by omega : index ≤ (update g sets).1.cur)
          simp only [hs] at ho
          subst ho
          exact ⟨hinv', by simp, (fun s' e => by cases e; exact ⟨hi, hs, Int.not_lt.mp hgt⟩), tail, htail⟩

/-- **The start-up fetch establishes the invariant** (main.go: `GetGuardianSetsFromChain(0)` → `NewGuardianSets`): the sets
`0 … hi` fetched one after the other, in index order, make a list whose position `i` holds the set with index `i`; the
constructor does not panic and announces set `hi`. -/
theorem c19_boot_invariant (chain : Chain) (hi : Nat) (hhi : hi < two32) (sets : List GSet)
    (hf : fetchRange chain 0 hi = some sets) :
    ∃ g c, newGuardianSets sets = some (g, c) ∧ Inv g.cur g.list ∧ g.cur = hi ∧ c.index = hi := by
  obtain ⟨hc, hl⟩ := fetchLoop_contig chain _ _ sets hf
  have hl' : sets.length = hi + 1 := by omega
  have hne : sets ≠ [] := fun e => by simp [e] at hl'
  have hinv : Inv ((sets.length : Int) - 1) sets := ⟨by omega, hc, hne, by omega⟩
  obtain ⟨c, hcur, hci⟩ := inv_listAt hinv (i := (sets.length : Int) - 1) (by omega) (Int.le_refl _)
  refine ⟨⟨(sets.length : Int) - 1, sets⟩, c, ?_, hinv, by simp; omega, by omega⟩
  unfold newGuardianSets getCurrent
  simp only [hcur]

/-- The fast path: an index at or below `current` is answered from the list without consulting the chain. -/
private theorem get_fast (g : GS) (index : Int) (dial : Bool) (chain : Chain) (s : GSet)
    (hle : index ≤ g.cur) (hat : listAt g.list index = some s) :
    getGuardianSet g index dial chain = ⟨g, .ok s, [], none⟩ := by
  unfold getGuardianSet
  simp only [hle, if_true, hat]

/-- `verifyVAA` returns nil only for a signed VAA with a quorum of `Valid` signatures (C06 Spec) of the given keys. -/
theorem c19_verify_sound (recover : Bytes → Option Addr) (v : Vaa) (addrs : Option (List Addr))
    (h : verifyVAA recover v addrs = none) :
    ∃ keys, addrs = some keys ∧ v.sigs ≠ [] ∧ quorum keys.length ≤ v.sigs.length ∧ C06.Valid recover v.sigs keys := by
  unfold verifyVAA at h
  cases addrs with
  | none => simp at h
  | some keys =>
    simp only at h
    by_cases h1 : v.sigs.length = 0
    · simp [h1] at h
    · simp only [h1, if_false] at h
      by_cases h2 : v.sigs.length < quorum keys.length
      · simp [h2] at h
      · simp only [h2, if_false] at h
        by_cases h3 : verifySignatures recover v.sigs keys = true
        · exact ⟨keys, rfl, fun e => h1 (by simp [e]), by omega, (C06.verify_iff _ _ _).1 h3⟩
        · simp [h3] at h

/-- … and conversely accepts every such VAA (the gate is exact, not merely safe). -/
theorem c19_verify_complete (recover : Bytes → Option Addr) (v : Vaa) (keys : List Addr)
    (h1 : v.sigs ≠ []) (h2 : quorum keys.length ≤ v.sigs.length) (h3 : C06.Valid recover v.sigs keys) :
    verifyVAA recover v (some keys) = none := by
  unfold verifyVAA
  have : v.sigs.length ≠ 0 := fun e => h1 (List.length_eq_zero_iff.mp e)
  simp [this, Nat.not_lt.mpr h2, (C06.verify_iff _ _ _).2 h3]

/-- **Queued ⇒ verified against the named set.** If `Push` puts the VAA on the queue then the guardian-set
lookup returned the set whose index the VAA carries, and the VAA is signed, has a quorum of that set, and its
signatures are `Valid` for that set's keys. -/
theorem c19_queued_verified (g : GS) (v : Vaa) (recover : Bytes → Option Addr) (dial : Bool) (chain : Chain)
    (hit room : Bool) (hinv : Inv g.cur g.list) (hidx : v.gsIndex < two32)
    (hq : (push g v recover dial chain hit room).enq = true) :
    ∃ s keys, (getGuardianSet g (v.gsIndex : Int) dial chain).res = .ok s ∧ s.index = v.gsIndex ∧ s.keys = some keys ∧
      v.sigs ≠ [] ∧ quorum keys.length ≤ v.sigs.length ∧ C06.Valid recover v.sigs keys := by
  unfold push at hq
  have hget := c19_get_returns_named g (v.gsIndex : Int) dial chain hinv (by omega) (by omega) _ rfl
  cases hr : (getGuardianSet g (v.gsIndex : Int) dial chain).res with
  | err => simp [hr] at hq
  | panic => simp [hr] at hq
  | ok s =>
    simp only [hr] at hq
    cases hv : verifyVAA recover v s.keys with
    | some e => simp [hv] at hq
    | none =>
      obtain ⟨keys, hk, h1, h2, h3⟩ := c19_verify_sound recover v s.keys hv
      have := (hget.2.2.1 s hr).1
      exact ⟨s, keys, rfl, by omega, hk, h1, h2, h3⟩

/-- … and so is the overtaken `Push` (the driver replays every `gsget` / `push` line through the overtaken forms). -/
theorem c19_push_stale_self (g : GS) (v : Vaa) (recover : Bytes → Option Addr) (dial : Bool) (chain : Chain) (hit room : Bool) :
    pushStale g g.cur v recover dial chain hit room = push g v recover dial chain hit room := by
  unfold pushStale push
  rw [c19_stale_self]

/-- **Queued ⇒ verified against the named set, also when the lookup was overtaken**: the threshold and the keys the gate
applies are those of the set the VAA names, whatever other fetches completed in between. -/
theorem c19_overlapping_queued_verified (g : GS) (cur0 : Int) (v : Vaa) (recover : Bytes → Option Addr) (dial : Bool) (chain : Chain)
    (hit room : Bool) (hinv : Inv g.cur g.list) (hc0 : 0 ≤ cur0) (hle0 : cur0 ≤ g.cur) (hidx : v.gsIndex < two32)
    (hq : (pushStale g cur0 v recover dial chain hit room).enq = true) :
    ∃ s keys, (getGuardianSetStale g cur0 (v.gsIndex : Int) dial chain).res = .ok s ∧ s.index = v.gsIndex ∧ s.keys = some keys ∧
      v.sigs ≠ [] ∧ quorum keys.length ≤ v.sigs.length ∧ C06.Valid recover v.sigs keys := by
  unfold pushStale at hq
  have hget := c19_overlapping_fetch_returns_named g cur0 (v.gsIndex : Int) dial chain hinv hc0 hle0 (by omega) (by omega) _ rfl
  cases hr : (getGuardianSetStale g cur0 (v.gsIndex : Int) dial chain).res with
  | err => simp [hr] at hq
  | panic => simp [hr] at hq
  | ok s =>
    simp only [hr] at hq
    cases hv : verifyVAA recover v s.keys with
    | some e => simp [hv] at hq
    | none =>
      obtain ⟨keys, hk, h1, h2, h3⟩ := c19_verify_sound recover v s.keys hv
      have := (hget.2.2.1 s hr).1
      exact ⟨s, keys, rfl, by omega, hk, h1, h2, h3⟩

/-- **The dedup key is stored exactly when the message was queued** — in every outcome of `Push`. -/
theorem c19_marked_iff_queued (g : GS) (v : Vaa) (recover : Bytes → Option Addr) (dial : Bool) (chain : Chain) (hit room : Bool) :
    (push g v recover dial chain hit room).stored = (push g v recover dial chain hit room).enq := by
  unfold push
  cases hr : (getGuardianSet g (v.gsIndex : Int) dial chain).res with
  | err => simp [hr]
  | panic => simp [hr]
  | ok s =>
    simp only [hr]
    cases hv : verifyVAA recover v s.keys with
    | some e => simp
    | none => cases hit <;> cases room <;> simp [apply]

/-- **A failed hand-off is not marked as seen** (and nothing was queued). -/
theorem c19_failed_not_marked (g : GS) (v : Vaa) (recover : Bytes → Option Addr) (dial : Bool) (chain : Chain) (hit room : Bool)
    (hfull : (push g v recover dial chain hit room).res = .full) :
    (push g v recover dial chain hit room).stored = false ∧ (push g v recover dial chain hit room).enq = false ∧
    hit = false ∧ room = false := by
  unfold push at hfull ⊢
  cases hr : (getGuardianSet g (v.gsIndex : Int) dial chain).res with
  | err => simp [hr] at hfull
  | panic => simp [hr] at hfull
  | ok s =>
    simp only [hr] at hfull ⊢
    cases hv : verifyVAA recover v s.keys with
    | some e => simp [hv] at hfull
    | none =>
      simp only [hv] at hfull ⊢
      cases hit <;> cases room <;> simp_all [apply]

/-- … **so a later copy can still be ingested**: after a hand-off that failed because the queue was full, the
same VAA pushed again (the cache, not having been written, still answers "not seen"), with room in the queue,
is queued — whatever the chain does in the meantime. -/
theorem c19_retry_ingested (g : GS) (v : Vaa) (recover : Bytes → Option Addr) (dial dial' : Bool) (chain chain' : Chain)
    (hinv : Inv g.cur g.list) (hidx : v.gsIndex < two32)
    (hfull : (push g v recover dial chain false false).res = .full) :
    (push (push g v recover dial chain false false).st v recover dial' chain' false true).res = .queued ∧
    (push (push g v recover dial chain false false).st v recover dial' chain' false true).enq = true := by
  have hget := c19_get_returns_named g (v.gsIndex : Int) dial chain hinv (by omega) (by omega) _ rfl
  have hst : (push g v recover dial chain false false).st = (getGuardianSet g (v.gsIndex : Int) dial chain).st := by
    unfold push
    cases hr : (getGuardianSet g (v.gsIndex : Int) dial chain).res with
    | err => simp [hr]
    | panic => simp [hr]
    | ok s => simp only [hr]; cases verifyVAA recover v s.keys <;> simp
  unfold push at hfull
  cases hr : (getGuardianSet g (v.gsIndex : Int) dial chain).res with
  | err => simp [hr] at hfull
  | panic => simp [hr] at hfull
  | ok s =>
    simp only [hr] at hfull
    cases hv : verifyVAA recover v s.keys with
    | some e => simp [hv] at hfull
    | none =>
      obtain ⟨_, hat, hle⟩ := hget.2.2.1 s hr
      rw [hst]
      have h2 := get_fast (getGuardianSet g (v.gsIndex : Int) dial chain).st (v.gsIndex : Int) dial' chain' s hle hat
      unfold push
      simp [h2, hv, apply]

/-! ### The on-demand lookup fails at the chain (right after a guardian-set change) -/

/-- **A lookup that cannot be served has no effect.** A VAA naming a set the explorer does not hold yet, while the chain cannot
be dialled or one request of the range `[current+1 .. named]` fails (whichever one: `fetchRange` is all-or-nothing): `Push`
returns the lookup's error, nothing is queued, nothing is marked as seen, no set is stored or announced — in particular no other
set stands in for the named one. -/
theorem c19_lookup_failed_no_effect (g : GS) (v : Vaa) (recover : Bytes → Option Addr) (dial : Bool) (chain : Chain) (hit room : Bool)
    (hgt : g.cur < (v.gsIndex : Int))
    (hfail : dial = false ∨ fetchRange chain (u32 (g.cur + 1)) (u32 (v.gsIndex : Int)) = none) :
    (push g v recover dial chain hit room).res = .getErr ∧ (push g v recover dial chain hit room).enq = false ∧
    (push g v recover dial chain hit room).stored = false ∧ (push g v recover dial chain hit room).st = g ∧
    (push g v recover dial chain hit room).sent = [] := by
  have hle : ¬ ((v.gsIndex : Int) ≤ g.cur) := by omega
  have hget : (getGuardianSet g (v.gsIndex : Int) dial chain).res = .err ∧ (getGuardianSet g (v.gsIndex : Int) dial chain).st = g ∧
      (getGuardianSet g (v.gsIndex : Int) dial chain).sent = [] := by
    unfold getGuardianSet
    simp only [hle, if_false]
    rcases hfail with h | h
    · subst h; simp
    · cases dial <;> simp [h]
  unfold push
  simp only [hget.1, hget.2.1, hget.2.2, and_self]

/-- **A set fetched on demand is the chain's answer for the index asked for**: when `GetGuardianSet(i)` for an index beyond
`current` succeeds, the set it returns carries index `i` and exactly the keys the chain answered for `getGuardianSet(i)` — not
those of any set that was stored before, however many keys the two share. -/
theorem c19_fetched_set_is_chain_answer (g : GS) (index : Int) (dial : Bool) (chain : Chain)
    (hinv : Inv g.cur g.list) (hgt : g.cur < index) (hlt : index < (two32 : Int)) (s : GSet)
    (hr : (getGuardianSet g index dial chain).res = .ok s) :
    s.index = index.toNat ∧ chain index.toNat = some s.keys := by
  have hlen := hinv.len
  have hpos : 0 < g.list.length := List.length_pos_iff.mpr hinv.ne
  have hle : ¬ (index ≤ g.cur) := by omega
  have h1 : (u32 (g.cur + 1) : Int) = g.cur + 1 := u32_of_nonneg (by omega) (by omega)
  have h2 : (u32 index : Int) = index := u32_of_nonneg (by omega) hlt
  unfold getGuardianSet at hr
  simp only [hle, if_false] at hr
  cases dial with
  | false => simp at hr
  | true =>
    simp only [Bool.not_true, Bool.false_eq_true, if_false] at hr
    cases hf : fetchRange chain (u32 (g.cur + 1)) (u32 index) with
    | none => simp [hf] at hr
    | some sets =>
      simp only [hf] at hr
      unfold fetchRange at hf
      obtain ⟨hc, hl⟩ := fetchLoop_contig chain _ _ sets hf
      have hne : sets ≠ [] := fun e => by rw [e] at hl; simp at hl; omega
      obtain ⟨nc, hp⟩ := plan_fresh hinv hc hne (by omega)
      have hu : (update g sets).1 = ⟨nc, g.list ++ sets⟩ := by unfold update; simp only [hp]
      rw [hu] at hr
      simp only at hr
      -- position `index` of the new list is position `index - (current+1)` of the batch
      have hj : index.toNat - g.list.length < sets.length := by omega
      have hat : listAt (g.list ++ sets) index = some sets[index.toNat - g.list.length] := by
        unfold listAt
        rw [if_neg (by omega), List.getElem?_append_right (by omega)]
        exact List.getElem?_eq_getElem hj
      obtain ⟨hi, hk⟩ := fetchLoop_getElem chain _ _ sets hf _ hj
      have e : u32 (g.cur + 1) + (index.toNat - g.list.length) = index.toNat := by omega
      rw [e] at hi hk
      cases hcur : listAt (g.list ++ sets) nc with
      | none => simp [hcur] at hr
      | some c =>
        simp only [hcur] at hr
        by_cases hgt' : index > nc
        · simp [hgt'] at hr
        · simp only [hgt', if_false, hat] at hr
          cases hr
          exact ⟨hi, hk⟩

/-- **After the lookup has recovered the VAA is judged against the named set as the chain defines it.** A `Push` whose on-demand
lookup failed, followed by a `Push` of the same VAA (any cache answer, any queue state, any chain behaviour by then): if the second
one queues the VAA, the chain has answered `getGuardianSet` for the index the VAA names, and the VAA is signed, carries a quorum
for the *size of that answer* and its signatures are `Valid` for *those keys* — the failed attempt left nothing behind that could
stand in for them. -/
theorem c19_failed_lookup_then_recovered (g : GS) (v : Vaa) (recover : Bytes → Option Addr) (dial dial' : Bool) (chain chain' : Chain)
    (hit room hit' room' : Bool) (hinv : Inv g.cur g.list) (hidx : v.gsIndex < two32) (hgt : g.cur < (v.gsIndex : Int))
    (hfail : dial = false ∨ fetchRange chain (u32 (g.cur + 1)) (u32 (v.gsIndex : Int)) = none)
    (hq : (push (push g v recover dial chain hit room).st v recover dial' chain' hit' room').enq = true) :
    ∃ keys, chain' v.gsIndex = some (some keys) ∧ v.sigs ≠ [] ∧ quorum keys.length ≤ v.sigs.length ∧ C06.Valid recover v.sigs keys := by
  rw [(c19_lookup_failed_no_effect g v recover dial chain hit room hgt hfail).2.2.2.1] at hq
  obtain ⟨s, keys, hr, _, hk, h1, h2, h3⟩ := c19_queued_verified g v recover dial' chain' hit' room' hinv hidx hq
  have := (c19_fetched_set_is_chain_answer g (v.gsIndex : Int) dial' chain' hinv hgt (by omega) s hr).2
  rw [hk] at this
  exact ⟨keys, by simpa using this, h1, h2, h3⟩

/-! ### Every history of arrivals; the gate and `VerifySignatures` -/

/-- **What the gate lets through, `VerifySignatures` accepts** (the call-site form of C06 for the explorer, clause
`gate-accepts-invalid-signature-list` of the driver): `verifyVAA` returns nil only if the model of `VerifySignatures` — and by
`C06.verify_iff` the C06 Spec — accepts the VAA's *whole* signature list against the very key list it was given, however many
signatures beyond a quorum the list carries. -/
theorem c19_gate_accepts_only_verifiable (recover : Bytes → Option Addr) (v : Vaa) (addrs : Option (List Addr))
    (h : verifyVAA recover v addrs = none) :
    ∃ keys, addrs = some keys ∧ verifySignatures recover v.sigs keys = true ∧ C06.Valid recover v.sigs keys := by
  obtain ⟨keys, hk, _, _, hv⟩ := c19_verify_sound recover v addrs h
  exact ⟨keys, hk, (C06.verify_iff _ _ _).2 hv, hv⟩

/-- One gossiped VAA together with its surroundings at the moment it arrives: the ecrecover oracle for its digest, whether the
chain can be dialled and what it answers, what the dedup cache answers for the VAA's message id (`hit` — an arbitrary function
of the cache's history: marked, never marked because the hand-off failed, expired, evicted), and whether the queue has room. -/
structure Arrival where
  v : Vaa
  recover : Bytes → Option Addr
  dial : Bool
  chain : Chain
  hit : Bool
  room : Bool

/-- `Push` for one arrival. -/
def arrive (g : GS) (a : Arrival) : PushOut := push g a.v a.recover a.dial a.chain a.hit a.room

/-- The guardian-set state after a history of arrivals (the only state `Push` carries from one VAA to the next). -/
def stateAfter (g : GS) : List Arrival → GS
  | [] => g
  | a :: l => stateAfter (arrive g a).st l

private theorem push_st (g : GS) (v : Vaa) (recover : Bytes → Option Addr) (dial : Bool) (chain : Chain) (hit room : Bool) :
    (push g v recover dial chain hit room).st = (getGuardianSet g (v.gsIndex : Int) dial chain).st := by
  unfold push
  cases hr : (getGuardianSet g (v.gsIndex : Int) dial chain).res with
  | err => simp [hr]
  | panic => simp [hr]
  | ok s => simp only [hr]; cases verifyVAA recover v s.keys <;> simp

private theorem stateAfter_inv (hist : List Arrival) : ∀ (g : GS), Inv g.cur g.list →
    (∀ x ∈ hist, x.v.gsIndex < two32) → Inv (stateAfter g hist).cur (stateAfter g hist).list := by
  induction hist with
  | nil => intro g h _; exact h
  | cons a l ih =>
    intro g hinv hidx
    have ha : a.v.gsIndex < two32 := hidx a (by simp)
    have hget := c19_get_returns_named g (a.v.gsIndex : Int) a.dial a.chain hinv (by omega) (by omega) _ rfl
    simp only [stateAfter]
    apply ih
    · unfold arrive; rw [push_st]; exact hget.1
    · intro x hx; exact hidx x (by simp [hx])

/-- **Queued ⇒ verified, after every history.** Whatever VAAs arrived before — genuine ones with the same message id that
were verified and queued, or verified and *not* marked because the queue was full, or whose dedup entry has expired since;
forged ones; in any order, with any cache answers and any chain behaviour — a VAA that `Push` puts on the queue carries valid
signatures of a quorum of the set whose index it names. Verification is never inherited from an earlier VAA. -/
theorem c19_history_queued_verified (g : GS) (hinv : Inv g.cur g.list) (hist : List Arrival) (a : Arrival)
    (hidx : ∀ x ∈ hist, x.v.gsIndex < two32) (ha : a.v.gsIndex < two32)
    (hq : (arrive (stateAfter g hist) a).enq = true) :
    ∃ s keys, (getGuardianSet (stateAfter g hist) (a.v.gsIndex : Int) a.dial a.chain).res = .ok s ∧ s.index = a.v.gsIndex ∧
      s.keys = some keys ∧ a.v.sigs ≠ [] ∧ quorum keys.length ≤ a.v.sigs.length ∧ C06.Valid a.recover a.v.sigs keys :=
  c19_queued_verified (stateAfter g hist) a.v a.recover a.dial a.chain a.hit a.room (stateAfter_inv hist g hinv hidx) ha hq

/-- … in particular **a forged copy is not queued**: a VAA that is unsigned, or short of a quorum of the set it names, or whose
signature list `VerifySignatures` rejects against that set, is not queued after any history — also not directly after a genuine
VAA with the same message id whose hand-off failed. -/
theorem c19_unverified_never_queued (g : GS) (hinv : Inv g.cur g.list) (hist : List Arrival) (a : Arrival)
    (hidx : ∀ x ∈ hist, x.v.gsIndex < two32) (ha : a.v.gsIndex < two32)
    (hbad : ∀ s keys, (getGuardianSet (stateAfter g hist) (a.v.gsIndex : Int) a.dial a.chain).res = .ok s → s.keys = some keys →
      a.v.sigs = [] ∨ a.v.sigs.length < quorum keys.length ∨ verifySignatures a.recover a.v.sigs keys = false) :
    (arrive (stateAfter g hist) a).enq = false := by
  cases hq : (arrive (stateAfter g hist) a).enq with
  | false => rfl
  | true =>
    obtain ⟨s, keys, hr, _, hk, h1, h2, h3⟩ := c19_history_queued_verified g hinv hist a hidx ha hq
    rcases hbad s keys hr hk with h | h | h
    · exact absurd h h1
    · omega
    · rw [(C06.verify_iff _ _ _).2 h3] at h; cases h

/-! ### Non-vacuity: a concrete run -/

def kA : Addr := [0xA]
def kB : Addr := [0xB]
def kC : Addr := [0xC]
def demoRec : Bytes → Option Addr := fun s => match s with
  | [1] => some kA | [2] => some kB | [3] => some kC | _ => none
def demoBody : Body := ⟨0, 0, 2, 0, [], 7, 1, [1]⟩
def demoG : GS := ⟨0, [⟨0, some [kA]⟩]⟩
/-- the chain knows set 1 = {A, B, C} -/
def demoChain : Chain := fun i => if i = 1 then some (some [kA, kB, kC]) else some (some [])
/-- a VAA naming set 1, signed by guardians 0, 1 and 2 of set 1 (quorum of 3 is 3) -/
def demoV : Vaa := ⟨1, 1, [⟨0, [1]⟩, ⟨1, [2]⟩, ⟨2, [3]⟩], demoBody⟩

example : Inv demoG.cur demoG.list := ⟨by decide, ⟨rfl, trivial⟩, by decide, by decide⟩
example : Fed demoG.cur [⟨1, some [kA, kB, kC]⟩] := ⟨1, ⟨rfl, trivial⟩, by decide, by decide⟩
-- fetched from the chain, verified against set 1, queued
example : (push demoG demoV demoRec true demoChain false true).res = .queued := by decide
-- only two of three signatures: rejected
example : (push demoG { demoV with sigs := [⟨0, [1]⟩, ⟨1, [2]⟩] } demoRec true demoChain false true).res = .invalid .noQuorum := by decide
-- the same signatures presented as a VAA of set 0 = {A}: rejected
example : (push demoG { demoV with gsIndex := 0 } demoRec true demoChain false true).res = .invalid .badSignatures := by decide
-- queue full: not stored; pushed again with room: queued
example : (push demoG demoV demoRec true demoChain false false).res = .full := by decide
example : (push (push demoG demoV demoRec true demoChain false false).st demoV demoRec false demoChain false true).res = .queued := by decide

-- the gate: all three signatures verify against set 1; with a fourth, surplus signature that repeats index 2 it is rejected
example : verifyVAA demoRec demoV (some [kA, kB, kC]) = none := by decide
example : verifyVAA demoRec { demoV with sigs := demoV.sigs ++ [⟨2, [3]⟩] } (some [kA, kB, kC]) = some .badSignatures := by decide
/-- the genuine VAA arrives while the queue is full: verified, hand-off fails, not marked -/
def demoGenuineFull : Arrival := ⟨demoV, demoRec, true, demoChain, false, false⟩
/-- a forged copy (same emitter / sequence, another payload, no valid signature for its digest) arrives with room in the queue -/
def demoForged : Arrival := ⟨{ demoV with body := { demoBody with payload := [9] } }, fun _ => none, true, demoChain, false, true⟩
example : (arrive demoG demoGenuineFull).res = .full := by decide
example : ∀ x ∈ [demoGenuineFull], x.v.gsIndex < two32 := by decide
example : (arrive (stateAfter demoG [demoGenuineFull]) demoForged).res = .invalid .badSignatures := by decide
example : (arrive (stateAfter demoG [demoGenuineFull]) demoForged).enq = false := by decide
-- and the genuine one, pushed again after the forged copy, is queued
example : (arrive (stateAfter demoG [demoGenuineFull, demoForged]) { demoGenuineFull with room := true }).enq = true := by decide

/-- sets 2 (three keys) and 3 (one key) exist on chain; everything else is an empty key list -/
def demoChain2 : Chain := fun i => if i = 2 then some (some [kA, kB, kC]) else if i = 3 then some (some [kC]) else some (some [])
/-- the explorer knows 0..1 when the lookup of set 3 starts; another lookup appends set 2 before its batch `[2,3]` arrives -/
def demoG01 : GS := ⟨1, [⟨0, some [kA]⟩, ⟨1, some [kB]⟩]⟩
def demoG012 : GS := (getGuardianSet demoG01 2 true demoChain2).st
example : demoG012 = ⟨2, [⟨0, some [kA]⟩, ⟨1, some [kB]⟩, ⟨2, some [kA, kB, kC]⟩]⟩ := by decide
example : Inv demoG012.cur demoG012.list := ⟨by decide, ⟨rfl, rfl, rfl, trivial⟩, by decide, by decide⟩
-- partially overlapping batch [2,3] on 0..2: only set 3 is appended, and it is what the lookup returns
example : (getGuardianSetStale demoG012 1 3 true demoChain2).res = .ok ⟨3, some [kC]⟩ := by decide
example : (getGuardianSetStale demoG012 1 3 true demoChain2).st.list.map (·.index) = [0, 1, 2, 3] := by decide
-- repeated batch [2] on 0..2: nothing is appended
example : (getGuardianSetStale demoG012 1 2 true demoChain2).st = demoG012 := by decide
-- a VAA of the three-key set 2 with one signature is refused after the overlap (threshold 3, not set 1's 1)
example : (pushStale demoG012 1 ⟨1, 2, [⟨0, [1]⟩], demoBody⟩ demoRec true demoChain2 false true).res = .invalid .noQuorum := by decide
-- far ahead: the chain is 12 sets ahead of the explorer; one lookup fetches all of them, every index then answers with its own set
def demoFar : GS := (getGuardianSet demoG 12 true demoChain2).st
example : demoFar.cur = 12 ∧ demoFar.list.map (·.index) = [0, 1, 2, 3, 4, 5, 6, 7, 8, 9, 10, 11, 12] := by decide
example : ((List.range 13).all fun i => match (getGuardianSet demoFar i false demoChain2).res with | .ok s => s.index == i | _ => false) = true := by decide
-- start-up
example : (fetchRange demoChain2 0 3).map (·.map (·.index)) = some [0, 1, 2, 3] := by decide

-- the on-demand lookup fails right after a set change: set 0 = {A} is stored, set 1 = {A, B, C} keeps A at position 0
/-- the endpoint answers nothing -/
def demoDown : Chain := fun _ => none
/-- the first request of a two-set range is served, the second fails -/
def demoHalfDown : Chain := fun i => if i = 1 then some (some [kA, kB, kC]) else none
/-- a VAA naming set 1 with ONE signature, by the guardian both sets have at position 0 -/
def demoWeak : Vaa := { demoV with sigs := [⟨0, [1]⟩] }
example : fetchRange demoDown (u32 (demoG.cur + 1)) (u32 (demoWeak.gsIndex : Int)) = none := by decide
example : fetchRange demoHalfDown (u32 (demoG.cur + 1)) (u32 (2 : Int)) = none := by decide
-- it WOULD pass the gate of the stored set (threshold 1) …
example : verifyVAA demoRec demoWeak (some [kA]) = none := by decide
-- … but is not judged at all while the named set cannot be fetched, and nothing is left behind
example : push demoG demoWeak demoRec true demoDown false true = ⟨demoG, .getErr, [], some (1, 1), false, false⟩ := by decide
example : (push demoG { demoWeak with gsIndex := 2 } demoRec true demoHalfDown false true).st = demoG := by decide
example : (push demoG demoWeak demoRec false demoChain false true).res = .getErr := by decide
-- once the node answers again it is judged against set 1 as the chain defines it: one signature of three required
example : (push (push demoG demoWeak demoRec true demoDown false true).st demoWeak demoRec true demoChain false true).res = .invalid .noQuorum := by decide
-- and the complete VAA, dropped while the lookup failed, is ingested when it arrives again
example : (push demoG demoV demoRec true demoDown false true).enq = false := by decide
example : (push (push demoG demoV demoRec true demoDown false true).st demoV demoRec true demoChain false true).enq = true := by decide
example : (getGuardianSet demoG 1 true demoChain).res = .ok ⟨1, some [kA, kB, kC]⟩ ∧ demoChain 1 = some (some [kA, kB, kC]) := by decide

/-! ## Concurrent lookups while sets are appended (fine-grained model `Whv.Explorer.Fine`) -/
section Interleaving
open Whv.Explorer.Fine

/-- Start of a concurrent run: the invariant holds, nobody holds the lock, every goroutine (there may be
infinitely many) is about to start its operation — a lookup `get i` or a refresh `refresh b` (read `current`,
fetch `[current+1 .. b]` from the chain, `updateGuardianSets`) with `uint32` arguments. -/
structure Init (s : Sys) : Prop where
  inv : Inv s.cur s.list
  lock : s.lock = none
  idle : ∀ k, (s.threads k).pc = .idle
  bound : ∀ k, OpBound (s.threads k).op

private theorem init_J (cfg : Cfg) (s : Sys) (h : Init s) : J cfg s where
  owner := fun k => by rw [h.idle k, h.lock]; exact ⟨(fun c => c.elim), (fun e => by cases e)⟩
  free := fun _ => h.inv
  held := fun k e => by rw [h.lock] at e; cases e
  setsF := fun k sets e => by rw [h.idle k] at e; cases e
  setsL := fun k sets e => by rw [h.idle k] at e; cases e
  reading := fun k c e => by rw [h.idle k] at e; cases e
  res := fun k i r _ e => by rw [h.idle k] at e; cases e
  bound := h.bound

/-- **Interleaving safety (repaired code).** With the reads of `currentGuardianSetIndex` / `guardianSetLists`
taken under `gs.lock` (either order of the two writes), for every chain, every set of goroutines and **every
schedule**: whenever the lock is free the index invariant holds, and every finished lookup `get i` has not
panicked and, if it returned a set, returned the set with index `i` — also while other goroutines are in the
middle of appending newer sets. -/
theorem c19_interleaving_safe (cfg : Cfg) (hlr : cfg.lockedReads = true) (chain : Nat → Option (List Addr))
    (s₀ : Sys) (h : Init s₀) (sched : List Nat) :
    ((run cfg chain s₀ sched).lock = none → Inv (run cfg chain s₀ sched).cur (run cfg chain s₀ sched).list) ∧
    ∀ k i r, ((run cfg chain s₀ sched).threads k).op = .get i → ((run cfg chain s₀ sched).threads k).pc = .done r →
      r ≠ .panic ∧ ∀ x, r = .ok x → x.index = i := by
  have hJ := run_preserves chain hlr sched s₀ (init_J cfg s₀ h)
  refine ⟨hJ.free, fun k i r ho hp => ?_⟩
  have := hJ.res k i r ho hp
  cases r with
  | ok x => exact ⟨by simp, fun y e => by cases e; exact this⟩
  | miss => exact ⟨by simp, fun y e => by cases e⟩
  | unit => exact ⟨by simp, fun y e => by cases e⟩
  | panic => exact this.elim

/-- The instance for the code as repaired by `fixes/C19-guardian-set-read-lock.diff`. -/
theorem c19_interleaving_safe_repaired (chain : Nat → Option (List Addr)) (s₀ : Sys) (h : Init s₀) (sched : List Nat)
    (k i : Nat) (r : Res) (ho : ((run repaired chain s₀ sched).threads k).op = .get i)
    (hp : ((run repaired chain s₀ sched).threads k).pc = .done r) : r ≠ .panic ∧ ∀ x, r = .ok x → x.index = i :=
  (c19_interleaving_safe repaired rfl chain s₀ h sched).2 k i r ho hp

/-- One guardian set known; goroutine 0 refreshes up to index 1, goroutine 1 looks up index 1. -/
def wSys : Sys := ⟨0, [⟨0, some [kA]⟩], none, fun k => if k = 0 then ⟨.refresh 1, .idle⟩ else ⟨.get 1, .idle⟩⟩
def wChain : Nat → Option (List Addr) := fun _ => some [kB]
/-- refresh: read+fetch, Lock, first write (index := 1) — then the lookup reads the index, then the list. -/
def wSched : List Nat := [0, 0, 0, 1, 1]

private theorem wSys_init : Init wSys where
  inv := ⟨by decide, ⟨rfl, trivial⟩, by decide, by decide⟩
  lock := rfl
  idle := fun k => by unfold wSys; by_cases h : k = 0 <;> simp [h]
  bound := fun k => by unfold wSys; by_cases h : k = 0 <;> simp [h, OpBound, two32]

/-- **Interleaving witness (pinned code).** The pinned code — unlocked reads, index published before the
append — violates the statement: in the schedule `wSched` the lookup of index 1 runs between the two writes
of the update, finds `1 <= current` and indexes a list that still has one element: a panic
(`index out of range [1] with length 1`, exactly what the harness observes). -/
theorem c19_interleaving_witness :
    ¬ (∀ (chain : Nat → Option (List Addr)) (s₀ : Sys) (_ : Init s₀) (sched : List Nat) (k i : Nat) (r : Res),
        ((run pinned chain s₀ sched).threads k).op = .get i → ((run pinned chain s₀ sched).threads k).pc = .done r →
        r ≠ .panic ∧ ∀ x, r = .ok x → x.index = i) := by
  intro h
  have := h wChain wSys wSys_init wSched 1 1 .panic (by decide) (by decide)
  exact this.1 rfl

-- the same schedule on the repaired code: the lookup is blocked while the update holds the lock …
example : ((run repaired wChain wSys wSched).threads 1).pc = .idle := by decide
-- … and once the update is through it returns set 1
example : ((run repaired wChain wSys (wSched ++ [0, 0, 1, 1])).threads 1).pc = .done (.ok ⟨1, some [kB]⟩) := by decide
-- a schedule in which the pinned code happens to behave
example : ((run pinned wChain wSys [0, 0, 0, 0, 0, 1, 1]).threads 1).pc = .done (.ok ⟨1, some [kB]⟩) := by decide

end Interleaving

end Whv.C19
