import Whv.Lemmas.Processor
import Whv.Gen.Proc
/-!
# C14 — pending attestations are retried, then expired, on a bounded schedule

Model: `Whv.Proc.cleanupEntry` (one iteration of the loop in `handleCleanup`, cleanup.go) with times in integer
nanoseconds; thresholds `settlementTime` (30 s), `fiveMinutes`, `retryTime` (5 min), `oneHour`, `maxRetries` (14400).
`pgs` is the node's current guardian set (known whenever an entry exists, by the C13 invariant), `db` the store.
A *pending* entry is one the node has signed (`ourMsg`), that lacks quorum (`¬submitted`), whose quorum VAA is not in
the store, and whose retry budget is not spent.
-/
namespace Whv.C14
open Whv Whv.Proc

/-- The message's quorum VAA is not in the store. -/
def NotStored (db : List (VaaId × Bytes)) (st : VState) : Prop :=
  ∀ v, st.ourVAA = some v → db.lookup v.body.id = none

structure Pending (db : List (VaaId × Bytes)) (st : VState) : Prop where
  signed : ∃ o, st.ourMsg = some o
  ours : ∃ v, st.ourVAA = some v
  unsubmitted : st.submitted = false
  notStored : NotStored db st
  budget : st.retryCount < maxRetries

private theorem not_late {db : List (VaaId × Bytes)} {st : VState} (h : NotStored db st) (now : Int) :
    isLate db now st = false := by
  unfold isLate
  split
  · rename_i v hv
    rw [h v hv]; simp
  · rfl

private theorem not_exhausted {db : List (VaaId × Bytes)} {st : VState} (h : Pending db st) : exhausted st = false := by
  obtain ⟨o, ho⟩ := h.signed
  have := h.budget
  unfold exhausted
  simp [ho]
  omega

private theorem c1 {db : List (VaaId × Bytes)} {now : Int} {st : VState} (h : isLate db now st = false) :
    ¬ (isLate db now st = true) := by rw [h]; simp

private theorem c4 {st : VState} (h : exhausted st = false) : ¬ (st.submitted = false ∧ exhausted st = true) := by
  rw [h]; simp

private theorem c3 {now : Int} {st : VState} (h : st.submitted = false) :
    ¬ (st.submitted = true ∧ now - st.firstObserved ≥ oneHour) := by rw [h]; simp

private theorem c2 {now : Int} {st : VState} (h : st.settled = true) :
    ¬ (st.settled = false ∧ now - st.firstObserved > settlementTime) := by rw [h]; simp

/-- **No early discard.** A pending entry is never deleted by a cleanup tick, whatever the time, the queue fill and
the stall since the previous tick; it stays pending unless this tick spent the last retry. -/
theorem no_early_discard (g : GSet) (db : List (VaaId × Bytes)) (now : Int) (room : Bool) (st : VState)
    (h : Pending db st) :
    ∃ st' outs, cleanupEntry (some g) db now room st = .keep st' outs ∧
      st'.ourMsg = st.ourMsg ∧ st'.ourVAA = st.ourVAA ∧ st'.submitted = false ∧ st'.signatures = st.signatures := by
  obtain ⟨o, ho⟩ := h.signed
  obtain ⟨v, hv⟩ := h.ours
  unfold cleanupEntry
  rw [if_neg (c1 (not_late h.notStored now))]
  by_cases h2 : st.settled = false ∧ now - st.firstObserved > settlementTime
  · rw [if_pos h2]
    unfold settleAct settleGs
    cases st.gs <;> exact ⟨_, _, rfl, rfl, rfl, h.unsubmitted, rfl⟩
  · rw [if_neg h2, if_neg (c3 h.unsubmitted), if_neg (c4 (not_exhausted h))]
    by_cases h5 : st.submitted = false ∧ now - st.firstObserved ≥ fiveMinutes ∧ retryDue now st.lastRetry = true
    · rw [if_pos h5]
      unfold retryAct
      rw [ho, hv]
      exact ⟨_, _, rfl, ho.symm ▸ rfl, hv.symm ▸ rfl, h.unsubmitted, rfl⟩
    · rw [if_neg h5]
      exact ⟨_, _, rfl, rfl, rfl, h.unsubmitted, rfl⟩

/-- **Retry when due.** A settled pending entry that is at least five minutes old and whose last retry lies at least
`retryTime` back (or that was never retried) is retried by this tick: the own observation is re-broadcast, a
re-observation request for the originating transaction on the emitter chain is issued (if the request queue has room),
the retry counter goes up by one and the retry time is recorded. -/
theorem retry_when_due (g : GSet) (db : List (VaaId × Bytes)) (now : Int) (room : Bool) (st : VState)
    (h : Pending db st) (hset : st.settled = true) (hage : now - st.firstObserved ≥ fiveMinutes)
    (hdue : retryDue now st.lastRetry = true) :
    ∃ o v, st.ourMsg = some o ∧ st.ourVAA = some v ∧
      cleanupEntry (some g) db now room st =
        .keep { st with retryCount := st.retryCount + 1, lastRetry := some now }
          ((if room then [Out.obsReq v.body.emitterChain st.txHash] else []) ++ [Out.obs o]) := by
  obtain ⟨o, ho⟩ := h.signed
  obtain ⟨v, hv⟩ := h.ours
  refine ⟨o, v, ho, hv, ?_⟩
  unfold cleanupEntry
  rw [if_neg (c1 (not_late h.notStored now)), if_neg (c2 hset), if_neg (c3 h.unsubmitted), if_neg (c4 (not_exhausted h)),
    if_pos ⟨h.unsubmitted, hage, hdue⟩]
  unfold retryAct
  rw [ho, hv]

/-- **No retry before its time.** If the last retry is less than `retryTime` back (or the entry is younger than five
minutes) a settled pending entry is left exactly as it is and nothing is sent. -/
theorem no_retry_before_due (g : GSet) (db : List (VaaId × Bytes)) (now : Int) (room : Bool) (st : VState)
    (h : Pending db st) (hset : st.settled = true)
    (hnot : now - st.firstObserved < fiveMinutes ∨ retryDue now st.lastRetry = false) :
    cleanupEntry (some g) db now room st = .keep st [] := by
  unfold cleanupEntry
  rw [if_neg (c1 (not_late h.notStored now)), if_neg (c2 hset), if_neg (c3 h.unsubmitted), if_neg (c4 (not_exhausted h)), if_neg]
  intro ⟨_, h1, h2⟩
  rcases hnot with h3 | h3
  · omega
  · rw [h2] at h3; cases h3

/-- Consecutive retries are at least `retryTime` apart: right after a retry at `t`, no tick before `t + retryTime` retries. -/
theorem retries_spaced (g : GSet) (db : List (VaaId × Bytes)) (t now : Int) (room : Bool) (st : VState)
    (h : Pending db st) (hset : st.settled = true) (hl : st.lastRetry = some t) (hlt : now - t < retryTime) :
    cleanupEntry (some g) db now room st = .keep st [] := by
  apply no_retry_before_due g db now room st h hset
  right
  rw [hl]
  unfold retryDue
  simp only [decide_eq_false_iff_not]
  omega

/-- … and with ticks at most `T` apart the next retry comes no later than `retryTime + T` after the previous one:
the first tick at or after `t + retryTime` is due (for an entry that is five minutes old). -/
theorem retry_due_after_period (t now : Int) (hge : now - t ≥ retryTime) : retryDue now (some t) = true := by
  unfold retryDue; simpa using hge

/-- The settle step: an unsettled entry older than the settlement time is only marked settled by this tick (nothing is
sent, nothing is deleted) — unless its quorum VAA is already stored. -/
theorem settle_first (g : GSet) (db : List (VaaId × Bytes)) (now : Int) (room : Bool) (st : VState)
    (hnl : isLate db now st = false) (hset : st.settled = false) (hage : now - st.firstObserved > settlementTime) :
    cleanupEntry (some g) db now room st = .keep { st with settled := true } [] := by
  unfold cleanupEntry
  rw [if_neg (c1 hnl), if_pos ⟨hset, hage⟩]
  unfold settleAct settleGs
  cases st.gs <;> rfl

/-- **A stored quorum VAA releases the entry**: a pending-looking entry whose VAA is already in the store is dropped
once it is older than the settlement time (the one case in which an unsubmitted signed entry may go early). -/
theorem late_entry_dropped (pgs : Option GSet) (db : List (VaaId × Bytes)) (now : Int) (room : Bool) (st : VState) (v : Vaa) (b : Bytes)
    (hv : st.ourVAA = some v) (hsub : st.submitted = false) (hage : now - st.firstObserved > settlementTime)
    (hst : db.lookup v.body.id = some b) : cleanupEntry pgs db now room st = .delete := by
  unfold cleanupEntry
  have : isLate db now st = true := by
    unfold isLate
    rw [hv]
    simp [hsub, hage, hst]
  rw [if_pos this]

/-- **Signatures for a message the node never observed** go after about five minutes: a settled such entry that is
five minutes old is deleted by this tick … -/
theorem unobserved_expires (g : GSet) (db : List (VaaId × Bytes)) (now : Int) (room : Bool) (st : VState)
    (hno : st.ourVAA = none) (hnm : st.ourMsg = none) (hsub : st.submitted = false) (hlr : st.lastRetry = none)
    (hset : st.settled = true) (hage : now - st.firstObserved ≥ fiveMinutes) :
    cleanupEntry (some g) db now room st = .delete := by
  unfold cleanupEntry
  have hl : isLate db now st = false := by unfold isLate; rw [hno]
  by_cases h4 : st.submitted = false ∧ exhausted st = true
  · rw [if_neg (c1 hl), if_neg (c2 hset), if_neg (c3 hsub), if_pos h4]
  · rw [if_neg (c1 hl), if_neg (c2 hset), if_neg (c3 hsub), if_neg h4, if_pos ⟨hsub, hage, by rw [hlr]; rfl⟩]
    unfold retryAct
    rw [hnm]

/-- … and an unsettled one is settled by the first such tick and deleted by the second: at most two ticks after age
five minutes. -/
theorem unobserved_expires_two_ticks (g : GSet) (db : List (VaaId × Bytes)) (now₁ now₂ : Int) (r₁ r₂ : Bool) (st : VState)
    (hno : st.ourVAA = none) (hnm : st.ourMsg = none) (hsub : st.submitted = false) (hlr : st.lastRetry = none)
    (hage : now₁ - st.firstObserved ≥ fiveMinutes) (hle : now₁ ≤ now₂) :
    cleanupEntry (some g) db now₁ r₁ st = .delete ∨
    ∃ st', cleanupEntry (some g) db now₁ r₁ st = .keep st' [] ∧ cleanupEntry (some g) db now₂ r₂ st' = .delete := by
  cases hset : st.settled with
  | true => exact Or.inl (unobserved_expires g db now₁ r₁ st hno hnm hsub hlr hset hage)
  | false =>
    right
    have hl : isLate db now₁ st = false := by unfold isLate; rw [hno]
    have h5 : fiveMinutes > settlementTime := by decide
    refine ⟨{ st with settled := true }, settle_first g db now₁ r₁ st hl hset (by omega), ?_⟩
    exact unobserved_expires g db now₂ r₂ _ hno hnm hsub hlr rfl (by simp only; omega)

/-- **Completed entries** go after about an hour: a settled submitted entry that is an hour old is deleted. -/
theorem submitted_expires (pgs : Option GSet) (db : List (VaaId × Bytes)) (now : Int) (room : Bool) (st : VState)
    (hsub : st.submitted = true) (hset : st.settled = true) (hage : now - st.firstObserved ≥ oneHour) :
    cleanupEntry pgs db now room st = .delete := by
  unfold cleanupEntry
  have hl : isLate db now st = false := by
    unfold isLate
    split
    · simp [hsub]
    · rfl
  rw [if_neg (c1 hl), if_neg (c2 hset), if_pos ⟨hsub, hage⟩]

/-- A submitted entry is kept (only possibly settled) until then: late observations still find their context. -/
theorem submitted_kept_before_hour (g : GSet) (db : List (VaaId × Bytes)) (now : Int) (room : Bool) (st : VState)
    (hsub : st.submitted = true) (hage : now - st.firstObserved < oneHour) :
    ∃ st', cleanupEntry (some g) db now room st = .keep st' [] ∧ st'.submitted = true := by
  unfold cleanupEntry
  have hl : isLate db now st = false := by
    unfold isLate
    split
    · simp [hsub]
    · rfl
  rw [if_neg (c1 hl)]
  by_cases h2 : st.settled = false ∧ now - st.firstObserved > settlementTime
  · rw [if_pos h2]
    unfold settleAct settleGs
    cases st.gs <;> exact ⟨_, rfl, hsub⟩
  · rw [if_neg h2, if_neg (by intro ⟨_, h⟩; omega), if_neg (by rw [hsub]; simp), if_neg (by rw [hsub]; simp)]
    exact ⟨_, rfl, hsub⟩

/-- **The retry budget is finite**: once it is spent the entry is deleted, and every due tick spends one unit
(`retry_when_due`), so the variant `maxRetries - retryCount` strictly decreases along due ticks: no pending entry lives
forever while ticks continue. -/
theorem exhausted_expires (pgs : Option GSet) (db : List (VaaId × Bytes)) (now : Int) (room : Bool) (st : VState)
    (hnl : isLate db now st = false) (hsub : st.submitted = false) (hset : st.settled = true)
    (hex : (∃ o, st.ourMsg = some o) ∧ st.retryCount ≥ maxRetries) :
    cleanupEntry pgs db now room st = .delete := by
  obtain ⟨⟨o, ho⟩, hc⟩ := hex
  unfold cleanupEntry
  have : exhausted st = true := by unfold exhausted; simp [ho, hc]
  rw [if_neg (c1 hnl), if_neg (c2 hset), if_neg (c3 hsub), if_pos ⟨hsub, this⟩]

theorem retry_decreases_variant (g : GSet) (db : List (VaaId × Bytes)) (now : Int) (room : Bool) (st : VState)
    (h : Pending db st) (hset : st.settled = true) (hage : now - st.firstObserved ≥ fiveMinutes)
    (hdue : retryDue now st.lastRetry = true) :
    ∃ st' outs, cleanupEntry (some g) db now room st = .keep st' outs ∧
      maxRetries - st'.retryCount < maxRetries - st.retryCount := by
  obtain ⟨o, v, _, _, he⟩ := retry_when_due g db now room st h hset hage hdue
  refine ⟨_, _, he, ?_⟩
  have := h.budget
  simp only
  omega

/-- The state a tick leaves behind does not depend on the request queue: a full queue only loses the request. -/
theorem queue_full_only_drops_request (g : GSet) (db : List (VaaId × Bytes)) (now : Int) (st : VState)
    (h : Pending db st) (hset : st.settled = true) (hage : now - st.firstObserved ≥ fiveMinutes)
    (hdue : retryDue now st.lastRetry = true) :
    ∃ o st', cleanupEntry (some g) db now false st = .keep st' [Out.obs o] ∧
      ∃ r, cleanupEntry (some g) db now true st = .keep st' [r, Out.obs o] := by
  obtain ⟨o, v, _, _, he⟩ := retry_when_due g db now false st h hset hage hdue
  obtain ⟨o', v', ho', hv', he'⟩ := retry_when_due g db now true st h hset hage hdue
  obtain ⟨o2, ho2⟩ := h.signed
  refine ⟨o, _, by simpa using he, Out.obsReq v'.body.emitterChain st.txHash, ?_⟩
  rename_i ho hv
  rw [ho] at ho'; cases ho'
  simpa using he'

/-- Whether an entry is kept, and the state it is left in, do not depend on the request queue. -/
theorem room_irrelevant (pgs : Option GSet) (db : List (VaaId × Bytes)) (now : Int) (st : VState) :
    (cleanupEntry pgs db now true st = .delete ↔ cleanupEntry pgs db now false st = .delete) ∧
    (∀ st' o, cleanupEntry pgs db now true st = .keep st' o → ∃ o', cleanupEntry pgs db now false st = .keep st' o') ∧
    (∀ st' o, cleanupEntry pgs db now false st = .keep st' o → ∃ o', cleanupEntry pgs db now true st = .keep st' o') := by
  unfold cleanupEntry
  by_cases h1 : isLate db now st = true
  · simp [if_pos h1]
  · rw [if_neg h1, if_neg h1]
    by_cases h2 : st.settled = false ∧ now - st.firstObserved > settlementTime
    · rw [if_pos h2, if_pos h2]
      exact ⟨Iff.rfl, fun st' o h => ⟨o, h⟩, fun st' o h => ⟨o, h⟩⟩
    · rw [if_neg h2, if_neg h2]
      by_cases h3 : st.submitted = true ∧ now - st.firstObserved ≥ oneHour
      · simp [if_pos h3]
      · rw [if_neg h3, if_neg h3]
        by_cases h4 : st.submitted = false ∧ exhausted st = true
        · simp [if_pos h4]
        · rw [if_neg h4, if_neg h4]
          by_cases h5 : st.submitted = false ∧ now - st.firstObserved ≥ fiveMinutes ∧ retryDue now st.lastRetry = true
          · rw [if_pos h5, if_pos h5]
            unfold retryAct
            cases st.ourMsg with
            | none => cases pgs <;> simp
            | some o =>
              cases st.ourVAA with
              | none => simp
              | some v =>
                refine ⟨by simp, ?_, ?_⟩
                · intro st' o' h; cases h; exact ⟨_, rfl⟩
                · intro st' o' h; cases h; exact ⟨_, rfl⟩
          · rw [if_neg h5, if_neg h5]
            exact ⟨Iff.rfl, fun st' o h => ⟨o, h⟩, fun st' o h => ⟨o, h⟩⟩

private theorem cleanupAll_keeps (pgs : Option GSet) (db : List (VaaId × Bytes)) (now : Int) :
    ∀ (l : List (Bytes × VState)) (room : Nat) (l' : List (Bytes × VState)) (outs : List Out),
      cleanupAll pgs db now l room = .ok (l', outs) →
      (∀ d st st' r o, (d, st) ∈ l → cleanupEntry pgs db now r st = .keep st' o → (d, st') ∈ l') ∧
      (∀ d st', (d, st') ∈ l' → ∃ st r o, (d, st) ∈ l ∧ cleanupEntry pgs db now r st = .keep st' o) := by
  intro l
  induction l with
  | nil =>
    intro room l' outs h
    simp [cleanupAll] at h
    obtain ⟨rfl, rfl⟩ := h
    exact ⟨by intro d st st' r o hm; simp at hm, by intro d st' hm; simp at hm⟩
  | cons hd tl ih =>
    intro room l' outs h
    obtain ⟨d0, st0⟩ := hd
    unfold cleanupAll at h
    split at h
    · cases h
    · rename_i hdel
      obtain ⟨i1, i2⟩ := ih _ _ _ h
      constructor
      · intro d st st' r o hm hk
        simp at hm
        rcases hm with ⟨rfl, rfl⟩ | hm
        · exfalso
          have hri := room_irrelevant pgs db now st
          cases r with
          | true =>
            cases hb : decide (room > 0) with
            | true => rw [hb] at hdel; rw [hdel] at hk; cases hk
            | false =>
              rw [hb] at hdel
              have := hri.1.2 hdel
              rw [this] at hk; cases hk
          | false =>
            cases hb : decide (room > 0) with
            | false => rw [hb] at hdel; rw [hdel] at hk; cases hk
            | true =>
              rw [hb] at hdel
              have := hri.1.1 hdel
              rw [this] at hk; cases hk
        · exact i1 d st st' r o hm hk
      · intro d st' hm
        obtain ⟨st, r, o, a, b⟩ := i2 d st' hm
        exact ⟨st, r, o, by simp [a], b⟩
    · rename_i st1 o1 hk1
      split at h
      · cases h
      · rename_i agg' outs' hrest
        simp only [Except.ok.injEq, Prod.mk.injEq] at h
        obtain ⟨rfl, rfl⟩ := h
        obtain ⟨i1, i2⟩ := ih _ _ _ hrest
        constructor
        · intro d st st' r o hm hk
          simp at hm
          rcases hm with ⟨rfl, rfl⟩ | hm
          · have hri := room_irrelevant pgs db now st
            have : st' = st1 := by
              cases r with
              | true =>
                cases hb : decide (room > 0) with
                | true => rw [hb] at hk1; rw [hk1] at hk; cases hk; rfl
                | false =>
                  rw [hb] at hk1
                  obtain ⟨o', ho'⟩ := hri.2.2 _ _ hk1
                  rw [ho'] at hk; cases hk; rfl
              | false =>
                cases hb : decide (room > 0) with
                | false => rw [hb] at hk1; rw [hk1] at hk; cases hk; rfl
                | true =>
                  rw [hb] at hk1
                  obtain ⟨o', ho'⟩ := hri.2.1 _ _ hk1
                  rw [ho'] at hk; cases hk; rfl
            subst this
            simp
          · exact List.mem_cons_of_mem _ (i1 d st st' r o hm hk)
        · intro d st' hm
          simp at hm
          rcases hm with ⟨rfl, rfl⟩ | hm
          · exact ⟨st0, _, _, by simp, hk1⟩
          · obtain ⟨st, r, o, a, b⟩ := i2 d st' hm
            exact ⟨st, r, o, by simp [a], b⟩

/-- **Lifted to the whole tick** (`handleCleanup`): an entry survives a tick exactly in the state `cleanupEntry` leaves
it in; every entry present after the tick is such a survivor; the store is untouched. Together with the entry-level
theorems above this gives the schedule for every reachable aggregation state and every tick sequence. -/
theorem tick_effect (s s' : PState) (now : Int) (room : Nat) (outs : List Out)
    (h : handleCleanup s now room = .ok s' outs) :
    (∀ d st st' r o, (d, st) ∈ s.agg → cleanupEntry s.gs s.db now r st = .keep st' o → (d, st') ∈ s'.agg) ∧
    (∀ d st', (d, st') ∈ s'.agg → ∃ st r o, (d, st) ∈ s.agg ∧ cleanupEntry s.gs s.db now r st = .keep st' o) ∧
    s'.db = s.db ∧ s'.gs = s.gs := by
  unfold handleCleanup at h
  split at h
  · cases h
  · rename_i agg' o hc
    cases h
    obtain ⟨a, b⟩ := cleanupAll_keeps _ _ _ _ _ _ _ hc
    exact ⟨a, b, rfl, rfl⟩

/-- **However large the map.** A pending entry survives a whole cleanup tick in any aggregation state that contains it —
there is no bound on the number of other entries (a flood of 10 000 digests this node never observed changes nothing for the
node's own pending message), and the entry after the tick is still the node's own, unsubmitted, with its signatures. This is the
model-level counterpart of the scale family of the processor harness (whose flood the driver does not replay). -/
theorem pending_survives_tick_in_any_state (s s' : PState) (g : GSet) (hg : s.gs = some g) (now : Int) (room : Nat) (outs : List Out)
    (h : handleCleanup s now room = .ok s' outs) (d : Bytes) (st : VState) (hm : (d, st) ∈ s.agg) (hp : Pending s.db st)
    (r : Bool) :
    ∃ st', (d, st') ∈ s'.agg ∧ st'.ourMsg = st.ourMsg ∧ st'.ourVAA = st.ourVAA ∧ st'.submitted = false ∧
      st'.signatures = st.signatures := by
  obtain ⟨st', o, hk, h1, h2, h3, h4⟩ := no_early_discard g s.db now r st hp
  have := (tick_effect s s' now room outs h).1 d st st' r o hm (by rw [hg]; exact hk)
  exact ⟨st', this, h1, h2, h3, h4⟩

/-- An entry followed through a sequence of ticks (times and queue states arbitrary): `none` once it has been deleted. -/
def runTicks (g : GSet) (db : List (VaaId × Bytes)) : VState → List (Int × Bool) → Option VState
  | st, [] => some st
  | st, (now, room) :: rest =>
    match cleanupEntry (some g) db now room st with
    | .keep st' _ => runTicks g db st' rest
    | _ => none

private theorem keep_retry_le (g : GSet) (db : List (VaaId × Bytes)) (now : Int) (room : Bool) (st st' : VState) (o : List Out)
    (h : cleanupEntry (some g) db now room st = .keep st' o) (hb : st.retryCount ≤ maxRetries) :
    st'.retryCount ≤ maxRetries ∧ st.retryCount ≤ st'.retryCount ∧ st'.firstObserved = st.firstObserved := by
  unfold cleanupEntry at h
  split at h
  · cases h
  · split at h
    · unfold settleAct settleGs at h
      cases hg : st.gs <;> rw [hg] at h <;> cases h <;> exact ⟨hb, Nat.le_refl _, rfl⟩
    · split at h
      · cases h
      · split at h
        · cases h
        · rename_i hex
          split at h
          · rename_i hdue
            unfold retryAct at h
            cases ho : st.ourMsg with
            | none => rw [ho] at h; cases h
            | some ob =>
              rw [ho] at h
              cases hv : st.ourVAA with
              | none => rw [hv] at h; cases h
              | some v =>
                rw [hv] at h
                cases h
                have : ¬ (st.retryCount ≥ maxRetries) := by
                  intro hge
                  apply hex
                  refine ⟨hdue.1, ?_⟩
                  unfold exhausted
                  simp [ho, hge]
                refine ⟨?_, ?_, rfl⟩
                · show st.retryCount + 1 ≤ maxRetries
                  omega
                · show st.retryCount ≤ st.retryCount + 1
                  omega
          · cases h; exact ⟨hb, Nat.le_refl _, rfl⟩

/-- **The retry budget is never exceeded**, whatever the tick sequence (stalls, bursts, full queues): along every run of
ticks the retry counter stays within `maxRetries`, never decreases, and the first-seen time is never touched — so the age
only grows and an entry at its budget is deleted by the next tick that considers it (`exhausted_expires`). -/
theorem retry_budget_invariant (g : GSet) (db : List (VaaId × Bytes)) :
    ∀ (ticks : List (Int × Bool)) (st st' : VState), st.retryCount ≤ maxRetries → runTicks g db st ticks = some st' →
      st'.retryCount ≤ maxRetries ∧ st.retryCount ≤ st'.retryCount ∧ st'.firstObserved = st.firstObserved := by
  intro ticks
  induction ticks with
  | nil =>
    intro st st' hb h
    simp [runTicks] at h
    subst h
    exact ⟨hb, Nat.le_refl _, rfl⟩
  | cons t rest ih =>
    intro st st' hb h
    obtain ⟨now, room⟩ := t
    unfold runTicks at h
    split at h
    · rename_i st1 o hk
      obtain ⟨a, b, c⟩ := keep_retry_le g db now room st st1 o hk hb
      obtain ⟨a', b', c'⟩ := ih st1 st' a h
      exact ⟨a', by omega, by rw [c', c]⟩
    · cases h

/-- The thresholds of the model are the ones in cleanup.go / processor.go (re-extracted on every run), and they are the
statement's: retries about every five minutes, unobserved entries about five minutes, completed entries about an hour, a
14 400-retry budget (120 hours), a 30-second settlement time and a 30-second cleanup ticker; the four `case` conditions of the
switch are textually the ones modelled. -/
theorem thresholds_as_modelled :
    (Whv.Gen.Proc.settlementTime : Int) = settlementTime ∧ (Whv.Gen.Proc.retryTime : Int) = retryTime ∧
    Whv.Gen.Proc.maxRetries = maxRetries ∧ Whv.Gen.Proc.nilRetries = 10 ∧
    retryTime = 5 * 60 * 1000000000 ∧ fiveMinutes = 5 * 60 * 1000000000 ∧ oneHour = 60 * 60 * 1000000000 ∧
    Whv.Gen.Proc.cleanupTickNs = 30 * 1000000000 ∧
    Whv.Gen.Proc.hourRule = 1 ∧ Whv.Gen.Proc.fiveMinRule = 1 ∧ Whv.Gen.Proc.settleRule = 1 ∧ Whv.Gen.Proc.lateRule = 1 := by
  decide

/-- With the 30-second ticker a due retry is at most 30 s late, so consecutive retries are between 5 min and 5 min 30 s apart
(`retries_spaced` + `retry_due_after_period` with `T` = the extracted tick). -/
theorem retry_period_bounds (t : Int) :
    (∀ now, now - t < retryTime → retryDue now (some t) = false) ∧
    (∀ now, now - t ≥ retryTime → retryDue now (some t) = true) ∧
    retryTime + (Whv.Gen.Proc.cleanupTickNs : Int) = (5 * 60 + 30) * 1000000000 := by
  refine ⟨?_, ?_, by decide⟩
  · intro now h
    unfold retryDue
    simp only [decide_eq_false_iff_not]
    omega
  · intro now h
    exact retry_due_after_period t now h

/-- Non-vacuity: a concrete pending entry, five minutes old, never retried — retried by the tick. -/
def sampleVaa : Vaa :=
  { version := 1, gsIndex := 0, sigs := [],
    body := { ts := 0, nonce := 0, emitterChain := 2, targetChain := 255, emitter := [], sequence := 7, consistency := 1,
              payload := [1] } }

def sampleObs : Obs := { addr := [1], hash := [2], sig := [3], txHash := [4] }

def sampleEntry : VState :=
  { firstObserved := 0, settled := true, ourVAA := some sampleVaa, ourMsg := some sampleObs, txHash := [4] }

theorem sample_pending : Pending [] sampleEntry :=
  ⟨⟨sampleObs, rfl⟩, ⟨sampleVaa, rfl⟩, rfl, by intro v _; rfl, by decide⟩

theorem sample_retried : ∃ st' outs, cleanupEntry (some ⟨0, []⟩) [] fiveMinutes true sampleEntry = .keep st' outs ∧
    st'.retryCount = 1 ∧ outs = [Out.obsReq 2 [4], Out.obs sampleObs] := by
  obtain ⟨o, v, ho, hv, he⟩ := retry_when_due ⟨0, []⟩ [] fiveMinutes true sampleEntry sample_pending rfl (by decide) rfl
  cases ho; cases hv
  exact ⟨_, _, he, rfl, rfl⟩

/-! ## Bounded lifetime: no aggregation entry lives forever -/

/-- Remaining work of an entry: one settle step plus the unspent retries. -/
def mu (st : VState) : Nat := (if st.settled then 0 else 1) + (maxRetries - st.retryCount)

/-- From this time on every tick acts on the entry (settles, retries or deletes it). -/
def dueAt (st : VState) : Int :=
  match st.lastRetry with
  | none => st.firstObserved + oneHour
  | some lr => max (st.firstObserved + oneHour) (lr + retryTime)

/-- Tick times never go back and consecutive ticks are at most `G` apart (the first at most `G` after `t`). -/
def Gaps (G : Int) : Int → List (Int × Bool) → Prop
  | _, [] => True
  | t, (now, _) :: rest => t ≤ now ∧ now ≤ t + G ∧ Gaps G now rest

/-- No tick can find the entry alive after this time. -/
def deadline (G : Int) (st : VState) (t : Int) : Int :=
  max t (dueAt st) + G + (mu st : Int) * (retryTime + G)

private theorem succ_mul_int (m : Nat) (K : Int) : ((m + 1 : Nat) : Int) * K = (m : Int) * K + K := by
  rw [Int.natCast_add, Int.add_mul]; simp

private theorem dueAt_ge (st : VState) : st.firstObserved + oneHour ≤ dueAt st := by
  unfold dueAt; cases st.lastRetry <;> simp only [Int.max_def] <;> (try split) <;> omega

private theorem dueAt_ge2 (st : VState) (lr : Int) (h : st.lastRetry = some lr) : lr + retryTime ≤ dueAt st := by
  unfold dueAt; rw [h]; simp only [Int.max_def]; split <;> omega

local macro "maxomega" : tactic => `(tactic| (simp only [Int.max_def]; repeat' split) <;> omega)

private theorem tick_progress (g : GSet) (db : List (VaaId × Bytes)) (G t now : Int) (room : Bool) (st st' : VState) (o : List Out)
    (hG : 0 ≤ G) (ht : t ≤ now) (hn : now ≤ t + G)
    (hb : st.retryCount ≤ maxRetries)
    (h : cleanupEntry (some g) db now room st = .keep st' o) :
    now ≤ deadline G st t ∧ deadline G st' now ≤ deadline G st t ∧ st'.retryCount ≤ maxRetries := by
  have hK : 0 ≤ retryTime + G := by unfold retryTime; omega
  have hR : 0 ≤ retryTime := by unfold retryTime; omega
  have hmuK : ∀ m : Nat, 0 ≤ (m : Int) * (retryTime + G) := fun m => Int.mul_nonneg (Int.natCast_nonneg m) hK
  have hD1 := dueAt_ge st
  have hD2 := dueAt_ge2 st
  unfold deadline
  generalize hDg : dueAt st = D at *
  unfold cleanupEntry at h
  split at h
  · cases h
  · split at h
    · -- settle
      rename_i hs
      unfold settleAct settleGs at h
      have hst : st' = { st with settled := true } := by
        cases hg : st.gs <;> rw [hg] at h <;> cases h <;> rfl
      subst hst
      have hmu : mu st = mu { st with settled := true } + 1 := by
        unfold mu; simp [hs.1]; omega
      have hd : dueAt { st with settled := true } = dueAt st := rfl
      have := hmuK (mu { st with settled := true })
      rw [hd, hmu, succ_mul_int]
      refine ⟨?_, ?_, hb⟩
      · maxomega
      · maxomega
    · split at h
      · cases h
      · split at h
        · cases h
        · rename_i hns hnsub hex
          split at h
          · -- retry
            rename_i hdue
            unfold retryAct at h
            cases ho : st.ourMsg with
            | none => rw [ho] at h; cases h
            | some ob =>
              rw [ho] at h
              cases hv : st.ourVAA with
              | none => rw [hv] at h; cases h
              | some v =>
                rw [hv] at h
                cases h
                have hlt : st.retryCount < maxRetries := by
                  apply Nat.lt_of_not_le
                  intro hge
                  apply hex
                  refine ⟨hdue.1, ?_⟩
                  unfold exhausted
                  simp [ho, hge]
                have hmu : (if st.settled = true then 0 else 1) + (maxRetries - st.retryCount) =
                    ((if st.settled = true then 0 else 1) + (maxRetries - (st.retryCount + 1))) + 1 := by omega
                simp only [dueAt, mu]
                rw [hmu, succ_mul_int]
                have := hmuK ((if st.settled = true then 0 else 1) + (maxRetries - (st.retryCount + 1)))
                generalize ((if st.settled = true then 0 else 1) + (maxRetries - (st.retryCount + 1))) = m at *
                refine ⟨?_, ?_, ?_⟩
                · maxomega
                · maxomega
                · omega
          · -- idle
            rename_i hidle
            cases h
            have hlt : now < D := by
              apply Int.lt_of_not_ge
              intro hge
              have hage : now - st.firstObserved ≥ oneHour := by omega
              have hsett : st.settled = true := by
                cases hs : st.settled
                · exfalso; apply hns; refine ⟨hs, ?_⟩; unfold settlementTime; unfold oneHour at hage; omega
                · rfl
              have hsub : st.submitted = false := by
                cases hs : st.submitted
                · rfl
                · exfalso; exact hnsub ⟨hs, hage⟩
              apply hidle
              refine ⟨hsub, ?_, ?_⟩
              · unfold fiveMinutes; unfold oneHour at hage; omega
              · unfold retryDue
                cases hl : st.lastRetry with
                | none => rfl
                | some lr =>
                  simp only [decide_eq_true_eq]
                  have := hD2 lr hl
                  omega
            have := hmuK (mu st)
            rw [hDg]
            refine ⟨?_, ?_, hb⟩
            · maxomega
            · maxomega

/-- **No aggregation entry lives forever.** Follow any entry (whatever its flags, counters and recorded times) through any
sequence of cleanup ticks whose times never go back and are at most `G` apart, the request queue full or not at each tick. If
the entry is still there after the last tick, then every one of those ticks happened before the entry's `deadline` — a time fixed
by the entry's state before the first tick: `max(start, first-seen + 1 h, last retry + 5 min) + G + (unspent retries + 1) · (5 min + G)`.
Hence ticks that keep coming delete every entry; with the 30-second ticker a fresh entry is gone at the latest
`1 h + 30 s + 14 401 · 5.5 min` after it was first seen (`fresh_entry_deadline`). -/
theorem lifetime_bounded (g : GSet) (db : List (VaaId × Bytes)) (G : Int) (hG : 0 ≤ G) :
    ∀ (ticks : List (Int × Bool)) (st st' : VState) (t : Int), st.retryCount ≤ maxRetries → Gaps G t ticks →
      runTicks g db st ticks = some st' → ∀ p ∈ ticks, p.1 ≤ deadline G st t := by
  intro ticks
  induction ticks with
  | nil => intro st st' t _ _ _ p hp; cases hp
  | cons tk rest ih =>
    intro st st' t hb hgaps hrun p hp
    obtain ⟨now, room⟩ := tk
    obtain ⟨ht, hn, hrest⟩ := hgaps
    unfold runTicks at hrun
    split at hrun
    · rename_i st1 o hk
      obtain ⟨a, b, c⟩ := tick_progress g db G t now room st st1 o hG ht hn hb hk
      cases hp with
      | head => exact a
      | tail _ hp' =>
        have := ih st1 st' now c hrest hrun p hp'
        omega
    · cases hrun

/-- … so a tick after the deadline finds the entry gone (deleted by that tick or an earlier one). `runTicks` is `none` also
when a tick panics; with the current set known (`some g`) that needs `ourMsg` without `ourVAA`, which the C13 invariant
excludes (`tick_no_panic`). -/
theorem deleted_by_deadline (g : GSet) (db : List (VaaId × Bytes)) (G : Int) (hG : 0 ≤ G)
    (ticks : List (Int × Bool)) (st : VState) (t : Int) (hb : st.retryCount ≤ maxRetries) (hgaps : Gaps G t ticks)
    (hp : ∃ p ∈ ticks, deadline G st t < p.1) : runTicks g db st ticks = none := by
  cases hr : runTicks g db st ticks with
  | none => rfl
  | some st' =>
    obtain ⟨p, hp, hlt⟩ := hp
    have := lifetime_bounded g db G hG ticks st st' t hb hgaps hr p hp
    omega

theorem tick_no_panic (g : GSet) (db : List (VaaId × Bytes)) (now : Int) (room : Bool) (st : VState)
    (hinv : ∀ o, st.ourMsg = some o → ∃ v, st.ourVAA = some v) :
    ∀ site, cleanupEntry (some g) db now room st ≠ .panic site := by
  intro site h
  unfold cleanupEntry at h
  split at h
  · cases h
  · split at h
    · unfold settleAct settleGs at h
      cases hg : st.gs <;> rw [hg] at h <;> cases h
    · split at h
      · cases h
      · split at h
        · cases h
        · split at h
          · unfold retryAct at h
            cases ho : st.ourMsg with
            | none => rw [ho] at h; cases h
            | some ob =>
              obtain ⟨v, hv⟩ := hinv ob ho
              rw [ho, hv] at h
              cases h
          · cases h

/-- Non-vacuity: signatures parked for a message the node never saw, first seen at time 0; ticks at 1 h and 1 h 30 s
(30 s apart, starting 30 s after 59 min 30 s): the first settles the entry, the second deletes it. -/
example : Gaps 30000000000 3570000000000 [(3600000000000, true), (3630000000000, false)] ∧
    runTicks ⟨0, []⟩ [] { firstObserved := 0 } [(3600000000000, true)] ≠ none ∧
    runTicks ⟨0, []⟩ [] { firstObserved := 0 } [(3600000000000, true), (3630000000000, false)] = none := by
  refine ⟨by simp [Gaps], by decide, by decide⟩

/-- The deadline of a freshly created entry under the 30-second ticker. -/
theorem fresh_entry_deadline (f : Int) (st : VState) (hf : st.firstObserved = f) (hs : st.settled = false)
    (hr : st.retryCount = 0) (hl : st.lastRetry = none) :
    deadline (Whv.Gen.Proc.cleanupTickNs : Int) st f = f + (3600 + 30 + 14401 * 330) * 1000000000 := by
  unfold deadline dueAt mu
  rw [hl, hs, hr, hf]
  simp only [Whv.Gen.Proc.cleanupTickNs, oneHour, retryTime, maxRetries]
  have e : (((if false = true then 0 else 1) + (14400 - 0) : Nat) : Int) = 14401 := by decide
  rw [e]
  simp only [Int.max_def]
  split <;> omega

end Whv.C14
