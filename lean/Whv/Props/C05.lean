import Whv.Lemmas.Vaa
/-!
# C05 — the VAA wire encoding round-trips exactly and the decoder is total

Model: `Whv.marshal` / `Whv.unmarshal` (`Whv/Model/Vaa.lean`), tied to `vaa.Unmarshal` / `(*VAA).Marshal`
in `/repo` by the correspondence run of `checks/c05.py` on every run.
`unmarshal : Bytes → Option Vaa` is a total Lean function: `none` is "`(nil, err)`"; a Go panic or a
partially filled result cannot be expressed in it, so that half of the statement is carried by the tie.
-/
namespace Whv.C05
open Whv

/-- Decoding the encoding of any VAA in the statement's domain yields that VAA, whatever the payload length. -/
theorem decode_encode (v : Vaa) (h : v.WF) : unmarshal (marshal v) = some v := by
  obtain ⟨hv, hg, hn, hs, hb, hp⟩ := h
  have hlen : ¬ (marshal v).length < minVAALength := by
    have hpl : 0 < v.body.payload.length := List.length_pos_iff.mpr hp
    simp only [marshal, List.length_append, be_length, sigsBytes_length _ hs, serializeBody_length _ hb, minVAALength]
    omega
  unfold unmarshal
  rw [if_neg hlen]
  unfold marshal
  rw [takeN_append_of_length (be_length 1 _)]
  have hv1 : unbe (be 1 v.version) = 1 := by rw [hv]; exact unbe_be1 (by omega)
  simp only [hv1, ne_eq, not_true_eq_false, if_false, takeN_append_of_length (be_length _ _)]
  rw [unbe_be1 (by omega : v.sigs.length < 256), readSigs_sigsBytes _ _ hs]
  simp only [readBody_serializeBody _ hb hp, unbe_be_of_lt hg]
  cases v
  simp_all

/-- Conversely, whatever the decoder accepts re-encodes to exactly the input bytes: nothing accepted is
truncated or altered — and what it returns is always a complete, in-range VAA. -/
theorem encode_decode (bs : Bytes) (v : Vaa) (h : unmarshal bs = some v) : marshal v = bs ∧ v.WF := by
  unfold unmarshal at h
  split at h; · cases h
  split at h; · cases h
  rename_i ver r0 e0
  split at h; · cases h
  rename_i hver
  split at h; · cases h
  rename_i gs r1 e1
  split at h; · cases h
  rename_i n r2 e2
  split at h; · cases h
  rename_i sigs r3 e3
  split at h; · cases h
  rename_i body e4
  cases h
  obtain ⟨a0, l0⟩ := takeN_some e0
  obtain ⟨a1, l1⟩ := takeN_some e1
  obtain ⟨a2, l2⟩ := takeN_some e2
  obtain ⟨a3, l3, w3⟩ := readSigs_some _ _ _ _ e3
  obtain ⟨a4, w4, p4⟩ := readBody_some _ _ e4
  have hver' : unbe ver = 1 := by simpa using hver
  have b0 := be_unbe ver; rw [l0, hver'] at b0
  have b1 := be_unbe gs; rw [l1] at b1
  have b2 := be_unbe n; rw [l2] at b2
  have hn : unbe n < 256 := by have := unbe_lt n; rw [l2] at this; simpa using this
  refine ⟨?_, rfl, ?_, ?_, w3, w4, p4⟩
  · simp only [marshal, b0, b1, l3, b2, a4]
    rw [a0, a1, a2, a3]
  · have := unbe_lt gs; rwa [l1] at this
  · simp only [l3]; omega

/-- Corollary: the signing body (hence the digest, a function of it — C04) survives the round trip. -/
theorem digest_preserved (v : Vaa) (h : v.WF) :
    (unmarshal (marshal v)).map (fun w => serializeBody w.body) = some (serializeBody v.body) := by
  rw [decode_encode v h]; rfl

/-- The decoder is injective on what it accepts: two accepted byte strings that decode to the same VAA are equal. -/
theorem unmarshal_injective (a b : Bytes) (v : Vaa) (ha : unmarshal a = some v) (hb : unmarshal b = some v) : a = b := by
  rw [← (encode_decode a v ha).1, ← (encode_decode b v hb).1]

/-- Everything below the length floor is rejected. -/
theorem short_rejected (bs : Bytes) (h : bs.length < 57) : unmarshal bs = none := by
  unfold unmarshal minVAALength; rw [if_pos h]

/-- An unsupported version byte is rejected whatever follows. -/
theorem bad_version_rejected (b : UInt8) (rest : Bytes) (h : b.toNat ≠ 1) : unmarshal (b :: rest) = none := by
  unfold unmarshal
  split; · rfl
  have : takeN 1 (b :: rest) = some ([b], rest) := by
    simp [takeN]
  rw [this]
  have hb : unbe [b] = b.toNat := by simp [unbe]
  simp [hb, h]

/-- **Decode histories.**  Decoding is a function of the bytes handed over and of nothing else: whatever run of strings was decoded
before (the list `earlier` — e.g. what the caller's read buffer held previously), the encoding of an in-domain VAA `v` decodes to `v`;
and two in-domain VAAs whose encodings have the same length (a reused buffer) but differ anywhere decode to different values. -/
theorem decode_sequence (earlier : List Bytes) (v : Vaa) (h : v.WF) :
    ((earlier ++ [marshal v]).map unmarshal).getLast? = some (some v) := by
  simp [decode_encode v h]

theorem reused_buffer_distinct (a b : Vaa) (ha : a.WF) (hb : b.WF) (hne : a ≠ b) :
    unmarshal (marshal a) = some a ∧ unmarshal (marshal b) = some b ∧ marshal a ≠ marshal b := by
  refine ⟨decode_encode a ha, decode_encode b hb, fun he => hne ?_⟩
  have := decode_encode a ha
  rw [he, decode_encode b hb] at this
  exact (Option.some.inj this).symm

/-- Non-vacuity: a concrete 1001-byte payload VAA with two signatures is in the domain and round-trips
(the length at which the unrepaired decoder truncated). -/
def sample : Vaa :=
  { version := 1, gsIndex := 7,
    sigs := [⟨0, List.replicate 65 3⟩, ⟨2, List.replicate 65 9⟩],
    body := { ts := 1700000000, nonce := 42, emitterChain := 255, targetChain := 2,
              emitter := List.replicate 32 1, sequence := 2 ^ 63, consistency := 255,
              payload := List.replicate 1001 7 } }

example : sample.WF := by decide
example : unmarshal (marshal sample) = some sample := decode_encode _ (by decide)
-- the same message with the next sequence number: same length, another value
private def small (seq : Nat) : Vaa :=
  { version := 1, gsIndex := 0, sigs := [⟨1, List.replicate 65 3⟩],
    body := { ts := 5, nonce := 1, emitterChain := 255, targetChain := 2, emitter := List.replicate 32 1, sequence := seq,
              consistency := 1, payload := [7, 8] } }
example : (small 41).WF ∧ (small 42).WF := by decide
example : small 41 ≠ small 42 := by simp [small]
example : (marshal (small 41)).length = (marshal (small 42)).length := by
  simp [marshal, small, sigsBytes, serializeBody, be_length]

end Whv.C05
