import Whv.Model.Crash
/-!
# C16 — acknowledged VAA writes survive a crash of the node (contract level; the property itself is checked by fault enumeration)

The theorems are about the crash-contract model `Whv/Model/Crash.lean` (durable log; put appends then acknowledges; a crash
loses only un-acknowledged newest entries; reopen replays), for EVERY sequence of put / ack / crash / reopen events:
acknowledged entries survive, lookups return only bytes that were stored under that key, and the acceptance function the
driver applies to the kill/reopen observations (`acceptKey`) accepts every behaviour of the model and means what the
statement says. That badger and the kernel implement this contract under SIGKILL is NOT proved: it is what
`checks/c16.py` enumerates faults for.
-/
namespace Whv.C16
open Whv Whv.Crash

/-- `Emb log atts`: the durable log is the attempt history with some un-acknowledged attempts removed (both newest first). -/
inductive Emb : List Entry → List Entry → Prop
  | nil : Emb [] []
  | keep (a : Entry) {l t : List Entry} : Emb l t → Emb (a :: l) (a :: t)
  | drop (a : Entry) {l t : List Entry} : a.acked = false → Emb l t → Emb l (a :: t)

private theorem emb_drop_head {a : Entry} {l t : List Entry} (h : Emb (a :: l) t) (ha : a.acked = false) : Emb l t := by
  generalize hl : a :: l = l' at h
  induction h with
  | nil => cases hl
  | keep b h' _ => cases hl; exact Emb.drop _ ha h'
  | drop b hb _ ih => exact Emb.drop _ hb (ih hl)

private theorem emb_cut (n : Nat) : ∀ {l t : List Entry}, Emb l t → Emb (cutUnacked n l) t := by
  induction n with
  | zero => intro l t h; simpa [cutUnacked] using h
  | succ n ih =>
    intro l t h
    cases l with
    | nil => simpa [cutUnacked] using h
    | cons e l =>
      by_cases he : e.acked = true
      · simpa [cutUnacked, he] using h
      · have he' : e.acked = false := by simpa using he
        simp only [cutUnacked, he', Bool.false_eq_true, if_false]
        exact ih (emb_drop_head h he')

private theorem emb_mem_acked {l t : List Entry} (h : Emb l t) : ∀ a ∈ t, a.acked = true → a ∈ l := by
  induction h with
  | nil => intro a ha; cases ha
  | keep b _ ih =>
    intro a ha hk
    rcases List.mem_cons.1 ha with rfl | ha
    · simp
    · exact List.mem_cons_of_mem _ (ih a ha hk)
  | drop b hb _ ih =>
    intro a ha hk
    rcases List.mem_cons.1 ha with rfl | ha
    · rw [hb] at hk; cases hk
    · exact ih a ha hk

private theorem emb_mem {l t : List Entry} (h : Emb l t) : ∀ a ∈ l, a ∈ t := by
  induction h with
  | nil => intro a ha; cases ha
  | keep b _ ih =>
    intro a ha
    rcases List.mem_cons.1 ha with rfl | ha
    · simp
    · exact List.mem_cons_of_mem _ (ih a ha)
  | drop b _ _ ih => intro a ha; exact List.mem_cons_of_mem _ (ih a ha)

/-- The invariant of the contract model. -/
def Inv (s : CS) : Prop :=
  Emb s.log s.atts ∧ (s.pending = true → ∃ e l t, s.log = e :: l ∧ s.atts = e :: t ∧ Emb l t)

private theorem inv_step (s : CS) (ev : Ev) (h : Inv s) : Inv (step s ev) := by
  obtain ⟨he, hp⟩ := h
  cases ev with
  | put k v =>
    by_cases hu : s.up = true
    · simp only [step, hu, if_true]
      exact ⟨Emb.keep _ he, fun _ => ⟨_, _, _, rfl, rfl, he⟩⟩
    · simp only [step, hu]; exact ⟨he, hp⟩
  | ack =>
    by_cases hu : (s.up && s.pending) = true
    · simp only [step, hu, if_true]
      have hpend : s.pending = true := by
        cases hpp : s.pending with
        | true => rfl
        | false => simp [hpp] at hu
      obtain ⟨e, l, t, hl, ht, hlt⟩ := hp hpend
      refine ⟨?_, fun hf => by cases hf⟩
      rw [hl, ht]
      exact Emb.keep _ hlt
    · simp only [step, hu]; exact ⟨he, hp⟩
  | crash cut =>
    by_cases hu : s.up = true
    · simp only [step, hu, if_true]
      exact ⟨emb_cut cut he, fun hf => by cases hf⟩
    · simp only [step, hu]; exact ⟨he, hp⟩
  | reopen => exact ⟨he, hp⟩

theorem inv_exec (s : CS) (evs : List Ev) (h : Inv s) : Inv (exec s evs) := by
  induction evs generalizing s with
  | nil => exact h
  | cons ev evs ih => exact ih _ (inv_step s ev h)

theorem inv_init : Inv {} := ⟨Emb.nil, fun h => by cases h⟩

/-- After ANY sequence of put / ack / crash / reopen events, every acknowledged put is still in the durable log. -/
theorem acked_survive (evs : List Ev) (a : Entry) (ha : a ∈ (exec {} evs).atts) (hk : a.acked = true) :
    a ∈ (exec {} evs).log :=
  emb_mem_acked (inv_exec _ evs inv_init).1 a ha hk

private theorem mem_ackHead {a : Entry} {l : List Entry} (h : a ∈ l) (hk : a.acked = true) : a ∈ ackHead l := by
  cases l with
  | nil => cases h
  | cons e l =>
    rcases List.mem_cons.1 h with rfl | h
    · have : ({ a with acked := true } : Entry) = a := by cases a; simp_all
      simp [ackHead, this]
    · exact List.mem_cons_of_mem _ h

private theorem acked_att_step (s : CS) (ev : Ev) (a : Entry) (ha : a ∈ s.atts) (hk : a.acked = true) : a ∈ (step s ev).atts := by
  cases ev with
  | put k v => by_cases hu : s.up = true <;> simp [step, hu, ha]
  | ack =>
    by_cases hu : (s.up && s.pending) = true
    · simp only [step, hu, if_true]; exact mem_ackHead ha hk
    · simp only [step, hu]; exact ha
  | crash cut => by_cases hu : s.up = true <;> simp [step, hu, ha]
  | reopen => exact ha

private theorem acked_att_exec (s : CS) (evs : List Ev) (a : Entry) (ha : a ∈ s.atts) (hk : a.acked = true) : a ∈ (exec s evs).atts := by
  induction evs generalizing s with
  | nil => exact ha
  | cons ev evs ih => exact ih _ (acked_att_step s ev a ha hk)

/-- Once acknowledged, always there: whatever happens later (more puts, any number of crashes and reopens), the entry stays durable. -/
theorem acked_survive_forever (pre post : List Ev) (a : Entry) (ha : a ∈ (exec {} pre).atts) (hk : a.acked = true) :
    a ∈ (exec {} (pre ++ post)).log := by
  apply acked_survive _ a _ hk
  have : exec {} (pre ++ post) = exec (exec {} pre) post := by simp [exec, List.foldl_append]
  rw [this]
  exact acked_att_exec _ post a ha hk

private theorem lookup_mem {l : List Entry} {k : Nat} {b : Bytes} (h : lookup l k = some b) : ∃ e ∈ l, e.key = k ∧ e.val = b := by
  induction l with
  | nil => cases h
  | cons e l ih =>
    by_cases hk : e.key = k
    · simp [lookup, hk] at h; exact ⟨e, by simp, hk, h⟩
    · simp [lookup, hk] at h
      obtain ⟨e', he', x⟩ := ih h
      exact ⟨e', List.mem_cons_of_mem _ he', x⟩

private theorem att_origin_step (s : CS) (ev : Ev) (a : Entry) (ha : a ∈ (step s ev).atts) :
    (∃ a' ∈ s.atts, a'.key = a.key ∧ a'.val = a.val) ∨ ev = .put a.key a.val := by
  cases ev with
  | put k v =>
    by_cases hu : s.up = true
    · simp only [step, hu, if_true] at ha
      rcases List.mem_cons.1 ha with rfl | ha
      · right; rfl
      · left; exact ⟨a, ha, rfl, rfl⟩
    · simp only [step, hu] at ha; left; exact ⟨a, ha, rfl, rfl⟩
  | ack =>
    left
    by_cases hu : (s.up && s.pending) = true
    · simp only [step, hu, if_true] at ha
      cases hs : s.atts with
      | nil => rw [hs] at ha; cases ha
      | cons e t =>
        rw [hs] at ha
        rcases List.mem_cons.1 ha with rfl | ha
        · exact ⟨e, by simp, rfl, rfl⟩
        · exact ⟨a, List.mem_cons_of_mem _ ha, rfl, rfl⟩
    · simp only [step, hu] at ha; exact ⟨a, ha, rfl, rfl⟩
  | crash cut =>
    left
    by_cases hu : s.up = true
    · simp only [step, hu, if_true] at ha; exact ⟨a, ha, rfl, rfl⟩
    · simp only [step, hu] at ha; exact ⟨a, ha, rfl, rfl⟩
  | reopen => left; exact ⟨a, ha, rfl, rfl⟩

private theorem att_origin_exec (evs : List Ev) : ∀ (s : CS) (a : Entry), a ∈ (exec s evs).atts →
    (∃ a' ∈ s.atts, a'.key = a.key ∧ a'.val = a.val) ∨ Ev.put a.key a.val ∈ evs := by
  induction evs with
  | nil => intro s a ha; left; exact ⟨a, ha, rfl, rfl⟩
  | cons ev evs ih =>
    intro s a ha
    rcases ih (step s ev) a ha with ⟨a', ha', hk, hv⟩ | h
    · rcases att_origin_step s ev a' ha' with ⟨a'', ha'', hk', hv'⟩ | h
      · left; exact ⟨a'', ha'', by rw [hk', hk], by rw [hv', hv]⟩
      · right; rw [← hk, ← hv, ← h]; simp
    · right; exact List.mem_cons_of_mem _ h

/-- A lookup after any event sequence returns only bytes that a put stored under that very key. -/
theorem lookup_exact (evs : List Ev) (k : Nat) (b : Bytes) (h : lookup (exec {} evs).log k = some b) : Ev.put k b ∈ evs := by
  obtain ⟨e, he, hk, hv⟩ := lookup_mem h
  have ha := emb_mem (inv_exec _ evs inv_init).1 e he
  rcases att_origin_exec evs {} e ha with ⟨a', ha', _⟩ | h
  · cases ha'
  · rw [← hk, ← hv]; exact h

private theorem accept_of_emb {l t : List Entry} (h : Emb l t) (k : Nat) : acceptKey t k (lookup l k) = true := by
  induction h with
  | nil => rfl
  | keep a _ ih =>
    by_cases hk : a.key = k
    · simp [acceptKey, lookup, hk]
    · simp [acceptKey, lookup, hk, ih]
  | drop a ha _ ih =>
    by_cases hk : a.key = k
    · simp only [acceptKey, hk, ne_eq, not_true_eq_false, if_false, ha]
      split
      · rfl
      · simpa using ih
    · simp [acceptKey, hk, ih]

/-- Every behaviour of the contract model is accepted by the judge the driver applies to real kill/reopen observations
(so a rejection means the implementation left the contract, not that the judge is too strict). -/
theorem accept_sound (evs : List Ev) (k : Nat) :
    acceptKey (exec {} evs).atts k (lookup (exec {} evs).log k) = true :=
  accept_of_emb (inv_exec _ evs inv_init).1 k

/-- What acceptance of "not found" means: no put under that key was ever acknowledged. -/
theorem accept_none_meaning (atts : List Entry) (k : Nat) (h : acceptKey atts k none = true) :
    ∀ a ∈ atts, a.key = k → a.acked = false := by
  induction atts with
  | nil => intro a ha; cases ha
  | cons e t ih =>
    intro a ha hk
    by_cases hek : e.key = k
    · simp only [acceptKey, hek, ne_eq, not_true_eq_false, if_false] at h
      have hacc : e.acked = false := by
        cases hx : e.acked with
        | false => rfl
        | true => simp [hx] at h
      rcases List.mem_cons.1 ha with rfl | ha
      · exact hacc
      · simp [hacc] at h; exact ih h a ha hk
    · simp only [acceptKey, hek, ne_eq, not_false_eq_true, if_true] at h
      rcases List.mem_cons.1 ha with rfl | ha
      · exact absurd hk hek
      · exact ih h a ha hk

/-- What acceptance of returned bytes means: they are the bytes of a put under that key, and no newer put under the key was acknowledged. -/
theorem accept_some_meaning (atts : List Entry) (k : Nat) (b : Bytes) (h : acceptKey atts k (some b) = true) :
    ∃ newer a older, atts = newer ++ a :: older ∧ a.key = k ∧ a.val = b ∧ ∀ x ∈ newer, x.key = k → x.acked = false := by
  induction atts with
  | nil => simp [acceptKey] at h
  | cons e t ih =>
    by_cases hek : e.key = k
    · by_cases hv : b = e.val
      · exact ⟨[], e, t, rfl, hek, hv.symm, by simp⟩
      · simp only [acceptKey, hek, ne_eq, not_true_eq_false, if_false, Option.some.injEq, hv] at h
        have hacc : e.acked = false := by
          cases hx : e.acked with
          | false => rfl
          | true => simp [hx] at h
        simp [hacc] at h
        obtain ⟨n, a, o, e1, e2, e3, e4⟩ := ih h
        refine ⟨e :: n, a, o, by rw [e1]; rfl, e2, e3, ?_⟩
        intro x hx hxk
        rcases List.mem_cons.1 hx with rfl | hx
        · exact hacc
        · exact e4 x hx hxk
    · simp only [acceptKey, hek, ne_eq, not_false_eq_true, if_true] at h
      obtain ⟨n, a, o, e1, e2, e3, e4⟩ := ih h
      refine ⟨e :: n, a, o, by rw [e1]; rfl, e2, e3, ?_⟩
      intro x hx hxk
      rcases List.mem_cons.1 hx with rfl | hx
      · exact absurd hxk hek
      · exact e4 x hx hxk

/-- If the newest put under a key was acknowledged, only its exact bytes are an acceptable answer ("returned intact"). -/
theorem accept_newest_acked (newer older : List Entry) (a : Entry) (r : Option Bytes) (hk : a.acked = true)
    (hn : ∀ x ∈ newer, x.key ≠ a.key) (h : acceptKey (newer ++ a :: older) a.key r = true) : r = some a.val := by
  induction newer with
  | nil =>
    simp only [List.nil_append, acceptKey, ne_eq, not_true_eq_false, if_false, hk, if_true] at h
    by_cases hr : r = some a.val
    · exact hr
    · simp [hr] at h
  | cons e t ih =>
    have he : e.key ≠ a.key := hn e (by simp)
    simp only [List.cons_append, acceptKey, ne_eq, he, not_false_eq_true, if_true] at h
    exact ih (fun x hx => hn x (List.mem_cons_of_mem _ hx)) h

/-- In the model: when the newest put under a key is acknowledged, every later lookup (across crashes and reopens that
follow without another put to that key) returns exactly its bytes. -/
theorem lookup_newest_acked (evs : List Ev) (newer older : List Entry) (a : Entry) (hs : (exec {} evs).atts = newer ++ a :: older)
    (hk : a.acked = true) (hn : ∀ x ∈ newer, x.key ≠ a.key) : lookup (exec {} evs).log a.key = some a.val := by
  have h := accept_sound evs a.key
  rw [hs] at h
  exact accept_newest_acked newer older a _ hk hn h

/-- The judge only looks at the attempts of the key in question (the driver keeps one attempt list per key). -/
theorem acceptKey_filter (atts : List Entry) (k : Nat) (r : Option Bytes) :
    acceptKey (atts.filter (·.key = k)) k r = acceptKey atts k r := by
  induction atts with
  | nil => rfl
  | cons e t ih =>
    by_cases hk : e.key = k
    · simp only [List.filter_cons, hk, decide_true, if_true, acceptKey, ne_eq, not_true_eq_false, if_false, ih]
    · simp only [List.filter_cons, hk, decide_false, Bool.false_eq_true, if_false, acceptKey, ne_eq, not_false_eq_true, if_true, ih]

/-! ## "the store always reopens" — whatever was stored

The contract never looks into a value: a stored VAA is a byte string (`StoreSignedVAA` writes what `Marshal` produced, also when the
decoder would reject it — an empty payload, a version other than 1).  Reopening therefore cannot depend on the contents. -/

/-- After ANY history a reopen brings the store up, with the durable log (hence every lookup) as the crash left it. -/
theorem reopen_always (evs : List Ev) :
    (exec {} (evs ++ [.reopen])).up = true ∧ (exec {} (evs ++ [.reopen])).log = (exec {} evs).log ∧
    ∀ k, lookup (exec {} (evs ++ [.reopen])).log k = lookup (exec {} evs).log k := by
  have h : exec {} (evs ++ [.reopen]) = step (exec {} evs) .reopen := by
    simp [exec, List.foldl_append]
  rw [h]
  exact ⟨rfl, rfl, fun _ => rfl⟩

/-- An acknowledged value of any shape — here the empty byte string, which no decoder accepts — survives kill and reopen like any other. -/
example : let evs := [Ev.put 7 [], .ack, .put 8 [1], .crash 3]
    (exec {} (evs ++ [.reopen])).up = true ∧ lookup (exec {} (evs ++ [.reopen])).log 7 = some [] := by decide
example : (exec {} ([Ev.put 7 [], .ack, .crash 1] ++ [.reopen])).up = true := (reopen_always _).1

/-! ## non-vacuity: a put is acknowledged, a second one to the same key is in flight when the node is killed -/

private def tr (cut : Nat) : List Ev := [.put 1 [10], .ack, .put 2 [20], .ack, .put 1 [11], .crash cut, .reopen]

example : lookup (exec {} (tr 5)).log 1 = some [10] := by decide     -- in-flight overwrite lost: the acknowledged bytes come back
example : lookup (exec {} (tr 0)).log 1 = some [11] := by decide     -- in-flight overwrite survived: also fine
example : lookup (exec {} (tr 5)).log 2 = some [20] := by decide     -- however much the crash wants to cut
example : (⟨2, [20], true⟩ : Entry) ∈ (exec {} (tr 5)).atts := by decide
example : acceptKey (exec {} (tr 5)).atts 1 none = false := by decide          -- losing the acknowledged put is rejected
example : acceptKey (exec {} (tr 5)).atts 2 (some [21]) = false := by decide   -- foreign bytes are rejected
example : acceptKey (exec {} (tr 5)).atts 3 none = true := by decide

end Whv.C16
