import Whv.Lemmas.AlphWatch
/-!
# C08 — Alephium messages reach the signer only when final and from the token bridge

Model: `Whv/Model/AlphWatch.lean` (`isEventConfirmed`, `process`, `handleConfirmed`, `handleUnconfirmed`,
`reobserve`), following watcher.go / reobserve.go / client.go with the repairs of `/verif/fixes/C08-*.diff`.
The node's answers (`Oracle`, `ReobsNode`, the token-metadata answers) are parameters: every theorem says
"at that moment the node said …", which is all a watcher can know.  All theorems hold for every pending
set, every oracle, every height / clock value and every sequence of operations.
-/
namespace Whv.C08
open Whv Whv.Alph

/-- The statement's finality conditions, in unbounded arithmetic: enough blocks on top, and for a mainnet
token transfer at least `max(cl, 205)` block intervals of wall-clock time since the block's timestamp. -/
def Final (mainnet : Bool) (m : Msg) (h : Header) (height now : Int) : Prop :=
  h.height + m.cl ≤ height ∧
  (mainnet = true → isTransfer m = true → h.ts + ((max m.cl 205 : Nat) : Int) * 16000 ≤ now)

/-- `isEventConfirmed` implies the statement's conditions (and the code's own floor `cl` block intervals for
every other message). -/
theorem confirmed_final {m : Msg} {h : Header} {now height : Int} {mainnet : Bool} (hr : InRange m.cl h)
    (hc : isEventConfirmed m h now height mainnet = true) :
    Final mainnet m h height now ∧ h.ts + (m.cl : Int) * 16000 ≤ now := by
  obtain ⟨h1, h2⟩ := (confirmed_iff hr).1 hc
  have hge := confDur_ge mainnet (isTransfer m) m.cl
  refine ⟨⟨h1, fun hm ht => ?_⟩, by omega⟩
  subst hm
  rw [ht, confDur_mainnet_transfer] at h2
  omega

example : isEventConfirmed ⟨[], 2, 0, 0, 3, [1]⟩ ⟨100, 1000⟩ (1000 + 205 * 16000) 103 true = true := by decide
example : isEventConfirmed ⟨[], 2, 0, 0, 3, [1]⟩ ⟨100, 1000⟩ (1000 + 205 * 16000 - 1) 103 true = false := by decide
example : InRange 3 ⟨100, 1000⟩ := by unfold InRange; decide

/-- `getConfirmationDuration`: a mainnet transfer waits `max(cl, 205)` block intervals. -/
theorem mainnet_transfer_duration (cl : Nat) : confDur true true cl = max cl 205 * 16000 ∧ 205 * 16000 ≤ confDur true true cl := by
  rw [confDur_mainnet_transfer]; omega

example : confDur true true 0 = 3280000 ∧ confDur true true 255 = 4080000 ∧ confDur false true 0 = 0 := by decide

/-! ## the polling path -/

/-- **Polling path.** Whatever one height tick hands to the signer was pending, has event index 0, names the token
bridge as sender, sits in a block the node called canonical *in this very call*, under the header used for it passed
`isEventConfirmed` with this call's height and clock. -/
theorem poll_forwarded (cfg : Cfg) (o : Oracle) (height now : Int) (s : WState) (c : Unconf × Header)
    (hc : c ∈ (stepHeight cfg o height now s).2) :
    ∃ pb ∈ s.pending, c.1 ∈ pb.evs ∧ headerOf o pb = some c.2 ∧ o.main pb.block = some true ∧
      c.1.ev.idx = 0 ∧ c.1.msg.sender = cfg.bridge ∧
      isEventConfirmed c.1.msg c.2 now height cfg.mainnet = true := by
  cases hp : process cfg o height now s.pending with
  | none => rw [stepHeight_none hp] at hc; simp at hc
  | some r =>
    obtain ⟨pend, conf⟩ := r
    rw [(stepHeight_some hp).2.1] at hc
    obtain ⟨hin, hidx, hsender⟩ := handleConfirmed_mem cfg conf c hc
    obtain ⟨u, h⟩ := c
    obtain ⟨pb, hpb, hu, hh, hm, hcf⟩ := (mem_conf_iff hp u h).1 hin
    exact ⟨pb, hpb, hu, hh, hm, hidx, hsender, hcf⟩

/-- The same, spelled out in the statement's arithmetic for realistic heights and timestamps, for the message
publication that reaches the signing pipeline. -/
theorem poll_forwarded_final (cfg : Cfg) (o : Oracle) (height now : Int) (s : WState) (p : Pub)
    (hp : p ∈ ((stepHeight cfg o height now s).2.map pubOf))
    (hr : ∀ pb ∈ s.pending, ∀ u ∈ pb.evs, ∀ h, headerOf o pb = some h → InRange u.msg.cl h) :
    ∃ pb ∈ s.pending, ∃ u ∈ pb.evs, ∃ h, headerOf o pb = some h ∧ p = toPub u.ev.tx u.msg h ∧
      o.main pb.block = some true ∧ u.ev.idx = 0 ∧ u.msg.sender = cfg.bridge ∧ p.emitter = cfg.bridge ∧
      Final cfg.mainnet u.msg h height now := by
  obtain ⟨c, hc, rfl⟩ := List.mem_map.1 hp
  obtain ⟨pb, hpb, hu, hh, hm, hidx, hs, hcf⟩ := poll_forwarded cfg o height now s c hc
  exact ⟨pb, hpb, c.1, hu, c.2, hh, rfl, hm, hidx, hs, hs, (confirmed_final (hr pb hpb c.1 hu c.2 hh) hcf).1⟩

/-- **Polling path, height source included.** With the real height poller in front of the event loop, whatever a tick
forwards satisfies the conjunction of `poll_forwarded` for the height the node reported *in this tick* — not for any
height it reported earlier. -/
theorem polled_forwarded (cfg : Cfg) (o : Oracle) (latest : Option Int) (now : Int) (s : WState) (c : Unconf × Header)
    (hc : c ∈ (stepPolled cfg o latest now s).2) :
    ∃ height, latest = some height ∧ ∃ pb ∈ s.pending, c.1 ∈ pb.evs ∧ headerOf o pb = some c.2 ∧ o.main pb.block = some true ∧
      c.1.ev.idx = 0 ∧ c.1.msg.sender = cfg.bridge ∧
      isEventConfirmed c.1.msg c.2 now height cfg.mainnet = true := by
  cases latest with
  | none => simp [stepPolled] at hc
  | some height => exact ⟨height, rfl, poll_forwarded cfg o height now s c hc⟩

private def exBridge : Bytes := [7]
private def exCfg : Cfg := { mainnet := true, bridge := exBridge, gov := "gov" }
private def exMsg : Msg := ⟨exBridge, 2, 5, 9, 1, [1, 0]⟩
private def exEv : Event := ⟨0, "b1", "t1", 0, "-", some exMsg⟩
private def exState : WState := { pending := [⟨"b1", none, [⟨exEv, exMsg⟩]⟩], enabled := true }
private def exOracle : Oracle := { main := fun _ => some true, hdr := fun _ => some ⟨100, 0⟩ }
example : (stepHeight exCfg exOracle 101 3280000 exState).2 = [(⟨exEv, exMsg⟩, ⟨100, 0⟩)] := by decide
example : (stepHeight exCfg exOracle 101 3279999 exState).2 = [] := by decide
example : (stepHeight exCfg exOracle 100 3280000 exState).2 = [] := by decide
-- the node reported 101 earlier and reports 100 now: nothing is forwarded on the strength of the earlier answer
example : (stepPolled exCfg exOracle (some 100) 3280000 (stepPolled exCfg exOracle (some 101) 0 exState).1).2 = [] := by decide
example : (stepPolled exCfg exOracle (some 101) 3280000 exState).2 = [(⟨exEv, exMsg⟩, ⟨100, 0⟩)] := by decide

/-- What the fetch loop lets through was served by the node, has event index 0, converts, and — for a token
attestation — carries exactly the metadata the token contract reported when asked. -/
theorem fetched_attest_valid (ans : Bytes → TiAns) (evs : List Event) (u : Unconf)
    (hu : u ∈ handleUnconfirmed ans evs) :
    u.ev ∈ evs ∧ u.ev.idx = 0 ∧ u.ev.conv = some u.msg ∧
      (isAttest u.msg = true → ∃ ti, parseAttest u.msg.payload = some ti ∧ getTokenInfo ans ti.tokenId = some ti) := by
  obtain ⟨e, he, hacc⟩ := List.mem_filterMap.1 hu
  obtain ⟨rfl, hidx, hconv, hval⟩ := acceptEv_some hacc
  refine ⟨he, hidx, hconv, fun ha => ?_⟩
  have hv := hval ha
  unfold validateAttest at hv
  split at hv
  · cases hv
  · rename_i ti hpa
    exact ⟨ti, hpa, by simpa using hv⟩

/-! ## token metadata that changes during the watcher's life

"… only if, *at that moment*, … the attested metadata equals what the token contract itself reports": the token contracts'
answers are an input of every page the fetch loop converts and of every re-observation request, and they may differ from one
call to the next.  Over any history of pages — each with the answers of its own time — what is let through is judged by the
answers of that page alone. -/

/-- what the fetch side lets through over a history of pages, each with the token contracts' answers at that time -/
def deliveredOver (hist : List ((Bytes → TiAns) × List Event)) : List (List Unconf) :=
  hist.map fun p => handleUnconfirmed p.1 p.2

/-- **Attestations are judged by the current answers.** Whatever the token contracts answered before and will answer later,
an attestation let through by the `i`-th page of a history equals what its token contract reports in that page's call. -/
theorem attest_judged_by_current_answers (hist : List ((Bytes → TiAns) × List Event)) (i : Nat) (ans : Bytes → TiAns)
    (evs : List Event) (hi : hist[i]? = some (ans, evs)) :
    (deliveredOver hist)[i]? = some (handleUnconfirmed ans evs) ∧
      ∀ u ∈ handleUnconfirmed ans evs, isAttest u.msg = true → validateAttest ans u.msg = true := by
  refine ⟨by simp [deliveredOver, List.getElem?_map, hi], fun u hu => ?_⟩
  obtain ⟨e, _, hacc⟩ := List.mem_filterMap.1 hu
  exact (acceptEv_some hacc).2.2.2

/-- An attestation of values the token contract does not report (any more) is not let through, however often the same
payload was let through before. -/
theorem stale_attest_dropped (ans : Bytes → TiAns) (evs : List Event) (u : Unconf)
    (ha : isAttest u.msg = true) (hv : validateAttest ans u.msg = false) : u ∉ handleUnconfirmed ans evs := by
  intro hu
  obtain ⟨e, _, hacc⟩ := List.mem_filterMap.1 hu
  have := (acceptEv_some hacc).2.2.2 ha
  rw [hv] at this
  cases this

private def mcTok : Bytes := List.replicate 31 0 ++ [9]
private def mcAttest (sym dec : UInt8) : Bytes :=
  [2] ++ mcTok ++ [0, 255, dec] ++ (List.replicate 31 0 ++ [sym]) ++ (List.replicate 31 0 ++ [66])
private def mcMsg (seq : Nat) (sym dec : UInt8) : Msg := ⟨[7], 0, 0, seq, 0, mcAttest sym dec⟩
private def mcTi (sym : UInt8) (dec : Nat) : Bytes → TiAns :=
  fun _ => .results [.ok [.bytes (some [sym])], .ok [.bytes (some [66])], .ok [.u256 (some dec)]]
private def mcEv (id : Nat) (tx : String) (m : Msg) : Event := ⟨id, "b", tx, 0, "gov", some m⟩
private def mcUnconf (id : Nat) (tx : String) (m : Msg) : Unconf := ⟨mcEv id tx m, m⟩

/-- **Remembering the first answer lets a stale attestation through and drops the current one** — the witness.  Token `…09`
reports symbol `A`, 8 decimals; the token bridge's attestation of that is let through.  Then the contract reports symbol `C`,
6 decimals.  The watcher that asks every time drops a new attestation of (`A`, 8) and lets the one of (`C`, 6) through; the
watcher that remembers its first look-up does the opposite. -/
theorem remembered_answers_go_stale :
    handleUnconfirmed (mcTi 65 8) [mcEv 0 "t0" (mcMsg 1 65 8)] = [mcUnconf 0 "t0" (mcMsg 1 65 8)] ∧
    handleUnconfirmed (mcTi 67 6) [mcEv 1 "t1" (mcMsg 2 65 8), mcEv 2 "t2" (mcMsg 3 67 6)] = [mcUnconf 2 "t2" (mcMsg 3 67 6)] ∧
    (handleUnconfirmedRemembering [] (mcTi 65 8) [mcEv 0 "t0" (mcMsg 1 65 8)]).1 = [mcUnconf 0 "t0" (mcMsg 1 65 8)] ∧
    (handleUnconfirmedRemembering (handleUnconfirmedRemembering [] (mcTi 65 8) [mcEv 0 "t0" (mcMsg 1 65 8)]).2 (mcTi 67 6)
        [mcEv 1 "t1" (mcMsg 2 65 8), mcEv 2 "t2" (mcMsg 3 67 6)]).1 = [mcUnconf 1 "t1" (mcMsg 2 65 8)] ∧
    validateAttest (mcTi 67 6) (mcMsg 2 65 8) = false ∧ validateAttest (mcTi 67 6) (mcMsg 3 67 6) = true := by
  decide

-- a two-page history in which the contract's answers change: hypotheses of the theorems above on the witness
example : [(mcTi 65 8, [mcEv 0 "t0" (mcMsg 1 65 8)]), (mcTi 67 6, [mcEv 1 "t1" (mcMsg 2 65 8), mcEv 2 "t2" (mcMsg 3 67 6)])][1]?
    = some (mcTi 67 6, [mcEv 1 "t1" (mcMsg 2 65 8), mcEv 2 "t2" (mcMsg 3 67 6)]) := rfl
example : isAttest (mcMsg 2 65 8) = true ∧ validateAttest (mcTi 67 6) (mcMsg 2 65 8) = false := by decide

/-- Events of an orphaned block: once confirmed they are neither handed on nor kept. -/
theorem orphan_dropped {cfg : Cfg} {o : Oracle} {height now : Int} {pending pend : List PBlock}
    {conf : List (Unconf × Header)} (hp : process cfg o height now pending = some (pend, conf))
    (hnd : (pendIds pending).Nodup)
    {pb : PBlock} (hpb : pb ∈ pending) (hm : o.main pb.block = some false)
    {u : Unconf} (hu : u ∈ pb.evs) {h : Header} (hh : headerOf o pb = some h)
    (hcf : confirmedIn cfg h height now u = true) :
    u.ev.id ∉ confIds conf ∧ u.ev.id ∉ pendIds pend := by
  have hpart := process_partition hp u.ev.id
  have hle : (pendIds pending).count u.ev.id ≤ 1 := List.nodup_iff_count.1 hnd _
  have hdrop : 0 < (pending.flatMap (dropIds cfg o height now)).count u.ev.id := by
    apply List.count_pos_iff.2
    refine List.mem_flatMap.2 ⟨pb, hpb, ?_⟩
    simp only [dropIds, hm, hh, evIds]
    exact List.mem_map.2 ⟨u, List.mem_filter.2 ⟨hu, hcf⟩, rfl⟩
  constructor
  · intro hin; have := List.count_pos_iff.2 hin; omega
  · intro hin; have := List.count_pos_iff.2 hin; omega

private def exOrphan : Oracle := { main := fun _ => some false, hdr := fun _ => some ⟨100, 0⟩ }
example : process exCfg exOrphan 101 3280000 exState.pending = some ([], []) := by decide

/-! ### at most once, over every sequence of operations -/

/-- what happens to the `handleEvents` loop: a batch of fetched events arrives, or a height tick -/
inductive Op where
  | batch (us : List Unconf)
  | height (o : Oracle) (height now : Int)

def stepOp (cfg : Cfg) (s : WState) : Op → WState × List (Unconf × Header)
  | .batch us => if s.alive then (stepBatch s us, []) else (s, [])
  | .height o height now => if s.alive then stepHeight cfg o height now s else (s, [])

/-- run a sequence of operations, collecting everything handed to the signer -/
def run (cfg : Cfg) : WState → List Op → WState × List (Unconf × Header)
  | s, [] => (s, [])
  | s, op :: rest =>
    let r := stepOp cfg s op
    let r' := run cfg r.1 rest
    (r'.1, r.2 ++ r'.2)

def delivered : List Op → List Nat
  | [] => []
  | .batch us :: rest => evIds us ++ delivered rest
  | .height _ _ _ :: rest => delivered rest

private theorem stepHeight_count (cfg : Cfg) (o : Oracle) (height now : Int) (s : WState) (x : Nat) :
    (pendIds (stepHeight cfg o height now s).1.pending).count x + (confIds (stepHeight cfg o height now s).2).count x
      ≤ (pendIds s.pending).count x := by
  cases hp : process cfg o height now s.pending with
  | none => rw [stepHeight_none hp]; simp [confIds]
  | some r =>
    obtain ⟨pend, conf⟩ := r
    obtain ⟨h1, h2, _⟩ := stepHeight_some hp
    rw [h1, h2]
    have hc := process_count hp x
    have hs := (handleConfirmed_sublist cfg conf).map (fun c => c.1.ev.id)
    have := hs.count_le x
    simp only [confIds] at hc ⊢
    omega

private def opIds : Op → List Nat
  | .batch us => evIds us
  | .height _ _ _ => []

private theorem delivered_cons (op : Op) (rest : List Op) : delivered (op :: rest) = opIds op ++ delivered rest := by
  cases op <;> simp [delivered, opIds]

private theorem stepOp_count (cfg : Cfg) (s : WState) (op : Op) (x : Nat) :
    (pendIds (stepOp cfg s op).1.pending).count x + (confIds (stepOp cfg s op).2).count x
      ≤ (pendIds s.pending).count x + (opIds op).count x := by
  cases op with
  | batch us =>
    cases ha : s.alive
    · simp [stepOp, ha, confIds, opIds]
    · simp [stepOp, ha, confIds, opIds, stepBatch, addBatch_count]
  | height o height now =>
    cases ha : s.alive
    · simp [stepOp, ha, confIds, opIds]
    · have := stepHeight_count cfg o height now s x
      simpa [stepOp, ha, opIds] using this

private theorem run_count (cfg : Cfg) (ops : List Op) (s : WState) (x : Nat) :
    (pendIds (run cfg s ops).1.pending).count x + (confIds (run cfg s ops).2).count x
      ≤ (pendIds s.pending).count x + (delivered ops).count x := by
  induction ops generalizing s with
  | nil => simp [run, delivered, confIds]
  | cons op rest ih =>
    have ihr := ih (stepOp cfg s op).1
    have hs := stepOp_count cfg s op x
    simp only [run, confIds_append, List.count_append, delivered_cons]
    omega

/-- **At most once.** Over any sequence of batches and height ticks (any oracles, reorgs, stalls), starting from
an empty watcher, no fetched event is handed to the signer twice. -/
theorem at_most_once (cfg : Cfg) (ops : List Op) (hnd : (delivered ops).Nodup) :
    (confIds (run cfg {} ops).2).Nodup := by
  apply List.nodup_iff_count.2
  intro x
  have h := run_count cfg ops {} x
  have hd : (delivered ops).count x ≤ 1 := List.nodup_iff_count.1 hnd x
  simp only [pendIds_nil, List.count_nil] at h
  omega

example : (confIds (run exCfg {} [.batch [⟨exEv, exMsg⟩], .height exOracle 101 3280000, .height exOracle 102 3280001]).2) = [0] := by decide

/-! ### at most once, across restarts of `Run` on the same `Watcher` value

The supervisor starts `Run` again after every error that reaches `errC` (and whenever it restarts a healthy group).  The loops
of the new incarnation share the `Watcher` value with the old one; `restartW` says what they inherit: nothing but the poller
flag.  The history of a watcher is then a sequence of batches, height ticks and restarts. -/

inductive LifeOp where
  | op (o : Op)
  | restart (count0 : Option Int)

def stepLife (cfg : Cfg) (s : WState) : LifeOp → WState × List (Unconf × Header)
  | .op o => stepOp cfg s o
  | .restart count0 => (restartW s count0, [])

/-- run a history with restarts, collecting everything handed to the signer by all incarnations -/
def runLife (cfg : Cfg) : WState → List LifeOp → WState × List (Unconf × Header)
  | s, [] => (s, [])
  | s, op :: rest =>
    let r := stepLife cfg s op
    let r' := runLife cfg r.1 rest
    (r'.1, r.2 ++ r'.2)

/-- ids of the events fetched and delivered to the event loop, over all incarnations -/
def deliveredLife : List LifeOp → List Nat
  | [] => []
  | .op o :: rest => delivered [o] ++ deliveredLife rest
  | .restart _ :: rest => deliveredLife rest

private theorem restartW_pending (s : WState) (c : Option Int) : (restartW s c).pending = [] := by
  cases c <;> rfl

private theorem stepLife_count (cfg : Cfg) (s : WState) (op : LifeOp) (x : Nat) :
    (pendIds (stepLife cfg s op).1.pending).count x + (confIds (stepLife cfg s op).2).count x
      ≤ (pendIds s.pending).count x + (deliveredLife [op]).count x := by
  cases op with
  | op o =>
    have := stepOp_count cfg s o x
    simpa [stepLife, deliveredLife, delivered_cons, delivered] using this
  | restart c => simp [stepLife, restartW_pending, confIds, deliveredLife]

private theorem deliveredLife_cons (op : LifeOp) (rest : List LifeOp) :
    deliveredLife (op :: rest) = deliveredLife [op] ++ deliveredLife rest := by
  cases op <;> simp [deliveredLife]

private theorem runLife_count (cfg : Cfg) (ops : List LifeOp) (s : WState) (x : Nat) :
    (pendIds (runLife cfg s ops).1.pending).count x + (confIds (runLife cfg s ops).2).count x
      ≤ (pendIds s.pending).count x + (deliveredLife ops).count x := by
  induction ops generalizing s with
  | nil => simp [runLife, deliveredLife, confIds]
  | cons op rest ih =>
    have ihr := ih (stepLife cfg s op).1
    have hs := stepLife_count cfg s op x
    rw [deliveredLife_cons]
    simp only [runLife, confIds_append, List.count_append]
    omega

/-- **At most once, restarts included.** Over any history of batches, height ticks and restarts of `Run` on the same
`Watcher` value (after an API error at any call, or a cancellation), no fetched event is handed to the signer twice — by the
same incarnation or by two different ones — provided no event is *fetched* twice (`restart_fetches_fresh` in C09: a new
incarnation starts at the count it polls, above everything its predecessors fetched). -/
theorem at_most_once_restarts (cfg : Cfg) (ops : List LifeOp) (hnd : (deliveredLife ops).Nodup) :
    (confIds (runLife cfg {} ops).2).Nodup := by
  apply List.nodup_iff_count.2
  intro x
  have h := runLife_count cfg ops {} x
  have hd : (deliveredLife ops).count x ≤ 1 := List.nodup_iff_count.1 hnd x
  simp only [pendIds_nil, List.count_nil] at h
  omega

/-- A restart forgets the pending events and every fetch index: the new incarnation starts at the polled count. -/
theorem restart_state (s : WState) (c : Int) :
    (restartW s (some c)).pending = [] ∧ (restartW s (some c)).fromIndex = c ∧ (restartW s (some c)).alive = true ∧
      (restartW s (some c)).enabled = s.enabled := ⟨rfl, rfl, rfl, rfl⟩

example : (confIds (runLife exCfg {} [.op (.batch [⟨exEv, exMsg⟩]), .op (.height exOracle 101 3280000), .restart (some 1),
    .op (.height exOracle 102 3280001)]).2) = [0] := by decide
-- the hypothesis is needed: an incarnation that fetched the same log position again would forward it again
example : (confIds (runLife exCfg {} [.op (.batch [⟨exEv, exMsg⟩]), .op (.height exOracle 101 3280000), .restart (some 1),
    .op (.batch [⟨exEv, exMsg⟩]), .op (.height exOracle 102 3280001)]).2) = [0, 0] := by decide

/-! ## the re-observation path -/

private theorem govEvents_mem {cfg : Cfg} {node : ReobsNode} {bh : Hash} {evs : List Event}
    {cands : List (Unconf × Header)} (hg : govEvents cfg node bh evs = some cands) (c : Unconf × Header) (hc : c ∈ cands) :
    c.1.ev ∈ evs ∧ c.1.ev.idx = 0 ∧ c.1.ev.contract = cfg.gov ∧ c.1.ev.block = bh ∧ node.hdr bh = some c.2 ∧
      c.1.ev.conv = some c.1.msg ∧ (isAttest c.1.msg = true → validateAttest node.ti c.1.msg = true) := by
  induction evs generalizing cands with
  | nil => simp only [govEvents, Option.some.injEq] at hg; subst hg; simp at hc
  | cons e rest ih =>
    simp only [govEvents] at hg
    split at hg
    · have := ih hg hc; exact ⟨by simp [this.1], this.2⟩
    · rename_i hidx
      split at hg
      · have := ih hg hc; exact ⟨by simp [this.1], this.2⟩
      · rename_i horigin
        split at hg
        · cases hg
        · rename_i h hh
          split at hg
          · cases hg
          · rename_i m hm
            split at hg
            · have := ih hg hc; exact ⟨by simp [this.1], this.2⟩
            · rename_i hatt
              cases hr : govEvents cfg node bh rest with
              | none => simp [hr] at hg
              | some l =>
                simp only [hr, Option.map_some, Option.some.injEq] at hg
                subst hg
                rcases List.mem_cons.1 hc with rfl | hin
                · have hidx0 : e.idx = 0 := by
                    rcases Decidable.em (e.idx = 0) with h0 | h0
                    · exact h0
                    · exact absurd h0 hidx
                  have ho : e.contract = cfg.gov ∧ e.block = bh := by
                    rcases Decidable.em (e.contract = cfg.gov) with h1 | h1
                    · rcases Decidable.em (e.block = bh) with h2 | h2
                      · exact ⟨h1, h2⟩
                      · exact absurd (Or.inr h2) horigin
                    · exact absurd (Or.inl h1) horigin
                  refine ⟨by simp, hidx0, ho.1, ho.2, by rw [← ho.2]; exact hh, hm, fun ha => ?_⟩
                  simp only [Bool.and_eq_true, Bool.not_eq_true', not_and, Bool.not_eq_false] at hatt
                  exact hatt ha
                · have := ih hr hin; exact ⟨by simp [this.1], this.2⟩

/-- **Re-observation path.** A message handed to the signer by a re-observation request comes from an event of
the requested transaction with event index 0, *emitted by the configured governance contract*, contained in the
block the node reports the transaction confirmed in, which the node called canonical in this very call; its sender
is the token bridge; it passed `isEventConfirmed` (height and wall-clock floor) against the height answered in this
call; an attestation carries the metadata the token contract reported. -/
theorem reobserve_forwarded (cfg : Cfg) (node : ReobsNode) (now : Int) (chain hashLen : Nat) (tx : Hash) (p : Pub)
    (hp : p ∈ reobserve cfg node now chain hashLen tx) :
    ∃ bh evs e m h height, chain = ChainIdAlephium ∧ hashLen = 32 ∧
      node.status = some (.confirmed bh) ∧ node.txEvents = some evs ∧ e ∈ evs ∧
      e.idx = 0 ∧ e.contract = cfg.gov ∧ e.block = bh ∧ node.main bh = some true ∧ node.hdr bh = some h ∧
      e.conv = some m ∧ m.sender = cfg.bridge ∧ node.height = some height ∧
      isEventConfirmed m h now height cfg.mainnet = true ∧
      (isAttest m = true → validateAttest node.ti m = true) ∧ p = toPub tx m h := by
  unfold reobserve at hp
  split at hp; · simp at hp
  rename_i hchain
  split at hp; · simp at hp
  rename_i hlen
  split at hp
  · simp at hp
  · simp at hp
  · rename_i bh hst
    split at hp
    · simp at hp
    · rename_i evs hev
      split at hp
      · simp at hp
      · rename_i cands hg
        split at hp
        · simp at hp
        · simp at hp
        · rename_i hmain
          split at hp
          · simp at hp
          · rename_i height hheight
            obtain ⟨c, hc, rfl⟩ := List.mem_map.1 hp
            obtain ⟨hc1, hsender⟩ := List.mem_filter.1 hc
            obtain ⟨hc2, hconf⟩ := List.mem_filter.1 hc1
            obtain ⟨hin, hidx, hgov, hblock, hhdr, hconv, hatt⟩ := govEvents_mem hg c hc2
            refine ⟨bh, evs, c.1.ev, c.1.msg, c.2, height, ?_, ?_, hst, hev, hin, hidx, hgov, hblock, hmain, hhdr, hconv,
              by simpa using hsender, hheight, hconf, hatt, rfl⟩
            · rcases Decidable.em (chain = ChainIdAlephium) with h | h
              · exact h
              · exact absurd h hchain
            · rcases Decidable.em (hashLen = 32) with h | h
              · exact h
              · exact absurd h hlen

/-- … and therefore the statement's finality conditions hold on the re-observation path as well. -/
theorem reobserve_final (cfg : Cfg) (node : ReobsNode) (now : Int) (chain hashLen : Nat) (tx : Hash) (p : Pub)
    (hp : p ∈ reobserve cfg node now chain hashLen tx)
    (hr : ∀ bh h, node.hdr bh = some h → ∀ cl, cl ≤ 255 → InRange cl h) (hcl : ∀ evs, node.txEvents = some evs → ∀ e ∈ evs, ∀ m, e.conv = some m → m.cl ≤ 255) :
    ∃ bh h height m, node.main bh = some true ∧ node.hdr bh = some h ∧ node.height = some height ∧
      p = toPub tx m h ∧ p.emitter = cfg.bridge ∧ Final cfg.mainnet m h height now := by
  obtain ⟨bh, evs, e, m, h, height, _, _, _, hev, hin, _, _, _, hmain, hhdr, hconv, hs, hheight, hcf, _, rfl⟩ :=
    reobserve_forwarded cfg node now chain hashLen tx p hp
  exact ⟨bh, h, height, m, hmain, hhdr, hheight, rfl, hs, (confirmed_final (hr bh h hhdr m.cl (hcl evs hev e hin m hconv)) hcf).1⟩

private def exNode (contract : String) (ts : Int) : ReobsNode :=
  { status := some (.confirmed "b1"), txEvents := some [{ exEv with contract := contract }],
    hdr := fun _ => some ⟨100, ts⟩, main := fun _ => some true, height := some 101, ti := fun _ => .apiErr }
example : reobserve exCfg (exNode "gov" 0) 3280000 255 32 "t1" = [toPub "t1" exMsg ⟨100, 0⟩] := by decide
-- a look-alike event of another contract in the same transaction, or a block seconds old, is not forwarded:
example : reobserve exCfg (exNode "other" 0) 3280000 255 32 "t1" = [] := by decide
example : reobserve exCfg (exNode "gov" 3000000) 3280000 255 32 "t1" = [] := by decide

/-- The same on the re-observation path: a request hands an attestation to the signer only if it equals what the token
contract reports in this very request (`node.ti`), whatever earlier requests or pages were answered. -/
theorem reobserve_attest_current (cfg : Cfg) (node : ReobsNode) (now : Int) (chain hashLen : Nat) (tx : Hash) (p : Pub)
    (hp : p ∈ reobserve cfg node now chain hashLen tx) :
    ∃ m h, p = toPub tx m h ∧ (isAttest m = true → validateAttest node.ti m = true) := by
  obtain ⟨_, _, _, m, h, _, _, _, _, _, _, _, _, _, _, _, _, _, _, _, hatt, rfl⟩ :=
    reobserve_forwarded cfg node now chain hashLen tx p hp
  exact ⟨m, h, rfl, hatt⟩

private def mcNode (ti : Bytes → TiAns) : ReobsNode :=
  { status := some (.confirmed "b"), txEvents := some [mcEv 0 "t0" (mcMsg 1 65 8)],
    hdr := fun _ => some ⟨100, 0⟩, main := fun _ => some true, height := some 101, ti := ti }
example : reobserve ⟨false, [7], "gov"⟩ (mcNode (mcTi 65 8)) 0 255 32 "t0" = [toPub "t0" (mcMsg 1 65 8) ⟨100, 0⟩] := by decide
-- the same transaction re-observed after the contract has begun to report something else: nothing is handed over
example : reobserve ⟨false, [7], "gov"⟩ (mcNode (mcTi 67 6)) 0 255 32 "t0" = [] := by decide

/-! ## the constructor: the floor in force on a real node -/

/-- **The floor does not come from the configuration.** A watcher built by `NewAlephiumWatcher` takes the two contract
ids and the group index from `configs/alephium/<network>.json` and nothing else; started with the mainnet flag it holds
every token transfer for `max(cl, 205)` block intervals, whatever else the file says. -/
theorem constructed_floor (toAddr : Bytes → String) (cc : ChainCfg) (b : Built)
    (h : newWatcher toAddr cc true = some b) (cl : Nat) :
    confDur b.cfg.mainnet true cl = max cl 205 * 16000 ∧ cc.tokenBridge = some b.cfg.bridge ∧
      (∃ g, cc.governance = some g ∧ b.cfg.gov = toAddr g) ∧ b.group = cc.groupIndex := by
  unfold newWatcher at h
  split at h
  · rename_i g br hg hb
    cases h
    exact ⟨confDur_mainnet_transfer cl, hb, ⟨g, hg, rfl⟩, rfl⟩
  · cases h

/-- … in particular the file's `minimalConsistencyLevel` (the minimum the token-bridge *contract* accepts: 105 in the
shipped mainnet file, 10 in the other two) has no influence on the watcher that is built. -/
theorem constructed_ignores_minimal (toAddr : Bytes → String) (cc : ChainCfg) (k : Nat) (mainnet : Bool) :
    newWatcher toAddr { cc with minimalConsistencyLevel := k } mainnet = newWatcher toAddr cc mainnet := rfl

/-- A transfer confirmed by a watcher that the constructor built for mainnet is at least `max(cl, 205)` block intervals old. -/
theorem constructed_confirmed_final (toAddr : Bytes → String) (cc : ChainCfg) (b : Built)
    (h : newWatcher toAddr cc true = some b) {m : Msg} {hd : Header} {now height : Int} (hr : InRange m.cl hd)
    (ht : isTransfer m = true) (hc : isEventConfirmed m hd now height b.cfg.mainnet = true) :
    hd.height + m.cl ≤ height ∧ hd.ts + ((max m.cl 205 : Nat) : Int) * 16000 ≤ now := by
  have hm : b.cfg.mainnet = true := by
    unfold newWatcher at h
    split at h
    · cases h; rfl
    · cases h
  obtain ⟨⟨h1, h2⟩, _⟩ := confirmed_final hr hc
  exact ⟨h1, h2 hm ht⟩

private def exMainnetFile : ChainCfg :=
  { groupIndex := 0, governance := some (List.replicate 32 1), tokenBridge := some (List.replicate 32 2), minimalConsistencyLevel := 105 }
example : (newWatcher (fun _ => "gov") exMainnetFile true).map (fun b => (b.cfg.mainnet, b.group, confDur b.cfg.mainnet true 10)) = some (true, 0, 3280000) := by decide
example : (newWatcher (fun _ => "gov") { exMainnetFile with tokenBridge := none } true).isNone = true := by decide

/-! ## one event, one message: the two paths publish the same thing -/

/-- What the polling path publishes for a forwarded entry is the message of that entry under the header of its block —
field by field; the consistency level is the event's, not the level the finality rule applied. -/
theorem poll_publication_exact (cfg : Cfg) (o : Oracle) (height now : Int) (s : WState) (c : Unconf × Header)
    (hc : c ∈ (stepHeight cfg o height now s).2) :
    (∃ pb ∈ s.pending, c.1 ∈ pb.evs ∧ headerOf o pb = some c.2) ∧
      pubOf c = { tx := c.1.ev.tx, ts := c.2.ts, nonce := c.1.msg.nonce, seq := c.1.msg.seq, cl := c.1.msg.cl, emitterChain := 255,
                  targetChain := c.1.msg.targetChain, emitter := c.1.msg.sender, payload := c.1.msg.payload } := by
  obtain ⟨pb, hpb, hu, hh, _⟩ := poll_forwarded cfg o height now s c hc
  exact ⟨⟨pb, hpb, hu, hh⟩, rfl⟩

/-- **Both paths hand over the same message for one event.** Whatever a re-observation request publishes is `toPub` of
an event of the transaction under the header the node reports for its block; if that event is the one the polling path
forwarded (the same log entry, converted to the same message, the same header answer) the two publications are equal in
every field — timestamp and consistency level included — so every guardian signs the same body for it, whichever way
the event reached it and whatever network flag it runs with. -/
theorem paths_publish_same (cfg cfg' : Cfg) (o : Oracle) (height now : Int) (s : WState) (c : Unconf × Header)
    (hc : c ∈ (stepHeight cfg o height now s).2) (hwf : c.1.ev.conv = some c.1.msg)
    (node : ReobsNode) (now' : Int) (chain hashLen : Nat) (p : Pub)
    (hp : p ∈ reobserve cfg' node now' chain hashLen c.1.ev.tx) :
    (∃ pb ∈ s.pending, c.1 ∈ pb.evs ∧ headerOf o pb = some c.2) ∧
    ∃ evs e m h, node.txEvents = some evs ∧ e ∈ evs ∧ node.hdr e.block = some h ∧ e.conv = some m ∧ p = toPub c.1.ev.tx m h ∧
      (e = c.1.ev → h = c.2 → p = pubOf c) := by
  obtain ⟨bh, evs, e, m, h, _, _, _, _, hev, hin, _, _, hblock, _, hhdr, hconv, _, _, _, _, rfl⟩ :=
    reobserve_forwarded cfg' node now' chain hashLen c.1.ev.tx p hp
  refine ⟨(poll_publication_exact cfg o height now s c hc).1, evs, e, m, h, hev, hin, by rw [hblock]; exact hhdr, hconv, rfl, fun he hh => ?_⟩
  subst he hh
  rw [hwf] at hconv
  cases hconv
  rfl

example : reobserve { exCfg with mainnet := false } (exNode "gov" 0) 3280000 255 32 "t1"
    = (stepHeight exCfg exOracle 101 3280000 exState).2.map pubOf := by decide

/-- **Every message of a batch is published under its own block's header**, in whatever order the pending map hands the
batch over and whatever foreign-sender events stand in between: the publications are those of a sublist of the batch,
each entry keeping its own header. -/
theorem confirmed_own_header (cfg : Cfg) (conf : List (Unconf × Header)) :
    (handleConfirmed cfg conf).1.Sublist conf ∧
      ∀ p ∈ (handleConfirmed cfg conf).1.map pubOf, ∃ c ∈ conf, p = toPub c.1.ev.tx c.1.msg c.2 ∧ p.ts = c.2.ts ∧ p.seq = c.1.msg.seq := by
  refine ⟨handleConfirmed_sublist cfg conf, fun p hp => ?_⟩
  obtain ⟨c, hc, rfl⟩ := List.mem_map.1 hp
  exact ⟨c, (handleConfirmed_mem cfg conf c hc).1, rfl, rfl, rfl⟩

/-- … and the set of publications does not depend on that order. -/
theorem confirmed_order_independent (cfg : Cfg) (conf conf' : List (Unconf × Header)) (hperm : conf.Perm conf')
    (h0 : ∀ c ∈ conf, c.1.ev.idx = 0) :
    ((handleConfirmed cfg conf).1.map pubOf).Perm ((handleConfirmed cfg conf').1.map pubOf) := by
  have h0' : ∀ c ∈ conf', c.1.ev.idx = 0 := fun c hc => h0 c (hperm.mem_iff.2 hc)
  rw [handleConfirmed_of_idx0 cfg conf h0, handleConfirmed_of_idx0 cfg conf' h0']
  exact (hperm.filter _).map _

private def exMsg2 : Msg := ⟨exBridge, 2, 6, 8, 1, [1, 0]⟩
private def exEv2 : Event := ⟨1, "b2", "t2", 0, "-", some exMsg2⟩
-- sequence 9 in the block with timestamp 0 arrives ahead of sequence 8 in the block with timestamp 16000, a foreign sender in between
example : (handleConfirmed exCfg [(⟨exEv, exMsg⟩, ⟨100, 0⟩), (⟨exEv, { exMsg with sender := [8] }⟩, ⟨100, 5⟩), (⟨exEv2, exMsg2⟩, ⟨101, 16000⟩)]).1.map pubOf
    = [toPub "t1" exMsg ⟨100, 0⟩, toPub "t2" exMsg2 ⟨101, 16000⟩] := by decide

end Whv.C08
