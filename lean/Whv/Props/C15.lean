import Whv.Lemmas.Gov
/-!
# C15 — governance requests become exactly the VAA the contracts parse, or are rejected

* Go side: `Whv.Gov` (`Whv/Model/Gov.lean`): the nine request → payload conversions of `adminserver.go` with their
  validation, the serializers of `payloads.go`, `CreateGovernanceVAA`, the loop and dispatch of `InjectGovernanceVAA`
  — as REPAIRED by `/verif/fixes/C15-governance-range-checks.diff`; tied to the real code by the differential run of
  `checks/c15.py` on every run.
* Contract side: `Whv.Gov.Ral`: the Ralph governance parsers, whose slice bounds, action bytes, module constants and
  `size!(payload)` equations are the constants of `Whv.Gen.C15`, re-extracted from the `.ral` sources on every run.
  If a contract offset moves, `Gen.C15` changes and the theorems below stop checking.

Per kind `k`: `c15_k_layout` (accepted ⇒ payload = module(32) ‖ action ‖ fields, each field at the slice the parser reads,
total length = the parser's size equation) and `c15_k_lossless` (accepted ⇒ the parser recovers every requested value:
nothing truncated, nothing wrapped).  Then: `c15_spec_sound` (the executable Spec the driver evaluates on the
implementation's payloads holds of every accepted request), `c15_no_panic`, `c15_pure` / `c15_same_digest`,
`c15_accept_or_reject`, `c15_injected_good`.

Failing-input search for contract-side changes: `specOkF` is the Spec with the parser facts as DATA (`Whv.Gov.Facts`, parsers
`Whv.Gov.RalF`); the driver evaluates it with the facts extracted from the CURRENT sources on the payloads the real node
emitted.  `c15_conversions_fit`, `c15_gen_is_node_layout`, `c15_specF_gen` (`specOkF Facts.gen = specOk`), `c15_search_sound`
(cannot fire on the unchanged tree), `c15_search_fires` (fires against the facts of the seeded contract changes).
-/
namespace Whv.C15
open Whv Whv.Gov

private theorem header_slices (m rest : Bytes) (act : Nat) (hm : m.length = 32) :
    Ral.slice (m ++ (be 1 act ++ rest)) Gen.C15.moduleSlice = some m ∧
    Ral.slice (m ++ (be 1 act ++ rest)) Gen.C15.actionSlice = some (be 1 act) := by
  constructor
  · have := slice_mid [] m (be 1 act ++ rest) 0 32 rfl (by simp [hm])
    simpa [Gen.C15.moduleSlice] using this
  · have := slice_mid m (be 1 act) rest 32 33 hm (by simp)
    simpa [Gen.C15.actionSlice] using this

/-! ## UpdateMessageFee (core, action 3) -/

theorem c15_messageFee_layout (fee : Str) (p : Bytes) (h : updateMessageFeePayload fee = .ok p) :
    ∃ b, hexDecode fee = some b ∧ b.length = 32 ∧
      p = coreModule ++ (be 1 Gen.C15.actNewMessageFee ++ b) ∧
      Ral.slice p Gen.C15.moduleSlice = some coreModule ∧
      Ral.slice p Gen.C15.actionSlice = some (be 1 Gen.C15.actNewMessageFee) ∧
      Ral.slice p Gen.C15.feeValue = some b ∧
      p.length = Gen.C15.feeSize := by
  obtain ⟨b, hb, hl, rfl⟩ := fee_ok h
  obtain ⟨h1, h2⟩ := header_slices coreModule b 3 coreModule_length
  refine ⟨b, hb, hl, rfl, h1, h2, ?_, ?_⟩
  · exact slice_3of3 _ _ _ 33 65 (by simp [coreModule_length]) (by simp [hl])
  · simp [Gen.C15.feeSize, coreModule_length, hl]

theorem c15_messageFee_lossless (fee : Str) (p : Bytes) (h : updateMessageFeePayload fee = .ok p) :
    ∃ b, hexDecode fee = some b ∧ b.length = 32 ∧ Ral.parseMessageFee p = some (unbe b) := by
  obtain ⟨b, hb, hl, hp, _, _, h3, h4⟩ := c15_messageFee_layout fee p h
  refine ⟨b, hb, hl, ?_⟩
  have hh : Ral.header Gen.C15.coreModule Gen.C15.actNewMessageFee p = true := by
    rw [hp, ← unbe_coreModule]; exact header_ok _ _ _ coreModule_length
  simp [Ral.parseMessageFee, hh, h3, h4]

/-- 64 hex digits `00…0010` (fee 16). -/
def sampleFee : Str := List.replicate 61 48 ++ [49, 48, 48]
example : ∃ p, updateMessageFeePayload sampleFee = .ok p := ⟨_, rfl⟩

/-! ## TransferFee (core, action 4) -/

theorem c15_transferFee_layout (amount recipient : Str) (p : Bytes) (h : transferFeePayload amount recipient = .ok p) :
    ∃ a r, hexDecode amount = some a ∧ hexDecode recipient = some r ∧ a.length = 32 ∧ r.length = 32 ∧
      p = coreModule ++ (be 1 Gen.C15.actTransferFee ++ (a ++ r)) ∧
      Ral.slice p Gen.C15.moduleSlice = some coreModule ∧
      Ral.slice p Gen.C15.actionSlice = some (be 1 Gen.C15.actTransferFee) ∧
      Ral.slice p Gen.C15.tfAmount = some a ∧
      Ral.slice p Gen.C15.tfRecipient = some r ∧
      p.length = Gen.C15.tfSize := by
  obtain ⟨a, r, ha, hr, hla, hlr, rfl⟩ := transferFee_ok h
  obtain ⟨h1, h2⟩ := header_slices coreModule (a ++ r) 4 coreModule_length
  refine ⟨a, r, ha, hr, hla, hlr, rfl, h1, h2, ?_, ?_, ?_⟩
  · exact slice_3of4 _ _ _ _ 33 65 (by simp [coreModule_length]) (by simp [hla])
  · exact slice_4of4 _ _ _ _ 65 97 (by simp [coreModule_length, hla]) (by simp [hlr])
  · simp [Gen.C15.tfSize, coreModule_length, hla, hlr]

theorem c15_transferFee_lossless (amount recipient : Str) (p : Bytes) (h : transferFeePayload amount recipient = .ok p) :
    ∃ a r, hexDecode amount = some a ∧ hexDecode recipient = some r ∧ a.length = 32 ∧ r.length = 32 ∧
      Ral.parseTransferFee p = some (unbe a, r) := by
  obtain ⟨a, r, ha, hr, hla, hlr, hp, _, _, h3, h4, h5⟩ := c15_transferFee_layout amount recipient p h
  refine ⟨a, r, ha, hr, hla, hlr, ?_⟩
  have hh : Ral.header Gen.C15.coreModule Gen.C15.actTransferFee p = true := by
    rw [hp, ← unbe_coreModule]; exact header_ok _ _ _ coreModule_length
  simp [Ral.parseTransferFee, hh, h3, h4, h5]

example : ∃ p, transferFeePayload sampleFee (List.replicate 64 70) = .ok p := ⟨_, rfl⟩

/-! ## GuardianSetUpgrade (core, action 2) -/

theorem c15_guardianSet_layout (gs : List Guardian) (gsi : Nat) (p : Bytes) (hg : gsi < 2 ^ 32)
    (h : guardianSetPayload gs gsi = .ok p) :
    ∃ keys, keysOf gs = some keys ∧ keys.length = gs.length ∧ (∀ k ∈ keys, k.length = 20) ∧
      0 < keys.length ∧ keys.length ≤ 19 ∧ gsi + 1 < 2 ^ 32 ∧
      p = coreModule ++ (be 1 Gen.C15.actNewGuardianSet ++ (be 4 (gsi + 1) ++ (be 1 keys.length ++ keys.flatten))) ∧
      Ral.slice p Gen.C15.moduleSlice = some coreModule ∧
      Ral.slice p Gen.C15.actionSlice = some (be 1 Gen.C15.actNewGuardianSet) ∧
      Ral.slice p Gen.C15.gsIndex = some (be 4 (gsi + 1)) ∧
      Ral.slice p Gen.C15.gsCount = some (be 1 keys.length) ∧
      Ral.slice p (Gen.C15.gsStoreFrom, p.length) = some (be 1 keys.length ++ keys.flatten) ∧
      p.length = Gen.C15.gsSizeBase + keys.length * Gen.C15.gsSizeStride := by
  obtain ⟨keys, hk, hl, hw, h0, h19, hidx, hp⟩ := guardianSet_ok h
  have hlt : gsi + 1 < 2 ^ 32 := by omega
  rw [Nat.mod_eq_of_lt hlt] at hp
  subst hp
  have hfl := flatten_length_const 20 keys hw
  obtain ⟨h1, h2⟩ := header_slices coreModule (be 4 (gsi + 1) ++ (be 1 keys.length ++ keys.flatten)) 2 coreModule_length
  refine ⟨keys, hk, hl, hw, by omega, by omega, hlt, rfl, h1, h2, ?_, ?_, ?_, ?_⟩
  · exact slice_3of4 _ _ _ _ 33 37 (by simp [coreModule_length]) (by simp)
  · exact slice_4of5 _ _ _ _ _ 37 38 (by simp [coreModule_length]) (by simp)
  · exact slice_4of4 _ _ _ _ 37 _ (by simp [coreModule_length]) (by simp [coreModule_length]; omega)
  · simp only [Gen.C15.gsSizeBase, Gen.C15.gsSizeStride, List.length_append, coreModule_length, be_length, hfl]
    omega

theorem c15_guardianSet_lossless (gs : List Guardian) (gsi : Nat) (p : Bytes) (hg : gsi < 2 ^ 32)
    (h : guardianSetPayload gs gsi = .ok p) :
    ∃ keys, keysOf gs = some keys ∧ keys.length = gs.length ∧ Ral.parseGuardianSet p = some (gsi + 1, keys) := by
  obtain ⟨keys, hk, hl, hw, h0, h19, hlt, hp, _, _, h3, h4, h5, h6⟩ := c15_guardianSet_layout gs gsi p hg h
  refine ⟨keys, hk, hl, ?_⟩
  have hh : Ral.header Gen.C15.coreModule Gen.C15.actNewGuardianSet p = true := by
    rw [hp, ← unbe_coreModule]; exact header_ok _ _ _ coreModule_length
  have hn : unbe (be 1 keys.length) = keys.length := unbe_be_of_lt (by omega)
  have hi : unbe (be 4 (gsi + 1)) = gsi + 1 := unbe_be_of_lt (by omega)
  have hch : Ral.chunks Gen.C15.gsKeyStride Gen.C15.gsKeyWidth keys.length ((be 1 keys.length ++ keys.flatten).drop Gen.C15.gsKeyBase) = keys := by
    have : (be 1 keys.length ++ keys.flatten).drop Gen.C15.gsKeyBase = keys.flatten ++ [] := by
      simp [Gen.C15.gsKeyBase]
    rw [this]
    exact chunks_flatten 20 keys hw []
  have hnz : ¬ (keys.length = 0 ∨ p.length ≠ Gen.C15.gsSizeBase + keys.length * Gen.C15.gsSizeStride) := by omega
  unfold Ral.parseGuardianSet
  simp only [hh, h3, h4, hn, hi, Bool.not_true, Bool.false_eq_true, if_false, if_neg hnz]
  rw [← h6, h5]
  simp only [hch]

def sampleGuardians : List Guardian :=
  [⟨[48, 120] ++ List.replicate 40 49, [97]⟩, ⟨List.replicate 40 65, [98]⟩]
example : ∃ p, guardianSetPayload sampleGuardians 7 = .ok p := ⟨_, rfl⟩
/-- the largest index that can still be upgraded from -/
example : ∃ p, guardianSetPayload sampleGuardians (2 ^ 32 - 2) = .ok p := ⟨_, rfl⟩

/-! ## ContractUpgrade (core, action 1) -/

theorem c15_contractUpgrade_layout (s : Str) (p : Bytes) (h : contractUpgradePayload s = .ok p) :
    ∃ b, hexDecode s = some b ∧
      p = coreModule ++ (be 1 Gen.C15.actContractUpgrade ++ b) ∧
      Ral.slice p Gen.C15.moduleSlice = some coreModule ∧
      Ral.slice p Gen.C15.actionSlice = some (be 1 Gen.C15.actContractUpgrade) ∧
      p.drop Gen.C15.cuStart = b ∧ Gen.C15.cuCodeLen.1 = Gen.C15.cuStart ∧
      p.length = Gen.C15.cuStart + b.length := by
  obtain ⟨b, hb, rfl⟩ := contractUpgrade_ok h
  obtain ⟨h1, h2⟩ := header_slices coreModule b 1 coreModule_length
  refine ⟨b, hb, rfl, h1, h2, ?_, rfl, ?_⟩
  · simp [Gen.C15.cuStart, List.drop_append, coreModule_length]
  · simp [Gen.C15.cuStart, coreModule_length]; omega

theorem c15_contractUpgrade_lossless (s : Str) (p : Bytes) (h : contractUpgradePayload s = .ok p) :
    ∃ b, hexDecode s = some b ∧ Ral.parseUpgrade Gen.C15.coreModule Gen.C15.actContractUpgrade p = some b := by
  obtain ⟨b, hb, hp, _, _, h3, _, h5⟩ := c15_contractUpgrade_layout s p h
  refine ⟨b, hb, ?_⟩
  have hh : Ral.header Gen.C15.coreModule Gen.C15.actContractUpgrade p = true := by
    rw [hp, ← unbe_coreModule]; exact header_ok _ _ _ coreModule_length
  have : ¬ p.length < Gen.C15.cuStart := by omega
  simp [Ral.parseUpgrade, hh, h3, this]

example : ∃ p, contractUpgradePayload [48, 49, 97, 70] = .ok p := ⟨_, rfl⟩

/-! ## TokenBridge RegisterChain (action 1; the module is part of the request) -/

theorem c15_registerChain_layout (m : Str) (c : Nat) (e : Str) (p : Bytes) (h : registerChainPayload m c e = .ok p) :
    ∃ b, hexDecode e = some b ∧ b.length = 32 ∧ m.length ≤ 32 ∧ c < 2 ^ 16 ∧
      p = padModule m ++ (be 1 Gen.C15.actRegisterChain ++ (be 2 c ++ b)) ∧
      Ral.slice p Gen.C15.moduleSlice = some (padModule m) ∧
      Ral.slice p Gen.C15.actionSlice = some (be 1 Gen.C15.actRegisterChain) ∧
      Ral.slice p Gen.C15.rcChain = some (be 2 c) ∧
      Ral.slice p Gen.C15.rcBridge = some b ∧
      p.length = Gen.C15.rcSize := by
  obtain ⟨b, hb, hl, hm, hc, rfl⟩ := registerChain_ok h
  have hpm := padModule_length hm
  obtain ⟨h1, h2⟩ := header_slices (padModule m) (be 2 c ++ b) 1 hpm
  refine ⟨b, hb, hl, hm, by omega, rfl, h1, h2, ?_, ?_, ?_⟩
  · exact slice_3of4 _ _ _ _ 33 35 (by simp [hpm]) (by simp)
  · exact slice_4of4 _ _ _ _ 35 67 (by simp [hpm]) (by simp [hl])
  · simp [Gen.C15.rcSize, hpm, hl]

theorem c15_registerChain_lossless (m : Str) (c : Nat) (e : Str) (p : Bytes) (h : registerChainPayload m c e = .ok p) :
    ∃ b, hexDecode e = some b ∧ b.length = 32 ∧ Ral.parseRegisterChain (unbe m) p = some (c, b) := by
  obtain ⟨b, hb, hl, hm, hc, hp, _, _, h3, h4, h5⟩ := c15_registerChain_layout m c e p h
  refine ⟨b, hb, hl, ?_⟩
  have hh : Ral.header (unbe m) Gen.C15.actRegisterChain p = true := by
    rw [hp, ← unbe_padModule]; exact header_ok _ _ _ (padModule_length hm)
  have hcv : unbe (be 2 c) = c := unbe_be_of_lt (by omega)
  simp [Ral.parseRegisterChain, hh, h3, h4, h5, hcv]

/-- The module name the Alephium token bridge expects is `"TokenBridge"`. -/
def tokenBridgeName : Str := [0x54, 0x6f, 0x6b, 0x65, 0x6e, 0x42, 0x72, 0x69, 0x64, 0x67, 0x65]
theorem c15_tokenBridge_name : unbe tokenBridgeName = Gen.C15.tokenBridgeModule ∧ padModule tokenBridgeName = tokenBridgeModule := by
  decide
example : ∃ p, registerChainPayload tokenBridgeName 65535 (List.replicate 64 102) = .ok p := ⟨_, rfl⟩

/-! ## TokenBridge UpgradeContract (action 2) -/

theorem c15_bridgeUpgrade_layout (m s : Str) (p : Bytes) (h : bridgeUpgradePayload m s = .ok p) :
    ∃ b, hexDecode s = some b ∧ m.length ≤ 32 ∧
      p = padModule m ++ (be 1 Gen.C15.actBridgeContractUpgrade ++ b) ∧
      Ral.slice p Gen.C15.moduleSlice = some (padModule m) ∧
      Ral.slice p Gen.C15.actionSlice = some (be 1 Gen.C15.actBridgeContractUpgrade) ∧
      p.drop Gen.C15.cuStart = b ∧
      p.length = Gen.C15.cuStart + b.length := by
  obtain ⟨b, hb, hm, rfl⟩ := bridgeUpgrade_ok h
  have hpm := padModule_length hm
  obtain ⟨h1, h2⟩ := header_slices (padModule m) b 2 hpm
  refine ⟨b, hb, hm, rfl, h1, h2, ?_, ?_⟩
  · simp [Gen.C15.cuStart, List.drop_append, hpm]
  · simp [Gen.C15.cuStart, hpm]; omega

theorem c15_bridgeUpgrade_lossless (m s : Str) (p : Bytes) (h : bridgeUpgradePayload m s = .ok p) :
    ∃ b, hexDecode s = some b ∧ Ral.parseUpgrade (unbe m) Gen.C15.actBridgeContractUpgrade p = some b := by
  obtain ⟨b, hb, hm, hp, _, _, h3, h4⟩ := c15_bridgeUpgrade_layout m s p h
  refine ⟨b, hb, ?_⟩
  have hh : Ral.header (unbe m) Gen.C15.actBridgeContractUpgrade p = true := by
    rw [hp, ← unbe_padModule]; exact header_ok _ _ _ (padModule_length hm)
  have : ¬ p.length < Gen.C15.cuStart := by omega
  simp [Ral.parseUpgrade, hh, h3, this]

example : ∃ p, bridgeUpgradePayload tokenBridgeName [48, 49] = .ok p := ⟨_, rfl⟩

/-! ## TokenBridge DestroyUnexecutedSequenceContracts (action 0xf0) -/

theorem c15_destroy_layout (c : Nat) (seqs : List Nat) (p : Bytes) (h : destroyPayload c seqs = .ok p) :
    c < 2 ^ 16 ∧ seqs.length < 2 ^ 16 ∧
      p = tokenBridgeModule ++ (be 1 Gen.C15.actDestroy ++ (be 2 c ++ (be 2 seqs.length ++ (seqs.map (be 8)).flatten))) ∧
      Ral.slice p Gen.C15.moduleSlice = some tokenBridgeModule ∧
      Ral.slice p Gen.C15.actionSlice = some (be 1 Gen.C15.actDestroy) ∧
      Ral.slice p Gen.C15.dsChain = some (be 2 c) ∧
      Ral.slice p Gen.C15.dsCount = some (be 2 seqs.length) ∧
      Ral.slice p (Gen.C15.dsPathsFrom, p.length) = some (seqs.map (be 8)).flatten ∧
      p.length = Gen.C15.dsSizeBase + seqs.length * Gen.C15.dsSizeStride := by
  obtain ⟨hc, hl, rfl⟩ := destroy_ok h
  have hfl : ((seqs.map (be 8)).flatten).length = seqs.length * 8 := by
    have := flatten_length_const 8 (seqs.map (be 8)) (by intro k hk; obtain ⟨s, _, rfl⟩ := List.mem_map.1 hk; simp)
    simpa using this
  obtain ⟨h1, h2⟩ := header_slices tokenBridgeModule (be 2 c ++ (be 2 seqs.length ++ (seqs.map (be 8)).flatten)) 0xf0 tokenBridgeModule_length
  refine ⟨by omega, by omega, rfl, h1, h2, ?_, ?_, ?_, ?_⟩
  · exact slice_3of4 _ _ _ _ 33 35 (by simp [tokenBridgeModule_length]) (by simp)
  · exact slice_4of5 _ _ _ _ _ 35 37 (by simp [tokenBridgeModule_length]) (by simp)
  · exact slice_5of5 _ _ _ _ _ 37 _ (by simp [tokenBridgeModule_length]) (by simp only [List.length_append, tokenBridgeModule_length, be_length]; omega)
  · simp only [Gen.C15.dsSizeBase, Gen.C15.dsSizeStride, List.length_append, tokenBridgeModule_length, be_length, hfl]
    omega

theorem c15_destroy_lossless (c : Nat) (seqs : List Nat) (p : Bytes) (hw : ∀ s ∈ seqs, s < 2 ^ 64)
    (h : destroyPayload c seqs = .ok p) : Ral.parseDestroy p = some (c, seqs) := by
  obtain ⟨hc, hl, hp, _, _, h3, h4, h5, h6⟩ := c15_destroy_layout c seqs p h
  have hh : Ral.header Gen.C15.tokenBridgeModule Gen.C15.actDestroy p = true := by
    rw [hp, ← unbe_tokenBridgeModule]; exact header_ok _ _ _ tokenBridgeModule_length
  have hcv : unbe (be 2 c) = c := unbe_be_of_lt (by omega)
  have hn : unbe (be 2 seqs.length) = seqs.length := unbe_be_of_lt (by omega)
  have hch : Ral.chunks Gen.C15.dsPathWidth Gen.C15.dsPathWidth seqs.length (seqs.map (be 8)).flatten = seqs.map (be 8) := by
    have := chunks_flatten 8 (seqs.map (be 8)) (by intro k hk; obtain ⟨s, _, rfl⟩ := List.mem_map.1 hk; simp) []
    simpa [Gen.C15.dsPathWidth] using this
  unfold Ral.parseDestroy
  simp only [hh, h3, h4, hn, hcv]
  rw [← h6, h5]
  simp [hch, map_unbe_be8 seqs hw]

example : ∃ p, destroyPayload 65535 [0, 1, 2 ^ 64 - 1] = .ok p := ⟨_, rfl⟩

/-! ## TokenBridge UpdateMinimalConsistencyLevel (action 0xf1) -/

theorem c15_minConsistency_layout (l : Nat) (p : Bytes) (h : minConsistencyPayload l = .ok p) :
    l < 2 ^ 8 ∧
      p = tokenBridgeModule ++ (be 1 Gen.C15.actMinConsistency ++ be 1 l) ∧
      Ral.slice p Gen.C15.moduleSlice = some tokenBridgeModule ∧
      Ral.slice p Gen.C15.actionSlice = some (be 1 Gen.C15.actMinConsistency) ∧
      Ral.slice p Gen.C15.clValue = some (be 1 l) ∧
      p.length = Gen.C15.clSize := by
  obtain ⟨hl, rfl⟩ := minConsistency_ok h
  obtain ⟨h1, h2⟩ := header_slices tokenBridgeModule (be 1 l) 0xf1 tokenBridgeModule_length
  refine ⟨by omega, rfl, h1, h2, ?_, ?_⟩
  · exact slice_3of3 _ _ _ 33 34 (by simp [tokenBridgeModule_length]) (by simp)
  · simp [Gen.C15.clSize, tokenBridgeModule_length]

theorem c15_minConsistency_lossless (l : Nat) (p : Bytes) (h : minConsistencyPayload l = .ok p) :
    Ral.parseMinConsistency p = some l := by
  obtain ⟨hl, hp, _, _, h3, h4⟩ := c15_minConsistency_layout l p h
  have hh : Ral.header Gen.C15.tokenBridgeModule Gen.C15.actMinConsistency p = true := by
    rw [hp, ← unbe_tokenBridgeModule]; exact header_ok _ _ _ tokenBridgeModule_length
  have hv : unbe (be 1 l) = l := unbe_be_of_lt (by omega)
  simp [Ral.parseMinConsistency, hh, h3, h4, hv]

example : ∃ p, minConsistencyPayload 255 = .ok p := ⟨_, rfl⟩

/-! ## TokenBridge UpdateRefundAddress (action 0xf2) -/

theorem c15_refundAddress_layout (s : Str) (p : Bytes) (h : refundAddressPayload s = .ok p) :
    ∃ b, hexDecode s = some b ∧ b.length < 2 ^ 16 ∧
      p = tokenBridgeModule ++ (be 1 Gen.C15.actRefundAddress ++ (be 2 b.length ++ b)) ∧
      Ral.slice p Gen.C15.moduleSlice = some tokenBridgeModule ∧
      Ral.slice p Gen.C15.actionSlice = some (be 1 Gen.C15.actRefundAddress) ∧
      Ral.slice p Gen.C15.raLen = some (be 2 b.length) ∧
      Ral.slice p (Gen.C15.raAddrFrom, p.length) = some b ∧
      p.length = Gen.C15.raSizeBase + b.length * Gen.C15.raSizeStride := by
  obtain ⟨b, hb, hl, rfl⟩ := refundAddress_ok h
  obtain ⟨h1, h2⟩ := header_slices tokenBridgeModule (be 2 b.length ++ b) 0xf2 tokenBridgeModule_length
  refine ⟨b, hb, by omega, rfl, h1, h2, ?_, ?_, ?_⟩
  · exact slice_3of4 _ _ _ _ 33 35 (by simp [tokenBridgeModule_length]) (by simp)
  · exact slice_4of4 _ _ _ _ 35 _ (by simp [tokenBridgeModule_length]) (by simp only [List.length_append, tokenBridgeModule_length, be_length]; omega)
  · simp only [Gen.C15.raSizeBase, Gen.C15.raSizeStride, List.length_append, tokenBridgeModule_length, be_length]
    omega

theorem c15_refundAddress_lossless (s : Str) (p : Bytes) (h : refundAddressPayload s = .ok p) :
    ∃ b, hexDecode s = some b ∧ Ral.parseRefundAddress p = some b := by
  obtain ⟨b, hb, hl, hp, _, _, h3, h4, h5⟩ := c15_refundAddress_layout s p h
  refine ⟨b, hb, ?_⟩
  have hh : Ral.header Gen.C15.tokenBridgeModule Gen.C15.actRefundAddress p = true := by
    rw [hp, ← unbe_tokenBridgeModule]; exact header_ok _ _ _ tokenBridgeModule_length
  have hn : unbe (be 2 b.length) = b.length := unbe_be_of_lt (by omega)
  unfold Ral.parseRefundAddress
  simp only [hh, h3, hn]
  rw [← h5, h4]
  simp

example : ∃ p, refundAddressPayload (List.replicate 66 48) = .ok p := ⟨_, rfl⟩

/-! ## losslessness as injectivity: within a kind, two accepted requests with the same payload asked for the same values -/

theorem c15_messageFee_injective (f₁ f₂ : Str) (p : Bytes) (h₁ : updateMessageFeePayload f₁ = .ok p)
    (h₂ : updateMessageFeePayload f₂ = .ok p) : hexDecode f₁ = hexDecode f₂ := by
  obtain ⟨b₁, e₁, _, _, _, _, s₁, _⟩ := c15_messageFee_layout f₁ p h₁
  obtain ⟨b₂, e₂, _, _, _, _, s₂, _⟩ := c15_messageFee_layout f₂ p h₂
  rw [e₁, e₂, ← s₁, ← s₂]

theorem c15_transferFee_injective (a₁ r₁ a₂ r₂ : Str) (p : Bytes) (h₁ : transferFeePayload a₁ r₁ = .ok p)
    (h₂ : transferFeePayload a₂ r₂ = .ok p) : hexDecode a₁ = hexDecode a₂ ∧ hexDecode r₁ = hexDecode r₂ := by
  obtain ⟨x₁, y₁, ex₁, ey₁, _, _, _, _, _, sa₁, sr₁, _⟩ := c15_transferFee_layout a₁ r₁ p h₁
  obtain ⟨x₂, y₂, ex₂, ey₂, _, _, _, _, _, sa₂, sr₂, _⟩ := c15_transferFee_layout a₂ r₂ p h₂
  constructor
  · rw [ex₁, ex₂, ← sa₁, ← sa₂]
  · rw [ey₁, ey₂, ← sr₁, ← sr₂]

theorem c15_guardianSet_injective (g₁ g₂ : List Guardian) (i₁ i₂ : Nat) (p : Bytes) (hi₁ : i₁ < 2 ^ 32) (hi₂ : i₂ < 2 ^ 32)
    (h₁ : guardianSetPayload g₁ i₁ = .ok p) (h₂ : guardianSetPayload g₂ i₂ = .ok p) :
    keysOf g₁ = keysOf g₂ ∧ i₁ = i₂ := by
  obtain ⟨k₁, e₁, _, q₁⟩ := c15_guardianSet_lossless g₁ i₁ p hi₁ h₁
  obtain ⟨k₂, e₂, _, q₂⟩ := c15_guardianSet_lossless g₂ i₂ p hi₂ h₂
  rw [q₁] at q₂
  simp only [Option.some.injEq, Prod.mk.injEq] at q₂
  obtain ⟨hi, hk⟩ := q₂
  exact ⟨by rw [e₁, e₂, hk], by omega⟩

theorem c15_contractUpgrade_injective (s₁ s₂ : Str) (p : Bytes) (h₁ : contractUpgradePayload s₁ = .ok p)
    (h₂ : contractUpgradePayload s₂ = .ok p) : hexDecode s₁ = hexDecode s₂ := by
  obtain ⟨b₁, e₁, _, _, _, d₁, _⟩ := c15_contractUpgrade_layout s₁ p h₁
  obtain ⟨b₂, e₂, _, _, _, d₂, _⟩ := c15_contractUpgrade_layout s₂ p h₂
  rw [e₁, e₂, ← d₁, ← d₂]

/-- (the module is compared as the number the contract reads: leading NUL bytes of the name do not matter) -/
theorem c15_registerChain_injective (m₁ m₂ : Str) (c₁ c₂ : Nat) (e₁ e₂ : Str) (p : Bytes)
    (h₁ : registerChainPayload m₁ c₁ e₁ = .ok p) (h₂ : registerChainPayload m₂ c₂ e₂ = .ok p) :
    unbe m₁ = unbe m₂ ∧ c₁ = c₂ ∧ hexDecode e₁ = hexDecode e₂ := by
  obtain ⟨b₁, x₁, _, _, hc₁, _, sm₁, _, sc₁, sb₁, _⟩ := c15_registerChain_layout m₁ c₁ e₁ p h₁
  obtain ⟨b₂, x₂, _, _, hc₂, _, sm₂, _, sc₂, sb₂, _⟩ := c15_registerChain_layout m₂ c₂ e₂ p h₂
  refine ⟨?_, ?_, ?_⟩
  · rw [sm₁] at sm₂
    rw [← unbe_padModule m₁, ← unbe_padModule m₂, Option.some.inj sm₂]
  · rw [sc₁] at sc₂
    exact be_inj_of_lt (by omega) (by omega) (Option.some.inj sc₂)
  · rw [x₁, x₂, ← sb₁, ← sb₂]

theorem c15_bridgeUpgrade_injective (m₁ m₂ s₁ s₂ : Str) (p : Bytes) (h₁ : bridgeUpgradePayload m₁ s₁ = .ok p)
    (h₂ : bridgeUpgradePayload m₂ s₂ = .ok p) : unbe m₁ = unbe m₂ ∧ hexDecode s₁ = hexDecode s₂ := by
  obtain ⟨b₁, e₁, _, _, sm₁, _, d₁, _⟩ := c15_bridgeUpgrade_layout m₁ s₁ p h₁
  obtain ⟨b₂, e₂, _, _, sm₂, _, d₂, _⟩ := c15_bridgeUpgrade_layout m₂ s₂ p h₂
  constructor
  · rw [sm₁] at sm₂
    rw [← unbe_padModule m₁, ← unbe_padModule m₂, Option.some.inj sm₂]
  · rw [e₁, e₂, ← d₁, ← d₂]

theorem c15_destroy_injective (c₁ c₂ : Nat) (s₁ s₂ : List Nat) (p : Bytes) (w₁ : ∀ s ∈ s₁, s < 2 ^ 64) (w₂ : ∀ s ∈ s₂, s < 2 ^ 64)
    (h₁ : destroyPayload c₁ s₁ = .ok p) (h₂ : destroyPayload c₂ s₂ = .ok p) : c₁ = c₂ ∧ s₁ = s₂ := by
  have q₁ := c15_destroy_lossless c₁ s₁ p w₁ h₁
  have q₂ := c15_destroy_lossless c₂ s₂ p w₂ h₂
  rw [q₁] at q₂
  simpa using q₂

theorem c15_minConsistency_injective (l₁ l₂ : Nat) (p : Bytes) (h₁ : minConsistencyPayload l₁ = .ok p)
    (h₂ : minConsistencyPayload l₂ = .ok p) : l₁ = l₂ := by
  have q₁ := c15_minConsistency_lossless l₁ p h₁
  have q₂ := c15_minConsistency_lossless l₂ p h₂
  rw [q₁] at q₂
  simpa using q₂

theorem c15_refundAddress_injective (s₁ s₂ : Str) (p : Bytes) (h₁ : refundAddressPayload s₁ = .ok p)
    (h₂ : refundAddressPayload s₂ = .ok p) : hexDecode s₁ = hexDecode s₂ := by
  obtain ⟨b₁, e₁, q₁⟩ := c15_refundAddress_lossless s₁ p h₁
  obtain ⟨b₂, e₂, q₂⟩ := c15_refundAddress_lossless s₂ p h₂
  rw [q₁] at q₂
  rw [e₁, e₂, Option.some.inj q₂]

/-- The injectivity is not vacuous — and is exactly what the unrepaired code lacked: there, levels 44 and 300 were both
accepted and gave the same payload. Here 300 is rejected. -/
example : (∃ p, minConsistencyPayload 44 = .ok p) ∧ ∃ e, minConsistencyPayload 300 = .err e := ⟨⟨_, rfl⟩, ⟨_, rfl⟩⟩

/-! ## all kinds at once: the executable Spec holds of everything the model accepts -/

/-- Whatever request the (repaired) conversion accepts, the contract-side parser of that kind accepts the payload and
recovers every requested value — `specOk` is the very predicate the driver evaluates on the implementation's payloads. -/
theorem c15_spec_sound (gsi : Nat) (pl : Payload) (p : Bytes) (hg : gsi < 2 ^ 32) (hw : pl.WF)
    (h : convert gsi pl = .ok p) : specOk gsi pl p = true := by
  cases pl with
  | none => simp [convert] at h
  | updateMessageFee fee =>
    obtain ⟨b, hb, hl, hp⟩ := c15_messageFee_lossless fee p h
    simp [specOk, hb, hl, hp]
  | transferFee a r =>
    obtain ⟨x, y, hx, hy, hlx, hly, hp⟩ := c15_transferFee_lossless a r p h
    simp [specOk, hx, hy, hlx, hly, hp]
  | guardianSet gs =>
    obtain ⟨keys, hk, _, hp⟩ := c15_guardianSet_lossless gs gsi p hg h
    simp [specOk, hk, hp]
  | contractUpgrade s =>
    obtain ⟨b, hb, hp⟩ := c15_contractUpgrade_lossless s p h
    simp [specOk, hb, hp]
  | registerChain m c e =>
    obtain ⟨b, hb, hl, hp⟩ := c15_registerChain_lossless m c e p h
    simp [specOk, hb, hl, hp]
  | bridgeUpgrade m s =>
    obtain ⟨b, hb, hp⟩ := c15_bridgeUpgrade_lossless m s p h
    simp [specOk, hb, hp]
  | destroy c seqs =>
    have hp := c15_destroy_lossless c seqs p hw h
    simp [specOk, hp]
  | minConsistency l =>
    have hp := c15_minConsistency_lossless l p h
    simp [specOk, hp]
  | refundAddress s =>
    obtain ⟨b, hb, hp⟩ := c15_refundAddress_lossless s p h
    simp [specOk, hb, hp]

/-- The Spec is not vacuous: it rejects the payloads the unrepaired code produced for out-of-range requests
(consistency level 300 encoded as 44; emitter chain 65538 encoded as 2). -/
theorem c15_spec_rejects_wrapped :
    specOk 0 (.minConsistency 300) (tokenBridgeModule ++ (be 1 0xf1 ++ be 1 300)) = false ∧
    specOk 0 (.destroy 65538 [5]) (tokenBridgeModule ++ (be 1 0xf0 ++ (be 2 65538 ++ (be 2 1 ++ be 8 5)))) = false := by
  decide

/-! ## the failing-input search: the Spec with the parser facts as data

The driver is handed the facts `checks/c15.py` extracted from the CURRENT contract sources and evaluates `specOkF F` on every
payload the real node emitted; when the node emitted exactly the payload `convert` (proved correct above) emits and
`specOkF F` is false, it reports the request as `contract-rejects-node-payload` / `contract-reads-other-value`. -/

/-- Every `u256From<N>Byte!` conversion of the parsers is applied to a slice of exactly `N` bytes (otherwise the VM aborts). -/
theorem c15_conversions_fit :
    Gen.C15.moduleConv = Gen.C15.moduleSlice.2 - Gen.C15.moduleSlice.1 ∧ Gen.C15.moduleConv = 32 ∧
    Gen.C15.gsIndexConv = Gen.C15.gsIndex.2 - Gen.C15.gsIndex.1 ∧ Gen.C15.gsCountConv = Gen.C15.gsCount.2 - Gen.C15.gsCount.1 ∧
    Gen.C15.feeConv = Gen.C15.feeValue.2 - Gen.C15.feeValue.1 ∧ Gen.C15.tfAmountConv = Gen.C15.tfAmount.2 - Gen.C15.tfAmount.1 ∧
    Gen.C15.cuCodeLenConv = Gen.C15.cuCodeLen.2 - Gen.C15.cuCodeLen.1 ∧ Gen.C15.rcChainConv = Gen.C15.rcChain.2 - Gen.C15.rcChain.1 ∧
    Gen.C15.dsCountConv = Gen.C15.dsCount.2 - Gen.C15.dsCount.1 ∧ Gen.C15.clConv = Gen.C15.clValue.2 - Gen.C15.clValue.1 ∧
    Gen.C15.raLenConv = Gen.C15.raLen.2 - Gen.C15.raLen.1 := by
  decide

/-- The parser facts extracted from the contract sources are exactly the layout the node's serializers implement. -/
theorem c15_gen_is_node_layout : Facts.gen = Facts.node := by decide

/-- With the compiled-in facts, the Spec-with-facts-as-data IS the Spec the theorems above are about. -/
theorem c15_specF_gen (gsi : Nat) (pl : Payload) (p : Bytes) : specOkF Facts.gen gsi pl p = specOk gsi pl p := by
  cases pl <;>
    simp only [specOkF, specOk, parseMessageFee_gen, parseTransferFee_gen, parseGuardianSet_gen, parseUpgrade_gen,
      parseRegisterChain_gen, parseDestroy_gen, parseMinConsistency_gen, parseRefundAddress_gen] <;> rfl

/-- The search cannot fire on the unchanged tree: with the facts the library was built against, every payload the
(repaired) conversion emits passes the Spec-with-facts-as-data. -/
theorem c15_search_sound (gsi : Nat) (pl : Payload) (p : Bytes) (hg : gsi < 2 ^ 32) (hw : pl.WF)
    (h : convert gsi pl = .ok p) : specOkF Facts.gen gsi pl p = true := by
  rw [c15_specF_gen]; exact c15_spec_sound gsi pl p hg hw h

example : ∃ p, convert 7 (.destroy 65535 [0, 1, 2 ^ 64 - 1]) = .ok p ∧ (Payload.destroy 65535 [0, 1, 2 ^ 64 - 1]).WF ∧
    specOkF Facts.gen 7 (.destroy 65535 [0, 1, 2 ^ 64 - 1]) p = true :=
  ⟨_, rfl, by simp [Payload.WF], by decide⟩

/-- The contract of the seeded change C15-r3m3: `submitTransferFees` reads a 33-byte recipient at [65,98), asserts 98 bytes. -/
def factsRecipient33 : Facts := { Facts.gen with tfRecipient := (65, 98), tfSize := 98 }
/-- The contract of the seeded change C15-m3: the sequence count is `u256From1Byte!(payload[36,37))`. -/
def factsCountLowByte : Facts := { Facts.gen with dsCount := (36, 37), dsCountConv := 1 }

set_option maxRecDepth 100000 in
/-- The search is not vacuous: against deviating facts it fires on the payload the model itself emits — the parser rejects
every TransferFee payload when it wants 98 bytes; reading only the low byte of the count it still accepts 255 sequences
but rejects 256. -/
theorem c15_search_fires :
    (∃ p, transferFeePayload sampleFee (List.replicate 64 70) = .ok p ∧
      specOkF factsRecipient33 0 (.transferFee sampleFee (List.replicate 64 70)) p = false ∧
      acceptsF factsRecipient33 (.transferFee sampleFee (List.replicate 64 70)) p = false) ∧
    (∃ p, destroyPayload 2 (List.replicate 255 7) = .ok p ∧ specOkF factsCountLowByte 0 (.destroy 2 (List.replicate 255 7)) p = true) ∧
    (∃ p, destroyPayload 2 (List.replicate 256 7) = .ok p ∧ specOkF factsCountLowByte 0 (.destroy 2 (List.replicate 256 7)) p = false) := by
  refine ⟨⟨_, rfl, by decide, by decide⟩, ⟨_, rfl, by decide⟩, ⟨_, rfl, by decide⟩⟩

/-! ## the handler: no panic, purity, accept-or-reject, envelope -/

/-- No conversion panics, whatever the request (any module length, any field value, unset `oneof`). -/
theorem c15_convert_no_panic (gsi : Nat) (pl : Payload) : convert gsi pl ≠ .panic := convert_ne_panic gsi pl

private theorem injectOne_ne_panic (cfg : Cfg) (req : Req) (m : Msg) : injectOne cfg req m ≠ .error .panic := by
  unfold injectOne
  split
  · simp
  · split
    · simp
    · simp
    · rename_i h; exact (convert_ne_panic _ _ h).elim

private theorem injectLoop_ne_panic (cfg : Cfg) (req : Req) (ms : List Msg) : ∀ chan, (injectLoop cfg req ms chan).2 ≠ .panic := by
  induction ms with
  | nil => intro chan; simp [injectLoop]
  | cons m ms ih =>
    intro chan
    unfold injectLoop
    split
    · exact ih _
    · rename_i r hr
      intro h
      simp only at h
      subst h
      exact injectOne_ne_panic cfg req m hr

/-- `InjectGovernanceVAA` never panics: for every configuration, request (of any size and field values) and history. -/
theorem c15_no_panic (chan : List Vaa) (cfg : Cfg) (req : Req) : (injectFrom chan cfg req).2 ≠ .panic :=
  injectLoop_ne_panic cfg req req.msgs chan

private theorem injectLoop_chan (cfg : Cfg) (req : Req) (ms : List Msg) : ∀ chan,
    injectLoop cfg req ms chan = (chan ++ (injectLoop cfg req ms []).1, (injectLoop cfg req ms []).2) := by
  induction ms with
  | nil => intro chan; simp [injectLoop]
  | cons m ms ih =>
    intro chan
    unfold injectLoop
    split
    · rename_i v hv
      rw [ih (chan ++ [v]), ih ([] ++ [v])]
      simp
    · simp

/-- Purity: what a request injects and returns does not depend on what the service did before — it is a function of the
configuration and the request only. -/
theorem c15_pure (chan : List Vaa) (cfg : Cfg) (req : Req) :
    injectFrom chan cfg req = (chan ++ (inject cfg req).1, (inject cfg req).2) :=
  injectLoop_chan cfg req req.msgs chan

/-- `SigningMsg` for an arbitrary hash `H` (Keccak-256 in the code, never modelled; see C04). -/
def signingMsg (H : Bytes → Bytes) (v : Vaa) : Bytes := H (H (serializeBody v.body))

/-- Two operators with the same configuration injecting the same request — whatever their nodes did before — push the
same VAAs, get the same answer and therefore sign the same digests. -/
theorem c15_same_digest (H : Bytes → Bytes) (chan₁ chan₂ : List Vaa) (cfg : Cfg) (req : Req) :
    ((injectFrom chan₁ cfg req).1.drop chan₁.length).map (signingMsg H) =
      ((injectFrom chan₂ cfg req).1.drop chan₂.length).map (signingMsg H) ∧
    (injectFrom chan₁ cfg req).2 = (injectFrom chan₂ cfg req).2 := by
  rw [c15_pure chan₁, c15_pure chan₂]
  simp

/-- What holds of every message/VAA pair the handler produces. -/
def Good (cfg : Cfg) (req : Req) (m : Msg) (v : Vaa) : Prop :=
  m.targetChain < 2 ^ 16 ∧
  (∃ p, convert req.currentSetIndex m.payload = .ok p ∧
        v = createGovernanceVaa cfg req.timestamp m.nonce m.sequence m.targetChain req.currentSetIndex p) ∧
  envOk cfg req m v = true ∧
  specOk req.currentSetIndex m.payload v.body.payload = true ∧
  v.body.WF

/-- `AllGood cfg req msgs sent`: the VAAs pair off with the first messages, and each pair is `Good`. -/
def AllGood (cfg : Cfg) (req : Req) : List Msg → List Vaa → Prop
  | _, [] => True
  | [], _ :: _ => False
  | m :: ms, v :: vs => Good cfg req m v ∧ AllGood cfg req ms vs

private theorem injectOne_good (cfg : Cfg) (req : Req) (m : Msg) (v : Vaa) (hc : cfg.WF)
    (hi : req.currentSetIndex < 2 ^ 32) (ht : req.timestamp < 2 ^ 32) (hm : m.WF)
    (h : injectOne cfg req m = .ok v) : Good cfg req m v := by
  unfold injectOne at h
  split at h
  · cases h
  · rename_i htc
    split at h
    · rename_i p hp
      have htc' : m.targetChain < 2 ^ 16 := by omega
      rw [Nat.mod_eq_of_lt htc'] at h
      cases h
      obtain ⟨hs, hn, _, hpw⟩ := hm
      refine ⟨htc', ⟨p, hp, rfl⟩, ?_, c15_spec_sound _ _ _ hi hpw hp, ?_⟩
      · simp [envOk, createGovernanceVaa]
      · obtain ⟨hcc, hce⟩ := hc
        simp only [createGovernanceVaa, Body.WF]
        refine ⟨by omega, by omega, by omega, by omega, hce, by omega, by omega⟩
    · cases h
    · cases h

private theorem injectLoop_good (cfg : Cfg) (req : Req) (hc : cfg.WF) (hi : req.currentSetIndex < 2 ^ 32)
    (ht : req.timestamp < 2 ^ 32) (ms : List Msg) (hm : ∀ m ∈ ms, m.WF) :
    AllGood cfg req ms (injectLoop cfg req ms []).1 ∧
    ((injectLoop cfg req ms []).2 = .ok → (injectLoop cfg req ms []).1.length = ms.length) ∧
    (∀ c e, (injectLoop cfg req ms []).2 = .err c e → (injectLoop cfg req ms []).1.length < ms.length) := by
  induction ms with
  | nil => simp [injectLoop, AllGood]
  | cons m ms ih =>
    have ih' := ih (fun x hx => hm x (by simp [hx]))
    unfold injectLoop
    split
    · rename_i v hv
      have hg := injectOne_good cfg req m v hc hi ht (hm m (by simp)) hv
      rw [injectLoop_chan cfg req ms ([] ++ [v])]
      obtain ⟨f, hok, herr⟩ := ih'
      refine ⟨?_, ?_, ?_⟩
      · simp only [List.nil_append, List.singleton_append]
        exact ⟨hg, f⟩
      · intro h; simp at h ⊢; exact hok h
      · intro c e h; simp at h ⊢; exact herr c e h
    · rename_i r hr
      refine ⟨by simp [AllGood], ?_, ?_⟩
      · intro h; simp at h; subst h
        unfold injectOne at hr
        split at hr
        · cases hr
        · split at hr <;> cases hr
      · intro c e _; simp

/-- Accept-or-reject, message by message: on an in-range request and configuration, every VAA the handler pushes (also
the ones pushed before a later message was rejected) pairs with its message, comes from the configured emitter, carries
the requested target chain / sequence / nonce / set index un-wrapped, has an in-range body (so C04/C05 apply to it),
and a payload the contract parser decodes back to the request; an accepted request produced one VAA per message and a
rejected one strictly fewer. -/
theorem c15_injected_good (cfg : Cfg) (req : Req) (hc : cfg.WF) (hr : req.WF) :
    AllGood cfg req req.msgs (inject cfg req).1 ∧
    ((inject cfg req).2 = .ok → (inject cfg req).1.length = req.msgs.length) ∧
    (∀ c e, (inject cfg req).2 = .err c e → (inject cfg req).1.length < req.msgs.length) :=
  injectLoop_good cfg req hc hr.1 hr.2.1 req.msgs hr.2.2

private theorem injectLoop_ok_exact (cfg : Cfg) (req : Req) :
    ∀ (ms : List Msg) (chan out : List Vaa), injectLoop cfg req ms chan = (out, .ok) →
      ∃ vs, out = chan ++ vs ∧ ms.map (injectOne cfg req) = vs.map .ok := by
  intro ms
  induction ms with
  | nil =>
    intro chan out h
    simp [injectLoop] at h
    exact ⟨[], by simp [h], rfl⟩
  | cons m ms ih =>
    intro chan out h
    unfold injectLoop at h
    cases hm : injectOne cfg req m with
    | ok v =>
      rw [hm] at h
      obtain ⟨vs, ho, hf⟩ := ih _ _ h
      exact ⟨v :: vs, by simp [ho], by simp [hm, hf]⟩
    | error r =>
      rw [hm] at h
      simp only [Prod.mk.injEq] at h
      obtain ⟨_, hr⟩ := h
      subst hr
      -- a rejected message ends the request with that very result, which is never `ok`
      unfold injectOne at hm
      split at hm
      · cases hm
      · split at hm <;> cases hm

/-- **What an accepted request hands to the processor.** If `InjectGovernanceVAA` returns success, the VAAs it pushed on the
injection channel are - in message order, one per message, none twice, none missing - exactly the VAAs of its messages (the ones
whose digests it returns). -/
theorem c15_accepted_handover_exact (cfg : Cfg) (req : Req) (h : (inject cfg req).2 = .ok) :
    req.msgs.map (injectOne cfg req) = (inject cfg req).1.map .ok := by
  have hp : injectLoop cfg req req.msgs [] = ((inject cfg req).1, .ok) := by
    rw [← h]; rfl
  obtain ⟨vs, ho, hf⟩ := injectLoop_ok_exact cfg req req.msgs [] _ hp
  rw [ho]
  simpa using hf

/-- Every request is either rejected with a status or accepted; nothing else can happen. -/
theorem c15_accept_or_reject (cfg : Cfg) (req : Req) :
    (inject cfg req).2 = .ok ∨ ∃ c e, (inject cfg req).2 = .err c e := by
  have := c15_no_panic [] cfg req
  unfold inject
  cases h : (injectFrom [] cfg req).2 with
  | ok => exact Or.inl rfl
  | err c e => exact Or.inr ⟨c, e, rfl⟩
  | panic => exact (this h).elim

/-- A message whose target chain does not fit the 16-bit wire field is rejected, never wrapped. -/
theorem c15_target_chain_checked (cfg : Cfg) (req : Req) (m : Msg) (h : m.targetChain > 65535) :
    ∃ e, injectOne cfg req m = .error (.err grpcUnknown e) := by
  unfold injectOne; rw [if_pos h]; exact ⟨_, rfl⟩

/-! ## the guardian count on the wire is ONE byte — whatever limit the admin server applies

`adminGuardianSetUpgradeToVAA` bounds the number of guardians by `common.MaxGuardianCount` (19 on the pinned tree, the model's
`maxGuardianCount`; extracted as `Gen.C15.maxGuardianCount`).  The two theorems below are about the serializer and the contract's
parser alone, for EVERY number of keys: up to 255 keys come back exactly, 256 or more are never read back.  So the limit must stay
below 256 (`c15_admin_bound_fits_count_byte`), and the Spec the driver evaluates (`specOkF` on the emitted payload) does not depend
on which limit the code uses. -/

/-- 1…255 keys: the contract's parser reads back exactly the new index and the keys that were serialized. -/
theorem c15_guardian_set_wire_roundtrip (keys : List Bytes) (idx : Nat) (hw : ∀ k ∈ keys, k.length = 20)
    (h0 : 0 < keys.length) (h255 : keys.length ≤ 255) (hi : idx < 2 ^ 32) :
    Ral.parseGuardianSet (serGuardianSetUpgrade keys idx) = some (idx, keys) := by
  have hfl := flatten_length_const 20 keys hw
  have hh : Ral.header Gen.C15.coreModule Gen.C15.actNewGuardianSet (serGuardianSetUpgrade keys idx) = true := by
    unfold serGuardianSetUpgrade; rw [← unbe_coreModule]; exact header_ok _ _ _ coreModule_length
  have h3 : Ral.slice (serGuardianSetUpgrade keys idx) Gen.C15.gsIndex = some (be 4 idx) :=
    slice_3of4 _ _ _ _ 33 37 (by simp [coreModule_length]) (by simp)
  have h4 : Ral.slice (serGuardianSetUpgrade keys idx) Gen.C15.gsCount = some (be 1 keys.length) :=
    slice_4of5 _ _ _ _ _ 37 38 (by simp [coreModule_length]) (by simp)
  have h6 : (serGuardianSetUpgrade keys idx).length = Gen.C15.gsSizeBase + keys.length * Gen.C15.gsSizeStride := by
    simp only [serGuardianSetUpgrade, Gen.C15.gsSizeBase, Gen.C15.gsSizeStride, List.length_append, coreModule_length, be_length, hfl]
    omega
  have h5 : Ral.slice (serGuardianSetUpgrade keys idx) (Gen.C15.gsStoreFrom, (serGuardianSetUpgrade keys idx).length) =
      some (be 1 keys.length ++ keys.flatten) := by
    have hl : (serGuardianSetUpgrade keys idx).length = 37 + (be 1 keys.length ++ keys.flatten).length := by
      simp only [serGuardianSetUpgrade, List.length_append, coreModule_length, be_length]; omega
    rw [hl]
    exact slice_4of4 _ _ _ _ 37 _ (by simp [coreModule_length]) rfl
  have hn : unbe (be 1 keys.length) = keys.length := unbe_be_of_lt (by omega)
  have hix : unbe (be 4 idx) = idx := unbe_be_of_lt (by omega)
  have hch : Ral.chunks Gen.C15.gsKeyStride Gen.C15.gsKeyWidth keys.length ((be 1 keys.length ++ keys.flatten).drop Gen.C15.gsKeyBase) = keys := by
    have : (be 1 keys.length ++ keys.flatten).drop Gen.C15.gsKeyBase = keys.flatten ++ [] := by
      simp [Gen.C15.gsKeyBase]
    rw [this]
    exact chunks_flatten 20 keys hw []
  have hnz : ¬ (keys.length = 0 ∨ (serGuardianSetUpgrade keys idx).length ≠ Gen.C15.gsSizeBase + keys.length * Gen.C15.gsSizeStride) := by omega
  unfold Ral.parseGuardianSet
  simp only [hh, h3, h4, hn, hix, Bool.not_true, Bool.false_eq_true, if_false, if_neg hnz]
  rw [← h6, h5]
  simp only [hch]

/-- 256 or more keys: the one-byte count wraps (`uint8(len(b.Keys))`), the contract's size equation no longer holds (or the count
reads 0) and `submitNewGuardianSet` aborts: such a payload is never what the operator asked for. -/
theorem c15_guardian_count_over_one_byte (keys : List Bytes) (idx : Nat) (hw : ∀ k ∈ keys, k.length = 20) (h : 256 ≤ keys.length) :
    Ral.parseGuardianSet (serGuardianSetUpgrade keys idx) = none := by
  have hfl := flatten_length_const 20 keys hw
  have h3 : Ral.slice (serGuardianSetUpgrade keys idx) Gen.C15.gsIndex = some (be 4 idx) :=
    slice_3of4 _ _ _ _ 33 37 (by simp [coreModule_length]) (by simp)
  have h4 : Ral.slice (serGuardianSetUpgrade keys idx) Gen.C15.gsCount = some (be 1 keys.length) :=
    slice_4of5 _ _ _ _ _ 37 38 (by simp [coreModule_length]) (by simp)
  have h6 : (serGuardianSetUpgrade keys idx).length = 38 + keys.length * 20 := by
    simp only [serGuardianSetUpgrade, List.length_append, coreModule_length, be_length, hfl]
    omega
  have hn : unbe (be 1 keys.length) = keys.length % 256 := by rw [unbe_be]
  have hlt : keys.length % 256 < 256 := Nat.mod_lt _ (by omega)
  have hbad : (keys.length % 256 = 0 ∨ (serGuardianSetUpgrade keys idx).length ≠ Gen.C15.gsSizeBase + keys.length % 256 * Gen.C15.gsSizeStride) := by
    right; rw [h6]; simp only [Gen.C15.gsSizeBase, Gen.C15.gsSizeStride]; omega
  unfold Ral.parseGuardianSet
  split
  · rfl
  · simp only [h3, h4, hn, if_pos hbad]

/-- The limit the admin server applies on the current tree (extracted from `node/pkg/common/guardianset.go`) is the one the model
uses and leaves the one-byte count intact. -/
theorem c15_admin_bound_fits_count_byte :
    maxGuardianCount = Gen.C15.maxGuardianCount ∧ Gen.C15.maxGuardianCount < 256 ^ Gen.C15.gsCountConv := by decide

example : Ral.parseGuardianSet (serGuardianSetUpgrade (List.replicate 255 (List.replicate 20 7)) 4) = some (4, List.replicate 255 (List.replicate 20 7)) :=
  c15_guardian_set_wire_roundtrip _ 4 (by intro k hk; rw [List.eq_of_mem_replicate hk]; exact List.length_replicate ..)
    (by rw [List.length_replicate]; omega) (by rw [List.length_replicate]; omega) (by omega)
example : Ral.parseGuardianSet (serGuardianSetUpgrade (List.replicate 256 (List.replicate 20 7)) 4) = none :=
  c15_guardian_count_over_one_byte _ 4 (by intro k hk; rw [List.eq_of_mem_replicate hk]; exact List.length_replicate ..)
    (by rw [List.length_replicate]; omega)

/-- Non-vacuity: a two-message request (fee update to chain 255, consistency level 255 to chain 65535) is accepted on a
concrete configuration and yields two VAAs. -/
def sampleCfg : Cfg := ⟨1, List.replicate 31 0 ++ [4]⟩
def sampleReq : Req :=
  { currentSetIndex := 3, timestamp := 1700000000,
    msgs := [⟨2 ^ 64 - 1, 7, 255, .updateMessageFee sampleFee⟩, ⟨5, 2 ^ 32 - 1, 65535, .minConsistency 255⟩] }
example : sampleCfg.WF ∧ (inject sampleCfg sampleReq).2 = .ok ∧ (inject sampleCfg sampleReq).1.length = 2 := by
  refine ⟨by decide, by decide, by decide⟩
example : sampleReq.msgs.map (injectOne sampleCfg sampleReq) = (inject sampleCfg sampleReq).1.map .ok :=
  c15_accepted_handover_exact sampleCfg sampleReq (by decide)

end Whv.C15
