import Whv.Model.Gov
namespace Whv.C15
end Whv.C15
